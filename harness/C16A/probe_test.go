package arbitrator

import (
	"context"
	"fmt"
	"testing"

	corev1 "k8s.io/api/core/v1"
	"k8s.io/apimachinery/pkg/types"

	"github.com/koordinator-sh/koordinator/apis/scheduling/v1alpha1"
	"github.com/koordinator-sh/koordinator/pkg/zzverif/mc"
)

func c16aDump(s *c16Sys, title string) {
	o := s.observe()
	fmt.Println("==", title)
	for _, uid := range mc.SortedKeys(o.jobs) {
		j := o.jobs[uid]
		fmt.Printf("   %s pod=%s phase=%q passed=%v waiting=%v counted=%v\n", j.name, j.pod, j.rawPhase, j.passed, j.waiting, j.counted())
	}
}

func TestVerifC16AProbe(t *testing.T) {
	mc.LoadEnv()
	one := int32(1)
	// 1. pod deleted while its job waits, global cap 1
	cfg := &c16Cfg{name: "probe", elig: []string{"a1", "b1"}, global: &one, perWl: c16IS("70%"), maxUnav: c16IS("70%")}
	res := mc.NewResult("C16", "probe", "bfs")
	s := c16NewSys(cfg, c16BuildOps(cfg), res)
	s.createJob("a1", v1alpha1.PodMigrationJobPending, false)
	s.arb.doOnceArbitrate()
	s.createJob("b1", v1alpha1.PodMigrationJobPending, false)
	p := &corev1.Pod{}
	_ = s.cl.Get(context.TODO(), types.NamespacedName{Namespace: "y", Name: "b1"}, p)
	if err := s.cl.Delete(context.TODO(), p); err != nil {
		t.Fatal(err)
	}
	s.arb.doOnceArbitrate()
	c16aDump(s, "pod b1 deleted while its job waits; global cap 1")

	// 2. duplicate jobs for the same pod, node cap 1
	cfg2 := &c16Cfg{name: "probe2", elig: []string{"a1"}, perNode: &one, perWl: c16IS("70%"), maxUnav: c16IS("70%")}
	s = c16NewSys(cfg2, c16BuildOps(cfg2), res)
	s.createJob("a1", v1alpha1.PodMigrationJobPending, false)
	s.createJob("a1", v1alpha1.PodMigrationJobPending, false)
	s.arb.doOnceArbitrate()
	c16aDump(s, "two jobs for pod a1; node cap 1")

	// 3. restart: a passed-but-not-started job is delivered by the initial sync to a fresh arbitrator; a newer job arrives
	s = c16NewSys(cfg2, c16BuildOps(cfg2), res)
	s.createJob("a1", v1alpha1.PodMigrationJobPending, true) // annotated as passed by the previous incarnation
	s.createJob("a3", v1alpha1.PodMigrationJobPending, false)
	c16aDump(s, "before round: a1 passed (annotation) in previous incarnation, a3 new; node cap 1 (both on n1)")
	s.arb.doOnceArbitrate()
	c16aDump(s, "after round")
}
