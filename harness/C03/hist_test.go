package elasticquota

// C03 "Quota admission never lets usage pass the quota's limit".
//
// Explicit-state BFS (mc.BFS, replay based) over closed-loop histories on the real elasticquota.Plugin:
//   create(p) = informer OnPodAdd of a pending pod, attempt(p) = PreFilter and - on Success - Reserve,
//   unreserve(p), delete(p) = informer OnPodDelete, raise/lower max, change min, add/remove a node,
//   controller runtime sync of a leaf quota (RefreshRuntime),
// for each of the four configurations EnableRuntimeQuota x EnableCheckParentQuota, on two small quota
// universes ("tree": root->{P->{A,B},C}; "chain": root->G->{P->A, D}, so that a pod has two ancestors).
//
// The oracle is an independent ledger written from the property statement (plain int64 sums over the pods
// the harness itself reserved); it never asks the code what is used. See expectation() / Invariants().

import (
	"context"
	"fmt"
	"os"
	"reflect"
	"regexp"
	"runtime/debug"
	"sort"
	"strings"
	"sync"
	"testing"
	"time"

	corev1 "k8s.io/api/core/v1"
	"k8s.io/apimachinery/pkg/api/resource"
	metav1 "k8s.io/apimachinery/pkg/apis/meta/v1"
	k8stypes "k8s.io/apimachinery/pkg/types"
	c03fwk "k8s.io/kube-scheduler/framework"
	c03fwkrt "k8s.io/kubernetes/pkg/scheduler/framework"

	"github.com/koordinator-sh/koordinator/apis/extension"
	c03sched "github.com/koordinator-sh/koordinator/apis/thirdparty/scheduler-plugins/pkg/apis/scheduling/v1alpha1"
	c03config "github.com/koordinator-sh/koordinator/pkg/scheduler/apis/config"
	c03configv1 "github.com/koordinator-sh/koordinator/pkg/scheduler/apis/config/v1"
	"github.com/koordinator-sh/koordinator/pkg/scheduler/plugins/elasticquota/core"
	"github.com/koordinator-sh/koordinator/pkg/zzverif/mc"
)

// ---------------------------------------------------------------------------------------------------------
// static universes

const (
	c03CPU = 0 // ledger unit: milli cores
	c03Mem = 1 // ledger unit: bytes
	c03ND  = 2
)

var c03DimName = [c03ND]corev1.ResourceName{corev1.ResourceCPU, corev1.ResourceMemory}

// c03Undeclared is a resource no quota of the universes declares in max (except where a quota sets extraMax: then ONLY
// that quota declares it, and its siblings still do not).
const c03Undeclared = corev1.ResourceName("example.com/undeclared")

type c03Vec [c03ND]int64

func c03V(cpuCores, mem int64) c03Vec { return c03Vec{cpuCores * 1000, mem} }

func (v c03Vec) list() corev1.ResourceList {
	return corev1.ResourceList{
		corev1.ResourceCPU:    *resource.NewMilliQuantity(v[c03CPU], resource.DecimalSI),
		corev1.ResourceMemory: *resource.NewQuantity(v[c03Mem], resource.BinarySI),
	}
}

type c03QuotaDef struct {
	name      string
	parent    int // index of the parent quota, -1 = the abstract root quota
	isParent  bool
	lend      bool
	maxLevels []c03Vec
	maxStart  int
	minLevels []c03Vec
	minStart  int
	extraMax  int64 // > 0: this quota (only) additionally declares c03Undeclared in its max
}

type c03PodDef struct {
	name           string
	quota          int
	req            c03Vec
	noMemKey       bool  // the pod does not carry a memory request at all
	undeclared     int64 // amount of the undeclared resource requested (0 = none)
	nonPreemptible bool
}

// c03Universe: quotas are listed parents first (that is also the order they are delivered in). Every
// (max level, min level) combination satisfies the admission webhook's rules (min <= max in every dimension,
// children's min sum <= parent's min, parent and children declare the same max keys), so every quota event of
// the alphabets is one the real API server would let through. At most 4 quotas and 8 pods (memo packing).
type c03Universe struct {
	name       string
	desc       string
	quotas     []c03QuotaDef
	pods       []c03PodDef
	syncLeaves []int
	late       []int // quotas that are NOT delivered at the start: an event delivers them later (pods that name them are parked in the default quota group until then)
	move       [][2]int // {quota, alternative parent}: the alphabet re-parents the quota between its defined parent and the alternative one
	flipLend   []int // quotas whose allow-lent-resource label the alphabet toggles: a meta change without a parent change, i.e. a reset of the whole quota tree
	node1      c03Vec
	node2      c03Vec
}

func (u *c03Universe) parentName(q int) string {
	if u.quotas[q].parent < 0 {
		return extension.RootQuotaName
	}
	return u.quotas[u.quotas[q].parent].name
}

// inSubtree tells whether quota leaf is q or a descendant of q.
func (u *c03Universe) inSubtree(leaf, q int) bool {
	for x := leaf; x >= 0; x = u.quotas[x].parent {
		if x == q {
			return true
		}
	}
	return false
}

var c03Tree = &c03Universe{
	name: "tree",
	desc: "root->{c03-p->{c03-a, c03-b(non-lending)}, c03-c}",
	quotas: []c03QuotaDef{
		{name: "c03-p", parent: -1, isParent: true, lend: true,
			maxLevels: []c03Vec{c03V(4, 5), c03V(6, 6), c03V(8, 8)}, maxStart: 1, minLevels: []c03Vec{c03V(4, 4)}},
		{name: "c03-a", parent: 0, lend: true,
			maxLevels: []c03Vec{c03V(2, 2), c03V(4, 4), c03V(6, 6)}, maxStart: 1, minLevels: []c03Vec{c03V(1, 1), c03V(2, 2)}, minStart: 1},
		{name: "c03-b", parent: 0, lend: false, maxLevels: []c03Vec{c03V(4, 4)}, minLevels: []c03Vec{c03V(2, 2)}},
		{name: "c03-c", parent: -1, lend: true, maxLevels: []c03Vec{c03V(5, 5)}, minLevels: []c03Vec{c03V(1, 1)}},
	},
	pods: []c03PodDef{
		{name: "a1", quota: 1, req: c03V(3, 1)},
		{name: "a2", quota: 1, req: c03V(1, 2), nonPreemptible: true},
		{name: "a3", quota: 1, req: c03V(2, 0), noMemKey: true, undeclared: 9},
		{name: "b1", quota: 2, req: c03V(3, 3)},
		{name: "b2", quota: 2, req: c03V(2, 1), nonPreemptible: true},
		{name: "c1", quota: 3, req: c03V(5, 2)},
		{name: "a4", quota: 1, req: c03V(1, 1), nonPreemptible: true}, // thorough only
	},
	syncLeaves: []int{1, 2, 3},
	node1:      c03V(8, 8),
	node2:      c03V(4, 4),
}

// c03Chain gives pods of c03-a two ancestors below the root (c03-p and c03-g): the grandparent's lowest max is
// below the parent's, so "within EVERY ancestor's limit" is decided by the second step of the ancestor walk.
var c03Chain = &c03Universe{
	name: "chain",
	desc: "root->c03-g->{c03-p->c03-a, c03-d}",
	quotas: []c03QuotaDef{
		{name: "c03-g", parent: -1, isParent: true, lend: true,
			maxLevels: []c03Vec{c03V(3, 3), c03V(5, 5)}, maxStart: 0, minLevels: []c03Vec{c03V(2, 3)}},
		{name: "c03-p", parent: 0, isParent: true, lend: true,
			maxLevels: []c03Vec{c03V(4, 4), c03V(6, 6)}, maxStart: 1, minLevels: []c03Vec{c03V(1, 2)}},
		{name: "c03-a", parent: 1, lend: true, maxLevels: []c03Vec{c03V(4, 4)}, minLevels: []c03Vec{c03V(1, 2)}},
		{name: "c03-d", parent: 0, lend: true, maxLevels: []c03Vec{c03V(4, 4)}, minLevels: []c03Vec{c03V(1, 1)}},
	},
	pods: []c03PodDef{
		{name: "a1", quota: 2, req: c03V(3, 1)},
		{name: "a2", quota: 2, req: c03V(1, 2), nonPreemptible: true},
		{name: "d1", quota: 3, req: c03V(2, 2)},
		{name: "a3", quota: 2, req: c03V(2, 0), noMemKey: true, undeclared: 9},
	},
	syncLeaves: []int{2, 3},
	node1:      c03V(8, 8),
	node2:      c03V(4, 4),
}

// c03Starved: c03-s guarantees itself the whole first node (min = max = node1) as soon as its pod asks for it, so the
// runtime quota of the elastic c03-e (min 0) is ZERO in every dimension until a second node arrives: "the current
// limit" of a quota can legitimately be an all-zero vector (seed C03-2: such a limit was mistaken for "not calculated").
var c03Starved = &c03Universe{
	name: "starved",
	desc: "root->{c03-s (min=max=node1), c03-e (min 0 or 1, max node1 or more)}",
	quotas: []c03QuotaDef{
		{name: "c03-s", parent: -1, lend: true, maxLevels: []c03Vec{c03V(4, 4)}, minLevels: []c03Vec{c03V(4, 4)}},
		{name: "c03-e", parent: -1, lend: true,
			maxLevels: []c03Vec{c03V(4, 4), c03V(6, 6)}, maxStart: 0, minLevels: []c03Vec{c03V(0, 0), c03V(1, 1)}, minStart: 0},
	},
	pods: []c03PodDef{
		{name: "s1", quota: 0, req: c03V(4, 4)},
		{name: "e1", quota: 1, req: c03V(1, 1)},
		{name: "e2", quota: 1, req: c03V(2, 1), nonPreemptible: true},
	},
	syncLeaves: []int{0, 1},
	node1:      c03V(4, 4),
	node2:      c03V(2, 2),
}

// c03Hetero: two top-level quotas that do not declare the same dimensions (the webhook only compares a quota with its
// parent and children): c03-h also declares c03Undeclared, c03-e does not, so the root's calculator hands c03-e a runtime
// that carries "undeclared: 0". A pod of c03-e that requests the undeclared dimension is not limited in it (seed C03-4).
var c03Hetero = &c03Universe{
	name: "hetero",
	desc: "root->{c03-h (also declares example.com/undeclared), c03-e (cpu, memory only)}",
	quotas: []c03QuotaDef{
		{name: "c03-h", parent: -1, lend: true, maxLevels: []c03Vec{c03V(4, 4)}, minLevels: []c03Vec{c03V(1, 1)}, extraMax: 8},
		{name: "c03-e", parent: -1, lend: true, maxLevels: []c03Vec{c03V(4, 4), c03V(6, 6)}, maxStart: 0, minLevels: []c03Vec{c03V(1, 1)}},
	},
	pods: []c03PodDef{
		{name: "e1", quota: 1, req: c03V(1, 1), undeclared: 9},
		{name: "e2", quota: 1, req: c03V(2, 1)},
		{name: "h1", quota: 0, req: c03V(1, 1)},
	},
	syncLeaves: []int{0, 1},
	node1:      c03V(8, 8),
	node2:      c03V(4, 4),
}

// c03Reset: two flat quotas; the alphabet additionally toggles the allow-lent-resource label of either of them, which
// makes the manager rebuild the whole quota tree (new runtime calculators, every quota's derived amounts cleared and
// replayed). Whatever a quota remembered from before the rebuild (e.g. the calculator version it was last refreshed at)
// must not make it skip its next refresh: its limit would stay the emptied one (seed C03-5).
var c03Reset = &c03Universe{
	name: "reset",
	desc: "root->{c03-a, c03-b}, allow-lent-resource of both toggled by the alphabet (quota tree reset)",
	quotas: []c03QuotaDef{
		{name: "c03-a", parent: -1, lend: true, maxLevels: []c03Vec{c03V(4, 4), c03V(6, 6)}, maxStart: 0, minLevels: []c03Vec{c03V(1, 1)}},
		{name: "c03-b", parent: -1, lend: true, maxLevels: []c03Vec{c03V(4, 4)}, minLevels: []c03Vec{c03V(1, 1)}},
	},
	pods: []c03PodDef{
		{name: "a1", quota: 0, req: c03V(3, 1)},
		{name: "a2", quota: 0, req: c03V(2, 1)},
		{name: "b1", quota: 1, req: c03V(1, 1)},
	},
	syncLeaves: []int{0, 1},
	flipLend:   []int{0, 1},
	node1:      c03V(8, 8),
	node2:      c03V(4, 4),
}

// c03Move: the leaf c03-a is re-parented between c03-p and c03-q (both keep the webhook's rules satisfied: same max keys,
// a's min fits under either parent's min). Its pods - also pending non-preemptible ones - move with it; every figure the
// admission rule reads (used, non-preemptible used, the ancestors' used) must afterwards be what the pods really hold
// (seed C03-7: non-preemptible used re-added from the non-preemptible REQUEST).
var c03Move = &c03Universe{
	name: "move",
	desc: "root->{c03-p->c03-a, c03-q}; c03-a is re-parented between c03-p and c03-q by the alphabet",
	quotas: []c03QuotaDef{
		{name: "c03-p", parent: -1, isParent: true, lend: true, maxLevels: []c03Vec{c03V(6, 6)}, minLevels: []c03Vec{c03V(3, 3)}},
		{name: "c03-q", parent: -1, isParent: true, lend: true, maxLevels: []c03Vec{c03V(3, 3)}, minLevels: []c03Vec{c03V(3, 3)}},
		{name: "c03-a", parent: 0, lend: true, maxLevels: []c03Vec{c03V(4, 4)}, minLevels: []c03Vec{c03V(3, 3)}},
	},
	pods: []c03PodDef{
		{name: "a1", quota: 2, req: c03V(2, 1), nonPreemptible: true},
		{name: "a2", quota: 2, req: c03V(2, 1), nonPreemptible: true},
		{name: "a3", quota: 2, req: c03V(1, 1)},
	},
	syncLeaves: []int{2},
	move:       [][2]int{{2, 1}},
	node1:      c03V(8, 8),
	node2:      c03V(4, 4),
}

// c03Late: the quota c03-l arrives late. Pods that name it are created - and may be admitted and reserved, against the
// default quota group - before it exists; when it arrives, the plugin's periodic migration moves them into it, and from
// then on they count against ITS limit like any other pod of the quota (seeds C01-3 / C19-2 / C03-6: a migrated
// assigned pod whose used is never added lets later pods in past max).
var c03Late = &c03Universe{
	name: "late",
	desc: "root->{c03-a, c03-l}; c03-l is delivered by an event, followed by the default-group migration",
	quotas: []c03QuotaDef{
		{name: "c03-a", parent: -1, lend: true, maxLevels: []c03Vec{c03V(4, 4)}, minLevels: []c03Vec{c03V(1, 1)}},
		{name: "c03-l", parent: -1, lend: true, maxLevels: []c03Vec{c03V(4, 4), c03V(6, 6)}, maxStart: 0, minLevels: []c03Vec{c03V(1, 1)}},
	},
	pods: []c03PodDef{
		{name: "l1", quota: 1, req: c03V(3, 1)},
		{name: "l2", quota: 1, req: c03V(2, 1)},
		{name: "l3", quota: 1, req: c03V(1, 1), nonPreemptible: true},
		{name: "a1", quota: 0, req: c03V(2, 2)},
	},
	syncLeaves: []int{0, 1},
	late:       []int{1},
	node1:      c03V(8, 8),
	node2:      c03V(4, 4),
}

// ---------------------------------------------------------------------------------------------------------
// alphabet

const (
	c03OpCreate = iota
	c03OpAttempt
	c03OpUnreserve
	c03OpDelete
	c03OpRaiseMax
	c03OpLowerMax
	c03OpToggleMin
	c03OpNodeAdd
	c03OpNodeDel
	c03OpSync
	c03OpFlipLend
	c03OpQuotaArrives
	c03OpMove
)

type c03Op struct {
	kind int
	arg  int // pod index or quota index
	name string
}

type c03Cfg struct {
	part        string
	u           *c03Universe
	runtime     bool
	checkParent bool
	args        *c03config.ElasticQuotaArgs // shared, read-only
	nPods       int                         // the first nPods pods of the universe take part
	ops         []c03Op
	res         *mc.Result
	newPlugin   func(cfg *c03Cfg) *Plugin
	withSync    bool // alphabet contains the controller's runtime sync events
	depth       int // first depth bound that is run
	maxDepth    int // depth bound aimed at (>= depth); reached by iterative deepening while the time budget allows
	weight      int // share of the unit's time budget
	growth      float64 // prior for transitions(depth d+1)/transitions(depth d), measured on this alphabet
	memo        *c03Memo
}

func c03BuildOps(cfg *c03Cfg) {
	u := cfg.u
	for pi := 0; pi < cfg.nPods; pi++ {
		n := u.pods[pi].name
		cfg.ops = append(cfg.ops,
			c03Op{c03OpCreate, pi, "create(" + n + ")"},
			c03Op{c03OpAttempt, pi, "attempt(" + n + ")"},
			c03Op{c03OpUnreserve, pi, "unreserve(" + n + ")"},
			c03Op{c03OpDelete, pi, "delete(" + n + ")"})
	}
	for q, d := range u.quotas {
		if len(d.maxLevels) > 1 {
			cfg.ops = append(cfg.ops,
				c03Op{c03OpRaiseMax, q, "raiseMax(" + d.name + ")"},
				c03Op{c03OpLowerMax, q, "lowerMax(" + d.name + ")"})
		}
	}
	for q, d := range u.quotas {
		if len(d.minLevels) > 1 {
			cfg.ops = append(cfg.ops, c03Op{c03OpToggleMin, q, "toggleMin(" + d.name + ")"})
		}
	}
	cfg.ops = append(cfg.ops, c03Op{c03OpNodeAdd, 0, "addNode(n2)"}, c03Op{c03OpNodeDel, 0, "removeNode(n2)"})
	for i, mv := range u.move {
		cfg.ops = append(cfg.ops, c03Op{c03OpMove, i, "reparent(" + u.quotas[mv[0]].name + ": " + u.quotas[u.quotas[mv[0]].parent].name + "<->" + u.quotas[mv[1]].name + ")"})
	}
	for _, q := range u.late {
		cfg.ops = append(cfg.ops, c03Op{c03OpQuotaArrives, q, "quotaArrives+migration(" + u.quotas[q].name + ")"})
	}
	for _, q := range u.flipLend {
		cfg.ops = append(cfg.ops, c03Op{c03OpFlipLend, q, "flipAllowLent(" + u.quotas[q].name + ")"})
	}
	if cfg.withSync {
		// the ElasticQuota controller's runtime worker calls RefreshRuntime on every leaf quota, in lister order
		for _, q := range u.syncLeaves {
			cfg.ops = append(cfg.ops, c03Op{c03OpSync, q, "controllerSync(" + u.quotas[q].name + ")"})
		}
	}
}

// ---------------------------------------------------------------------------------------------------------
// the system: real plugin + reference ledger

const (
	c03Absent   = 0
	c03Pending  = 1
	c03Reserved = 2
)

type c03Sys struct {
	cfg *c03Cfg
	pl  *Plugin
	mgr *core.GroupQuotaManager

	podObjs   []*corev1.Pod // by pod index
	quotaObjs []*c03sched.ElasticQuota
	node2     *corev1.Node

	// reference ledger (harness-owned, never derived from the code under check)
	podSt   []uint8 // by pod index
	maxLvl  []int
	minLvl  []int
	lowered []bool // max of the quota was lowered at least once on this path
	flipped []bool // allow-lent-resource currently differs from the universe's definition
	absent  []bool // the quota has not been delivered yet (universe.late)
	par     []int  // current parent of every quota (universe.move re-parents)
	hasN2   bool

	hist []uint8
	// Lazy materialisation (pure optimisation, see Apply): events of a replayed prefix are queued and only
	// executed on a real plugin once the transition under judgement turns out to be enabled.
	built   bool
	pending []uint8
}

func c03MakePod(u *c03Universe, d c03PodDef) *corev1.Pod {
	req := corev1.ResourceList{corev1.ResourceCPU: *resource.NewMilliQuantity(d.req[c03CPU], resource.DecimalSI)}
	if !d.noMemKey {
		req[corev1.ResourceMemory] = *resource.NewQuantity(d.req[c03Mem], resource.BinarySI)
	}
	if d.undeclared > 0 {
		req[c03Undeclared] = *resource.NewQuantity(d.undeclared, resource.DecimalSI)
	}
	pod := &corev1.Pod{
		ObjectMeta: metav1.ObjectMeta{Namespace: "c03", Name: d.name, UID: k8stypes.UID("uid-" + d.name),
			Labels: map[string]string{extension.LabelQuotaName: u.quotas[d.quota].name}},
		Spec: corev1.PodSpec{Containers: []corev1.Container{{Name: "main", Resources: corev1.ResourceRequirements{Requests: req}}}},
	}
	pod.Status.Phase = corev1.PodPending
	if d.nonPreemptible {
		pod.Labels[extension.LabelPreemptible] = "false"
	}
	return pod
}

func c03MakeQuota(u *c03Universe, qi int, max, min c03Vec) *c03sched.ElasticQuota {
	d := u.quotas[qi]
	q := &c03sched.ElasticQuota{
		ObjectMeta: metav1.ObjectMeta{Namespace: "c03", Name: d.name, Labels: map[string]string{}, Annotations: map[string]string{}},
		Spec:       c03sched.ElasticQuotaSpec{Max: max.list(), Min: min.list()},
	}
	if d.extraMax > 0 {
		q.Spec.Max[c03Undeclared] = *resource.NewQuantity(d.extraMax, resource.DecimalSI)
	}
	q.Labels[extension.LabelQuotaParent] = u.parentName(qi)
	if d.isParent {
		q.Labels[extension.LabelQuotaIsParent] = "true"
	} else {
		q.Labels[extension.LabelQuotaIsParent] = "false"
	}
	if !d.lend {
		q.Labels[extension.LabelAllowLentResource] = "false"
	}
	return q
}

func c03MakeNode(name string, capacity c03Vec) *corev1.Node {
	return &corev1.Node{ObjectMeta: metav1.ObjectMeta{Name: name}, Status: corev1.NodeStatus{Allocatable: capacity.list()}}
}

// c03LiteralPlugin builds the plugin the cheap way: struct literal + the package's own manager constructor.
// Pods always carry the quota-name label, so GetQuotaName returns before touching the (absent) listers.
func c03LiteralPlugin(cfg *c03Cfg) *Plugin {
	pl := &Plugin{
		pluginArgs:                     cfg.args,
		groupQuotaManagersForQuotaTree: map[string]*core.GroupQuotaManager{},
		quotaToTreeMap:                 map[string]string{extension.DefaultQuotaName: "", extension.SystemQuotaName: ""},
		quotaSnapshot:                  map[string]*core.QuotaSnapshot{},
		quotaToTreeMapSnapshot:         map[string]string{},
	}
	// New() additionally calls InitHookPlugins; with no hook plugin configured that only logs (under klog's
	// global mutex, which serialises the BFS workers), so it is left out. The smoke part shows the equivalence.
	pl.groupQuotaManager = core.NewGroupQuotaManager("", cfg.args.EnableMinQuotaScale, cfg.args.SystemQuotaGroupMax, cfg.args.DefaultQuotaGroupMax)
	return pl
}

func c03NewSys(cfg *c03Cfg) *c03Sys { return &c03Sys{cfg: cfg} }

// build creates the fresh real plugin and the fresh ledger and executes the queued prefix on them.
func (s *c03Sys) build() {
	if s.built {
		return
	}
	s.built = true
	cfg, u := s.cfg, s.cfg.u
	s.pl = cfg.newPlugin(cfg)
	s.mgr = s.pl.groupQuotaManager
	s.podObjs = make([]*corev1.Pod, cfg.nPods)
	s.podSt = make([]uint8, cfg.nPods)
	for pi := 0; pi < cfg.nPods; pi++ {
		s.podObjs[pi] = c03MakePod(u, u.pods[pi])
	}
	nq := len(u.quotas)
	s.maxLvl, s.minLvl, s.lowered, s.flipped, s.absent = make([]int, nq), make([]int, nq), make([]bool, nq), make([]bool, nq), make([]bool, nq)
	for _, q := range u.late {
		s.absent[q] = true
	}
	s.par = make([]int, nq)
	for q := range u.quotas {
		s.par[q] = u.quotas[q].parent
	}
	s.quotaObjs = make([]*c03sched.ElasticQuota, nq)
	// initial environment: node n1 exists, the quotas are delivered parents first
	s.pl.OnNodeAdd(c03MakeNode("n1", u.node1))
	for qi, d := range u.quotas {
		s.maxLvl[qi], s.minLvl[qi] = d.maxStart, d.minStart
		s.quotaObjs[qi] = c03MakeQuota(u, qi, s.max(qi), s.min(qi))
		if s.absent[qi] {
			continue
		}
		s.pl.OnQuotaAdd(s.quotaObjs[qi])
	}
	s.node2 = c03MakeNode("n2", u.node2)
	for i, o := range s.pending {
		if en, _ := s.applyReal(int(o), false); !en {
			panic(fmt.Sprintf("c03: replay diverged: event %d (%s) of the prefix is not enabled", i, cfg.ops[o].name))
		}
	}
	s.pending = nil
}

func (s *c03Sys) max(q int) c03Vec { return s.cfg.u.quotas[q].maxLevels[s.maxLvl[q]] }
func (s *c03Sys) min(q int) c03Vec { return s.cfg.u.quotas[q].minLevels[s.minLvl[q]] }

// refUsed is the reference usage of quota q: the sum of the requests of the pods the harness reserved in q's
// subtree, in the dimensions the quotas declare (cpu, memory; the undeclared resource is never charged).
func (s *c03Sys) refUsed(q int, onlyNonPreemptible bool) c03Vec {
	var used c03Vec
	for pi := 0; pi < s.cfg.nPods; pi++ {
		d := s.cfg.u.pods[pi]
		if s.podSt[pi] != c03Reserved || !s.inSubtree(d.quota, q) || (onlyNonPreemptible && !d.nonPreemptible) {
			continue
		}
		for k := 0; k < c03ND; k++ {
			used[k] += d.req[k]
		}
	}
	return used
}

// inSubtree tells whether quota leaf is q or currently a descendant of q.
func (s *c03Sys) inSubtree(leaf, q int) bool {
	for x := leaf; x >= 0; x = s.par[x] {
		if x == q {
			return true
		}
	}
	return false
}

func (s *c03Sys) updateQuota(q int) {
	old := s.quotaObjs[q]
	nu := c03MakeQuota(s.cfg.u, q, s.max(q), s.min(q))
	if s.par[q] != s.cfg.u.quotas[q].parent {
		nu.Labels[extension.LabelQuotaParent] = s.cfg.u.quotas[s.par[q]].name
	}
	if s.flipped[q] {
		if s.cfg.u.quotas[q].lend {
			nu.Labels[extension.LabelAllowLentResource] = "false"
		} else {
			delete(nu.Labels, extension.LabelAllowLentResource)
		}
	}
	s.quotaObjs[q] = nu
	s.pl.OnQuotaUpdate(old, nu)
}

// Apply. The engine replays the whole history on a fresh system for every (state, event) pair and only then
// learns that the last event is not enabled - about 60% of all replays. Whether an event is enabled depends on
// the harness ledger alone (pod phases, max/min levels, node set), and the ledger reached by a history was
// computed when that history was first executed. So: events of the prefix (check=false) are only queued; when
// the judged event arrives, the ledger recorded for the prefix tells whether it is enabled; only if it is (or
// nothing is recorded) a real plugin is built, the prefix executed on it and the event executed and judged.
// Verdicts never come from the memo - only the decision not to execute a transition that does not exist.
func (s *c03Sys) Apply(op int, check bool) (bool, []mc.Violation) {
	if !s.built {
		if !check {
			s.pending = append(s.pending, uint8(op))
			return true, nil
		}
		if l, ok := s.cfg.memo.get(s.pending); ok && !l.enabled(s.cfg.u, s.cfg.ops[op]) {
			return false, nil
		}
		s.build()
	}
	return s.applyReal(op, check)
}

func (s *c03Sys) applyReal(op int, check bool) (bool, []mc.Violation) {
	o := s.cfg.ops[op]
	var viol []mc.Violation
	switch o.kind {
	case c03OpCreate:
		if s.podSt[o.arg] != c03Absent {
			return false, nil
		}
		s.pl.OnPodAdd(s.podObjs[o.arg])
		s.podSt[o.arg] = c03Pending
	case c03OpAttempt:
		if s.podSt[o.arg] != c03Pending {
			return false, nil
		}
		viol = s.attempt(o.arg, check)
	case c03OpUnreserve:
		if s.podSt[o.arg] != c03Reserved {
			return false, nil
		}
		s.pl.Unreserve(context.TODO(), c03fwkrt.NewCycleState(), s.podObjs[o.arg], "n1")
		s.podSt[o.arg] = c03Pending
	case c03OpDelete:
		if s.podSt[o.arg] == c03Absent {
			return false, nil
		}
		s.pl.OnPodDelete(s.podObjs[o.arg])
		s.podSt[o.arg] = c03Absent
	case c03OpRaiseMax:
		if s.absent[o.arg] || s.maxLvl[o.arg] >= len(s.cfg.u.quotas[o.arg].maxLevels)-1 {
			return false, nil
		}
		s.maxLvl[o.arg]++
		s.updateQuota(o.arg)
	case c03OpLowerMax:
		if s.absent[o.arg] || s.maxLvl[o.arg] <= 0 {
			return false, nil
		}
		s.maxLvl[o.arg]--
		s.lowered[o.arg] = true
		s.updateQuota(o.arg)
	case c03OpToggleMin:
		if s.absent[o.arg] {
			return false, nil
		}
		s.minLvl[o.arg] = (s.minLvl[o.arg] + 1) % len(s.cfg.u.quotas[o.arg].minLevels)
		s.updateQuota(o.arg)
	case c03OpNodeAdd:
		if s.hasN2 {
			return false, nil
		}
		s.pl.OnNodeAdd(s.node2)
		s.hasN2 = true
	case c03OpNodeDel:
		if !s.hasN2 {
			return false, nil
		}
		s.pl.OnNodeDelete(s.node2)
		s.hasN2 = false
	case c03OpSync:
		if s.absent[o.arg] {
			return false, nil
		}
		s.mgr.RefreshRuntime(s.cfg.u.quotas[o.arg].name)
	case c03OpFlipLend:
		s.flipped[o.arg] = !s.flipped[o.arg]
		s.updateQuota(o.arg)
	case c03OpMove:
		mv := s.cfg.u.move[o.arg]
		q := mv[0]
		if s.par[q] == s.cfg.u.quotas[q].parent {
			s.par[q] = mv[1]
		} else {
			s.par[q] = s.cfg.u.quotas[q].parent
		}
		s.updateQuota(q)
		// pods admitted under the old parent were admitted against ITS limits: a new ancestor that is over its max right
		// after the move is exempt from the used<=max invariant, like a quota whose max was lowered
		for x := s.par[q]; x >= 0; x = s.par[x] {
			ref, max := s.refUsed(x, false), s.max(x)
			for k := 0; k < c03ND; k++ {
				if ref[k] > max[k] {
					s.lowered[x] = true
				}
			}
		}
	case c03OpQuotaArrives:
		if !s.absent[o.arg] {
			return false, nil
		}
		s.absent[o.arg] = false
		s.quotaObjs[o.arg] = c03MakeQuota(s.cfg.u, o.arg, s.max(o.arg), s.min(o.arg))
		s.pl.OnQuotaAdd(s.quotaObjs[o.arg])
		s.pl.migrateDefaultQuotaGroupsPod() // the plugin's periodic migration of pods parked in the default group
		// pods admitted before the quota existed were admitted against the default group: a quota that arrives already
		// over its max is exempt from the used<=max invariant, like one whose max was lowered
		ref, max := s.refUsed(o.arg, false), s.max(o.arg)
		for k := 0; k < c03ND; k++ {
			if ref[k] > max[k] {
				s.lowered[o.arg] = true
			}
		}
	}
	s.hist = append(s.hist, uint8(op))
	return true, viol
}

// ---------------------------------------------------------------------------------------------------------
// enabledness memo (optimisation only, see Apply)

// c03Ledger is the part of the harness ledger that decides which events are enabled.
type c03Ledger struct {
	podSt  [8]uint8
	maxLvl [4]int8
	minLvl [4]int8
	hasN2  bool
}

func (s *c03Sys) ledger() c03Ledger {
	var l c03Ledger
	copy(l.podSt[:], s.podSt)
	for q := range s.cfg.u.quotas {
		l.maxLvl[q], l.minLvl[q] = int8(s.maxLvl[q]), int8(s.minLvl[q])
	}
	l.hasN2 = s.hasN2
	return l
}

// enabled mirrors the guards of applyReal (which remain authoritative whenever an event is executed).
func (l *c03Ledger) enabled(u *c03Universe, o c03Op) bool {
	switch o.kind {
	case c03OpCreate:
		return l.podSt[o.arg] == c03Absent
	case c03OpAttempt:
		return l.podSt[o.arg] == c03Pending
	case c03OpUnreserve:
		return l.podSt[o.arg] == c03Reserved
	case c03OpDelete:
		return l.podSt[o.arg] != c03Absent
	case c03OpRaiseMax:
		return int(l.maxLvl[o.arg]) < len(u.quotas[o.arg].maxLevels)-1
	case c03OpLowerMax:
		return l.maxLvl[o.arg] > 0
	case c03OpNodeAdd:
		return !l.hasN2
	case c03OpNodeDel:
		return l.hasN2
	}
	return true
}

// c03Memo maps a history (packed: 6 bits per event) to the packed ledger it leads to.
type c03Memo struct {
	shards [64]struct {
		mu sync.Mutex
		m  map[uint64]uint32
	}
}

func c03NewMemo() *c03Memo {
	m := &c03Memo{}
	for i := range m.shards {
		m.shards[i].m = map[uint64]uint32{}
	}
	return m
}

func c03PackHist(h []uint8) (uint64, bool) {
	if len(h) > 9 {
		return 0, false
	}
	k := uint64(len(h))
	for i, o := range h {
		if o >= 64 {
			return 0, false
		}
		k |= uint64(o) << (4 + 6*uint(i))
	}
	return k, true
}

func (l c03Ledger) pack() uint32 {
	var v uint32
	for i := 0; i < 8; i++ {
		v |= uint32(l.podSt[i]&3) << (2 * uint(i))
	}
	for q := 0; q < 4; q++ {
		v |= uint32(l.maxLvl[q]&3) << (16 + 2*uint(q))
		v |= uint32(l.minLvl[q]&1) << (24 + uint(q))
	}
	if l.hasN2 {
		v |= 1 << 28
	}
	return v
}

func c03Unpack(v uint32) c03Ledger {
	var l c03Ledger
	for i := 0; i < 8; i++ {
		l.podSt[i] = uint8(v>>(2*uint(i))) & 3
	}
	for q := 0; q < 4; q++ {
		l.maxLvl[q] = int8(v>>(16+2*uint(q))) & 3
		l.minLvl[q] = int8(v>>(24+uint(q))) & 1
	}
	l.hasN2 = v&(1<<28) != 0
	return l
}

func (m *c03Memo) get(h []uint8) (c03Ledger, bool) {
	k, ok := c03PackHist(h)
	if m == nil || !ok {
		return c03Ledger{}, false
	}
	sh := &m.shards[(k*0x9E3779B97F4A7C15)>>58]
	sh.mu.Lock()
	v, ok := sh.m[k]
	sh.mu.Unlock()
	return c03Unpack(v), ok
}

func (m *c03Memo) put(h []uint8, l c03Ledger) {
	k, ok := c03PackHist(h)
	if m == nil || !ok {
		return
	}
	if c03Unpack(l.pack()) != l {
		panic("c03: ledger does not fit the memo packing")
	}
	sh := &m.shards[(k*0x9E3779B97F4A7C15)>>58]
	sh.mu.Lock()
	sh.m[k] = l.pack()
	sh.mu.Unlock()
}

// ---------------------------------------------------------------------------------------------------------
// transition oracle

type c03Limit struct {
	val     c03Vec
	present [c03ND]bool
}

func c03Read(rl corev1.ResourceList, d int) (int64, bool) {
	q, ok := rl[c03DimName[d]]
	if !ok {
		return 0, false
	}
	if d == c03CPU {
		return q.MilliValue(), true
	}
	return q.Value(), true
}

// checkedQuotas lists the quotas whose limit the property makes binding for a pod of quota leaf: the pod's own
// quota and - with parent checking - every ancestor below the abstract root.
func (s *c03Sys) checkedQuotas(leaf int) []int {
	qs := []int{leaf}
	if s.cfg.checkParent {
		for x := s.par[leaf]; x >= 0; x = s.par[x] {
			qs = append(qs, x)
		}
	}
	return qs
}

// currentLimits returns, per checked quota, "the quota's current limit": its max (from the ledger: the value
// the harness last delivered through OnQuotaUpdate) when runtime quota is off; otherwise its runtime quota as
// published by RefreshRuntime(<the pod's quota>) - the call by which the plugin and the controller bring the
// runtime of a leaf and of its ancestors up to date - executed on a SHADOW system, a fresh replay of the same
// history, so that reading the limit neither perturbs the system under exploration nor depends on whether
// PreFilter itself refreshed anything. What number the runtime quota is, is property C02's business; C03 only
// takes it as the limit.
func (s *c03Sys) currentLimits(qs []int) map[int]c03Limit {
	out := map[int]c03Limit{}
	if !s.cfg.runtime {
		for _, q := range qs {
			out[q] = c03Limit{val: s.max(q), present: [c03ND]bool{true, true}}
		}
		return out
	}
	sh := c03NewSys(s.cfg)
	sh.pending = append(sh.pending, s.hist...)
	sh.build()
	sh.mgr.RefreshRuntime(s.cfg.u.quotas[qs[0]].name)
	for _, q := range qs {
		sum, ok := sh.mgr.GetQuotaSummary(s.cfg.u.quotas[q].name, false)
		if !ok {
			panic("c03: quota vanished in shadow")
		}
		var l c03Limit
		for d := 0; d < c03ND; d++ {
			l.val[d], l.present[d] = c03Read(sum.Runtime, d)
		}
		out[q] = l
	}
	return out
}

type c03Expectation struct {
	// mustHold: in every dimension the pod is charged for (request > 0), usage + request stays within the limit
	// of every checked quota, and (non-preemptible) non-preemptible usage + request within min. Admission
	// REQUIRES this ("admitted only if").
	mustHold bool
	// anyOver: some declared dimension of some checked quota (or of min) has usage + request above the limit,
	// counting dimensions the pod requests nothing of. A rejection REQUIRES this ("every rejected pod really
	// would have exceeded a limit"). Between the two (only an unrequested dimension is already over its limit)
	// the statement leaves the outcome open and the oracle accepts both.
	anyOver                   bool
	overLeaf, overAnc, overNP bool
	overFarAncOnly            bool // only an ancestor beyond the direct parent is over
	tight                     bool // a charged dimension lands exactly on its limit
	belowMax                  bool // the binding limit of the pod's quota is below its max in some dimension
	missing                   string
	detail                    []string
	limits                    map[int]c03Limit
}

func (s *c03Sys) expectation(pi int) c03Expectation {
	u := s.cfg.u
	d := u.pods[pi]
	qs := s.checkedQuotas(d.quota)
	lims := s.currentLimits(qs)
	e := c03Expectation{mustHold: true, limits: lims}
	overDirect, overFar := false, false
	for i, q := range qs {
		used := s.refUsed(q, false)
		l := lims[q]
		for k := 0; k < c03ND; k++ { // every quota of the universes declares exactly cpu and memory
			if !l.present[k] {
				e.missing = fmt.Sprintf("%s has no runtime limit for declared dimension %s", u.quotas[q].name, c03DimName[k])
				continue
			}
			tot := used[k] + d.req[k]
			if i == 0 && l.val[k] < s.max(q)[k] {
				e.belowMax = true
			}
			if tot > l.val[k] {
				e.anyOver = true
				switch {
				case i == 0:
					e.overLeaf = true
				case i == 1:
					e.overAnc, overDirect = true, true
				default:
					e.overAnc, overFar = true, true
				}
				if d.req[k] > 0 {
					e.mustHold = false
				}
				e.detail = append(e.detail, fmt.Sprintf("%s.%s: used %d + request %d > limit %d", u.quotas[q].name, c03DimName[k], used[k], d.req[k], l.val[k]))
			} else if tot == l.val[k] && d.req[k] > 0 {
				e.tight = true
			}
		}
	}
	e.overFarAncOnly = overFar && !overDirect && !e.overLeaf
	if d.nonPreemptible {
		np := s.refUsed(d.quota, true)
		min := s.min(d.quota)
		for k := 0; k < c03ND; k++ {
			tot := np[k] + d.req[k]
			if tot > min[k] {
				e.anyOver, e.overNP = true, true
				if d.req[k] > 0 {
					e.mustHold = false
				}
				e.detail = append(e.detail, fmt.Sprintf("%s.%s: non-preemptible used %d + request %d > min %d", u.quotas[d.quota].name, c03DimName[k], np[k], d.req[k], min[k]))
			} else if tot == min[k] && d.req[k] > 0 {
				e.tight = true
			}
		}
	}
	return e
}

func (s *c03Sys) vkey(clause string) string { return "C03|" + s.cfg.part + "|" + clause }

func (s *c03Sys) attempt(pi int, check bool) []mc.Violation {
	if s.absent[s.cfg.u.pods[pi].quota] {
		// the pod's quota does not exist yet: the attempt runs against the default quota group, whose limit is not the
		// property's business; executed (the pod may end up reserved), not judged
		if check {
			s.cfg.res.Count("attempts_before_the_quota_exists(not judged)", 1)
		}
		check = false
	}
	var e c03Expectation
	if check {
		e = s.expectation(pi) // from the ledger, BEFORE the code decides
	}
	pod := s.podObjs[pi]
	cs := c03fwkrt.NewCycleState()
	_, st := s.pl.PreFilter(context.TODO(), cs, pod, nil)
	admitted := st.Code() == c03fwk.Success
	var rst *c03fwk.Status
	if admitted {
		rst = s.pl.Reserve(context.TODO(), cs, pod, "n1")
		s.podSt[pi] = c03Reserved
	}
	if !check {
		return nil
	}
	res := s.cfg.res
	u := s.cfg.u
	d := u.pods[pi]
	var viol []mc.Violation
	res.Count("attempts", 1)
	if d.undeclared > 0 {
		res.Count("attempts_pod_with_undeclared_dimension", 1)
	}
	if e.belowMax {
		res.Count("attempts_with_runtime_limit_below_max", 1)
	}
	if e.missing != "" {
		viol = append(viol, mc.Violation{Key: s.vkey("declared-dimension-without-limit"), What: e.missing})
	}
	if e.mustHold && e.anyOver {
		res.Count("attempts_only_unrequested_dimension_over_limit(outcome_left_open)", 1)
	}
	switch {
	case admitted:
		res.Count("admissions", 1)
		if e.tight {
			res.Count("admissions_landing_exactly_on_a_limit", 1)
		}
		if d.nonPreemptible {
			res.Count("admissions_non_preemptible", 1)
		}
		if !e.mustHold {
			why := "leaf"
			if !e.overLeaf && e.overAnc {
				why = "ancestor"
			} else if !e.overLeaf && e.overNP {
				why = "nonpreemptible-min"
			}
			viol = append(viol, mc.Violation{Key: s.vkey("admitted-over-limit|" + why),
				What: fmt.Sprintf("pod %s (quota %s, request %v, nonPreemptible=%v) was admitted by PreFilter although: %s", d.name, u.quotas[d.quota].name, d.req, d.nonPreemptible, strings.Join(e.detail, "; "))})
		}
		if rst.Code() != c03fwk.Success {
			viol = append(viol, mc.Violation{Key: s.vkey("reserve-failed"), What: fmt.Sprintf("Reserve after a successful PreFilter returned %v", rst)})
		}
	case st.Code() == c03fwk.Unschedulable:
		res.Count("rejections", 1)
		switch {
		case e.overLeaf:
			res.Count("rejections_own_quota_limit", 1)
		case e.overAnc:
			res.Count("rejections_ancestor_limit_only", 1)
		case e.overNP:
			res.Count("rejections_non_preemptible_min_only", 1)
		}
		if e.overNP {
			res.Count("rejections_with_non_preemptible_min_exceeded", 1)
		}
		if e.overAnc {
			res.Count("rejections_with_ancestor_limit_exceeded", 1)
		}
		if e.overFarAncOnly {
			res.Count("rejections_only_by_an_ancestor_beyond_the_direct_parent", 1)
		}
		if !e.anyOver {
			viol = append(viol, mc.Violation{Key: s.vkey("rejected-within-limits"),
				What: fmt.Sprintf("pod %s (quota %s, request %v, nonPreemptible=%v) was rejected (%q) although usage + request stays within every limit the property names (ledger: own used %v, non-preemptible used %v, min %v, limits by quota index %v)",
					d.name, u.quotas[d.quota].name, d.req, d.nonPreemptible, st.Message(), s.refUsed(d.quota, false), s.refUsed(d.quota, true), s.min(d.quota), e.limits)})
		}
	default:
		viol = append(viol, mc.Violation{Key: s.vkey("unexpected-status"),
			What: fmt.Sprintf("PreFilter for pod %s returned %v %q: neither admitted nor rejected for exceeding a limit", d.name, st.Code(), st.Message())})
	}
	return viol
}

// ---------------------------------------------------------------------------------------------------------
// state oracle

func (s *c03Sys) Invariants() []mc.Violation {
	s.build()
	var viol []mc.Violation
	res := s.cfg.res
	u := s.cfg.u
	for q := range u.quotas {
		if s.absent[q] {
			continue
		}
		sum, ok := s.mgr.GetQuotaSummary(u.quotas[q].name, false)
		if !ok {
			viol = append(viol, mc.Violation{Key: s.vkey("quota-vanished"), What: u.quotas[q].name + " has no summary"})
			continue
		}
		ref := s.refUsed(q, false)
		max := s.max(q)
		var code c03Vec
		for k := 0; k < c03ND; k++ {
			code[k], _ = c03Read(sum.Used, k)
		}
		if code != ref {
			// accounting exactness is property C01; reported, never an alarm here
			res.Count("diag_code_used_differs_from_ledger", 1)
			res.Diag(fmt.Sprintf("%s: code used %v, ledger %v after %v", u.quotas[q].name, code, ref, s.histNames()))
		}
		over := false
		for k := 0; k < c03ND; k++ {
			if ref[k] > max[k] || code[k] > max[k] {
				over = true
			}
		}
		// The invariant follows from the admission rule for the quotas whose limit the rule makes binding: the
		// quotas pods are admitted against directly (leaves) in every configuration, ancestors only when
		// parent checking is on (without it children's max may legitimately add up to more than the parent's).
		binding := !u.quotas[q].isParent || s.cfg.checkParent
		switch {
		case !binding:
			if over {
				res.Count("states_parent_used_above_max_while_parent_check_off(legitimate)", 1)
			}
		case s.lowered[q]:
			if over {
				res.Count("states_used_above_a_lowered_max(exempt)", 1)
			}
		default:
			if ref != (c03Vec{}) {
				res.Count("invariant_checked_with_used_positive", 1)
			}
			if ref[c03CPU] == max[c03CPU] || ref[c03Mem] == max[c03Mem] {
				res.Count("invariant_checked_with_used_equal_max", 1)
			}
			if over {
				viol = append(viol, mc.Violation{Key: s.vkey("used-above-max|" + u.quotas[q].name),
					What: fmt.Sprintf("quota %s, whose max %v was never lowered on this path, shows used %v (ledger of reserved pods: %v)", u.quotas[q].name, max, code, ref)})
			}
		}
	}
	return viol
}

func (s *c03Sys) histNames() []string {
	out := make([]string, len(s.hist))
	for i, o := range s.hist {
		out[i] = s.cfg.ops[o].name
	}
	return out
}

// ---------------------------------------------------------------------------------------------------------
// canonical state

// c03Dumper renders the whole GroupQuotaManager (quota infos with every accounting field and the pod cache
// with the assigned flags, all runtime calculators with their per-dimension trees, totals, node set, scaled-min
// bookkeeping). Left out, with reasons:
//   - QuotaInfo.RuntimeVersion / RuntimeQuotaCalculator.globalRuntimeVersion: monotone counters that are only
//     ever compared for equality (quota.RuntimeVersion != parentCalculator.version => recompute). Their only
//     observable content - "is this quota's runtime stale w.r.t. its parent's calculator" - is added back as a
//     boolean per quota by c03StaleFlags.
//   - PodInfo.pod: the pod object of a name is immutable in this universe; presence + isAssigned + resource stay.
//   - GroupQuotaManager.quotaTopoNodeMap: a second index to the same QuotaInfo pointers, read only by the reset
//     paths (parent/meta change), which rebuild it from quotaInfoMap first (universe reset triggers them).
//   - hookPlugins: none configured.
var c03Dumper = &mc.Dumper{SkipFields: map[string]bool{
	"QuotaInfo.RuntimeVersion":                    true,
	"RuntimeQuotaCalculator.globalRuntimeVersion": true,
	"PodInfo.pod":                                 true,
	"GroupQuotaManager.quotaTopoNodeMap":          true,
	"GroupQuotaManager.hookPlugins":               true,
}}

func c03StaleFlags(mgr *core.GroupQuotaManager) string {
	mv := reflect.ValueOf(mgr).Elem()
	calcs := mv.FieldByName("runtimeQuotaCalculatorMap")
	infos := mv.FieldByName("quotaInfoMap")
	var out []string
	it := infos.MapRange()
	for it.Next() {
		qi := it.Value().Elem()
		name := it.Key().String()
		parent := qi.FieldByName("ParentName").String()
		calc := calcs.MapIndex(reflect.ValueOf(parent))
		if !calc.IsValid() || calc.IsNil() {
			out = append(out, name+":nocalc")
			continue
		}
		stale := qi.FieldByName("RuntimeVersion").Int() != calc.Elem().FieldByName("globalRuntimeVersion").Int()
		out = append(out, fmt.Sprintf("%s:%v", name, stale))
	}
	sort.Strings(out)
	return strings.Join(out, ",")
}

func (s *c03Sys) Key() string {
	s.build()
	s.cfg.memo.put(s.hist, s.ledger())
	var sb strings.Builder
	// harness side: everything the oracle's future verdicts depend on
	fmt.Fprintf(&sb, "pods%v max%v min%v lowered%v flipped%v absent%v par%v n2:%v|", s.podSt, s.maxLvl, s.minLvl, s.lowered, s.flipped, s.absent, s.par, s.hasN2)
	sb.WriteString(c03StaleFlags(s.mgr))
	sb.WriteString("|")
	sb.WriteString(c03Dumper.Dump(s.mgr))
	return sb.String()
}

// ---------------------------------------------------------------------------------------------------------
// driver

func c03Args(runtime, checkParent bool) *c03config.ElasticQuotaArgs {
	var v1args c03configv1.ElasticQuotaArgs
	c03configv1.SetDefaults_ElasticQuotaArgs(&v1args)
	var args c03config.ElasticQuotaArgs
	if err := c03configv1.Convert_v1_ElasticQuotaArgs_To_config_ElasticQuotaArgs(&v1args, &args, nil); err != nil {
		panic(err)
	}
	args.EnableRuntimeQuota = runtime
	args.EnableCheckParentQuota = checkParent
	return &args
}

func c03NewCfg(prefix string, u *c03Universe, runtime, checkParent, withSync bool, nPods, depth, weight int) *c03Cfg {
	growth := 5.0 // measured: tree 4-5 (runtime off) / 6-8 (runtime on, more with syncs), chain 3-4
	if runtime {
		growth = 7
	}
	if withSync {
		growth = 8
	}
	b2i := map[bool]int{false: 0, true: 1}
	if nPods > len(u.pods) {
		nPods = len(u.pods)
	}
	cfg := &c03Cfg{part: fmt.Sprintf("%s-rt%d-cp%d", prefix, b2i[runtime], b2i[checkParent]), u: u, runtime: runtime, checkParent: checkParent,
		args: c03Args(runtime, checkParent), newPlugin: c03LiteralPlugin, withSync: withSync, nPods: nPods, depth: depth, weight: weight, growth: growth, memo: c03NewMemo()}
	c03BuildOps(cfg)
	return cfg
}

// c03Plan lists the parts of a tier.
//   - "hist": the tree universe, closed-loop alphabet without the controller's runtime sync (every effect of a
//     sync is also produced by an attempt of a pod of that quota, which starts with the same RefreshRuntime call);
//   - "chain": the chain universe (two ancestors), all four configurations;
//   - "sync": the tree universe plus the three sync events on the runtime-quota configurations, with the smaller
//     pod set, because the syncs multiply the number of distinct (stale / refreshed) manager states.
//
// Time: the engine discards a BFS level the deadline interrupts, so starting a level that cannot be finished
// wastes the whole remaining budget. The driver therefore deepens iteratively (c03Deepen): a part is run
// to its first depth bound, and re-run one level deeper only while the measured growth predicts that the deeper
// run fits into the time the part has left; unused time is handed on to the next parts, and what is left at the
// end is spent on deepening parts further, cheapest first. The result reported for a part is its deepest
// completed run. Both tiers work this way; they differ in the first depth bound, the depth aimed at, the pod
// set, the map-order repeats and the budget.
func c03Plan(env *mc.Env) []*c03Cfg {
	var cfgs []*c03Cfg
	add := func(c *c03Cfg, max int) {
		c.maxDepth = max
		if max < c.depth {
			c.maxDepth = c.depth
		}
		cfgs = append(cfgs, c)
	}
	// first depth bound / depth aimed at: quick 4 -> 5 (with syncs 3 -> 4), thorough 5 -> 7 (with syncs 4 -> 6)
	d0, d1 := env.Pick(4, 5), env.Pick(5, 7)
	// cheap parts first: what they do not use is handed on to the expensive ones; weights ~ measured relative cost
	for _, rt := range []bool{false, true} {
		for _, cp := range []bool{false, true} {
			w := 1
			if rt {
				w = 2
			}
			add(c03NewCfg("chain", c03Chain, rt, cp, rt && env.Thorough(), 4, d0, w), d1)
		}
	}
	for _, cp := range []bool{false, true} {
		add(c03NewCfg("starved", c03Starved, true, cp, env.Thorough(), 3, d0, 1), d1+1)
		add(c03NewCfg("hetero", c03Hetero, true, cp, env.Thorough(), 3, d0, 1), d1+1)
	}
	for _, cp := range []bool{false, true} {
		add(c03NewCfg("reset", c03Reset, true, cp, true, 3, d0+1, 1), d1+1)
	}
	for _, rt := range []bool{false, true} {
		add(c03NewCfg("late", c03Late, rt, false, false, 4, d0+1, 1), d1+1)
	}
	for _, cp := range []bool{false, true} {
		add(c03NewCfg("move", c03Move, false, cp, false, 3, d0+1, 1), d1+1)
	}
	add(c03NewCfg("move", c03Move, true, true, false, 3, d0+1, 1), d1+1)
	for _, cp := range []bool{false, true} {
		add(c03NewCfg("hist", c03Tree, false, cp, false, env.Pick(6, 7), d0, 5), d1)
	}
	if env.Thorough() {
		add(c03NewCfg("sync", c03Tree, true, false, true, 6, 4, 4), 6)
	}
	add(c03NewCfg("sync", c03Tree, true, true, true, 6, env.Pick(3, 4), 4), env.Pick(4, 6))
	for _, cp := range []bool{false, true} {
		add(c03NewCfg("hist", c03Tree, true, cp, false, env.Pick(6, 7), d0, 8), d1)
	}
	return cfgs
}

// c03Progress is what is known about a part after its runs so far.
type c03Progress struct {
	best      *mc.Result // deepest completed run (or the only run)
	lastWall  float64    // wall time of the deepest completed run
	growth    float64    // transitions(depth d) / transitions(depth d-1), measured; 0 = unknown
	exhausted bool       // maxDepth reached, state space closed, a violation found or a run did not complete
}

// predict estimates the wall time of a run one level deeper than the best one: the whole BFS is repeated
// (replay based, nothing is kept between runs); with levels growing geometrically the total grows by the same
// factor as the last level.
func (p *c03Progress) predict() time.Duration {
	g := p.growth
	if g < 2 {
		g = 2
	}
	return time.Duration(p.lastWall * g * 1.25 * float64(time.Second))
}

// c03Deepen runs cfg to successively larger depth bounds until maxDepth, the budget or the prediction stops it.
func c03Deepen(env *mc.Env, cfg *c03Cfg, p *c03Progress, budget time.Duration) {
	start := time.Now()
	for !p.exhausted {
		d := cfg.depth
		if p.best != nil {
			d = p.best.MaxDepth + 1
			if need := p.predict(); need > budget-time.Since(start) {
				fmt.Printf("c03: part %s: depth %d not started (predicted %.0fs, %.0fs left for this part)\n", cfg.part, d, need.Seconds(), (budget - time.Since(start)).Seconds())
				return
			}
		}
		left := budget - time.Since(start)
		if left < time.Second {
			left = time.Second
		}
		r := c03RunPart(env, cfg, d, left)
		switch {
		case p.best == nil:
			p.best = r
		case r.Capped == "" || r.NumViolations() > 0:
			if p.best.Transitions > 0 {
				p.growth = float64(r.Transitions) / float64(p.best.Transitions)
			}
			p.best = r
		default:
			p.best.Diag(fmt.Sprintf("a further run to depth %d did not complete within the time budget (%s); its interrupted level is not counted", d, r.Capped))
		}
		p.lastWall = r.WallS
		if r.Capped != "" || r.NumViolations() > 0 || r.MaxDepth >= cfg.maxDepth || r.MaxDepth < d {
			p.exhausted = true // r.MaxDepth < d without a cap: the frontier emptied, the state space is closed
		}
	}
}

func c03Assumptions(cfg *c03Cfg) []string {
	return []string{
		"quota universe " + cfg.u.name + ": " + cfg.u.desc + "; every quota declares exactly cpu and memory in max and min (the webhook forces parent and children to declare the same max keys); every (max,min) level reachable by the alphabet satisfies the webhook rules",
		"pods always carry the quota-name label; a pod is created (informer add, pending) before it is attempted, attempted only while pending, unreserved only while reserved (framework order); PreFilter and Reserve of one scheduling cycle are not separated by other events; a deleted pod name may be created again (new incarnation)",
		"plugin arguments are the package defaults (min-quota scaling on, no hook plugins) except the two switches; bind / pod update events, quota deletion and multi quota trees are not part of the alphabet; re-parenting only in the parts of universe move; a quota tree reset only in the parts of universe reset (allow-lent-resource toggled)",
		"with runtime quota on, 'the current limit' is the value RefreshRuntime publishes on a shadow replay of the same history (its numeric correctness is property C02)",
		"counters are incremented once per judged execution (BFS repeats and violation confirmations re-execute and count again)",
	}
}

func c03RunPart(env *mc.Env, cfg *c03Cfg, depth int, budget time.Duration) *mc.Result {
	res := mc.NewResult("C03", cfg.part, "bfs")
	cfg.res = res
	res.Assumptions = c03Assumptions(cfg)
	var names []string
	for _, o := range cfg.ops {
		names = append(names, o.name)
	}
	res.Rule = fmt.Sprintf("every history up to the depth bound over the %d-event alphabet %v on a fresh real Plugin (universe %s: %s; EnableRuntimeQuota=%v, EnableCheckParentQuota=%v), successors by replay; "+
		"states are distinct canonical dumps of the whole GroupQuotaManager + the harness ledger (pod phases, max/min levels, 'max was lowered' flags); "+
		"every attempt is judged against the ledger, every state against used<=max", len(cfg.ops), names, cfg.u.name, cfg.u.desc, cfg.runtime, cfg.checkParent)
	penv := mc.LoadEnv() // own clock for this part; results are emitted through the unit's env
	penv.Budget = budget
	b := &mc.BFS{Res: res, Env: penv, New: func() mc.System { return c03NewSys(cfg) }, NumOps: len(cfg.ops),
		OpName: func(i int) string { return cfg.ops[i].name }, MaxDepth: depth, Repeats: env.Pick(0, 1)}
	b.Run()
	if res.Bounds == nil {
		res.Bounds = map[string]any{}
	}
	res.Bounds["pods"] = cfg.nPods
	res.Bounds["quotas"] = len(cfg.u.quotas)
	res.Bounds["target_depth"] = depth
	res.Bounds["map_order_repeats"] = b.Repeats
	res.WallS = penv.Elapsed().Seconds()
	if env.Replay == "" {
		for _, c := range []string{"admissions", "rejections", "invariant_checked_with_used_positive"} {
			if res.Counters[c] == 0 {
				res.Diag("VACUITY WARNING: counter " + c + " is zero")
			}
		}
	}
	fmt.Printf("c03: part %s target depth %d: completed depth %d, %d states, %d transitions, %d violations, %.1fs %s\n",
		cfg.part, depth, res.MaxDepth, res.States, res.Transitions, res.NumViolations(), res.WallS, res.Capped)
	return res
}

type c03Replay struct {
	Ops []string `json:"ops"`
}

func TestVerifC03Hist(t *testing.T) {
	// the explorers allocate a fresh manager per transition; trade memory (small here: only state hashes are kept)
	// for fewer collections
	if os.Getenv("GOGC") == "" {
		debug.SetGCPercent(800)
		debug.SetMemoryLimit(4 << 30)
	}
	env := mc.LoadEnv()
	cfgs := c03Plan(env)
	if env.Replay != "" {
		// `check C03 --replay F`: the engine's BFS re-executes exactly the stored history of the stored part
		var rp c03Replay
		part, _ := env.ReplayData(&rp)
		for _, cfg := range cfgs {
			if cfg.part == part {
				env.Emit(c03RunPart(env, cfg, cfg.depth, env.Budget))
			}
		}
		return
	}
	only := os.Getenv("VERIF_ONLY")
	sel := func(part string) bool {
		if only == "" {
			return true
		}
		re, err := regexp.Compile(only)
		if err != nil {
			return true
		}
		any := re.MatchString("smoke")
		for _, c := range cfgs {
			any = any || re.MatchString(c.part)
		}
		return !any || re.MatchString(part)
	}
	if sel("smoke") {
		c03Smoke(t, env)
	}
	var run []*c03Cfg
	for _, cfg := range cfgs {
		if sel(cfg.part) {
			run = append(run, cfg)
		}
	}
	remaining := func() time.Duration {
		if r := env.Budget - env.Elapsed(); r > time.Second {
			return r
		}
		return time.Second
	}
	// pass 1: every part within its share of the budget
	prog := map[string]*c03Progress{}
	left := 0
	for _, cfg := range run {
		left += cfg.weight
		prog[cfg.part] = &c03Progress{growth: cfg.growth}
	}
	floor := time.Duration(env.Pick(8, 30)) * time.Second // no part is starved by a tiny share
	for _, cfg := range run {
		b := remaining() * time.Duration(cfg.weight) / time.Duration(left)
		if b < floor {
			b = floor
		}
		if b > remaining() {
			b = remaining()
		}
		c03Deepen(env, cfg, prog[cfg.part], b)
		left -= cfg.weight
	}
	// pass 2: spend what is left on deepening further, cheapest predicted run first
	for {
		var next *c03Cfg
		for _, cfg := range run {
			p := prog[cfg.part]
			if !p.exhausted && p.predict() < remaining() && (next == nil || p.predict() < prog[next.part].predict()) {
				next = cfg
			}
		}
		if next == nil {
			break
		}
		before := prog[next.part].best
		b := prog[next.part].predict() * 2
		if b > remaining() {
			b = remaining()
		}
		c03Deepen(env, next, prog[next.part], b)
		if prog[next.part].best == before {
			prog[next.part].exhausted = true
		}
	}
	for _, cfg := range run {
		env.Emit(prog[cfg.part].best)
	}
}

// ---------------------------------------------------------------------------------------------------------
// smoke: the struct-literal plugin and the plugin built by the package's real constructor (New, through the
// package's own newPluginTestSuit fixture with fake clients and informers) agree on short closed-loop histories.

func c03Trace(cfg *c03Cfg, hist []string) string {
	cfg.res = mc.NewResult("C03", "smoke-scratch", "bfs")
	s := c03NewSys(cfg)
	var sb strings.Builder
	for _, n := range hist {
		op := -1
		for i, o := range cfg.ops {
			if o.name == n {
				op = i
			}
		}
		if op < 0 {
			panic("c03 smoke: unknown op " + n)
		}
		s.build()
		en, _ := s.applyReal(op, false) // outcomes only; the ledger oracle is not what is compared here
		fmt.Fprintf(&sb, "%s enabled=%v pods=%v;", n, en, s.podSt)
		for q := range cfg.u.quotas {
			sum, _ := s.mgr.GetQuotaSummary(cfg.u.quotas[q].name, false)
			fmt.Fprintf(&sb, " %s used=%s np=%s req=%s rt=%s", cfg.u.quotas[q].name, printResourceList(sum.Used), printResourceList(sum.NonPreemptibleUsed),
				printResourceList(sum.Request), printResourceList(sum.Runtime))
		}
		sb.WriteString("\n")
	}
	return sb.String()
}

func c03Smoke(t *testing.T, env *mc.Env) {
	res := mc.NewResult("C03", "smoke", "enumeration")
	res.Rule = "fixed closed-loop histories executed on the struct-literal plugin and on a plugin built by the real constructor New (package fixture newPluginTestSuit); outcomes and summaries must be identical"
	hists := [][]string{
		{"create(a1)", "attempt(a1)", "create(a2)", "attempt(a2)", "create(a3)", "attempt(a3)", "unreserve(a1)", "delete(a2)"},
		{"create(b1)", "attempt(b1)", "create(b2)", "attempt(b2)", "lowerMax(c03-p)", "create(a1)", "attempt(a1)", "addNode(n2)", "create(c1)", "attempt(c1)"},
	}
	agree := int64(0)
	for _, rt := range []bool{false, true} {
		for _, h := range hists {
			lit := c03NewCfg("smoke", c03Tree, rt, true, false, 6, 0, 1)
			viaNew := c03NewCfg("smoke", c03Tree, rt, true, false, 6, 0, 1)
			viaNew.newPlugin = func(cfg *c03Cfg) *Plugin {
				// a fresh real plugin per system: New() through the fixture, then only the two switches are set
				s2 := newPluginTestSuit(t, nil)
				p := s2.createPlugin(t).(*Plugin)
				p.pluginArgs.EnableRuntimeQuota = cfg.runtime
				p.pluginArgs.EnableCheckParentQuota = cfg.checkParent
				return p
			}
			a, b := c03Trace(lit, h), c03Trace(viaNew, h)
			res.Evaluations++
			if a == b {
				agree++
			} else {
				res.Diag(fmt.Sprintf("literal and constructor-built plugin disagree on %v (runtime=%v):\n%s--- vs ---\n%s", h, rt, a, b))
				t.Errorf("C03 smoke: struct-literal plugin and New()-built plugin disagree; harness fixture is not faithful:\n%s--- vs ---\n%s", a, b)
			}
		}
	}
	setLoglevel("0") // the fixture raises klog verbosity to 5; the explorations below must not pay for log formatting
	fmt.Println()
	res.Count("histories_agreeing", agree)
	res.Traces = res.Evaluations
	res.Distinct = agree
	res.Exhaustive = true
	res.Sample(hists[0])
	env.Emit(res)
}
