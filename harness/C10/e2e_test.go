package cpusuppress

// C10 part "e2e": suppressBECPU() -- the function the plugin's periodic loop runs -- with the package's own gomock
// fixtures (StatesInformer, MetricCache, Querier, AggregateResultFactory), the real cgroup reader and the real
// ResourceUpdateExecutor writing cpuset.cpus / cpu.cfs_quota_us files under a temp cgroup root. Serial: the cgroup
// root (system.Conf) and metriccache.DefaultAggregateResultFactory are package globals.

import (
	"fmt"
	"hash/fnv"
	"os"
	"strconv"
	"strings"
	"testing"

	"go.uber.org/mock/gomock"
	corev1 "k8s.io/api/core/v1"
	"k8s.io/apimachinery/pkg/api/resource"
	metav1 "k8s.io/apimachinery/pkg/apis/meta/v1"
	"k8s.io/utils/ptr"

	apiext "github.com/koordinator-sh/koordinator/apis/extension"
	slov1alpha1 "github.com/koordinator-sh/koordinator/apis/slo/v1alpha1"
	"github.com/koordinator-sh/koordinator/pkg/koordlet/metriccache"
	mockmetriccache "github.com/koordinator-sh/koordinator/pkg/koordlet/metriccache/mockmetriccache"
	maframework "github.com/koordinator-sh/koordinator/pkg/koordlet/metricsadvisor/framework"
	"github.com/koordinator-sh/koordinator/pkg/koordlet/qosmanager/framework"
	"github.com/koordinator-sh/koordinator/pkg/koordlet/resourceexecutor"
	"github.com/koordinator-sh/koordinator/pkg/koordlet/statesinformer"
	mockstatesinformer "github.com/koordinator-sh/koordinator/pkg/koordlet/statesinformer/mockstatesinformer"
	"github.com/koordinator-sh/koordinator/pkg/koordlet/util/system"
	"github.com/koordinator-sh/koordinator/pkg/koordlet/util/testutil"
	"github.com/koordinator-sh/koordinator/pkg/zzverif/mc"
)

type c10E2ECase struct {
	Layout   string     `json:"layout"`
	LSESet   []int      `json:"lse_pod_cpuset"` // nil: the LSE pod has no cpuset annotation
	LSUsage  int64      `json:"ls_pod_usage_cpus"`
	HostBENil int64     `json:"be_hostapp_no_cgrouppath_usage_cpus"` // 0: no host application in the NodeSLO
	Topo     c10TopoCfg `json:"topo"`
	Quota    bool       `json:"cfs_quota_policy"`
	Thr      int64      `json:"threshold_percent"`
	Min      *int64     `json:"min_percent"`
	Old      []int      `json:"old_be_cpuset"`
	CurQuota int64      `json:"current_quota"`

	strictFile bool // the quota clause is judged on the file content even where it differs from the last update handed over
}

// c10Tee records every update and hands it to the real executor.
type c10Tee struct {
	c10Exec
	real resourceexecutor.ResourceUpdateExecutor
}

func (e *c10Tee) Update(c bool, u resourceexecutor.ResourceUpdater) (bool, error) {
	e.rec(u)
	return e.real.Update(c, u)
}
func (e *c10Tee) UpdateBatch(c bool, us ...resourceexecutor.ResourceUpdater) {
	for _, u := range us {
		e.rec(u)
	}
	e.real.UpdateBatch(c, us...)
}
func (e *c10Tee) LeveledUpdateBatch(uss [][]resourceexecutor.ResourceUpdater) {
	for _, us := range uss {
		for _, u := range us {
			e.rec(u)
		}
	}
	e.real.LeveledUpdateBatch(uss)
}
func (e *c10Tee) Run(stop <-chan struct{}) { e.real.Run(stop) }

const (
	c10E2ELSEUsage = 1 // CPUs
	c10E2EBEUsage  = 1
	c10E2ESysUsage = 1
)

func c10ReadFile(p string) string {
	b, err := os.ReadFile(p)
	if err != nil {
		return "<unreadable>"
	}
	return strings.TrimSpace(string(b))
}

func c10RunE2ECase(t *testing.T, tree *c10Tree, l *c10Layout, c *c10E2ECase) (ps string, tee *c10Tee) {
	return c10RunE2ERounds(t, tree, l, c, nil, nil)
}

// c10RunE2ERounds: with policies == nil one round with c's policy; otherwise len(policies) successive rounds on the SAME
// CPUSuppress instance (same executor and resource cache), the NodeSLO's suppress policy switching between the rounds
// (true = cfsQuota); after every round `after` gets the round's case (policy of the round, BE cpuset and quota as they were
// before the round) and what the round wrote.
func c10RunE2ERounds(t *testing.T, tree *c10Tree, l *c10Layout, c *c10E2ECase, policies []bool, after func(round int, rc *c10E2ECase, ps string, tee *c10Tee)) (ps string, tee *c10Tee) {
	ctl := gomock.NewController(t)
	defer ctl.Finish()
	lse := c10Pod{QoS: "LSE"}
	if c.LSESet != nil {
		lse.CPUSet = c10Fmt(c.LSESet)
	}
	pods := []*statesinformer.PodMeta{c10BuildPod(0, c10Pod{QoS: "LS"}), c10BuildPod(1, lse), c10BuildPod(2, c10Pod{QoS: "BE"})}
	usage := []int64{c.LSUsage, c10E2ELSEUsage, c10E2EBEUsage}
	node := &corev1.Node{ObjectMeta: metav1.ObjectMeta{Name: "node"}, Status: corev1.NodeStatus{
		Capacity:    corev1.ResourceList{corev1.ResourceCPU: *resource.NewQuantity(int64(l.N), resource.DecimalSI)},
		Allocatable: corev1.ResourceList{corev1.ResourceCPU: *resource.NewQuantity(int64(l.N), resource.DecimalSI)}}}
	policy := slov1alpha1.CPUSetPolicy
	if c.Quota {
		policy = slov1alpha1.CPUCfsQuotaPolicy
	}
	slo := testutil.GetNodeSLOByThreshold(&slov1alpha1.ResourceThresholdStrategy{Enable: ptr.To(true), CPUSuppressPolicy: policy,
		CPUSuppressThresholdPercent: ptr.To(c.Thr), CPUSuppressMinPercent: c.Min})

	if c.HostBENil > 0 { // a BE host application without cgroupPath: runs outside kubepods besteffort, must be deducted
		slo.Spec.HostApplications = []slov1alpha1.HostApplicationSpec{{Name: "host-be-nil", QoS: apiext.QoSBE}}
	}

	si := mockstatesinformer.NewMockStatesInformer(ctl)
	si.EXPECT().GetAllPods().Return(pods).AnyTimes()
	si.EXPECT().GetNode().Return(node).AnyTimes()
	si.EXPECT().GetNodeSLO().DoAndReturn(func() *slov1alpha1.NodeSLO { return slo }).AnyTimes()
	si.EXPECT().GetNodeTopo().Return(c10BuildTopo(c.Topo)).AnyTimes()

	mcache := mockmetriccache.NewMockMetricCache(ctl)
	mcache.EXPECT().Get(metriccache.NodeCPUInfoKey).Return(&metriccache.NodeCPUInfo{ProcessorInfos: l.Procs}, true).AnyTimes()
	factory := mockmetriccache.NewMockAggregateResultFactory(ctl)
	metriccache.DefaultAggregateResultFactory = factory
	querier := mockmetriccache.NewMockQuerier(ctl)
	querier.EXPECT().Close().AnyTimes()
	mcache.EXPECT().Querier(gomock.Any(), gomock.Any()).Return(querier, nil).AnyTimes()
	nodeMeta, err := metriccache.NodeCPUUsageMetric.BuildQueryMeta(nil)
	if err != nil {
		t.Fatal(err)
	}
	total := int64(c10E2ESysUsage)
	for i, pm := range pods {
		total += usage[i]
		meta, err := metriccache.PodCPUUsageMetric.BuildQueryMeta(metriccache.MetricPropertiesFunc.Pod(string(pm.Pod.UID)))
		if err != nil {
			t.Fatal(err)
		}
		testutil.BuildMockQueryResult(ctl, querier, factory, meta, float64(usage[i]))
	}
	if c.HostBENil > 0 {
		total += c.HostBENil
		meta, err := metriccache.HostAppCPUUsageMetric.BuildQueryMeta(metriccache.MetricPropertiesFunc.HostApplication("host-be-nil"))
		if err != nil {
			t.Fatal(err)
		}
		testutil.BuildMockQueryResult(ctl, querier, factory, meta, float64(c.HostBENil))
	}
	testutil.BuildMockQueryResult(ctl, querier, factory, nodeMeta, float64(total))

	// current cgroup state
	for _, f := range []string{tree.rootFile, tree.podFile, tree.ctrFile} {
		if err := os.WriteFile(f, []byte(c10Fmt(c.Old)), 0o644); err != nil {
			t.Fatal(err)
		}
	}
	if err := os.WriteFile(tree.quotaFile, []byte(strconv.FormatInt(c.CurQuota, 10)), 0o644); err != nil {
		t.Fatal(err)
	}
	opt := &framework.Options{StatesInformer: si, MetricCache: mcache, Config: framework.NewDefaultConfig(), MetricAdvisorConfig: maframework.NewDefaultConfig()}
	r := newTestCPUSuppress(opt) // the package's own constructor for tests: real executor + real cgroup reader
	tee = &c10Tee{real: r.executor}
	r.executor = tee
	stop := make(chan struct{})
	defer close(stop)
	r.init(stop)
	if policies == nil {
		ps = c10Guard(func() { r.suppressBECPU() })
		return ps, tee
	}
	for i, q := range policies {
		rc := *c
		rc.Quota = q
		rc.strictFile = true
		rc.Old, _ = c10ParseList(c10ReadFile(tree.ctrFile))
		rc.CurQuota, _ = strconv.ParseInt(c10ReadFile(tree.quotaFile), 10, 64)
		pol := slov1alpha1.CPUSetPolicy
		if q {
			pol = slov1alpha1.CPUCfsQuotaPolicy
		}
		ns := slo.DeepCopy() // the states informer hands out a new object after every NodeSLO update
		ns.Spec.ResourceUsedThresholdWithBE.CPUSuppressPolicy = pol
		slo = ns
		tee.writes = nil
		ps = c10Guard(func() { r.suppressBECPU() })
		after(i, &rc, ps, tee)
		if ps != "" {
			break
		}
	}
	return ps, tee
}

func c10JudgeE2E(tree *c10Tree, l *c10Layout, c *c10E2ECase, ps string, tee *c10Tee, cnt func(string, int64)) []mc.Violation {
	var vs []mc.Violation
	add := func(key, what string) {
		vs = append(vs, mc.Violation{Key: key, What: fmt.Sprintf("%s; case %+v min=%s", what, *c, c10PtrStr(c.Min)), Replay: c})
	}
	pods := []c10Pod{{QoS: "LS"}, {QoS: "LSE", CPUSet: c10Fmt(c.LSESet)}, {QoS: "BE"}}
	prot := c10Protected(l, pods, c.Topo)
	elig := "eligible-cpus"
	if prot.eligMin == 0 {
		elig = "no-eligible-cpu"
		cnt("every_cpu_protected_cases", 1)
	}
	if ps != "" {
		part := "cpuset"
		if c.Quota {
			part = "quota"
		}
		// same key as the direct part: one defect class, one key
		add("C10|"+part+"|panic|"+elig+"|"+c10PanicKind(ps), fmt.Sprintf("agent crash: suppressBECPU panicked (%s) with %d eligible CPUs (protected %v of %v)",
			c10PanicHead(ps), prot.eligMin, prot.sureProt.sorted(), prot.existing.sorted()))
		return vs
	}
	cnt("no_panic_checked", 1)
	// budget from the statement, micro-CPUs; the code may be up to the rounding band above it
	bc := &c10BudCase{N: l.N, Thr: c.Thr, Min: c.Min, LS: c.LSUsage * 1e6, LSR: c10E2ELSEUsage * 1e6, BE: c10E2EBEUsage * 1e6, Sys: c10E2ESysUsage * 1e6, HostBENil: c.HostBENil * 1e6}
	exact := c10BudExact(bc)
	// every cpuset.cpus file that was written: distinct existing unprotected CPUs.
	// what the agent finally decided per cpuset.cpus file (last update handed to the executor) and what the file holds
	written := map[string]bool{}
	last := map[string]string{}
	quotaWritten, lastQuota := false, ""
	for _, w := range tee.writes {
		if w.Type == tree.cpusetType {
			written[w.Path] = true
			last[w.Path] = w.Value
		}
		if w.Type == tree.quotaType && w.Path == tree.quotaFile {
			quotaWritten = true
			lastQuota = w.Value
		}
	}
	sets := map[string][]int{}
	for path := range written {
		val := c10ReadFile(path)
		ids, ok := c10ParseList(val)
		lastIDs, ok2 := c10ParseList(last[path])
		if !ok || !ok2 {
			add("C10|e2e|malformed-cpuset", fmt.Sprintf("%s holds %q, last update %q", path, val, last[path]))
			continue
		}
		if c10Fmt(c10SetOf(ids).sorted()) != c10Fmt(c10SetOf(lastIDs).sorted()) {
			// the real executor did not bring the file to the decided value (e.g. rejected by validation): judge the decision
			cnt("file_differs_from_last_update", 1)
			ids = lastIDs
		}
		sets[path] = ids
		if cl, what := prot.c10JudgeSet(ids); cl != "" {
			add("C10|e2e|"+cl, fmt.Sprintf("cpuset.cpus file %s: %s", path, what))
		} else if prot.nProtected > 0 && len(ids) > 0 {
			cnt("protection_clause_nontrivial", 1)
		}
	}
	if c.Quota {
		cur := c10ReadFile(tree.quotaFile)
		if quotaWritten && cur != lastQuota {
			cnt("file_differs_from_last_update", 1)
			if !c.strictFile {
				cur = lastQuota // single rounds: judge the agent's decision, not what the executor made of it
			}
			// rounds on one instance: what counts is what the BE cgroup ends up with (an update handed to the executor's
			// cacheable path can be skipped against a stale cache entry)
		}
		w, err := strconv.ParseInt(cur, 10, 64)
		if err != nil {
			add("C10|e2e|quota|malformed-value", fmt.Sprintf("cpu.cfs_quota_us holds %q", cur))
			return vs
		}
		ok, how := false, ""
		for b := exact / 1000; b <= (exact+c10Band)/1000; b++ { // every budget inside the rounding band
			if ok, how = c10QuotaAllowed(c10QuotaCase{N: l.N, BudgetMilli: b, Current: c.CurQuota}, c10QuotaTarget(b), quotaWritten, w); ok {
				break
			}
		}
		if !ok {
			add("C10|e2e|quota|value", fmt.Sprintf("cpu.cfs_quota_us = %d (written=%v, was %d); statement: budget %d micro-CPUs x period, floored by the minimum quota = %d", w, quotaWritten, c.CurQuota, exact, c10QuotaTarget(exact/1000)))
		} else {
			cnt("quota_outcome_"+how, 1)
		}
		return vs
	}
	// cpuset policy: count clauses on what the BE containers finally run on
	derived := sets[tree.ctrFile]
	step := c10StepLimit(l.N)
	floorDiv := func(a, b int64) int64 {
		q := a / b
		if a%b != 0 && (a < 0) != (b < 0) {
			q--
		}
		return q
	}
	wantOf := func(micro int64) int64 { // the budget in whole milli-CPUs, then CPUs rounded up, at least two, step limited
		w := c10CeilDiv1000(floorDiv(micro, 1000))
		if w < 2 {
			w = 2
		}
		if lim := int64(len(c.Old)) + step; w > lim {
			w = lim
		}
		return w
	}
	lo, hi := wantOf(exact), wantOf(exact+c10Band)
	if int64(len(derived)) > hi {
		add("C10|e2e|count|over-budget", fmt.Sprintf("BE containers run on %v (%d CPUs), budget %d micro-CPUs allows %d (old size %d, step %d)", derived, len(derived), exact, hi, len(c.Old), step))
	}
	if int64(prot.eligMin) >= hi {
		if n := int64(len(derived)); n < lo || n > hi {
			add("C10|e2e|count|not-exact", fmt.Sprintf("BE containers run on %v (%d CPUs, written=%v), expected exactly %d: %d eligible CPUs exist (budget %d micro-CPUs, old size %d, step %d)",
				derived, len(derived), written[tree.ctrFile], lo, prot.eligMin, exact, len(c.Old), step))
		} else {
			cnt("exact_count_checked", 1)
		}
	} else {
		cnt("budget_above_eligible_cases", 1)
	}
	return vs
}

// c10RunE2ERoundsPart: every policy sequence of the given length on one CPUSuppress instance; every round is judged like a
// single round whose starting files are what the previous round left (seed C10-2: a cached quota write skipped after the
// uncached recovery to -1 left BE unlimited in quota mode).
func c10RunE2ERoundsPart(t *testing.T, env *mc.Env, tree *c10Tree, layouts []*c10Layout) {
	res := mc.NewResult("C10", "e2e-rounds", "enumeration")
	ds := mc.NewDistinctSet()
	saved := metriccache.DefaultAggregateResultFactory
	defer func() { metriccache.DefaultAggregateResultFactory = saved }()
	m25 := int64(25)
	type tm struct {
		thr int64
		min *int64
	}
	tms := []tm{{65, nil}, {100, &m25}}
	nRounds := env.Pick(4, 5)
	res.Exhaustive = true
	cnt := func(k string, n int64) { res.Count(k, n) }
	var total int64
outer:
	for _, l := range layouts {
		olds := c10DedupSets([][]int{l.ids(), c10FirstK(min(2, l.N))})
		rx := mc.Radix{Dims: []int{1 << uint(nRounds), 2, len(tms), len(olds)}}
		total += rx.Size()
		for i := int64(0); i < rx.Size(); i++ {
			if env.Expired() {
				res.Exhaustive = false
				res.Capped = fmt.Sprintf("time budget hit in layout %s after %d of %d sequences", l.Name, i, rx.Size())
				break outer
			}
			d := rx.Decode(i, make([]int, 0, 4))
			pol := make([]bool, nRounds)
			seq := ""
			for k := range pol {
				pol[k] = d[0]&(1<<uint(k)) != 0
				seq += map[bool]string{true: "Q", false: "S"}[pol[k]]
			}
			c := &c10E2ECase{Layout: l.Name, LSUsage: []int64{0, 3}[d[1]], Thr: tms[d[2]].thr, Min: tms[d[2]].min, Old: olds[d[3]], CurQuota: -1}
			if d[3] == 1 {
				c.CurQuota = int64(l.N) * system.DefaultCPUCFSPeriod
			}
			res.Evaluations++
			switches := 0
			c10RunE2ERounds(t, tree, l, c, pol, func(round int, rc *c10E2ECase, ps string, tee *c10Tee) {
				cnt("rounds_judged", 1)
				if round > 0 && pol[round] != pol[round-1] {
					switches++
					cnt("rounds_after_a_policy_switch", 1)
				}
				if round > 1 && pol[round] && !pol[round-1] && pol[round-2] {
					cnt("quota_rounds_after_quota_then_cpuset", 1)
				}
				for _, v := range c10JudgeE2E(tree, l, rc, ps, tee, cnt) {
					v.Key += "|round-of-sequence"
					v.What = fmt.Sprintf("policy sequence %s, round %d: %s", seq, round+1, v.What)
					res.Violate(v)
				}
			})
			if switches > 0 {
				h := fnv.New64a()
				fmt.Fprint(h, *c, c10PtrStr(c.Min), seq, c10ReadFile(tree.ctrFile), c10ReadFile(tree.quotaFile))
				ds.AddHash(h.Sum64())
			}
			if i%37 == 5 {
				res.Sample(fmt.Sprintf("%+v min=%s policies %s -> containers:%q quota:%s", *c, c10PtrStr(c.Min), seq, c10ReadFile(tree.ctrFile), c10ReadFile(tree.quotaFile)))
			}
		}
	}
	res.Traces = res.Evaluations
	res.Distinct = ds.Len()
	var names []string
	for _, l := range layouts {
		names = append(names, l.Name)
	}
	res.Rule = fmt.Sprintf("%d successive suppressBECPU() rounds on ONE CPUSuppress instance (real executor with its resource cache, real files) for every policy sequence in {cpuset,cfsQuota}^%d x layouts%v x LS pod usage{0,3} x (threshold,min){(65,nil),(100,25)} x (old BE cpuset,current quota){(all,unset),({0,1},N periods)}; every round judged as a single round starting from the files the previous round left; non-trivial = the sequence switches policy at least once", nRounds, nRounds, names)
	res.Bounds = map[string]any{"sequences": total, "rounds": nRounds}
	res.Assumptions = []string{"rounds follow each other inside the executor's forced-update interval (no wall-clock wait between rounds)"}
	env.Emit(res)
}

func c10RunE2EPart(t *testing.T, env *mc.Env, tree *c10Tree, layouts []*c10Layout) {
	res := mc.NewResult("C10", "e2e", "enumeration")
	ds := mc.NewDistinctSet()
	saved := metriccache.DefaultAggregateResultFactory
	defer func() { metriccache.DefaultAggregateResultFactory = saved }()
	m25 := int64(25)
	type tm struct {
		thr int64
		min *int64
	}
	tms := []tm{{65, nil}, {100, &m25}, {0, nil}}
	res.Exhaustive = true
	var total int64
	cnt := func(k string, n int64) { res.Count(k, n) }
outer:
	for _, l := range layouts {
		lseSets := append([][]int{nil}, c10DedupSets([][]int{l.setCore0(), l.ids()})...)
		reserved := c10DedupSets([][]int{nil, c10FirstK(min(2, l.N)), l.ids()})
		sys := c10DedupSets([][]int{nil, l.setUpperHalf(), l.ids()})
		olds := c10DedupSets([][]int{l.ids(), c10FirstK(min(2, l.N))})
		rx := mc.Radix{Dims: []int{len(lseSets), 3, len(reserved), len(sys), 2, 2, len(tms), len(olds)}}
		total += rx.Size()
		for i := int64(0); i < rx.Size(); i++ {
			if env.Expired() {
				res.Exhaustive = false
				res.Capped = fmt.Sprintf("time budget hit in layout %s after %d of %d cases", l.Name, i, rx.Size())
				break outer
			}
			d := rx.Decode(i, make([]int, 0, 8))
			c := &c10E2ECase{Layout: l.Name, LSESet: lseSets[d[0]], LSUsage: []int64{0, 3, 0}[d[1]], HostBENil: []int64{0, 0, 3}[d[1]],
				Topo:  c10TopoCfg{Reserved: reserved[d[2]], Sys: sys[d[3]], Static: d[5] == 1},
				Quota: d[4] == 1, Thr: tms[d[6]].thr, Min: tms[d[6]].min, Old: olds[d[7]]}
			c.CurQuota = -1
			if d[7] == 1 {
				c.CurQuota = int64(l.N) * system.DefaultCPUCFSPeriod
			}
			res.Evaluations++
			ps, tee := c10RunE2ECase(t, tree, l, c)
			for _, v := range c10JudgeE2E(tree, l, c, ps, tee, cnt) {
				res.Violate(v)
			}
			if len(tee.writes) > 0 {
				h := fnv.New64a()
				fmt.Fprint(h, *c, c10PtrStr(c.Min), c10ReadFile(tree.ctrFile), c10ReadFile(tree.rootFile), c10ReadFile(tree.quotaFile))
				ds.AddHash(h.Sum64())
			}
			if i%211 == 5 {
				res.Sample(fmt.Sprintf("%+v min=%s -> root:%q containers:%q quota:%s", *c, c10PtrStr(c.Min), c10ReadFile(tree.rootFile), c10ReadFile(tree.ctrFile), c10ReadFile(tree.quotaFile)))
			}
		}
	}
	res.Traces = res.Evaluations
	res.Distinct = ds.Len()
	var names []string
	for _, l := range layouts {
		names = append(names, l.Name)
	}
	res.Rule = fmt.Sprintf("suppressBECPU() end to end (serial, real files) for every member of layouts%v x LSE pod cpuset{none,core 0,all} x (LS pod usage, BE host app without cgroupPath usage){(0,none),(3,none),(0,3)} x reservedCPUs{none,{0,1},all} x system-QoS exclusive{none,upper half,all} x policy{cpuset,cfsQuota} x kubelet{none,static} x (threshold,min){(65,nil),(100,25),(0,nil)} x (old BE cpuset,current quota){(all,unset),({0,1},N periods)}; non-trivial = something was written; distinct = distinct (case, file contents)", names)
	res.Bounds = map[string]any{"cases": total}
	res.Assumptions = []string{"e2e: LSE pod uses 1 CPU, BE pod 1 CPU, system 1 CPU; no node reservation in the budget; cgroup v1; default feature gates (BECPUSuppress on, BECPUManager off)"}
	env.Emit(res)
}
