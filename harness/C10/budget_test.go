package cpusuppress

// C10 part "budget": calculateBESuppressCPU (and helpers.CalculateFilterPodsUsed / GetNodeResourceReserved behind it)
// on every member of capacity x threshold% x min% x non-BE pod usage x BE pod usage x host-app usage x system usage x
// kubelet reservation x annotation reservation. Oracle: exact integer arithmetic in micro-CPUs written from the
// statement, the accepted rounding band, and neighbour monotonicity in every non-BE input.

import (
	"fmt"

	corev1 "k8s.io/api/core/v1"
	"k8s.io/apimachinery/pkg/api/resource"
	metav1 "k8s.io/apimachinery/pkg/apis/meta/v1"
	"k8s.io/apimachinery/pkg/types"

	apiext "github.com/koordinator-sh/koordinator/apis/extension"
	slov1alpha1 "github.com/koordinator-sh/koordinator/apis/slo/v1alpha1"
	"github.com/koordinator-sh/koordinator/pkg/koordlet/statesinformer"
	"github.com/koordinator-sh/koordinator/pkg/zzverif/mc"
)

// all usages are micro-CPUs (1e-6 CPU)
type c10BudCase struct {
	N         int    `json:"capacity_cpus"`
	Thr       int64  `json:"threshold_percent"`
	Min       *int64 `json:"min_percent"`
	LS        int64  `json:"ls_pod_usage_u"`       // pod labelled LS
	LSR       int64  `json:"lsr_pod_usage_u"`      // pod labelled LSR
	NoLabel   int64  `json:"unlabelled_pod_usage_u"` // unlabelled burstable pod (non-BE)
	BE        int64  `json:"be_pod_usage_u"`       // pod labelled BE (kube besteffort)
	KubeBE    int64  `json:"kube_be_pod_usage_u"`  // unlabelled kube-besteffort pod (BE)
	HostLS    int64  `json:"ls_hostapp_usage_u"`   // host application with QoS LS
	HostBE    int64  `json:"be_hostapp_usage_u"`   // host application with QoS BE under the besteffort dir
	Sys       int64  `json:"system_usage_u"`       // node usage minus all pods and host apps (may be negative: stale metrics)
	KubeletR  int64  `json:"kubelet_reserved_u"`   // capacity - allocatable
	AnnoR     int64  `json:"anno_reserved_u"`      // node.koordinator.sh/reservation (resources.cpu, or |reservedCPUs| when AnnoCPUs)
	AnnoCPUs  bool   `json:"anno_by_reserved_cpus"`
	NoMetrics bool   `json:"hostapp_without_metric"` // an additional host app that has no metric (must be ignored)
	// BE host applications that do NOT run inside the kube besteffort hierarchy (not throttled by BE suppression => deducted)
	HostBENil       int64  `json:"be_hostapp_no_cgrouppath_usage_u"` // qos=BE, cgroupPath absent: koordlet's default host dir under the cgroup root
	HostBEOther     int64  `json:"be_hostapp_other_base_usage_u"`    // qos=BE, explicit cgroupPath with base HostBEOtherBase
	HostBEOtherBase string `json:"be_hostapp_other_base"`            // CgroupRoot | Kubepods | KubepodsBurstable; "" = no such app
}

// c10HostAppThrottled is the harness' reading of "host applications" in the statement: a host application's usage is
// deducted from the BE budget unless the application is itself best-effort AND runs inside the kube besteffort cgroup
// hierarchy, the only place the suppression (cpuset / cfs quota of kubepods besteffort) throttles. From the NodeSLO
// API: spec.hostApplications[].cgroupPath.base names the hierarchy (CgroupRoot, Kubepods, KubepodsBurstable,
// KubepodsBesteffort); without cgroupPath the application runs in koordlet's default host directory directly under the
// cgroup root, i.e. outside kubepods besteffort.
func c10HostAppThrottled(qos string, hasCgroupPath bool, base string) bool {
	return qos == "BE" && hasCgroupPath && base == string(slov1alpha1.CgroupBaseTypeKubeBesteffort)
}

const c10Band = int64(3000) // micro-CPUs: three float->milli truncations, each raises the budget by < 1 milli

func c10f(u int64) float64 { return float64(u) / 1e6 }

func c10BudPod(name, qos string, kubeBE bool) *statesinformer.PodMeta {
	pod := &corev1.Pod{ObjectMeta: metav1.ObjectMeta{Namespace: "ns", Name: name, UID: types.UID("uid-" + name), Labels: map[string]string{}}}
	if qos != "" {
		pod.Labels[apiext.LabelPodQoS] = qos
	}
	rl := corev1.ResourceList{}
	if kubeBE {
		rl[apiext.BatchCPU] = resource.MustParse("1000")
		pod.Status.QOSClass = corev1.PodQOSBestEffort
	} else {
		rl[corev1.ResourceCPU] = resource.MustParse("1")
		pod.Status.QOSClass = corev1.PodQOSBurstable
	}
	pod.Spec.Containers = []corev1.Container{{Name: "c", Resources: corev1.ResourceRequirements{Requests: rl}}}
	return &statesinformer.PodMeta{Pod: pod}
}

type c10BudFixture struct {
	pods     []*statesinformer.PodMeta
	hostApps []slov1alpha1.HostApplicationSpec
}

func c10NewBudFixture() *c10BudFixture {
	f := &c10BudFixture{}
	f.pods = []*statesinformer.PodMeta{
		c10BudPod("ls", "LS", false), c10BudPod("lsr", "LSR", false), c10BudPod("nolabel", "", false),
		c10BudPod("be", "BE", true), c10BudPod("kubebe", "", true),
	}
	f.hostApps = []slov1alpha1.HostApplicationSpec{
		{Name: "host-ls", QoS: apiext.QoSLS},
		{Name: "host-be", QoS: apiext.QoSBE, CgroupPath: &slov1alpha1.CgroupPath{Base: slov1alpha1.CgroupBaseTypeKubeBesteffort}},
		{Name: "host-nometric", QoS: apiext.QoSLS},
	}
	return f
}

// c10BudRun executes the real code on one case and returns the budget in milli-CPUs.
func c10BudRun(f *c10BudFixture, c *c10BudCase) (milli int64, ps string) {
	node := &corev1.Node{ObjectMeta: metav1.ObjectMeta{Name: "node"}}
	capQ := *resource.NewQuantity(int64(c.N), resource.DecimalSI)
	node.Status.Capacity = corev1.ResourceList{corev1.ResourceCPU: capQ}
	node.Status.Allocatable = corev1.ResourceList{corev1.ResourceCPU: *resource.NewMilliQuantity(int64(c.N)*1000-c.KubeletR/1000, resource.DecimalSI)}
	if c.AnnoCPUs {
		node.Annotations = map[string]string{apiext.AnnotationNodeReservation: fmt.Sprintf(`{"reservedCPUs":%q}`, c10Fmt(c10FirstK(int(c.AnnoR/1e6))))}
	} else if c.AnnoR > 0 {
		node.Annotations = map[string]string{apiext.AnnotationNodeReservation: fmt.Sprintf(`{"resources":{"cpu":"%dm"}}`, c.AnnoR/1000)}
	}
	podMetrics := map[string]float64{
		string(f.pods[0].Pod.UID): c10f(c.LS), string(f.pods[1].Pod.UID): c10f(c.LSR), string(f.pods[2].Pod.UID): c10f(c.NoLabel),
		string(f.pods[3].Pod.UID): c10f(c.BE), string(f.pods[4].Pod.UID): c10f(c.KubeBE),
	}
	hostMetrics := map[string]float64{"host-ls": c10f(c.HostLS), "host-be": c10f(c.HostBE), "host-be-nil": c10f(c.HostBENil)}
	hostApps := make([]slov1alpha1.HostApplicationSpec, 0, 5)
	hostApps = append(hostApps, f.hostApps[0], f.hostApps[1], slov1alpha1.HostApplicationSpec{Name: "host-be-nil", QoS: apiext.QoSBE})
	if c.HostBEOtherBase != "" {
		hostApps = append(hostApps, slov1alpha1.HostApplicationSpec{Name: "host-be-other", QoS: apiext.QoSBE,
			CgroupPath: &slov1alpha1.CgroupPath{Base: slov1alpha1.CgroupBaseType(c.HostBEOtherBase), RelativePath: "host-be-other"}})
		hostMetrics["host-be-other"] = c10f(c.HostBEOther)
	}
	if c.NoMetrics {
		hostApps = append(hostApps, f.hostApps[2])
	}
	// what the node metric reports: everything that runs on the node (exact in micro-CPUs, then one conversion)
	nodeUsage := c10f(c.Sys + c.LS + c.LSR + c.NoLabel + c.BE + c.KubeBE + c.HostLS + c.HostBE + c.HostBENil + c.HostBEOther)
	r := &CPUSuppress{}
	ps = c10Guard(func() {
		q := r.calculateBESuppressCPU(node, nodeUsage, podMetrics, f.pods, hostApps, hostMetrics, c.Thr, c.Min)
		milli = q.MilliValue()
	})
	return
}

// c10BudExact is the statement: capacity x threshold - nonBE pods - nonBE host apps - max(system, reservation),
// floored by the configured minimum; in micro-CPUs.
func c10BudExact(c *c10BudCase) int64 {
	capU := int64(c.N) * 1e6
	sys := c.Sys
	if sys < 0 {
		sys = 0
	}
	reserved := c.KubeletR
	if c.AnnoR > reserved {
		reserved = c.AnnoR
	}
	if reserved > sys {
		sys = reserved
	}
	e := capU*c.Thr/100 - c.LS - c.LSR - c.NoLabel - sys
	// host applications: (qos, has cgroupPath, base, usage)
	for _, h := range []struct {
		qos, base string
		path      bool
		u         int64
	}{{"LS", "", false, c.HostLS}, {"BE", string(slov1alpha1.CgroupBaseTypeKubeBesteffort), true, c.HostBE}, {"BE", "", false, c.HostBENil}, {"BE", c.HostBEOtherBase, true, c.HostBEOther}} {
		if !c10HostAppThrottled(h.qos, h.path, h.base) {
			e -= h.u
		}
	}
	if c.Min != nil {
		if m := capU * *c.Min / 100; e < m {
			e = m
		}
	}
	return e
}

func c10RunBudgetPart(env *mc.Env) {
	res := mc.NewResult("C10", "budget", "enumeration")
	f := c10NewBudFixture()
	m0, m25 := int64(0), int64(25)
	mins := []*int64{nil, &m0, &m25}
	u := func(cpus float64) int64 { return int64(cpus*1e6 + 0.5) }
	over := int64(-7) // placeholder: capacity + 4 CPUs (above the capacity and above every other member)
	type anno struct {
		u    int64
		cpus bool
	}
	// quick alphabets
	caps := []int{2, 8}
	thrs := []int64{0, 65, 100}
	lsV := []int64{0, u(0.3), u(1), over}
	lsrV := []int64{0, u(0.3)}
	nolV := []int64{0, u(0.5)}
	beV := []int64{0, u(3)}
	hlsV := []int64{0, u(0.5), over}
	hbeV := []int64{0, u(1)}
	sysV := []int64{-u(1), 0, u(0.5), u(3), over}
	kubV := []int64{0, u(0.5), u(3)}
	annoV := []anno{{0, false}, {u(1), false}, {u(2), true}}
	hbnV := []int64{0, u(0.5)} // BE host app without cgroupPath
	// BE host app with an explicit base outside kubepods besteffort: index 0 = no such app, else 1 CPU under that base
	otherBases := []string{"", string(slov1alpha1.CgroupBaseTypeKubeBurstable)}
	if env.Thorough() {
		otherBases = []string{"", string(slov1alpha1.CgroupBaseTypeRoot), string(slov1alpha1.CgroupBaseTypeKubepods), string(slov1alpha1.CgroupBaseTypeKubeBurstable)}
		caps = []int{1, 2, 4, 8, 16}
		thrs = []int64{0, 1, 65, 100}
		lsV = []int64{0, 500, u(0.3), u(1), u(1.7), over} // 500u = half a milli
		lsrV = []int64{0, u(0.3), u(1), u(2.25)}
		hlsV = []int64{0, u(0.5), u(1), over}
		sysV = []int64{-u(1), 0, u(0.1), u(0.5), u(1), u(3), over}
		kubV = []int64{0, u(0.5), u(0.7), u(3)}
		annoV = []anno{{0, false}, {u(0.5), false}, {u(1), false}, {u(2), true}}
	}
	rx := mc.Radix{Dims: []int{len(caps), len(thrs), len(mins), len(lsV), len(lsrV), len(nolV), len(beV), len(hlsV), len(hbeV), len(sysV), len(kubV), len(annoV), 2, len(hbnV), len(otherBases)}}
	val := func(v int64, n int) int64 {
		if v == over {
			return int64(n+4) * 1e6
		}
		return v
	}
	build := func(d []int) *c10BudCase {
		n := caps[d[0]]
		c := &c10BudCase{N: n, Thr: thrs[d[1]], Min: mins[d[2]], LS: val(lsV[d[3]], n), LSR: lsrV[d[4]], NoLabel: nolV[d[5]], BE: beV[d[6]],
			HostLS: val(hlsV[d[7]], n), HostBE: hbeV[d[8]], Sys: val(sysV[d[9]], n), KubeletR: kubV[d[10]], AnnoR: annoV[d[11]].u, AnnoCPUs: annoV[d[11]].cpus,
			NoMetrics: d[12] == 1, KubeBE: u(0.25) * int64(d[6]), HostBENil: hbnV[d[13]]}
		if d[14] > 0 {
			c.HostBEOtherBase, c.HostBEOther = otherBases[d[14]], u(1)
		}
		return c
	}
	dyadic := func(c *c10BudCase) bool {
		for _, v := range []int64{c.LS, c.LSR, c.NoLabel, c.BE, c.KubeBE, c.HostLS, c.HostBE, c.HostBENil, c.HostBEOther, c.Sys, c.KubeletR, c.AnnoR} {
			if v%125000 != 0 {
				return false
			}
		}
		return true
	}
	// dimensions that are non-BE consumption, ordered by amount: LS, LSR, unlabelled pod, LS host app, system, kubelet reservation, annotation reservation
	monoDims := []int{3, 4, 5, 7, 9, 10, 11, 13, 14}
	monoName := map[int]string{3: "ls-pod-usage", 4: "lsr-pod-usage", 5: "unlabelled-pod-usage", 7: "hostapp-usage", 9: "system-usage", 10: "kubelet-reservation", 11: "annotation-reservation",
		13: "be-hostapp-without-cgrouppath-usage", 14: "be-hostapp-outside-besteffort-usage"}
	// pass 1: run and judge every case, remember its budget; pass 2: neighbour comparison on the remembered budgets
	const notRun = int32(-1 << 31)
	vals := make([]int32, rx.Size())
	for i := range vals {
		vals[i] = notRun
	}
	done, complete := env.ParallelRangeL(res, rx.Size(), func(l *mc.Local, i int64) {
		d := rx.Decode(i, make([]int, 0, 15))
		c := build(d)
		if c.KubeletR > int64(c.N)*1e6 { // the kubelet cannot reserve more than the capacity
			l.Count("skipped_reservation_above_capacity", 1)
			return
		}
		l.Evals++
		got, ps := c10BudRun(f, c)
		if ps != "" {
			res.Violate(mc.Violation{Key: "C10|budget|panic|" + c10PanicKind(ps), What: "agent crash: calculateBESuppressCPU panicked: " + c10PanicHead(ps), Replay: c})
			return
		}
		vals[i] = int32(got)
		exact := c10BudExact(c)
		dev := got*1000 - exact
		if dev < 0 || dev > c10Band {
			res.Violate(mc.Violation{Key: "C10|budget|formula", What: fmt.Sprintf("budget %d milli, statement gives %d micro-CPUs (deviation %d micro, accepted band [0,%d]); case %+v min=%v", got, exact, dev, c10Band, *c, c10PtrStr(c.Min)), Replay: c})
			return
		}
		if dyadic(c) {
			l.Max("max_deviation_micro_dyadic_inputs", dev)
		} else {
			l.Max("max_deviation_micro_other_inputs", dev)
		}
		l.Count("formula_checked", 1)
		if c.Min != nil && exact == int64(c.N)*1e6**c.Min/100 {
			l.Count("floored_by_minimum", 1)
		}
		if exact < 2e6 {
			l.Count("budget_below_two_cpus", 1)
		}
		if exact < 0 {
			l.Count("budget_negative_no_minimum", 1)
		}
		if c.HostBENil > 0 {
			l.Count("be_hostapp_without_cgrouppath_deducted", 1)
		}
		if c.HostBEOther > 0 {
			l.Count("be_hostapp_outside_besteffort_deducted", 1)
		}
		if c.HostBE > 0 {
			l.Count("be_hostapp_in_besteffort_not_deducted", 1)
		}
		rsv := c.KubeletR
		if c.AnnoR > rsv {
			rsv = c.AnnoR
		}
		if rsv > c.Sys {
			l.Count("reservation_exceeds_system_usage", 1)
		} else if c.Sys > rsv {
			l.Count("system_usage_exceeds_reservation", 1)
		}
		if i%300007 == 11 {
			res.Sample(fmt.Sprintf("%+v min=%v -> %d milli (statement %d micro)", *c, c10PtrStr(c.Min), got, exact))
		}
	})
	// stride of dimension k in the case index
	stride := make([]int64, len(rx.Dims))
	st := int64(1)
	for k, dim := range rx.Dims {
		stride[k] = st
		st *= int64(dim)
	}
	res2 := mc.NewResult("C10", "budget", "enumeration") // scratch accumulator for pass 2 counters (merged below)
	_, complete2 := env.ParallelRangeL(res2, rx.Size(), func(l *mc.Local, i int64) {
		if vals[i] == notRun {
			return
		}
		d := rx.Decode(i, make([]int, 0, 15))
		var c *c10BudCase
		for _, k := range monoDims {
			// neighbours: the next member of the alphabet; for the "other base" dimension every base against "no such app"
			lo, hi := d[k]+1, d[k]+1
			if k == 14 {
				if d[k] != 0 {
					continue
				}
				hi = rx.Dims[k] - 1
			}
			for nb := lo; nb <= hi && nb < rx.Dims[k]; nb++ {
				j := i + stride[k]*int64(nb-d[k])
				if vals[j] == notRun {
					continue
				}
				if c == nil {
					c = build(d)
				}
				save := d[k]
				d[k] = nb
				c2 := build(d)
				d[k] = save
				// neighbour monotonicity: raising one non-BE input never raises the budget
				tol := int64(0)
				if !dyadic(c) || !dyadic(c2) {
					tol = c10Band / 1000 // map-order dependent float summation may move each truncation by one milli
				}
				got, got2 := int64(vals[i]), int64(vals[j])
				l.Count("monotone_neighbour_checked", 1)
				if got2 < got {
					l.Count("monotone_strict_decrease", 1)
				}
				if got2 > got+tol {
					res.Violate(mc.Violation{Key: "C10|budget|not-monotone|" + monoName[k], What: fmt.Sprintf("budget grows from %d to %d milli when %s grows; case %+v -> %+v", got, got2, monoName[k], *c, *c2), Replay: c})
				}
			}
		}
	})
	for k, v := range res2.Counters {
		res.Count(k, v)
	}
	complete = complete && complete2
	res.Traces = res.Evaluations
	res.Distinct = res.Counters["formula_checked"] // every enumerated case is a distinct input by construction
	res.Exhaustive = complete
	if !complete {
		res.Capped = fmt.Sprintf("time budget hit after %d of %d cases", done, rx.Size())
	}
	res.Rule = fmt.Sprintf("every member of capacity%v x threshold%%%v x min%%{nil,0,25} x LS pod usage x LSR pod usage x unlabelled pod usage x BE pod usage x LS host-app usage x BE host-app usage x system usage (incl. negative and > capacity) x kubelet reservation x annotation reservation (resources.cpu / reservedCPUs) x host app without metric{n,y} x BE host app without cgroupPath usage x BE host app with base{none,KubepodsBurstable (+CgroupRoot,Kubepods thorough)} (usage alphabets in the evidence bounds); every case is non-trivial (formula judged); distinct = distinct (input, budget)", caps, thrs)
	res.Bounds = map[string]any{"cases": rx.Size(), "ls_pod_usage_micro": lsV, "lsr_pod_usage_micro": lsrV, "hostapp_usage_micro": hlsV, "system_usage_micro": sysV, "kubelet_reserved_micro": kubV,
		"note": "-7 stands for capacity+4 CPUs"}
	res.Assumptions = []string{
		"rounding band: each of the three float->milli truncations (non-BE pods, non-BE host apps, system) loses < 1 milli, so 0 <= code - exact <= 3 milli; the monotonicity clause uses the same 3 milli tolerance only when a non-dyadic usage value is involved (float summation follows Go map order)",
		"a pod is BE when it is labelled koordinator.sh/qosClass=BE or is kube-BestEffort; host applications without a metric are part of the system usage",
		"a host application is deducted from the BE budget unless it is best-effort AND throttled by the suppression, i.e. runs inside the kube besteffort hierarchy; decided from the NodeSLO spec alone: qos == BE and cgroupPath present and cgroupPath.base == KubepodsBesteffort. A BE application without cgroupPath runs in koordlet's default host directory under the cgroup root, one with base CgroupRoot/Kubepods/KubepodsBurstable runs outside besteffort: both are deducted",
		"system usage = node usage - all pod usage - all host-app usage, not below 0; node reservation = max(capacity - allocatable, reservation annotation)",
		"capacity is a whole number of CPUs; usages are multiples of 1 micro-CPU",
	}
	env.Emit(res)
}

func c10PtrStr(p *int64) string {
	if p == nil {
		return "nil"
	}
	return fmt.Sprint(*p)
}
