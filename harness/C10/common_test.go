package cpusuppress

// C10 harness, shared pieces: processor layouts, light fakes for the seams of CPUSuppress (states informer, metric
// cache, cgroup reader, recording executor), an independent CPU-list parser and the protected-set reference model.
// Everything the oracle knows is computed here from plain ints / sets written from the property STATEMENT; the only
// things read from the package under check are the documented tuning constants (step percentage, minimum quota,
// bypass ratio, CFS period) -- never the algorithm.

import (
	"fmt"
	"math"
	"runtime"
	"sort"
	"strconv"
	"strings"

	topov1alpha1 "github.com/k8stopologyawareschedwg/noderesourcetopology-api/pkg/apis/topology/v1alpha1"
	corev1 "k8s.io/api/core/v1"
	"k8s.io/apimachinery/pkg/api/resource"
	metav1 "k8s.io/apimachinery/pkg/apis/meta/v1"
	"k8s.io/apimachinery/pkg/types"

	apiext "github.com/koordinator-sh/koordinator/apis/extension"
	"github.com/koordinator-sh/koordinator/pkg/koordlet/metriccache"
	"github.com/koordinator-sh/koordinator/pkg/koordlet/resourceexecutor"
	"github.com/koordinator-sh/koordinator/pkg/koordlet/statesinformer"
	koordletutil "github.com/koordinator-sh/koordinator/pkg/koordlet/util"
	"github.com/koordinator-sh/koordinator/pkg/util/cpuset"
)

// ---------------------------------------------------------------------------------------------------------------
// processor layouts

type c10Layout struct {
	Name    string
	Sockets int
	NUMA    int // NUMA nodes per socket
	Cores   int // cores per NUMA node
	HT      int // threads per core
	Split   bool // false: siblings have adjacent ids (0,1 | 2,3 ...); true: sibling of cpu i is i + #cores (Linux default)
	Procs   []koordletutil.ProcessorInfo
	N       int
	Gap     int // > 0: the upper half of the CPU ids is shifted up by Gap (offline CPUs in between: ids are not dense 0..N-1)
}

// c10WithGap returns the same layout with a hole of `gap` ids in the middle of the id space (lscpu lists only online CPUs).
func c10WithGap(l *c10Layout, gap int) *c10Layout {
	g := *l
	g.Gap = gap
	g.Name = fmt.Sprintf("%s-gap%d", l.Name, gap)
	g.Procs = append([]koordletutil.ProcessorInfo{}, l.Procs...)
	for i := range g.Procs {
		if int(g.Procs[i].CPUID) >= l.N/2 {
			g.Procs[i].CPUID += int32(gap)
		}
	}
	sort.Slice(g.Procs, func(i, j int) bool { return g.Procs[i].CPUID < g.Procs[j].CPUID })
	return &g
}

func c10MakeLayout(s, n, c, h int, split bool) *c10Layout {
	l := &c10Layout{Sockets: s, NUMA: n, Cores: c, HT: h, Split: split}
	totalCores := s * n * c
	l.N = totalCores * h
	num := "adj"
	if split {
		num = "split"
	}
	l.Name = fmt.Sprintf("s%dn%dc%dh%d-%s", s, n, c, h, num)
	for sock := 0; sock < s; sock++ {
		for nn := 0; nn < n; nn++ {
			for cc := 0; cc < c; cc++ {
				core := (sock*n+nn)*c + cc
				for t := 0; t < h; t++ {
					id := core*h + t
					if split {
						id = t*totalCores + core
					}
					l.Procs = append(l.Procs, koordletutil.ProcessorInfo{CPUID: int32(id), CoreID: int32(core),
						SocketID: int32(sock), NodeID: int32(sock*n + nn), Online: "yes"})
				}
			}
		}
	}
	// the collector reports processors ordered by CPU id
	sort.Slice(l.Procs, func(i, j int) bool { return l.Procs[i].CPUID < l.Procs[j].CPUID })
	return l
}

// c10Layouts: sockets{1,2} x NUMA/socket{1,2} x cores/NUMA{1,2,4} x HT{1,2} (x both id numberings when HT=2), <= maxN CPUs.
func c10Layouts(maxN int) []*c10Layout {
	var out []*c10Layout
	for _, s := range []int{1, 2} {
		for _, n := range []int{1, 2} {
			for _, c := range []int{1, 2, 4} {
				for _, h := range []int{1, 2} {
					if s*n*c*h > maxN {
						continue
					}
					out = append(out, c10MakeLayout(s, n, c, h, false))
					if h == 2 {
						out = append(out, c10MakeLayout(s, n, c, h, true))
					}
					if h == 2 && s == 1 && (n*c == 2 || n*c == 4) { // sparse CPU ids (seed C10-4): 4 and 8 CPUs with a hole in the middle
						out = append(out, c10WithGap(c10MakeLayout(s, n, c, h, false), 4))
					}
				}
			}
		}
	}
	return out
}

func (l *c10Layout) ids() []int {
	out := make([]int, 0, l.N)
	for _, p := range l.Procs {
		out = append(out, int(p.CPUID))
	}
	sort.Ints(out)
	return out
}

// named CPU sets of a layout (as sorted id lists)
func (l *c10Layout) setCore0() []int {
	var out []int
	for _, p := range l.Procs {
		if p.CoreID == 0 {
			out = append(out, int(p.CPUID))
		}
	}
	sort.Ints(out)
	return out
}
func (l *c10Layout) setNUMA0() []int {
	var out []int
	for _, p := range l.Procs {
		if p.NodeID == 0 {
			out = append(out, int(p.CPUID))
		}
	}
	sort.Ints(out)
	return out
}
func (l *c10Layout) setLast() []int { ids := l.ids(); return []int{ids[len(ids)-1]} }
func (l *c10Layout) setUpperHalf() []int {
	ids := l.ids()
	return append([]int{}, ids[len(ids)/2:]...)
}
func c10FirstK(k int) []int {
	var out []int
	for i := 0; i < k; i++ {
		out = append(out, i)
	}
	return out
}

// c10Fmt renders a CPU id list as a plain comma list ("0,1,5"); the harness never uses the package's formatter.
func c10Fmt(ids []int) string {
	ss := make([]string, len(ids))
	for i, v := range ids {
		ss[i] = strconv.Itoa(v)
	}
	return strings.Join(ss, ",")
}

// c10ParseList is an independent parser of the Linux CPU list format; it keeps duplicates (so that "distinct" is a
// real clause) and reports malformed input.
func c10ParseList(s string) (ids []int, ok bool) {
	s = strings.TrimSpace(s)
	if s == "" {
		return nil, true
	}
	for _, part := range strings.Split(s, ",") {
		part = strings.TrimSpace(part)
		if i := strings.IndexByte(part, '-'); i > 0 {
			a, e1 := strconv.Atoi(part[:i])
			b, e2 := strconv.Atoi(part[i+1:])
			if e1 != nil || e2 != nil || b < a || b-a > 4096 {
				return nil, false
			}
			for v := a; v <= b; v++ {
				ids = append(ids, v)
			}
			continue
		}
		v, err := strconv.Atoi(part)
		if err != nil {
			return nil, false
		}
		ids = append(ids, v)
	}
	return ids, true
}

type c10Set map[int]bool

func c10SetOf(ids []int) c10Set {
	s := c10Set{}
	for _, v := range ids {
		s[v] = true
	}
	return s
}
func (s c10Set) sorted() []int {
	out := make([]int, 0, len(s))
	for v := range s {
		out = append(out, v)
	}
	sort.Ints(out)
	return out
}

// ---------------------------------------------------------------------------------------------------------------
// pods

type c10Pod struct {
	QoS    string `json:"qos"`    // LSE | LSR | LS | BE | "" (no label)
	CPUSet string `json:"cpuset"` // value of the cpuset member of the resource-status annotation; "" = no annotation
}

func c10BuildPod(i int, p c10Pod) *statesinformer.PodMeta {
	pod := &corev1.Pod{ObjectMeta: metav1.ObjectMeta{Namespace: "ns", Name: fmt.Sprintf("pod-%d", i),
		UID: types.UID(fmt.Sprintf("uid-%d", i)), Labels: map[string]string{}, Annotations: map[string]string{}},
		Status: corev1.PodStatus{Phase: corev1.PodRunning}}
	if p.QoS != "" {
		pod.Labels[apiext.LabelPodQoS] = p.QoS
	}
	if p.CPUSet != "" {
		pod.Annotations[apiext.AnnotationResourceStatus] = fmt.Sprintf(`{"cpuset":%q}`, p.CPUSet)
	}
	rl := corev1.ResourceList{}
	if p.QoS == string(apiext.QoSBE) {
		rl[apiext.BatchCPU] = resource.MustParse("1000")
		pod.Status.QOSClass = corev1.PodQOSBestEffort
	} else {
		rl[corev1.ResourceCPU] = resource.MustParse("1")
		rl[corev1.ResourceMemory] = resource.MustParse("1Gi")
		pod.Status.QOSClass = corev1.PodQOSGuaranteed
	}
	pod.Spec.Containers = []corev1.Container{{Name: "c", Resources: corev1.ResourceRequirements{Requests: rl, Limits: rl}}}
	return &statesinformer.PodMeta{Pod: pod}
}

// ---------------------------------------------------------------------------------------------------------------
// fakes: only the methods the seam calls are implemented; anything else is a nil-interface call and panics loudly
// ("the seam grew").

type c10SI struct {
	statesinformer.StatesInformer
	pods []*statesinformer.PodMeta
	topo *topov1alpha1.NodeResourceTopology
}

func (s *c10SI) GetAllPods() []*statesinformer.PodMeta             { return s.pods }
func (s *c10SI) GetNodeTopo() *topov1alpha1.NodeResourceTopology { return s.topo }

type c10MC struct {
	metriccache.MetricCache
	info *metriccache.NodeCPUInfo
}

func (m *c10MC) Get(key interface{}) (interface{}, bool) {
	if key == metriccache.NodeCPUInfoKey && m.info != nil {
		return m.info, true
	}
	return nil, false
}

type c10Reader struct {
	resourceexecutor.CgroupReader
	old   []int // current cpuset.cpus of the BE root cgroup
	quota int64 // current cpu.cfs_quota_us of the BE root cgroup
}

func (r *c10Reader) ReadCPUSet(string) (*cpuset.CPUSet, error) {
	s := cpuset.NewCPUSet(r.old...)
	return &s, nil
}
func (r *c10Reader) ReadCPUQuota(string) (int64, error) { return r.quota, nil }

type c10Write struct {
	Path, Type, Value string
}

// c10Exec records every cgroup write in order instead of touching files.
type c10Exec struct{ writes []c10Write }

func (e *c10Exec) rec(u resourceexecutor.ResourceUpdater) {
	e.writes = append(e.writes, c10Write{Path: u.Path(), Type: string(u.ResourceType()), Value: u.Value()})
}
func (e *c10Exec) Update(_ bool, u resourceexecutor.ResourceUpdater) (bool, error) {
	e.rec(u)
	return true, nil
}
func (e *c10Exec) UpdateBatch(_ bool, us ...resourceexecutor.ResourceUpdater) {
	for _, u := range us {
		e.rec(u)
	}
}
func (e *c10Exec) LeveledUpdateBatch(uss [][]resourceexecutor.ResourceUpdater) {
	for _, us := range uss {
		for _, u := range us {
			e.rec(u)
		}
	}
}
func (e *c10Exec) Run(<-chan struct{}) {}

// final returns the last value written per path for one resource type.
func (e *c10Exec) final(typ string) map[string]string {
	out := map[string]string{}
	for _, w := range e.writes {
		if w.Type == typ {
			out[w.Path] = w.Value
		}
	}
	return out
}

// ---------------------------------------------------------------------------------------------------------------
// node topology annotations (NodeResourceTopology object of the states informer)

type c10TopoCfg struct {
	Reserved     []int `json:"reserved"`       // node.koordinator.sh/reservation reservedCPUs
	Sys          []int `json:"sys"`            // system-qos-resource cpuset
	SysNonExcl   bool  `json:"sys_non_excl"`   // cpusetExclusive:false
	SysMalformed bool  `json:"sys_malformed"`  // annotation value is not JSON
	Static       bool  `json:"kubelet_static"` // kubelet cpu manager policy static
}

func c10BuildTopo(c c10TopoCfg) *topov1alpha1.NodeResourceTopology {
	anno := map[string]string{}
	if len(c.Reserved) > 0 {
		anno[apiext.AnnotationNodeReservation] = fmt.Sprintf(`{"reservedCPUs":%q}`, c10Fmt(c.Reserved))
	}
	if c.SysMalformed {
		anno[apiext.AnnotationNodeSystemQOSResource] = `{"cpuset":`
	} else if len(c.Sys) > 0 {
		if c.SysNonExcl {
			anno[apiext.AnnotationNodeSystemQOSResource] = fmt.Sprintf(`{"cpuset":%q,"cpusetExclusive":false}`, c10Fmt(c.Sys))
		} else {
			anno[apiext.AnnotationNodeSystemQOSResource] = fmt.Sprintf(`{"cpuset":%q}`, c10Fmt(c.Sys))
		}
	}
	if c.Static {
		anno[apiext.AnnotationKubeletCPUManagerPolicy] = `{"policy":"static"}`
	}
	return &topov1alpha1.NodeResourceTopology{ObjectMeta: metav1.ObjectMeta{Name: "node", Annotations: anno}}
}

// ---------------------------------------------------------------------------------------------------------------
// reference model of "protected" (from the statement): a CPU is protected when it is reserved for the node,
// exclusive to system QoS, or exclusively owned by an LSE pod. A CPU named by an LSE pod AND by another pod is
// "contested": the statement says nothing about it, so the oracle neither demands nor forbids it.

type c10Prot struct {
	existing   c10Set
	reserved   c10Set
	sysExcl    c10Set
	lseOnly    c10Set // in an LSE pod's set and in no other pod's set
	lseAny     c10Set
	contested  int
	eligMin    int // existing CPUs outside reserved, sysExcl and lseAny  (certainly eligible)
	eligMax    int // existing CPUs outside reserved, sysExcl and lseOnly (possibly eligible)
	sureProt   c10Set
	nProtected int
}

func c10Protected(l *c10Layout, pods []c10Pod, topo c10TopoCfg) *c10Prot {
	p := &c10Prot{existing: c10SetOf(l.ids()), reserved: c10SetOf(topo.Reserved), sysExcl: c10Set{}, lseOnly: c10Set{},
		lseAny: c10Set{}, sureProt: c10Set{}}
	if !topo.SysNonExcl && !topo.SysMalformed {
		p.sysExcl = c10SetOf(topo.Sys)
	}
	other := c10Set{}
	for _, pod := range pods {
		ids, ok := c10ParseList(pod.CPUSet)
		if !ok {
			continue
		}
		for _, v := range ids {
			if pod.QoS == "LSE" {
				p.lseAny[v] = true
			} else {
				other[v] = true
			}
		}
	}
	for v := range p.lseAny {
		if !other[v] {
			p.lseOnly[v] = true
		} else if p.existing[v] {
			p.contested++
		}
	}
	for v := range p.existing {
		if p.reserved[v] || p.sysExcl[v] || p.lseOnly[v] {
			p.sureProt[v] = true
		}
		if !(p.reserved[v] || p.sysExcl[v] || p.lseAny[v]) {
			p.eligMin++
		}
		if !(p.reserved[v] || p.sysExcl[v] || p.lseOnly[v]) {
			p.eligMax++
		}
	}
	p.nProtected = len(p.sureProt)
	return p
}

func (p *c10Prot) why(v int) string {
	switch {
	case p.reserved[v]:
		return "node-reserved"
	case p.sysExcl[v]:
		return "system-qos-exclusive"
	case p.lseOnly[v]:
		return "lse-owned"
	}
	return ""
}

// c10JudgeSet checks the clauses every written / returned CPU set has to satisfy regardless of its size:
// well-formed, distinct, existing ids, no protected CPU. Returns (clause, text) or "".
func (p *c10Prot) c10JudgeSet(ids []int) (string, string) {
	seen := map[int]bool{}
	for _, v := range ids {
		if seen[v] {
			return "duplicate-cpu", fmt.Sprintf("cpu %d appears twice in %v", v, ids)
		}
		seen[v] = true
		if !p.existing[v] {
			return "nonexistent-cpu", fmt.Sprintf("cpu %d of %v is not in the node's processor list %v", v, ids, p.existing.sorted())
		}
		if w := p.why(v); w != "" {
			return "protected-cpu|" + w, fmt.Sprintf("BE cpu set %v contains cpu %d which is %s (reserved=%v system-qos-exclusive=%v lse-owned=%v)",
				ids, v, w, p.reserved.sorted(), p.sysExcl.sorted(), p.lseOnly.sorted())
		}
	}
	return "", ""
}

// c10PanicKind classifies a recovered panic text into a defect class for the violation key.
func c10PanicKind(ps string) string {
	first := ps
	if i := strings.IndexByte(ps, '\n'); i > 0 {
		first = ps[:i]
	}
	switch {
	case strings.Contains(first, "divide by zero"):
		return "divide-by-zero"
	case strings.Contains(first, "index out of range"), strings.Contains(first, "slice bounds"):
		return "index-out-of-range"
	case strings.Contains(first, "nil pointer"), strings.Contains(first, "nil map"):
		return "nil-dereference"
	}
	return "other"
}

func c10PanicHead(ps string) string {
	return strings.Join(strings.Split(strings.TrimSpace(ps), "\n"), " | at ")
}

// c10Guard is mc.Guard with a cheap trace: instead of formatting the whole stack (the degenerate members panic by the
// hundred thousand while a crash defect is open) it records the frames of the package under check.
func c10Guard(f func()) (ps string) {
	defer func() {
		if r := recover(); r != nil {
			ps = fmt.Sprintf("panic: %v", r)
			pcs := make([]uintptr, 24)
			n := runtime.Callers(2, pcs)
			frames := runtime.CallersFrames(pcs[:n])
			kept := 0
			for {
				fr, more := frames.Next()
				if strings.Contains(fr.Function, "koordinator") && !strings.Contains(fr.Function, ".c10") && !strings.Contains(fr.Function, "zzverif") {
					fn := fr.Function
					if i := strings.LastIndexByte(fn, '/'); i >= 0 {
						fn = fn[i+1:]
					}
					file := fr.File
					if i := strings.LastIndexByte(file, '/'); i >= 0 {
						file = file[i+1:]
					}
					ps += fmt.Sprintf("\n%s %s:%d", fn, file, fr.Line)
					kept++
				}
				if !more || kept >= 4 {
					break
				}
			}
		}
	}()
	f()
	return ""
}

func c10CeilDiv1000(milli int64) int64 {
	// ceil(milli/1000) in exact integer arithmetic (also for negatives)
	q := milli / 1000
	if milli%1000 > 0 {
		q++
	}
	return q
}

// c10StepLimit is "the step limit per round": the documented fraction of the node's CPUs, rounded up. The fraction is
// read from the package (not restated).
func c10StepLimit(n int) int64 {
	return int64(math.Ceil(float64(n) * beMaxIncreaseCPUPercent))
}

func c10MaxN(ls []*c10Layout) int {
	m := 0
	for _, l := range ls {
		if l.N > m {
			m = l.N
		}
	}
	return m
}
