package cpusuppress

// C10 part "quota": adjustByCfsQuota on every member of capacity x budget x current quota (including the boundaries of
// the documented bypass and step rules), with a recording executor.

import (
	"fmt"
	"hash/fnv"
	"sort"
	"strconv"

	corev1 "k8s.io/api/core/v1"
	"k8s.io/apimachinery/pkg/api/resource"
	metav1 "k8s.io/apimachinery/pkg/apis/meta/v1"

	"github.com/koordinator-sh/koordinator/pkg/koordlet/util/system"
	"github.com/koordinator-sh/koordinator/pkg/zzverif/mc"
)

type c10QuotaCase struct {
	N           int   `json:"capacity_cpus"`
	BudgetMilli int64 `json:"budget_milli"`
	Current     int64 `json:"current_quota"`
}

// c10QuotaTarget is the statement: budget x CFS period, floored by the minimum quota (constants read from the package).
func c10QuotaTarget(budgetMilli int64) int64 {
	t := budgetMilli * system.DefaultCPUCFSPeriod / 1000
	if t < beMinQuota {
		t = beMinQuota
	}
	return t
}

// c10QuotaAllowed tells whether the observed outcome (written value, or no write) is "the quota equals the target"
// or one of the two documented deviations (assumptions of this part):
//   bypass: nothing is written while |target - current| < capacity x period x suppressBypassQuotaDeltaRatio and the target
//           is not the minimum quota;
//   step:   once a quota is set (current != beUnsetQuota) it grows by at most capacity x period x beMaxIncreaseCPUPercent
//           per round.
// Thresholds are floats in the code; a tolerance of 1 quota unit (1 us of CPU time per period) is accepted at each boundary.
func c10QuotaAllowed(c c10QuotaCase, target int64, wrote bool, w int64) (ok bool, how string) {
	capPeriod := float64(c.N) * float64(system.DefaultCPUCFSPeriod)
	bypass := capPeriod * suppressBypassQuotaDeltaRatio
	step := capPeriod * beMaxIncreaseCPUPercent
	d := float64(target - c.Current)
	ad := d
	if ad < 0 {
		ad = -ad
	}
	if wrote && w == target {
		return true, "exact"
	}
	if !wrote && c.Current == target {
		return true, "unchanged"
	}
	if !wrote && ad < bypass+1 && target != beMinQuota {
		return true, "bypass"
	}
	if wrote && c.Current != beUnsetQuota && d > step-1 {
		if x := float64(w) - (float64(c.Current) + step); x >= -1 && x <= 1 {
			return true, "step"
		}
	}
	return false, ""
}

func c10RunQuotaPart(env *mc.Env, tree *c10Tree) {
	res := mc.NewResult("C10", "quota", "enumeration")
	ds := mc.NewDistinctSet()
	caps := []int{1, 2, 4, 8, 16, 80}
	var cases []c10QuotaCase
	period := int64(system.DefaultCPUCFSPeriod)
	for _, n := range caps {
		budgets := []int64{-1500, 0, 1, 19, 20, 21, 500, 1000, 2000, 2001, int64(n) * 500, int64(n)*650 + 3, int64(n) * 1000, int64(n+1) * 1000}
		for _, b := range budgets {
			t := c10QuotaTarget(b)
			by := int64(float64(n) * float64(period) * suppressBypassQuotaDeltaRatio)
			st := int64(float64(n) * float64(period) * beMaxIncreaseCPUPercent)
			cur := map[int64]bool{beUnsetQuota: true, 0: true, 1000: true, beMinQuota: true, beMinQuota + 1: true, int64(n) * period / 2: true, int64(n) * period: true, 2 * int64(n) * period: true}
			for _, dl := range []int64{-2, -1, 0, 1, 2} {
				cur[t+dl] = true
				cur[t-by+dl] = true
				cur[t+by+dl] = true
				cur[t-st+dl] = true
				cur[t-st-by+dl] = true
				cur[t-2*st+dl] = true
			}
			var cs []int64
			for v := range cur {
				if v >= -1 {
					cs = append(cs, v)
				}
			}
			sort.Slice(cs, func(i, j int) bool { return cs[i] < cs[j] })
			for _, v := range cs {
				cases = append(cases, c10QuotaCase{N: n, BudgetMilli: b, Current: v})
			}
		}
	}
	done, complete := env.ParallelRangeL(res, int64(len(cases)), func(l *mc.Local, i int64) {
		c := cases[i]
		l.Evals++
		node := &corev1.Node{ObjectMeta: metav1.ObjectMeta{Name: "node"}, Status: corev1.NodeStatus{Capacity: corev1.ResourceList{corev1.ResourceCPU: *resource.NewQuantity(int64(c.N), resource.DecimalSI)}}}
		ex := &c10Exec{}
		r := &CPUSuppress{executor: ex, cgroupReader: &c10Reader{quota: c.Current}, suppressPolicyStatuses: map[string]suppressPolicyStatus{}}
		ps := c10Guard(func() { r.adjustByCfsQuota(resource.NewMilliQuantity(c.BudgetMilli, resource.DecimalSI), node) })
		if ps != "" {
			res.Violate(mc.Violation{Key: "C10|quota|panic|" + c10PanicKind(ps), What: "agent crash: adjustByCfsQuota panicked: " + c10PanicHead(ps), Replay: c})
			return
		}
		target := c10QuotaTarget(c.BudgetMilli)
		wrote, w := false, int64(0)
		for _, wr := range ex.writes {
			if wr.Type != tree.quotaType || wr.Path != tree.quotaFile {
				res.Violate(mc.Violation{Key: "C10|quota|unexpected-write", What: fmt.Sprintf("quota mode wrote %+v; case %+v", wr, c), Replay: c})
				return
			}
			v, err := strconv.ParseInt(wr.Value, 10, 64)
			if err != nil {
				res.Violate(mc.Violation{Key: "C10|quota|malformed-value", What: fmt.Sprintf("quota mode wrote %+v; case %+v", wr, c), Replay: c})
				return
			}
			wrote, w = true, v
		}
		if wrote && w < beMinQuota {
			res.Violate(mc.Violation{Key: "C10|quota|below-minimum", What: fmt.Sprintf("wrote cfs quota %d below the minimum quota %d; case %+v", w, int64(beMinQuota), c), Replay: c})
			return
		}
		ok, how := c10QuotaAllowed(c, target, wrote, w)
		if !ok {
			res.Violate(mc.Violation{Key: "C10|quota|value", What: fmt.Sprintf("cfs quota outcome wrote=%v value=%d, statement gives %d (budget %d milli x period %d, minimum %d) and neither the bypass nor the step rule explains the difference; case %+v",
				wrote, w, target, c.BudgetMilli, period, int64(beMinQuota), c), Replay: c})
			return
		}
		l.Count("outcome_"+how, 1)
		if target == beMinQuota {
			l.Count("floored_by_minimum_quota", 1)
		}
		h := fnv.New64a()
		fmt.Fprint(h, c, wrote, w)
		ds.AddHash(h.Sum64())
		if i%997 == 5 {
			res.Sample(fmt.Sprintf("%+v -> wrote=%v %d (target %d, %s)", c, wrote, w, target, how))
		}
	})
	res.Traces = res.Evaluations
	res.Distinct = ds.Len()
	res.Exhaustive = complete
	if !complete {
		res.Capped = fmt.Sprintf("time budget hit after %d of %d cases", done, len(cases))
	}
	res.Rule = fmt.Sprintf("every member of capacity%v x budget milli{-1500,0,1,19,20,21,500,1000,2000,2001,N/2,0.65N+0.003,N,N+1 CPUs} x current quota{unset(-1),0,1000,min,min+1,N/2,N,2N periods, and target/target-+bypass/target-step/target-step-bypass/target-2step each -2..+2}; every case non-trivial; distinct = distinct (case, outcome)", caps)
	res.Bounds = map[string]any{"cases": len(cases)}
	res.Assumptions = []string{
		"quota mode, documented deviations from 'quota = budget x period floored by the minimum quota': (bypass) nothing is written while |target - current| < capacity x period x suppressBypassQuotaDeltaRatio and target != minimum quota; (step) when a quota is already set the written value is current + capacity x period x beMaxIncreaseCPUPercent if the target is further away; a tolerance of 1 quota unit is accepted at each float boundary",
		"constants (CFS period, beMinQuota, beUnsetQuota, bypass ratio, step percentage) are read from the package, not restated",
	}
	env.Emit(res)
}
