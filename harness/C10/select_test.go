package cpusuppress

// C10 part "select": calculateBESuppressCPUSetPolicy on every subset of every layout's processors (= every possible
// eligible pool, including irregular ones with broken sibling pairs) for every requested count.

import (
	"fmt"
	"hash/fnv"
	"math/bits"

	koordletutil "github.com/koordinator-sh/koordinator/pkg/koordlet/util"
	"github.com/koordinator-sh/koordinator/pkg/zzverif/mc"
)

type c10SelCase struct {
	Layout string `json:"layout"`
	Mask   uint32 `json:"pool_mask"` // bit i = i-th processor (by CPU id order) is in the pool
	Want   int32  `json:"want"`
}

func c10SelPool(l *c10Layout, mask uint32) []koordletutil.ProcessorInfo {
	var pool []koordletutil.ProcessorInfo
	for b := 0; b < l.N; b++ {
		if mask&(1<<uint(b)) != 0 {
			pool = append(pool, l.Procs[b])
		}
	}
	return pool
}

func c10JudgeSel(l *c10Layout, c c10SelCase, pool []koordletutil.ProcessorInfo, got []int32, ps string) (key, what string) {
	if ps != "" {
		return "C10|select|panic|" + c10PanicKind(ps), "agent crash: calculateBESuppressCPUSetPolicy panicked: " + c10PanicHead(ps)
	}
	in := map[int32]bool{}
	for _, p := range pool {
		in[p.CPUID] = true
	}
	seen := map[int32]bool{}
	for _, id := range got {
		if seen[id] {
			return "C10|select|duplicate-cpu", fmt.Sprintf("cpu %d selected twice: %v", id, got)
		}
		seen[id] = true
		if !in[id] {
			return "C10|select|cpu-outside-pool", fmt.Sprintf("cpu %d of %v is not in the eligible pool", id, got)
		}
	}
	w := c.Want
	if w < 0 {
		w = 0
	}
	if int32(len(got)) > w {
		return "C10|select|count|over-budget", fmt.Sprintf("selected %d CPUs %v, asked for %d", len(got), got, c.Want)
	}
	if c.Want >= 0 && int(c.Want) <= len(pool) && int32(len(got)) != c.Want {
		return "C10|select|count|not-exact", fmt.Sprintf("selected %d CPUs %v, asked for %d out of a pool of %d", len(got), got, c.Want, len(pool))
	}
	return "", ""
}

func c10RunSelectPart(env *mc.Env, layouts []*c10Layout) {
	res := mc.NewResult("C10", "select", "enumeration")
	res.Exhaustive = true
	ds := mc.NewDistinctSet()
	var total int64
	for _, l := range layouts {
		l := l
		n := int64(1) << uint(l.N)
		total += n
		done, complete := env.ParallelRangeL(res, n, func(lc *mc.Local, i int64) {
			mask := uint32(i)
			pool := c10SelPool(l, mask)
			pc := bits.OnesCount32(mask)
			for want := int32(-1); want <= int32(pc)+1; want++ {
				c := c10SelCase{Layout: l.Name, Mask: mask, Want: want}
				lc.Evals++
				var got []int32
				ps := c10Guard(func() { got = calculateBESuppressCPUSetPolicy(want, pool) })
				if key, what := c10JudgeSel(l, c, pool, got, ps); key != "" {
					res.Violate(mc.Violation{Key: key, What: fmt.Sprintf("%s; case %+v pool %v", what, c, pool), Replay: c})
					continue
				}
				if want >= 1 && int(want) <= pc {
					lc.Count("exact_count_checked", 1)
					// diagnostic only (not part of the property): how often a request of >= 2 got a full sibling pair
					if want >= 2 && l.HT == 2 {
						core := map[int32]int32{}
						for _, p := range pool {
							core[p.CPUID] = p.CoreID
						}
						if core[got[0]] == core[got[1]] {
							lc.Count("diag_first_two_are_siblings", 1)
						}
					}
					h := fnv.New64a()
					fmt.Fprint(h, l.Name, mask, want, got)
					ds.AddHash(h.Sum64())
				} else if int(want) > pc {
					lc.Count("pool_too_small_cases", 1)
				}
			}
			if i%50021 == 3 {
				res.Sample(fmt.Sprintf("layout %s pool mask %b want %d -> %v", l.Name, mask, pc, calculateBESuppressCPUSetPolicy(int32(pc), pool)))
			}
		})
		if !complete {
			res.Exhaustive = false
			res.Capped = fmt.Sprintf("time budget hit in layout %s after %d of %d pools", l.Name, done, n)
			break
		}
	}
	res.Traces = res.Evaluations
	res.Distinct = ds.Len()
	res.Rule = fmt.Sprintf("every subset (eligible pool) of the processors of each of %d layouts x every requested count -1..|pool|+1; non-trivial = 1 <= count <= |pool|; distinct = distinct (layout, pool, count, selection)", len(layouts))
	res.Bounds = map[string]any{"layouts": len(layouts), "max_cpus": c10MaxN(layouts), "pools": total}
	env.Emit(res)
}
