package cpusuppress

// C10 entry point: best-effort CPU suppression keeps BE off protected CPUs and inside its budget.
// Parts (each reports its own counters): budget, quota, select, e2e (serial, real files), cpuset.
// See /verif/DESIGN.md section 4 C10 and /verif/harness/C10/spec.json.

import (
	"encoding/json"
	"fmt"
	"os"
	"strings"
	"testing"

	"github.com/koordinator-sh/koordinator/pkg/koordlet/statesinformer"
	"github.com/koordinator-sh/koordinator/pkg/koordlet/util/system"
	"github.com/koordinator-sh/koordinator/pkg/zzverif/mc"
)

func c10LayoutByName(name string) *c10Layout {
	for _, l := range c10Layouts(16) {
		if l.Name == name {
			return l
		}
	}
	return nil
}

// c10Replay re-executes one recorded case (VERIF_REPLAY) and prints what the real code does and what the oracle says.
func c10Replay(t *testing.T, env *mc.Env, tree *c10Tree) bool {
	if env.Replay == "" {
		return false
	}
	b, err := os.ReadFile(env.Replay)
	if err != nil {
		t.Fatal(err)
	}
	var f struct {
		Part   string          `json:"part"`
		Replay json.RawMessage `json:"replay"`
	}
	if err := json.Unmarshal(b, &f); err != nil {
		t.Fatal(err)
	}
	cnt := func(string, int64) {}
	var vs []mc.Violation
	switch f.Part {
	case "cpuset":
		var c c10SetCase
		_ = json.Unmarshal(f.Replay, &c)
		l := c10LayoutByName(c.Layout)
		var pods []*statesinformer.PodMeta
		for i, p := range c.Pods {
			pods = append(pods, c10BuildPod(i, p))
		}
		o := c10RunSet(l, &c, pods)
		fmt.Printf("REPLAY cpuset case=%+v\n panic=%q\n writes=%+v\n recover=%v\n", c, c10PanicHead(o.Panic), o.Writes, o.Recover)
		vs = c10JudgeSetCase(tree, l, &c, o, cnt)
	case "select":
		var c c10SelCase
		_ = json.Unmarshal(f.Replay, &c)
		l := c10LayoutByName(c.Layout)
		pool := c10SelPool(l, c.Mask)
		var got []int32
		ps := c10Guard(func() { got = calculateBESuppressCPUSetPolicy(c.Want, pool) })
		fmt.Printf("REPLAY select case=%+v pool=%v -> %v panic=%q\n", c, pool, got, c10PanicHead(ps))
		if k, w := c10JudgeSel(l, c, pool, got, ps); k != "" {
			vs = append(vs, mc.Violation{Key: k, What: w})
		}
	case "budget":
		var c c10BudCase
		_ = json.Unmarshal(f.Replay, &c)
		got, ps := c10BudRun(c10NewBudFixture(), &c)
		fmt.Printf("REPLAY budget case=%+v min=%s -> %d milli (statement: %d micro-CPUs) panic=%q\n", c, c10PtrStr(c.Min), got, c10BudExact(&c), c10PanicHead(ps))
	case "e2e":
		var c c10E2ECase
		_ = json.Unmarshal(f.Replay, &c)
		l := c10LayoutByName(c.Layout)
		ps, tee := c10RunE2ECase(t, tree, l, &c)
		fmt.Printf("REPLAY e2e case=%+v\n panic=%q\n writes=%+v\n root=%q containers=%q quota=%q\n", c, c10PanicHead(ps), tee.writes, c10ReadFile(tree.rootFile), c10ReadFile(tree.ctrFile), c10ReadFile(tree.quotaFile))
		vs = c10JudgeE2E(tree, l, &c, ps, tee, cnt)
	default:
		fmt.Printf("REPLAY: part %q has no replay support (the case is fully described in the violation text)\n", f.Part)
	}
	for _, v := range vs {
		fmt.Printf("REPLAY VIOLATION %s: %s\n", v.Key, v.What)
	}
	if len(vs) == 0 {
		fmt.Println("REPLAY: no violation")
	}
	return true
}

func TestVerifC10(t *testing.T) {
	env := mc.LoadEnv()
	helper := system.NewFileTestUtil(t) // temp cgroup root (sets system.Conf once; read-only during the parallel parts)
	tree := c10NewTree(helper)
	if c10Replay(t, env, tree) {
		return
	}
	maxN := env.Pick(8, 16)
	layouts := c10Layouts(maxN)

	// VERIF_ONLY (bin/check --only) may name parts, e.g. "budget,cpuset"; the unit name "all" or nothing runs everything
	only := os.Getenv("VERIF_ONLY")
	sel := func(part string) bool { return only == "" || only == "all" || strings.Contains(only, part) }
	if sel("budget") {
		c10RunBudgetPart(env)
	}
	if sel("quota") {
		c10RunQuotaPart(env, tree)
	}
	if sel("select") {
		c10RunSelectPart(env, layouts)
	}

	e2eNames := []string{"s1n1c1h2-adj", "s1n1c2h2-adj", "s2n1c2h2-split"}
	if env.Thorough() {
		e2eNames = append(e2eNames, "s1n2c2h1-adj", "s2n2c2h2-adj")
	}
	var e2eLayouts []*c10Layout
	for _, n := range e2eNames {
		if l := c10LayoutByName(n); l != nil {
			e2eLayouts = append(e2eLayouts, l)
		}
	}
	if sel("e2e") {
		c10RunE2EPart(t, env, tree, e2eLayouts)
	}
	if sel("rounds") {
		c10RunE2ERoundsPart(t, env, tree, e2eLayouts[1:])
	}
	if sel("cpuset") {
		c10RunCPUSetPart(env, tree, layouts, env.Pick(2, 3))
	}
}
