package cpusuppress

// C10 part "cpuset": adjustByCPUSet (+ applyBESuppressCPUSet, applyCPUSetWith{None,Static}Policy, recoverCPUSetIfNeed,
// calcBECPUSet, getSystemQOSExclusiveCPU, calculateBESuppressCPUSetPolicy behind it) on the real code with a recording
// executor, for every member of layouts x pods x reserved x system-QoS x old BE cpuset x budget x kubelet policy.

import (
	"fmt"
	"path/filepath"

	corev1 "k8s.io/api/core/v1"
	"k8s.io/apimachinery/pkg/api/resource"

	"github.com/koordinator-sh/koordinator/pkg/koordlet/metriccache"
	"github.com/koordinator-sh/koordinator/pkg/koordlet/statesinformer"
	koordletutil "github.com/koordinator-sh/koordinator/pkg/koordlet/util"
	"github.com/koordinator-sh/koordinator/pkg/koordlet/util/system"
	"github.com/koordinator-sh/koordinator/pkg/zzverif/mc"
)

type c10SetCase struct {
	Layout      string     `json:"layout"`
	Pods        []c10Pod   `json:"pods"`
	Topo        c10TopoCfg `json:"topo"`
	Old         []int      `json:"old_be_cpuset"`
	BudgetMilli int64      `json:"budget_milli"`
}

// c10Tree is the (read-only during the enumeration) temp cgroup tree: BE root / one pod / one container.
type c10Tree struct {
	rootDir, podDir, ctrDir       string // relative cgroup parent dirs
	rootFile, podFile, ctrFile    string // absolute cpuset.cpus paths
	quotaFile                     string // absolute cpu.cfs_quota_us path of the BE root
	helper                        *system.FileTestUtil
	cpusetType, quotaType         string
}

func c10NewTree(helper *system.FileTestUtil) *c10Tree {
	t := &c10Tree{helper: helper}
	t.rootDir = koordletutil.GetPodQoSRelativePath(corev1.PodQOSBestEffort)
	t.podDir = filepath.Join(t.rootDir, "pod1")
	t.ctrDir = filepath.Join(t.podDir, "ctr1")
	for _, d := range []string{t.rootDir, t.podDir, t.ctrDir} {
		helper.WriteCgroupFileContents(d, system.CPUSet, "0")
	}
	helper.WriteCgroupFileContents(t.rootDir, system.CPUCFSQuota, "-1")
	t.rootFile, t.podFile, t.ctrFile = system.CPUSet.Path(t.rootDir), system.CPUSet.Path(t.podDir), system.CPUSet.Path(t.ctrDir)
	t.quotaFile = system.CPUCFSQuota.Path(t.rootDir)
	t.cpusetType, t.quotaType = string(system.CPUSetCPUSName), string(system.CPUCFSQuotaName)
	return t
}

type c10SetOutcome struct {
	Panic   string
	Writes  []c10Write
	Final   map[string]string // path -> last written cpuset
	Recover []int             // result of calcBECPUSet (nil when it failed)
	RecPan  string
}

func c10RunSet(l *c10Layout, c *c10SetCase, pods []*statesinformer.PodMeta) *c10SetOutcome {
	info := &metriccache.NodeCPUInfo{ProcessorInfos: l.Procs}
	ex := &c10Exec{}
	r := &CPUSuppress{
		statesInformer:         &c10SI{pods: pods, topo: c10BuildTopo(c.Topo)},
		metricCache:            &c10MC{info: info},
		executor:               ex,
		cgroupReader:           &c10Reader{old: c.Old},
		suppressPolicyStatuses: map[string]suppressPolicyStatus{},
	}
	out := &c10SetOutcome{}
	out.Panic = c10Guard(func() { r.adjustByCPUSet(resource.NewMilliQuantity(c.BudgetMilli, resource.DecimalSI), info) })
	out.Writes = ex.writes
	out.Final = ex.final(string(system.CPUSetCPUSName))
	if c.Topo.Static && out.Panic == "" {
		return out // with the static policy calcBECPUSet already ran inside (recoverCPUSetIfNeed); its result is the BE root's final cpuset
	}
	out.RecPan = c10Guard(func() {
		s, err := r.calcBECPUSet()
		if err == nil && s != nil {
			out.Recover = s.ToSlice()
			if out.Recover == nil {
				out.Recover = []int{}
			}
		}
	})
	return out
}

// c10JudgeSetCase applies the oracle. It returns violations and fills vacuity counters.
func c10JudgeSetCase(tree *c10Tree, l *c10Layout, c *c10SetCase, o *c10SetOutcome, cnt func(string, int64)) []mc.Violation {
	var vs []mc.Violation
	prot := c10Protected(l, c.Pods, c.Topo)
	add := func(key, what string) {
		vs = append(vs, mc.Violation{Key: key, What: fmt.Sprintf("%s; case %+v", what, *c), Replay: c})
	}
	// defect class of a crash: "no-eligible-cpu" when no CPU is certainly eligible (every CPU reserved, system-exclusive
	// or named by an LSE pod), else "eligible-cpus"
	elig := "eligible-cpus"
	if prot.eligMin == 0 {
		elig = "no-eligible-cpu"
		cnt("no_certainly_eligible_cpu_cases", 1)
	}
	if prot.eligMax == 0 {
		cnt("every_cpu_protected_cases", 1)
	}
	if prot.contested > 0 {
		cnt("cases_with_contested_lse_cpus", 1)
	}
	// clause: the computation never crashes the agent
	if o.Panic != "" {
		add("C10|cpuset|panic|"+elig+"|"+c10PanicKind(o.Panic),
			fmt.Sprintf("agent crash: adjustByCPUSet panicked (%s) with %d certainly-eligible CPUs (protected %v of %v)",
				c10PanicHead(o.Panic), prot.eligMin, prot.sureProt.sorted(), prot.existing.sorted()))
		return vs
	}
	if o.RecPan != "" {
		add("C10|recover|panic|"+elig+"|"+c10PanicKind(o.RecPan), "agent crash: calcBECPUSet panicked: "+c10PanicHead(o.RecPan))
		return vs
	}
	cnt("no_panic_checked", 1)
	// clause: the recovery set (calcBECPUSet) consists of distinct existing unprotected CPUs
	if o.Recover != nil {
		if cl, what := prot.c10JudgeSet(o.Recover); cl != "" {
			add("C10|recover|"+cl, "calcBECPUSet: "+what)
		} else if prot.nProtected > 0 {
			cnt("recover_set_protection_nontrivial", 1)
		}
	}
	// clause: every cpuset finally written to a BE cgroup consists of distinct existing unprotected CPUs
	for path, val := range o.Final {
		ids, ok := c10ParseList(val)
		if !ok {
			add("C10|cpuset|malformed-cpuset", fmt.Sprintf("wrote %q to %s", val, path))
			continue
		}
		if cl, what := prot.c10JudgeSet(ids); cl != "" {
			add("C10|cpuset|"+cl, fmt.Sprintf("final cpuset.cpus of %s: %s", path, what))
		}
	}
	// the derived set = what the BE containers finally run on
	var derived []int
	val, written := o.Final[tree.ctrFile]
	if written {
		derived, _ = c10ParseList(val)
	}
	// clause: never more than budgeted: at least two, growing by at most the step limit per round
	want := c10CeilDiv1000(c.BudgetMilli)
	if want < 2 {
		want = 2
		cnt("budget_below_two_cases", 1)
	}
	if int64(len(derived)) > want {
		add("C10|cpuset|count|over-budget", fmt.Sprintf("BE cpuset %v has %d CPUs, budget %d milli allows %d", derived, len(derived), c.BudgetMilli, want))
	}
	step := c10StepLimit(l.N)
	stepLimited := false
	if lim := int64(len(c.Old)) + step; want > lim {
		if int64(len(derived)) > lim {
			add("C10|cpuset|count|over-step-limit", fmt.Sprintf("BE cpuset %v has %d CPUs: grows from %d by more than the step limit %d (budget %d milli)", derived, len(derived), len(c.Old), step, c.BudgetMilli))
		}
		want = lim
		stepLimited = true
		cnt("step_limited_cases", 1)
	}
	// clause: exactly that many whenever enough eligible CPUs exist
	if int64(prot.eligMin) >= want {
		if int64(len(derived)) != want {
			add("C10|cpuset|count|not-exact", fmt.Sprintf("BE cpuset %v (written=%v) has %d CPUs, expected exactly %d: %d eligible CPUs exist (budget %d milli, old size %d, step %d, stepLimited=%v)",
				derived, written, len(derived), want, prot.eligMin, c.BudgetMilli, len(c.Old), step, stepLimited))
		} else {
			cnt("exact_count_checked", 1)
			if prot.nProtected > 0 {
				cnt("exact_count_with_protected_cpus", 1)
			}
		}
	} else {
		cnt("budget_above_eligible_cases", 1)
		if len(derived) > 0 {
			cnt("budget_above_eligible_partial_set", 1)
		}
	}
	if len(derived) > 0 && prot.nProtected > 0 {
		cnt("protection_clause_nontrivial", 1)
	}
	if c.Topo.Static {
		cnt("kubelet_static_cases", 1)
	}
	return vs
}

// alphabets ------------------------------------------------------------------------------------------------------

func c10DedupSets(sets [][]int) [][]int {
	seen := map[string]bool{}
	var out [][]int
	for _, s := range sets {
		k := c10Fmt(s)
		if seen[k] {
			continue
		}
		seen[k] = true
		out = append(out, s)
	}
	return out
}

// pod options of a layout: absent, or QoS x annotated set (+ one malformed annotation)
// level 2: full (absent | 4 QoS x 4 sets | malformed); level 1: absent | LSE,LSR x 4 sets; level 0: absent | LSE core0,
// LSE last, LSR NUMA0, LS all
func c10PodOptions(l *c10Layout, level int) []c10Pod {
	sets := c10DedupSets([][]int{l.setCore0(), l.setNUMA0(), l.ids(), l.setLast()})
	out := []c10Pod{{}} // absent (no pod; also stands for a pod without cpuset annotation, which the code skips)
	if level == 0 {
		seen := map[c10Pod]bool{}
		for _, p := range []c10Pod{{"LSE", c10Fmt(l.setCore0())}, {"LSE", c10Fmt(l.setLast())}, {"LSR", c10Fmt(l.setNUMA0())}, {"LS", c10Fmt(l.ids())}} {
			if !seen[p] {
				seen[p] = true
				out = append(out, p)
			}
		}
		return out
	}
	qos := []string{"LSE", "LSR", "LS", "BE"}
	if level == 1 {
		qos = []string{"LSE", "LSR"}
	}
	for _, q := range qos {
		for _, s := range sets {
			out = append(out, c10Pod{QoS: q, CPUSet: c10Fmt(s)})
		}
	}
	if level == 2 {
		out = append(out, c10Pod{QoS: "LSE", CPUSet: "0-x"}) // malformed annotation must not crash anything
	}
	return out
}

func c10BudgetAlphabet(n int, thorough bool) []int64 {
	cand := []int64{-1500, 1, 2001, 3000, int64(n/2)*1000 + 1, int64(n) * 1000, int64(n+1) * 1000}
	if thorough {
		cand = []int64{-1500, 0, 1, 2000, 2001, 3000, int64(n/2)*1000 + 1, int64(n) * 1000, int64(n+1) * 1000}
	}
	seen := map[int64]bool{}
	var out []int64
	for _, v := range cand {
		if !seen[v] {
			seen[v] = true
			out = append(out, v)
		}
	}
	return out
}

type c10SysOpt struct {
	ids       []int
	nonExcl   bool
	malformed bool
}

// c10SetAlpha is the alphabet of one layout.
type c10SetAlpha struct {
	l        *c10Layout
	podAlpha [][]c10Pod
	podObjs  [][]*statesinformer.PodMeta // prebuilt pod objects (read-only for the code under check)
	reserved [][]int
	sys      []c10SysOpt
	olds     [][]int
	budgets  []int64
	rx       mc.Radix
}

func c10NewSetAlpha(l *c10Layout, thorough bool, npods int) *c10SetAlpha {
	a := &c10SetAlpha{l: l}
	// pod alphabets per slot: quick = full x LSE/LSR-only; thorough = full x full x small
	levels := []int{2, 1}
	if thorough {
		levels = []int{2, 2, 0}
	}
	var dims []int
	for k, lv := range levels[:npods] {
		opts := c10PodOptions(l, lv)
		a.podAlpha = append(a.podAlpha, opts)
		var objs []*statesinformer.PodMeta
		for _, p := range opts {
			objs = append(objs, c10BuildPod(k, p))
		}
		a.podObjs = append(a.podObjs, objs)
		dims = append(dims, len(opts))
	}
	two := c10FirstK(min(2, l.N))
	if thorough {
		a.reserved = c10DedupSets([][]int{nil, c10FirstK(1), two, l.ids()})
		for _, s := range c10DedupSets([][]int{nil, c10FirstK(1), two, l.setUpperHalf(), l.ids()}) {
			a.sys = append(a.sys, c10SysOpt{ids: s})
		}
		a.sys = append(a.sys, c10SysOpt{ids: two, nonExcl: true}, c10SysOpt{malformed: true})
		a.olds = c10DedupSets([][]int{l.ids(), two, nil, c10FirstK(1)})
	} else {
		a.reserved = c10DedupSets([][]int{nil, two, l.ids()})
		for _, s := range c10DedupSets([][]int{nil, two, l.setUpperHalf(), l.ids()}) {
			a.sys = append(a.sys, c10SysOpt{ids: s})
		}
		a.sys = append(a.sys, c10SysOpt{ids: two, nonExcl: true})
		a.olds = c10DedupSets([][]int{l.ids(), two, nil})
	}
	a.budgets = c10BudgetAlphabet(l.N, thorough)
	dims = append(dims, len(a.reserved), len(a.sys), len(a.olds), len(a.budgets), 2)
	a.rx = mc.Radix{Dims: dims}
	return a
}

// decode returns case i; canonical is false when the same case also exists with its pods moved to the front (an absent
// slot before a present one): later slots' alphabets are subsets of earlier ones, so counting only canonical tuples
// counts distinct inputs exactly.
func (a *c10SetAlpha) decode(i int64) (c *c10SetCase, pods []*statesinformer.PodMeta, canonical bool) {
	d := a.rx.Decode(i, make([]int, 0, 10))
	np := len(a.podAlpha)
	c = &c10SetCase{Layout: a.l.Name}
	canonical = true
	gap := false
	for k := 0; k < np; k++ {
		p := a.podAlpha[k][d[k]]
		if p.CPUSet == "" {
			gap = true
			continue
		}
		if gap {
			canonical = false
		}
		c.Pods = append(c.Pods, p)
		pods = append(pods, a.podObjs[k][d[k]])
	}
	so := a.sys[d[np+1]]
	c.Topo = c10TopoCfg{Reserved: a.reserved[d[np]], Sys: so.ids, SysNonExcl: so.nonExcl, SysMalformed: so.malformed, Static: d[np+4] == 1}
	c.Old = a.olds[d[np+2]]
	c.BudgetMilli = a.budgets[d[np+3]]
	return c, pods, canonical
}

func c10RunCPUSetPart(env *mc.Env, tree *c10Tree, layouts []*c10Layout, npods int) {
	res := mc.NewResult("C10", "cpuset", "enumeration")
	res.Exhaustive = true
	var total int64
	var alphas []*c10SetAlpha
	for _, l := range layouts {
		if !env.Thorough() && l.Split && l.N >= 8 {
			continue // quick: the split sibling numbering only up to 4 CPUs (all of them in the select and thorough parts)
		}
		a := c10NewSetAlpha(l, env.Thorough(), npods)
		alphas = append(alphas, a)
		total += a.rx.Size()
	}
	for _, a := range alphas {
		a := a
		l := a.l
		done, complete := env.ParallelRangeL(res, a.rx.Size(), func(lc *mc.Local, i int64) {
			c, pods, canonical := a.decode(i)
			lc.Evals++
			o := c10RunSet(l, c, pods)
			for _, v := range c10JudgeSetCase(tree, l, c, o, lc.Count) {
				res.Violate(v)
			}
			if len(o.Final) > 0 && canonical {
				lc.Count("distinct_nontrivial_cases", 1)
			}
			if i%400009 == 7 {
				res.Sample(fmt.Sprintf("%+v -> containers:%q root:%q", *c, o.Final[tree.ctrFile], o.Final[tree.rootFile]))
			}
		})
		if !complete {
			res.Exhaustive = false
			res.Capped = fmt.Sprintf("time budget hit in layout %s (%d of %d cases of that layout done; %d of %d cases overall)", l.Name, done, a.rx.Size(), res.Evaluations, total)
			break
		}
	}
	res.Traces = res.Evaluations
	res.Distinct = res.Counters["distinct_nontrivial_cases"]
	res.Rule = fmt.Sprintf("every member of: %d processor layouts (sockets{1,2} x NUMA/socket{1,2} x cores/NUMA{1,2,4} x HT{1,2}, adjacent and split sibling numbering; quick: split only up to 4 CPUs) x ordered tuples of %d pods "+
		"(absent | QoS{LSE,LSR,LS,BE} x cpuset annotation{core 0, NUMA node 0, all CPUs, last CPU} | malformed annotation; quick: 2nd pod LSE/LSR only; thorough: 3rd pod in {absent, LSE core 0, LSE last CPU, LSR NUMA 0, LS all}) x reservedCPUs{none,{0,1},all (+{0} thorough)} x "+
		"system-QoS cpuset{none,{0,1},upper half,all; {0,1} non-exclusive (+{0}, malformed thorough)} x current BE cpuset{all,{0,1},empty (+{0} thorough)} x budget milli{-1500,1,2001,3000,N/2+0.001,N,N+1 CPUs (+0,2000 thorough)} x kubelet policy{none,static}; "+
		"non-trivial = a cpuset was written; distinct = distinct inputs among those (pod tuples that differ only by the position of absent slots are counted once)", len(alphas), npods)
	res.Bounds = map[string]any{"layouts": len(alphas), "max_cpus": c10MaxN(layouts), "pods": npods, "cases": total}
	res.Assumptions = []string{
		"the transient union (old + new cpuset) that applyCPUSetWithNonePolicy writes top-down before the real set is outside the property; the LAST value written per cgroup is judged",
		"the derived set is the final cpuset.cpus of the BE container cgroup (with kubelet static policy the BE root/pod level holds the recovery set, which is judged for protection only)",
		"a CPU named by an LSE pod and by another pod's annotation is 'contested' (not exclusively owned): neither demanded nor forbidden",
		"step limit per round = ceil(#CPUs x beMaxIncreaseCPUPercent) (constant read from the package) relative to the size of the BE root cgroup's current cpuset",
		"the BE root cpuset is readable; cgroup v1 file names",
	}
	env.Emit(res)
}
