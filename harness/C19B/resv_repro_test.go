package reservation

// Plain repro (no engine) of C19|resv|*|pod-before-its-reservation: a restarted scheduler that is handed a bound owner
// pod before the Reservation it allocated from (pods: main informer factory, reservations: koordinator factory - not
// ordered relative to each other) forgets the allocation: the reserved amount is available again and a consumed
// allocate-once reservation is matchable again. Copy into pkg/scheduler/plugins/reservation/ as *_test.go to run.

import (
	"testing"
	"time"

	"github.com/stretchr/testify/assert"
	corev1 "k8s.io/api/core/v1"
	"k8s.io/apimachinery/pkg/api/resource"
	metav1 "k8s.io/apimachinery/pkg/apis/meta/v1"
	"k8s.io/utils/ptr"

	apiext "github.com/koordinator-sh/koordinator/apis/extension"
	schedulingv1alpha1 "github.com/koordinator-sh/koordinator/apis/scheduling/v1alpha1"
	reservationutil "github.com/koordinator-sh/koordinator/pkg/util/reservation"
)

func TestC19ReproPodDeliveredBeforeItsReservation(t *testing.T) {
	cpu := func(s string) corev1.PodSpec {
		return corev1.PodSpec{Containers: []corev1.Container{{Resources: corev1.ResourceRequirements{Requests: corev1.ResourceList{corev1.ResourceCPU: resource.MustParse(s)}}}}}
	}
	r := &schedulingv1alpha1.Reservation{ObjectMeta: metav1.ObjectMeta{Name: "r", UID: "uid-r"}, Spec: schedulingv1alpha1.ReservationSpec{
		Template: &corev1.PodTemplateSpec{Spec: cpu("4")}, TTL: &metav1.Duration{Duration: time.Hour}, AllocateOnce: ptr.To(true),
		Owners: []schedulingv1alpha1.ReservationOwner{{LabelSelector: &metav1.LabelSelector{MatchLabels: map[string]string{"app": "x"}}}}}}
	assert.NoError(t, reservationutil.SetReservationAvailable(r, "n1")) // what Plugin.Bind persisted
	pod := &corev1.Pod{ObjectMeta: metav1.ObjectMeta{Name: "p", Namespace: "default", UID: "uid-p", Labels: map[string]string{"app": "x"}}, Spec: cpu("1")}
	pod.Spec.NodeName = "n1"
	apiext.SetReservationAllocated(pod, r) // what Plugin.PreBind persisted
	for _, order := range []string{"reservation-first", "pod-first"} {
		c, nm := newReservationCache(nil), newNominator(nil, nil)
		rh, ph := &reservationEventHandler{cache: c, rrNominator: nm}, &podEventHandler{cache: c, nominator: nm}
		if order == "reservation-first" {
			rh.OnAdd(r, true)
			ph.OnAdd(pod, true)
		} else {
			ph.OnAdd(pod, true)
			rh.OnAdd(r, true)
		}
		ri := c.getReservationInfoByUID(r.UID)
		t.Logf("%s: assigned pods=%d allocated=%v matchable=%v", order, len(ri.AssignedPods), ri.Allocated, ri.IsMatchable())
		assert.Len(t, ri.AssignedPods, 1, order+": the bound owner pod must be assigned")
		assert.False(t, ri.IsMatchable(), order+": a consumed allocate-once reservation must not be matchable")
	}
}
