package nodeslo

// C20 harness, shared part: schema of the five strategy sections obtained BY REFLECTION over the API types,
// generic JSON-tree helpers, the independent reference (overlay default <- cluster <- first matching node entry,
// decided on the raw ConfigMap text) and the judge that compares it leaf by leaf with the spec delivered to a node.
// See /verif/DESIGN.md §4 C20. Nothing in here calls into the code under check except c20Deliver (the observation).

import (
	"bytes"
	"encoding/json"
	"fmt"
	"reflect"
	"sort"
	"strconv"
	"strings"
	"sync"

	corev1 "k8s.io/api/core/v1"
	"k8s.io/apimachinery/pkg/api/resource"
	metav1 "k8s.io/apimachinery/pkg/apis/meta/v1"
	"k8s.io/apimachinery/pkg/util/intstr"
	"k8s.io/client-go/tools/record"

	"github.com/koordinator-sh/koordinator/apis/configuration"
	slov1alpha1 "github.com/koordinator-sh/koordinator/apis/slo/v1alpha1"
	"github.com/koordinator-sh/koordinator/pkg/zzverif/mc"
)

// ---------------------------------------------------------------------------------------------------------------
// schema

type c20Leaf struct {
	Sec   *c20Section
	Path  []string
	Key   string       // Path joined by "."
	Kind  string       // bool | int | string | quantity | intorstr | array
	Class string       // kind of field used in violation keys: ptr-bool, ptr-int, ptr-string, plain-string, quantity, ptr-intorstr, map-entry, array
	Soft  bool         // the Go type cannot tell the zero value from "unset" (non-pointer + omitempty string/slice/map)
	InMap bool         // the leaf is one entry of a map[string]bool field (Path[:n-1] is the map field)
	Elem  reflect.Type // element type of an array leaf
	Idx   int          // index inside the section
}

type c20Section struct {
	Name       string
	DataKey    string // key of the section in the slo-controller ConfigMap
	SpecKey    string // key of the section in the JSON of NodeSLOSpec
	ClusterKey string // "clusterStrategy"; "" = cluster-wide fields are inlined at the top of the section (host apps)
	EntriesKey string // "nodeStrategies" / "nodeConfigs"
	Leaves     []*c20Leaf
	ByKey      map[string]*c20Leaf
	SoftPath   map[string]bool // path -> zero value is indistinguishable from unset in the API type
	MapField   map[string]bool // path -> field is a map (entries are leaves)
	Default    any             // JSON tree of the built-in default strategy of the section
	DefFlat    map[string]string
	Plain      []*c20Leaf // leaves that are neither soft nor arrays nor quantities nor map entries (used by hist configs)
}

var (
	c20QuantityT = reflect.TypeOf(resource.Quantity{})
	c20IntOrStrT = reflect.TypeOf(intstr.IntOrString{})
)

func c20Join(path []string) string { return strings.Join(path, ".") }

func (s *c20Section) addLeaf(l *c20Leaf) {
	l.Sec = s
	l.Key = c20Join(l.Path)
	l.Idx = len(s.Leaves)
	s.Leaves = append(s.Leaves, l)
	s.ByKey[l.Key] = l
	if l.Soft && !l.InMap {
		s.SoftPath[l.Key] = true
	}
}

// walk enumerates every leaf path of a strategy type from its json tags. Unknown kinds panic on purpose: a new
// field type must force an update of the harness instead of silently staying uncovered.
func (s *c20Section) walk(t reflect.Type, path []string, skipTop map[string]bool) {
	for i := 0; i < t.NumField(); i++ {
		f := t.Field(i)
		if f.PkgPath != "" && !f.Anonymous {
			continue // unexported
		}
		tag := f.Tag.Get("json")
		name, opts, _ := strings.Cut(tag, ",")
		if name == "-" {
			continue
		}
		ft := f.Type
		ptr := false
		if ft.Kind() == reflect.Ptr {
			ptr = true
			ft = ft.Elem()
		}
		special := ft == c20QuantityT || ft == c20IntOrStrT
		if ft.Kind() == reflect.Struct && !special && (strings.Contains(opts, "inline") || (f.Anonymous && name == "")) {
			s.walk(ft, path, skipTop)
			continue
		}
		if name == "" {
			name = f.Name
		}
		if len(path) == 0 && skipTop[name] {
			continue
		}
		omit := strings.Contains(opts, "omitempty")
		p := append(append([]string{}, path...), name)
		pre := "plain-"
		if ptr {
			pre = "ptr-"
		}
		switch {
		case ft == c20QuantityT:
			cl := "quantity"
			if ptr {
				cl = "ptr-quantity"
			}
			// a non-pointer omitempty Quantity is meant to be "unset when zero" (encoding/json nevertheless emits "0")
			s.addLeaf(&c20Leaf{Path: p, Kind: "quantity", Class: cl, Soft: !ptr && omit})
		case ft == c20IntOrStrT:
			s.addLeaf(&c20Leaf{Path: p, Kind: "intorstr", Class: pre + "intorstr"})
		case ft.Kind() == reflect.Struct:
			s.walk(ft, p, nil)
		case ft.Kind() == reflect.Bool:
			s.addLeaf(&c20Leaf{Path: p, Kind: "bool", Class: pre + "bool", Soft: !ptr && omit})
		case ft.Kind() == reflect.Int64 || ft.Kind() == reflect.Int32 || ft.Kind() == reflect.Int:
			s.addLeaf(&c20Leaf{Path: p, Kind: "int", Class: pre + "int", Soft: !ptr && omit})
		case ft.Kind() == reflect.String:
			s.addLeaf(&c20Leaf{Path: p, Kind: "string", Class: pre + "string", Soft: !ptr && omit})
		case ft.Kind() == reflect.Map && ft.Key().Kind() == reflect.String && ft.Elem().Kind() == reflect.Bool:
			s.MapField[c20Join(p)] = true
			if !ptr && omit {
				s.SoftPath[c20Join(p)] = true
			}
			for _, k := range []string{"fx", "fy"} {
				s.addLeaf(&c20Leaf{Path: append(append([]string{}, p...), k), Kind: "bool", Class: "map-entry", InMap: true})
			}
		case ft.Kind() == reflect.Slice:
			s.addLeaf(&c20Leaf{Path: p, Kind: "array", Class: "array", Soft: !ptr && omit, Elem: ft.Elem()})
		default:
			panic(fmt.Sprintf("C20 schema: unhandled field kind %s at %s.%s - extend the harness", ft, s.Name, c20Join(p)))
		}
	}
}

var (
	c20Once     sync.Once
	c20Sections []*c20Section
)

func c20Schema() []*c20Section {
	c20Once.Do(func() {
		def := DefaultSLOCfg() // "the built-in default" is read from the package's own constructor (DESIGN §3.1)
		mk := func(name, dataKey, specKey, clusterKey, entriesKey string, t reflect.Type, skip map[string]bool, d any) {
			s := &c20Section{Name: name, DataKey: dataKey, SpecKey: specKey, ClusterKey: clusterKey, EntriesKey: entriesKey,
				ByKey: map[string]*c20Leaf{}, SoftPath: map[string]bool{}, MapField: map[string]bool{}}
			s.walk(t, nil, skip)
			s.Default = c20ToTree(d)
			if s.Default == nil {
				s.Default = map[string]any{}
			}
			s.DefFlat = s.flatten(s.Default, false)
			for _, l := range s.Leaves {
				if !l.Soft && !l.InMap && l.Kind != "array" && l.Kind != "quantity" {
					s.Plain = append(s.Plain, l)
				}
			}
			c20Sections = append(c20Sections, s)
		}
		mk("threshold", configuration.ResourceThresholdConfigKey, "resourceUsedThresholdWithBE", "clusterStrategy", "nodeStrategies",
			reflect.TypeOf(slov1alpha1.ResourceThresholdStrategy{}), nil, def.ThresholdCfgMerged.ClusterStrategy)
		mk("qos", configuration.ResourceQOSConfigKey, "resourceQOSStrategy", "clusterStrategy", "nodeStrategies",
			reflect.TypeOf(slov1alpha1.ResourceQOSStrategy{}), nil, def.ResourceQOSCfgMerged.ClusterStrategy)
		mk("burst", configuration.CPUBurstConfigKey, "cpuBurstStrategy", "clusterStrategy", "nodeStrategies",
			reflect.TypeOf(slov1alpha1.CPUBurstStrategy{}), nil, def.CPUBurstCfgMerged.ClusterStrategy)
		mk("system", configuration.SystemConfigKey, "systemStrategy", "clusterStrategy", "nodeStrategies",
			reflect.TypeOf(slov1alpha1.SystemStrategy{}), nil, def.SystemCfgMerged.ClusterStrategy)
		mk("hostapps", configuration.HostApplicationConfigKey, "hostApplications", "", "nodeConfigs",
			reflect.TypeOf(configuration.HostApplicationCfg{}), map[string]bool{"nodeConfigs": true},
			map[string]any{"applications": def.HostAppCfgMerged.Applications})
	})
	return c20Sections
}

func c20SectionByName(n string) *c20Section {
	for _, s := range c20Schema() {
		if s.Name == n {
			return s
		}
	}
	panic("no section " + n)
}

// ---------------------------------------------------------------------------------------------------------------
// values (layer 0 = cluster, 1 = node entry 1, 2 = node entry 2): distinct per layer so the origin of a delivered
// value is visible, distinct from every built-in default and from the zero value.

func (l *c20Leaf) val(layer int) any {
	switch l.Kind {
	case "bool":
		return true
	case "int":
		return 11 * (layer + 1)
	case "string":
		return []string{"vc", "v1", "v2"}[layer]
	case "quantity":
		return []string{"100M", "200M", "300M"}[layer]
	case "intorstr":
		if layer == 2 {
			return "33M"
		}
		return 11 * (layer + 1)
	case "array":
		switch layer {
		case 0: // two complete elements
			return []any{c20Gen(l.Elem, 100, true), c20Gen(l.Elem, 200, true)}
		case 1: // one element that sets only its first field
			return []any{c20Gen(l.Elem, 300, false)}
		default: // longer than the cluster's
			return []any{c20Gen(l.Elem, 400, false), c20Gen(l.Elem, 500, true), c20Gen(l.Elem, 600, false)}
		}
	}
	panic("val: " + l.Kind)
}

func (l *c20Leaf) zero() any {
	switch l.Kind {
	case "bool":
		return false
	case "int", "intorstr":
		return 0
	case "string":
		return ""
	case "quantity":
		return "0"
	case "array":
		return []any{}
	}
	panic("zero: " + l.Kind)
}

// c20Gen builds a JSON value for an arbitrary (element) type by reflection: every field when full, only the first
// leaf otherwise. Values are derived from seed so that elements of different layers differ everywhere.
func c20Gen(t reflect.Type, seed int, full bool) any {
	n := 0
	return c20GenR(t, seed, full, &n)
}

func c20GenR(t reflect.Type, seed int, full bool, n *int) any {
	if t.Kind() == reflect.Ptr {
		t = t.Elem()
	}
	switch {
	case t == c20QuantityT:
		*n++
		return fmt.Sprintf("%dM", seed+*n)
	case t == c20IntOrStrT:
		*n++
		return seed + *n
	}
	switch t.Kind() {
	case reflect.Struct:
		m := map[string]any{}
		for i := 0; i < t.NumField(); i++ {
			if !full && *n > 0 {
				break
			}
			f := t.Field(i)
			name, opts, _ := strings.Cut(f.Tag.Get("json"), ",")
			if name == "-" {
				continue
			}
			ft := f.Type
			if ft.Kind() == reflect.Ptr {
				ft = ft.Elem()
			}
			if ft.Kind() == reflect.Struct && ft != c20QuantityT && ft != c20IntOrStrT && (strings.Contains(opts, "inline") || (f.Anonymous && name == "")) {
				sub := c20GenR(ft, seed, full, n).(map[string]any)
				for k, v := range sub {
					m[k] = v
				}
				continue
			}
			if name == "" {
				name = f.Name
			}
			v := c20GenR(ft, seed, full, n)
			if mm, ok := v.(map[string]any); ok && len(mm) == 0 {
				continue
			}
			m[name] = v
		}
		return m
	case reflect.Bool:
		*n++
		return true
	case reflect.Int, reflect.Int32, reflect.Int64:
		*n++
		return seed + *n
	case reflect.String:
		*n++
		return fmt.Sprintf("s%d", seed+*n)
	case reflect.Slice:
		return []any{c20GenR(t.Elem(), seed, full, n)}
	case reflect.Map:
		*n++
		return map[string]any{"k": true}
	}
	panic("c20Gen: unhandled " + t.String())
}

// ---------------------------------------------------------------------------------------------------------------
// JSON trees

func c20Parse(b []byte) (any, error) {
	d := json.NewDecoder(bytes.NewReader(b))
	d.UseNumber()
	var v any
	if err := d.Decode(&v); err != nil {
		return nil, err
	}
	if d.More() {
		return nil, fmt.Errorf("trailing data")
	}
	return v, nil
}

func c20ToTree(v any) any {
	b, err := json.Marshal(v)
	if err != nil {
		panic(err)
	}
	t, err := c20Parse(b)
	if err != nil {
		panic(err)
	}
	return t
}

func c20Text(v any) string {
	b, err := json.Marshal(v) // map keys are emitted sorted: deterministic text
	if err != nil {
		panic(err)
	}
	return string(b)
}

func c20SetPath(m map[string]any, path []string, v any) {
	for i := 0; i < len(path)-1; i++ {
		c, ok := m[path[i]].(map[string]any)
		if !ok {
			c = map[string]any{}
			m[path[i]] = c
		}
		m = c
	}
	m[path[len(path)-1]] = v
}

// c20Norm drops nulls, empty strings, empty arrays and empty objects (used inside array leaves, where every string
// of the element types is a non-pointer omitempty field and the generator never produces zero values).
func c20Norm(n any) any {
	switch v := n.(type) {
	case map[string]any:
		o := map[string]any{}
		for k, c := range v {
			if c = c20Norm(c); c != nil {
				o[k] = c
			}
		}
		if len(o) == 0 {
			return nil
		}
		return o
	case []any:
		o := []any{}
		for _, c := range v {
			o = append(o, c20Norm(c))
		}
		if len(o) == 0 {
			return nil
		}
		return o
	case string:
		if v == "" {
			return nil
		}
	}
	return n
}

const c20Absent = "<absent>"

// flatten lists the leaves of a strategy tree: scalars by their JSON token, arrays as one canonical leaf.
// Objects (struct or map typed) are recursed, so an empty object has no leaves. When keepSoft is false the zero
// value of a "soft" field (which the API type cannot deliver at all: it is omitted from the NodeSLO JSON) is not
// a leaf; with keepSoft the raw text's explicit zeros stay visible ("does this layer set the field").
func (s *c20Section) flatten(tree any, keepSoft bool) map[string]string {
	out := map[string]string{}
	s.flat(tree, "", keepSoft, out)
	return out
}

func (s *c20Section) flat(n any, path string, keepSoft bool, out map[string]string) {
	switch v := n.(type) {
	case nil:
	case map[string]any:
		if len(v) == 0 && keepSoft && s.MapField[path] {
			out[path] = "{}"
		}
		for k, c := range v {
			p := k
			if path != "" {
				p = path + "." + k
			}
			s.flat(c, p, keepSoft, out)
		}
	case []any:
		if len(v) == 0 && s.SoftPath[path] && !keepSoft {
			return
		}
		c := c20Norm(v)
		if c == nil {
			c = []any{}
		}
		out[path] = c20Text(c)
	case string:
		if s.SoftPath[path] && !keepSoft {
			if lf := s.ByKey[path]; v == "" || (lf != nil && lf.Kind == "quantity" && v == "0") {
				return
			}
		}
		out[path] = strconv.Quote(v)
	default:
		out[path] = fmt.Sprint(v)
	}
}

// reading: the statement leaves three things open, and the oracle accepts every consistent reading of them:
//   - whether writing the zero value ("" / [] / {}) of a field whose API type cannot distinguish zero from unset
//     (non-pointer, omitempty) "sets" the field,
//   - whether a map-valued field is one field (replaced) or a set of fields (merged per key),
//   - whether an array is one field (replaced) or a list of positional fields (merged per index, nothing dropped).
type c20Reading struct{ softZeroUnset, mapsReplace, arraysMerge bool }

// c20StrictSoftZero = true would demand that even the zero value of a non-pointer omitempty field overrides the
// lower layer (DESIGN §6 lead "omitempty zero values cannot override a cluster value through MergeCfg"). Triage
// (HARNESS_GUIDE rule 8): the API types declare zero == unset for exactly these fields (cpuSuppressPolicy,
// cpuEvictPolicy, cpu-burst policy, blkio blocks, schedFeatures, totalNetworkBandwidth, host applications) and
// the NodeSLO object handed to the node cannot carry such a zero either, so "the entry sets the field" is not
// decidable for them from the statement: both outcomes are accepted and the observed one is counted.
const c20StrictSoftZero = false

var c20Readings = func() []c20Reading {
	var r []c20Reading
	for i := 0; i < 8; i++ {
		if c20StrictSoftZero && i&1 != 0 {
			continue
		}
		r = append(r, c20Reading{i&1 != 0, i&2 != 0, i&4 != 0})
	}
	return r
}()

// overlay returns base with over laid on top (objects merged recursively, scalars replaced, null = not set).
// It never mutates its arguments.
func (s *c20Section) overlay(base, over any, path string, rd c20Reading) any {
	switch o := over.(type) {
	case nil:
		return base
	case map[string]any:
		if s.MapField[path] {
			if rd.mapsReplace { // the map is one field: the layer's map replaces the lower one
				if len(o) == 0 && s.SoftPath[path] && rd.softZeroUnset {
					return base
				}
				return o
			}
			if len(o) == 0 { // the map is a set of fields: an empty map sets none of them
				return base
			}
		}
		b, _ := base.(map[string]any)
		res := make(map[string]any, len(b)+len(o))
		for k, v := range b {
			res[k] = v
		}
		for k, v := range o {
			p := k
			if path != "" {
				p = path + "." + k
			}
			res[k] = s.overlay(b[k], v, p, rd)
		}
		return res
	case []any:
		if len(o) == 0 && s.SoftPath[path] && rd.softZeroUnset {
			return base
		}
		b, isArr := base.([]any)
		if !rd.arraysMerge || !isArr {
			return o
		}
		var res []any
		for i := range o {
			if i < len(b) {
				res = append(res, s.overlay(b[i], o[i], path+"[]", rd))
			} else {
				res = append(res, o[i])
			}
		}
		if len(b) > len(o) {
			res = append(res, b[len(o):]...)
		}
		return res
	case string:
		if s.SoftPath[path] && rd.softZeroUnset {
			if lf := s.ByKey[path]; o == "" || (lf != nil && lf.Kind == "quantity" && o == "0") {
				return base
			}
		}
	}
	return over
}

// ---------------------------------------------------------------------------------------------------------------
// label selectors on the raw text (standard Kubernetes semantics; nil selector matches nothing, empty matches all,
// a selector that is invalid can never match)

func c20SelMatch(sel any, labels map[string]string) (match, valid bool) {
	if sel == nil {
		return false, true
	}
	m := sel.(map[string]any)
	match, valid = true, true
	if ml, ok := m["matchLabels"].(map[string]any); ok {
		for k, v := range ml {
			if lv, has := labels[k]; !has || lv != v.(string) {
				match = false
			}
		}
	}
	if me, ok := m["matchExpressions"].([]any); ok {
		for _, e := range me {
			ex := e.(map[string]any)
			key, _ := ex["key"].(string)
			op, _ := ex["operator"].(string)
			var vals []string
			if vs, ok := ex["values"].([]any); ok {
				for _, v := range vs {
					vals = append(vals, v.(string))
				}
			}
			lv, has := labels[key]
			in := false
			for _, v := range vals {
				if v == lv {
					in = true
				}
			}
			switch op {
			case "In":
				if len(vals) == 0 {
					valid = false
				}
				if !has || !in {
					match = false
				}
			case "NotIn":
				if len(vals) == 0 {
					valid = false
				}
				if has && in {
					match = false
				}
			case "Exists":
				if len(vals) != 0 {
					valid = false
				}
				if !has {
					match = false
				}
			case "DoesNotExist":
				if len(vals) != 0 {
					valid = false
				}
				if has {
					match = false
				}
			default:
				valid = false
			}
		}
	}
	if !valid {
		match = false
	}
	return match, valid
}

// ---------------------------------------------------------------------------------------------------------------
// reference

type c20Layers struct {
	cluster  any
	entries  []any // strategy tree of every node entry (entry object minus name / nodeSelector)
	matching []int // entries whose selector matches, in order
	invalid  []int // entries with an invalid selector
}

func (lay *c20Layers) first() int {
	if len(lay.matching) == 0 {
		return -1
	}
	return lay.matching[0]
}

// layers splits the parsed raw text of one section (nil = section not effective -> defaults only).
func (s *c20Section) layers(raw any, labels map[string]string) *c20Layers {
	lay := &c20Layers{}
	m, ok := raw.(map[string]any)
	if !ok {
		return lay
	}
	if s.ClusterKey != "" {
		lay.cluster = m[s.ClusterKey]
	} else {
		c := map[string]any{}
		for k, v := range m {
			if k != s.EntriesKey {
				c[k] = v
			}
		}
		lay.cluster = c
	}
	es, _ := m[s.EntriesKey].([]any)
	for i, e := range es {
		em, _ := e.(map[string]any)
		st := map[string]any{}
		for k, v := range em {
			if k != "name" && k != "nodeSelector" {
				st[k] = v
			}
		}
		lay.entries = append(lay.entries, st)
		match, valid := c20SelMatch(em["nodeSelector"], labels)
		if !valid {
			lay.invalid = append(lay.invalid, i)
		}
		if match {
			lay.matching = append(lay.matching, i)
		}
	}
	return lay
}

func (s *c20Section) expected(lay *c20Layers, rd c20Reading) map[string]string {
	t := s.overlay(s.Default, lay.cluster, "", rd)
	if f := lay.first(); f >= 0 {
		t = s.overlay(t, lay.entries[f], "", rd)
	}
	out := s.flatten(t, false)
	for p := range out {
		if s.classOf(p) == "unknown-path" { // keys the API types do not know are not settings
			delete(out, p)
		}
	}
	return out
}

func c20FlatEq(a, b map[string]string) bool {
	if len(a) != len(b) {
		return false
	}
	for k, v := range a {
		if w, ok := b[k]; !ok || w != v {
			return false
		}
	}
	return true
}

type c20Mismatch struct {
	Path   string
	Got    string
	Want   []string
	Clause string
	Class  string
}

func (s *c20Section) classOf(path string) string {
	if l := s.ByKey[path]; l != nil {
		return l.Class
	}
	if i := strings.LastIndex(path, "."); i > 0 && s.MapField[path[:i]] {
		return "map-entry"
	}
	return "unknown-path"
}

func c20Get(m map[string]string, k string) string {
	if v, ok := m[k]; ok {
		return v
	}
	return c20Absent
}

// judge compares what was delivered for one section with the reference. It returns nil when the delivered leaves
// equal the overlay under the strict reading, otherwise every leaf whose delivered value is not the value of that
// leaf under ANY reading (arrays are single leaves, so an array must equal one consistent reading as a whole).
func (s *c20Section) judge(raw any, labels map[string]string, got map[string]string) ([]c20Mismatch, *c20Layers) {
	lay := s.layers(raw, labels)
	strict := s.expected(lay, c20Reading{})
	if c20FlatEq(strict, got) {
		return nil, lay
	}
	exps := []map[string]string{strict}
	for _, rd := range c20Readings[1:] {
		exps = append(exps, s.expected(lay, rd))
	}
	paths := map[string]bool{}
	for k := range got {
		paths[k] = true
	}
	for _, e := range exps {
		for k := range e {
			paths[k] = true
		}
	}
	var out []c20Mismatch
	var eflat []map[string]string
	var cflat map[string]string
	for _, p := range mc.SortedKeys(paths) {
		g := c20Get(got, p)
		ok := false
		want := []string{}
		for _, e := range exps {
			w := c20Get(e, p)
			if w == g {
				ok = true
				break
			}
			dup := false
			for _, x := range want {
				if x == w {
					dup = true
				}
			}
			if !dup {
				want = append(want, w)
			}
		}
		if ok {
			continue
		}
		if eflat == nil {
			for _, e := range lay.entries {
				eflat = append(eflat, s.flatten(e, true))
			}
			cflat = s.flatten(lay.cluster, true)
		}
		mm := c20Mismatch{Path: p, Got: g, Want: want, Class: s.classOf(p)}
		first := lay.first()
		_, clusterSets := cflat[p]
		switch {
		case func() bool { // value of an entry that must not be used for this node
			// (only a distinctive value identifies its origin: the zero value and the default can come from anywhere)
			if lf := s.ByKey[p]; lf == nil || g == lf.canon(lf.zero()) || g == c20Get(s.DefFlat, p) || g == c20Absent {
				return false
			}
			for j, ef := range eflat {
				if v, has := ef[p]; has && j != first && v == g {
					later := false
					for _, k := range lay.matching {
						if k == j {
							later = true
						}
					}
					if later {
						mm.Clause = "later-matching-entry-won"
					} else {
						mm.Clause = "leak-from-non-selected-entry"
					}
					return true
				}
			}
			return false
		}():
		case first >= 0 && func() bool { _, has := eflat[first][p]; return has }():
			mm.Clause = "node-override-lost"
			if mm.Class == "array" && clusterSets {
				mm.Clause = "node-array-mixed-with-cluster-array"
			}
		case clusterSets && first >= 0:
			mm.Clause = "cluster-value-lost-under-matching-entry"
		case clusterSets:
			mm.Clause = "cluster-value-lost"
		case func() bool { _, has := s.DefFlat[p]; return has }():
			mm.Clause = "default-not-delivered"
		default:
			mm.Clause = "unexpected-value"
		}
		out = append(out, mm)
	}
	return out, lay
}

// ---------------------------------------------------------------------------------------------------------------
// observation on the real code

var c20NodeLabels = []map[string]string{nil, {"pool": "a", "zone": "z"}, {"pool": "b"}}
var c20NodeNames = []string{"n-nolabel", "n-pool-a", "n-pool-b"}

func c20NewHandler() *SLOCfgHandlerForConfigMapEvent {
	// the production constructor with the production initial cache (nodeslo_controller.go SetupWithManager);
	// FakeRecorder with a nil channel drops events
	return NewSLOCfgHandlerForConfigMapEvent(nil, DefaultSLOCfg(), &record.FakeRecorder{})
}

func c20ConfigMap(data map[string]string) *corev1.ConfigMap {
	return &corev1.ConfigMap{ObjectMeta: metav1.ObjectMeta{Name: "slo-controller-config", Namespace: "koordinator-system"}, Data: data}
}

// c20Deliver computes the NodeSLOSpec for a node exactly like the reconciler does (getNodeSLOSpec on the handler's
// cache) and returns the typed spec plus, per section, the flattened leaves of its JSON.
func c20Deliver(h *SLOCfgHandlerForConfigMapEvent, node int) (*slov1alpha1.NodeSLOSpec, map[string]map[string]string, error) {
	return c20DeliverOver(h, node, nil)
}

// c20DeliverOver: the same through the reconciler's UPDATE path: old is the spec of the node's existing NodeSLO (nil =
// the NodeSLO is being created).
func c20DeliverOver(h *SLOCfgHandlerForConfigMapEvent, node int, old *slov1alpha1.NodeSLOSpec) (*slov1alpha1.NodeSLOSpec, map[string]map[string]string, error) {
	r := &NodeSLOReconciler{sloCfgCache: h}
	n := &corev1.Node{ObjectMeta: metav1.ObjectMeta{Name: c20NodeNames[node]}}
	if c20NodeLabels[node] != nil {
		n.Labels = map[string]string{}
		for k, v := range c20NodeLabels[node] {
			n.Labels[k] = v
		}
	}
	spec, err := r.getNodeSLOSpec(n, old)
	if err != nil {
		return nil, nil, err
	}
	tree, _ := c20ToTree(spec).(map[string]any)
	out := map[string]map[string]string{}
	for _, s := range c20Schema() {
		sub := tree[s.SpecKey]
		if s.ClusterKey == "" {
			sub = map[string]any{"applications": sub}
		}
		out[s.Name] = s.flatten(sub, false)
	}
	return spec, out, nil
}

// ---------------------------------------------------------------------------------------------------------------
// violation aggregation: one class key per (clause, section, kind of field); the affected leaves are listed in What

type c20Agg struct {
	mu sync.Mutex
	m  map[string]*c20AggE
}

type c20AggE struct {
	n      int64
	leaves map[string]int64
	wit    []mc.Violation
}

func c20NewAgg() *c20Agg { return &c20Agg{m: map[string]*c20AggE{}} }

func (a *c20Agg) add(key, leaf, what string, replay any) {
	a.mu.Lock()
	defer a.mu.Unlock()
	e := a.m[key]
	if e == nil {
		e = &c20AggE{leaves: map[string]int64{}}
		a.m[key] = e
	}
	e.n++
	e.leaves[leaf]++
	if len(e.wit) < 2 || (e.leaves[leaf] == 1 && len(e.wit) < 3) {
		e.wit = append(e.wit, mc.Violation{Key: key, What: what, Replay: replay})
	}
}

func (a *c20Agg) flush(res *mc.Result) {
	a.mu.Lock()
	defer a.mu.Unlock()
	for _, k := range mc.SortedKeys(a.m) {
		e := a.m[k]
		var ls []string
		for l := range e.leaves {
			ls = append(ls, l)
		}
		sort.Strings(ls)
		if len(ls) > 40 {
			ls = append(ls[:40], fmt.Sprintf("... (%d leaves)", len(e.leaves)))
		}
		res.Count("violating_cases|"+k, e.n)
		for _, w := range e.wit {
			w.What = fmt.Sprintf("%d violating (case,node) pairs in this class; affected leaves: %v; witness: %s", e.n, ls, w.What)
			res.Violate(w)
		}
	}
}

// c20Replay is the replay payload of every part: the ConfigMap events (nil = deleted ConfigMap), which sections of
// which event the generator made unparsable on purpose, and the node.
type c20Replay struct {
	Events     []map[string]string `json:"events"`
	Unparsable [][]string          `json:"unparsable,omitempty"`
	Node       string              `json:"node"`
	Labels     map[string]string   `json:"labels"`
}

func c20What(s *c20Section, node int, mm c20Mismatch, raw string) string {
	if mm.Class == "quantity" && mm.Got == c20Absent {
		mm.Got = `"0" (zero quantity)`
	}
	return fmt.Sprintf("section %s leaf %s (%s): node %s labels %v was delivered %s but the layering default<-cluster<-first matching entry gives %s; section text: %s",
		s.Name, mm.Path, mm.Class, c20NodeNames[node], c20NodeLabels[node], mm.Got, strings.Join(mm.Want, " or "), raw)
}
