package nodeslo

// C20 parts "sections" (product of section states, after a fresh start and after a good configuration) and
// "hist-*" (BFS over ConfigMap event histories on the real handler), plus replay support.

import (
	"fmt"
	"strings"
	"testing"

	slov1alpha1 "github.com/koordinator-sh/koordinator/apis/slo/v1alpha1"
	"github.com/koordinator-sh/koordinator/pkg/zzverif/mc"
)

type c20Variant struct {
	Name  string
	Class string // absent | good | unparsable  (a label given by the GENERATOR, never computed with the code's parser)
	Text  string
	Raw   any
}

func c20GoodVariant(name string, obj any) c20Variant {
	text := c20Text(obj)
	raw, err := c20Parse([]byte(text))
	if err != nil {
		panic(err)
	}
	return c20Variant{Name: name, Class: "good", Text: text, Raw: raw}
}

const (
	c20VAbsent = iota
	c20VEmpty
	c20VP1
	c20VP2
	c20VFull
	c20VMalformed
	c20VWrongArray
	c20VWrongDeep
	c20VWrongLeaf
	c20VNull
	c20VUnknownKey
	c20VEntryEmptyList // array-only sections: cluster list + a node entry that sets an EMPTY list
	c20VEntryNoList    // ... the same configuration, the entry does not set the list at all (differs from the former only in nil vs empty)
	c20VTrailing       // a complete, well-formed value (partial2) followed by a stray closing brace: not a JSON document (a streaming decoder would adopt the value: seed C20-6)
	c20VEarlyClose     // an object closed too early: "{}" followed by the rest of partial1
	c20NumV
)

// c20Variants builds the section states by reflection. The good configurations deliberately avoid the three
// layering situations that the leaf parts report on their own (an entry that matches but does not set a
// non-omittable field, arrays at cluster AND entry level, a host-application entry without applications), so that
// a violation of a history clause is never confused with one of those.
func c20Variants(s *c20Section) []c20Variant {
	pl := s.Plain
	arrOnly := len(pl) == 0
	tree := func(kv ...any) map[string]any {
		t := map[string]any{}
		for i := 0; i < len(kv); i += 2 {
			c20SetPath(t, kv[i].(*c20Leaf).Path, kv[i+1])
		}
		return t
	}
	var p1, p2, full map[string]any
	var p2trees [3]map[string]any
	if arrOnly {
		a := s.Leaves[0]
		p1 = c20SectionObj(s, [3]map[string]any{tree(a, a.val(0)), tree(a, a.val(1)), nil}, [2]int{0, 3})
		p2trees = [3]map[string]any{nil, tree(a, a.val(1)), tree(a, a.val(2))}
		p2 = c20SectionObj(s, p2trees, [2]int{1, 2})
		full = c20SectionObj(s, [3]map[string]any{tree(a, a.val(0)), tree(a, a.val(1)), tree(a, a.val(2))}, [2]int{0, 1})
	} else {
		l0, l1, l2 := pl[0], pl[1%len(pl)], pl[2%len(pl)]
		p1 = c20SectionObj(s, [3]map[string]any{tree(l0, l0.val(0)), tree(l1, l1.val(1)), nil}, [2]int{0, 3})
		p2trees = [3]map[string]any{tree(l0, l0.zero(), l2, l2.val(0)), tree(l0, l0.val(1)), tree(l1, l1.zero())}
		p2 = c20SectionObj(s, p2trees, [2]int{1, 2})
		var ft [3]map[string]any
		for k := range ft {
			ft[k] = map[string]any{}
		}
		for _, lf := range s.Leaves {
			c20SetPath(ft[0], lf.Path, lf.val(0))
			if lf.Kind == "array" {
				continue
			}
			c20SetPath(ft[1], lf.Path, lf.val(1))
			if !lf.Soft && lf.Idx%2 == 0 {
				c20SetPath(ft[2], lf.Path, lf.zero())
			} else {
				c20SetPath(ft[2], lf.Path, lf.val(2))
			}
		}
		full = c20SectionObj(s, ft, [2]int{0, 1})
	}
	vs := make([]c20Variant, c20NumV)
	vs[c20VAbsent] = c20Variant{Name: "absent", Class: "absent"}
	vs[c20VEmpty] = c20GoodVariant("{}", map[string]any{})
	vs[c20VP1] = c20GoodVariant("partial1", p1)
	vs[c20VP2] = c20GoodVariant("partial2", p2)
	vs[c20VFull] = c20GoodVariant("full", full)
	vs[c20VMalformed] = c20Variant{Name: "malformed", Class: "unparsable", Text: vs[c20VP1].Text[:len(vs[c20VP1].Text)-1]} // closing brace cut off
	vs[c20VWrongArray] = c20Variant{Name: "wrongshape-array", Class: "unparsable", Text: `[1,2]`}
	vs[c20VTrailing] = c20Variant{Name: "trailing-brace", Class: "unparsable", Text: vs[c20VP2].Text + "}"}
	vs[c20VEarlyClose] = c20Variant{Name: "closed-too-early", Class: "unparsable", Text: "{}," + vs[c20VP1].Text[1:]}
	deep := c20SectionObj(s, p2trees, [2]int{1, 2})
	deep[s.EntriesKey] = map[string]any{"oops": 1} // an object where the list of node entries belongs
	vs[c20VWrongDeep] = c20Variant{Name: "wrongshape-entries-object", Class: "unparsable", Text: c20Text(deep)}
	var wl map[string]any
	if arrOnly {
		wl = map[string]any{s.Leaves[0].Path[0]: map[string]any{"a": 1}}
	} else {
		var bad *c20Leaf
		for _, lf := range pl {
			if lf.Kind == "int" || lf.Kind == "bool" || lf.Kind == "string" {
				bad = lf
				break
			}
		}
		var v any = "not-a-number-or-bool"
		if bad.Kind == "string" {
			v = 5
		}
		l1 := pl[1%len(pl)]
		wl = c20SectionObj(s, [3]map[string]any{tree(bad, v), tree(l1, l1.val(1)), nil}, [2]int{2, 3})
	}
	vs[c20VWrongLeaf] = c20Variant{Name: "wrongshape-leaf-type", Class: "unparsable", Text: c20Text(wl)}
	vs[c20VNull] = c20Variant{Name: "null", Class: "good", Text: "null", Raw: nil}
	vs[c20VNull].Raw = map[string]any{}
	vs[c20VUnknownKey] = c20GoodVariant("unknown-key", map[string]any{"zzUnknownKey": map[string]any{"a": 1}})
	if arrOnly {
		a := s.Leaves[0]
		vs[c20VEntryEmptyList] = c20GoodVariant("entry-sets-empty-list", c20SectionObj(s, [3]map[string]any{tree(a, a.val(0)), tree(a, []any{}), nil}, [2]int{0, 3}))
		vs[c20VEntryNoList] = c20GoodVariant("entry-without-list", c20SectionObj(s, [3]map[string]any{tree(a, a.val(0)), {}, nil}, [2]int{0, 3}))
	} else { // (no such pair for the other sections: duplicates of "{}" that the focus parts skip)
		vs[c20VEntryEmptyList] = c20Variant{Name: "n/a", Class: "skip"}
		vs[c20VEntryNoList] = c20Variant{Name: "n/a", Class: "skip"}
	}
	return vs
}

type c20Event struct {
	Name   string
	Delete bool
	V      []int // variant per section
}

// c20Model is the reference state: per section the parsed raw text that is in force (nil = defaults).
type c20Model struct {
	raw  []any
	tags []string
}

func c20NewModel() *c20Model {
	n := len(c20Schema())
	m := &c20Model{raw: make([]any, n), tags: make([]string, n)}
	for i := range m.tags {
		m.tags[i] = "default"
	}
	return m
}

func (m *c20Model) clone() *c20Model {
	return &c20Model{raw: append([]any{}, m.raw...), tags: append([]string{}, m.tags...)}
}

// apply is the statement: absent -> defaults, unparsable -> previous stays, otherwise the new text is in force.
func (m *c20Model) apply(ev *c20Event, vars [][]c20Variant) (data map[string]string) {
	if ev.Delete {
		for i := range m.raw {
			m.raw[i], m.tags[i] = nil, "default"
		}
		return nil
	}
	data = map[string]string{}
	for i, s := range c20Schema() {
		v := vars[i][ev.V[i]]
		switch v.Class {
		case "absent":
			m.raw[i], m.tags[i] = nil, "default"
		case "unparsable":
			data[s.DataKey] = v.Text
		default:
			data[s.DataKey] = v.Text
			m.raw[i], m.tags[i] = v.Raw, v.Name
		}
	}
	return data
}

func c20Sync(h *SLOCfgHandlerForConfigMapEvent, ev *c20Event, data map[string]string) {
	if ev.Delete {
		h.syncNodeSLOSpecIfChanged(nil)
		return
	}
	h.syncNodeSLOSpecIfChanged(c20ConfigMap(data))
}

// c20JudgeEvent judges the state after the last event. prior is the model before it, before is what the three
// nodes were delivered before it.
//   - unparsable section: what every node is delivered for that section must be exactly what it was delivered
//     before the event (the statement's "leaves the previously effective settings in force"; no model needed);
//   - absent section / deleted ConfigMap: the defaults;
//   - every section additionally against the reference overlay of the text that is in force by the statement
//     (mismatches there are layering violations and carry the same keys as in the leaf parts, unless the
//     delivered section still equals the overlay of the PREVIOUS text: then the new text was not followed).
func c20JudgeEvent(h *SLOCfgHandlerForConfigMapEvent, beforeSpecs [3]*slov1alpha1.NodeSLOSpec, before [3]map[string]map[string]string, prior, cur *c20Model, ev *c20Event, vars [][]c20Variant, count func(string, int64)) (viol []mc.Violation) {
	_, flats, err := c20Observe(h, []int{0, 1, 2})
	if err != nil {
		return []mc.Violation{{Key: "C20|history|deliver-error", What: err.Error()}}
	}
	secs := c20Schema()
	seen := map[string]bool{}
	add := func(key, what string) {
		if !seen[key] {
			seen[key] = true
			viol = append(viol, mc.Violation{Key: key, What: what})
		}
	}
	// the reconciler's update path: the node's NodeSLO already exists and carries what was delivered before the event;
	// what is written over it must be what a freshly created NodeSLO gets (nothing of the old spec may survive in the
	// five sections: seed C20-7 kept an old host-application list when the new one is empty)
	for n := 0; n < 3; n++ {
		if beforeSpecs[n] == nil {
			continue
		}
		_, upd, err := c20DeliverOver(h, n, beforeSpecs[n])
		if err != nil {
			return []mc.Violation{{Key: "C20|history|deliver-error", What: err.Error()}}
		}
		count("update_path_deliveries", 1)
		for _, s := range secs {
			if !c20FlatEq(upd[s.Name], flats[n][s.Name]) {
				add("C20|history|update-path-differs-from-create-path|"+s.Name, fmt.Sprintf("after event %s: node %s, section %s: reconciling the EXISTING NodeSLO (spec before the event: %v) delivers %v, a newly created NodeSLO gets %v",
					ev.Name, c20NodeNames[n], s.Name, before[n][s.Name], upd[s.Name], flats[n][s.Name]))
			}
		}
	}
	notKept := map[int]bool{}
	if !ev.Delete {
		for i, s := range secs {
			if vars[i][ev.V[i]].Class != "unparsable" {
				continue
			}
			for n := 0; n < 3; n++ {
				if !c20FlatEq(before[n][s.Name], flats[n][s.Name]) {
					notKept[i] = true
					add("C20|history|unparsable-section-not-kept|"+s.Name, fmt.Sprintf("event %s made section %s unparsable (%s); node %s was delivered %v before the event and %v after it (in force before: %s)",
						ev.Name, s.Name, vars[i][ev.V[i]].Text, c20NodeNames[n], before[n][s.Name], flats[n][s.Name], prior.tags[i]))
					break
				}
			}
		}
	}
	found, _ := c20JudgeAll(cur.raw, flats)
	for _, f := range found {
		i := indexOfSection(f.Sec)
		if notKept[i] {
			continue
		}
		class := "delete"
		vname := "configmap deleted"
		text := ""
		if !ev.Delete {
			v := vars[i][ev.V[i]]
			class, vname, text = v.Class, v.Name, v.Text
		}
		var key string
		switch class {
		case "delete":
			key = "C20|history|deleted-configmap-not-default|" + f.Sec.Name
		case "absent":
			key = "C20|history|absent-section-not-default|" + f.Sec.Name
		case "unparsable": // kept, but what was kept is not the overlay of the text in force: a layering violation that existed before
			key = "C20|" + f.MM.Clause + "|" + f.Sec.Name + "." + f.MM.Class
		default:
			stale := false
			if prior.tags[i] != cur.tags[i] {
				if mm, _ := f.Sec.judge(prior.raw[i], c20NodeLabels[f.Node], flats[f.Node][f.Sec.Name]); len(mm) == 0 {
					stale = true
				}
			}
			if stale {
				key = "C20|history|good-section-not-followed|" + f.Sec.Name
			} else {
				key = "C20|" + f.MM.Clause + "|" + f.Sec.Name + "." + f.MM.Class
			}
		}
		add(key, fmt.Sprintf("after event %s (section %s was %q, in force before: %s, in force by the statement now: %s): %s",
			ev.Name, f.Sec.Name, vname, prior.tags[i], cur.tags[i], c20What(f.Sec, f.Node, f.MM, text)))
	}
	if count != nil && len(found) == 0 && len(viol) == 0 {
		anyUnp, anyFollow := false, false
		for i := range secs {
			if ev.Delete {
				if prior.tags[i] != "default" {
					count("delete_reset_nondefault_section", 1)
				}
				continue
			}
			switch vars[i][ev.V[i]].Class {
			case "unparsable":
				anyUnp = true
				if prior.tags[i] != "default" {
					count("unparsable_section_kept_nondefault_previous", 1)
				} else {
					count("unparsable_section_kept_default_previous", 1)
				}
			case "absent":
				if prior.tags[i] != "default" {
					count("absent_section_reset_from_nondefault", 1)
				}
			default:
				if prior.tags[i] != cur.tags[i] {
					anyFollow = true
					count("good_section_followed_change", 1)
				}
			}
		}
		if anyUnp && anyFollow {
			count("other_sections_followed_while_one_unparsable", 1)
		}
	}
	return viol
}

// ---------------------------------------------------------------------------------------------------------------
// sections: product of section states as ONE event, applied to a fresh handler and to a handler that already holds
// a good non-default configuration of every section.

func c20SectionsPart(env *mc.Env) {
	part := "sections"
	if !c20Only(part) {
		return
	}
	res := mc.NewResult("C20", part, "enumeration")
	secs := c20Schema()
	vars := make([][]c20Variant, len(secs))
	for i, s := range secs {
		vars[i] = c20Variants(s)
	}
	use := []int{c20VAbsent, c20VEmpty, c20VP1, c20VFull, c20VMalformed, c20VWrongDeep, c20VTrailing}
	if env.Thorough() {
		use = []int{c20VAbsent, c20VEmpty, c20VP1, c20VP2, c20VFull, c20VMalformed, c20VWrongArray, c20VWrongDeep, c20VWrongLeaf, c20VNull, c20VUnknownKey, c20VTrailing, c20VEarlyClose}
	}
	dims := []int{2}
	for range secs {
		dims = append(dims, len(use))
	}
	rx := mc.Radix{Dims: dims}
	ds := mc.NewDistinctSet()
	prev := &c20Event{Name: "all-partial2"}
	for range secs {
		prev.V = append(prev.V, c20VP2)
	}
	done, complete := env.ParallelRangeL(res, rx.Size(), func(l *mc.Local, i int64) {
		d := rx.Decode(i, make([]int, 0, 8))
		l.Evals++
		ev := &c20Event{}
		var nm []string
		for k := range secs {
			ev.V = append(ev.V, use[d[k+1]])
			nm = append(nm, vars[k][use[d[k+1]]].Name)
		}
		ev.Name = strings.Join(nm, ",")
		var viol []mc.Violation
		var events []map[string]string
		var unp [][]string
		ps := mc.Guard(func() {
			h := c20NewHandler()
			m := c20NewModel()
			if d[0] == 1 {
				data := m.apply(prev, vars)
				c20Sync(h, prev, data)
				events = append(events, data)
				unp = append(unp, nil)
			}
			prior := m.clone()
			beforeSpecs, before, err := c20Observe(h, []int{0, 1, 2})
			if err != nil {
				panic(err)
			}
			data := m.apply(ev, vars)
			c20Sync(h, ev, data)
			events = append(events, data)
			var u []string
			for k, s := range secs {
				if vars[k][ev.V[k]].Class == "unparsable" {
					u = append(u, s.Name)
				}
			}
			unp = append(unp, u)
			viol = c20JudgeEvent(h, beforeSpecs, before, prior, m, ev, vars, l.Count)
		})
		if ps != "" {
			viol = append(viol, mc.Violation{Key: "C20|panic|sections", What: ps})
		}
		for _, v := range viol {
			v.Replay = c20Replay{Events: events, Unparsable: unp, Node: "all"}
			res.Violate(v)
		}
		if len(viol) == 0 {
			ds.Add(fmt.Sprint(d))
		}
		if i%4099 == 0 {
			res.Sample(map[string]any{"after_good_config": d[0] == 1, "sections": ev.Name})
		}
	})
	res.Traces = res.Evaluations
	res.Distinct = ds.Len()
	res.Exhaustive = complete
	if !complete {
		res.Capped = fmt.Sprintf("time budget hit after %d of %d", done, rx.Size())
	}
	var un []string
	for _, u := range use {
		un = append(un, vars[0][u].Name)
	}
	res.Rule = fmt.Sprintf("every assignment of a state %v to each of the 5 sections as one ConfigMap event, applied (a) to a fresh handler and (b) after an event that configured every section with 'partial2'; full = every leaf found by reflection set at cluster and both entries; all three nodes are judged in all five sections; distinct = passing assignments", un)
	res.Bounds = map[string]any{"section_states": len(use), "sections": len(secs), "prior_states": 2}
	res.Assumptions = c20Assumptions
	env.Emit(res)
}

// ---------------------------------------------------------------------------------------------------------------
// BFS over event histories

type c20HistSys struct {
	h      *SLOCfgHandlerForConfigMapEvent
	m      *c20Model
	events []c20Event
	vars   [][]c20Variant
	res    *mc.Result
}

func (s *c20HistSys) Apply(op int, check bool) (bool, []mc.Violation) {
	ev := &s.events[op]
	prior := s.m.clone()
	var before [3]map[string]map[string]string
	var beforeSpecs [3]*slov1alpha1.NodeSLOSpec
	if check {
		var err error
		if beforeSpecs, before, err = c20Observe(s.h, []int{0, 1, 2}); err != nil {
			return true, []mc.Violation{{Key: "C20|history|deliver-error", What: err.Error()}}
		}
	}
	data := s.m.apply(ev, s.vars)
	c20Sync(s.h, ev, data)
	if !check {
		return true, nil
	}
	return true, c20JudgeEvent(s.h, beforeSpecs, before, prior, s.m, ev, s.vars, s.res.Count)
}

func (s *c20HistSys) Invariants() []mc.Violation { return nil }

// Key: the handler's whole cached configuration (the only state the handler keeps besides the never-reset
// "available" flag, which is included) plus the reference model's state.
func (s *c20HistSys) Key() string {
	return mc.DumpDefault(s.h.cfgCache.sloCfg) + fmt.Sprint("|available=", s.h.cfgCache.available, "|", s.m.tags)
}

func c20HistBFS(env *mc.Env, part string, events []c20Event, vars [][]c20Variant, depth int, rule string) *mc.BFS {
	res := mc.NewResult("C20", part, "bfs")
	res.Rule = rule
	res.Assumptions = append([]string{"the handler is also fed a nil ConfigMap (deleted) in the middle of a history; the production event handler ignores Delete events and only startup passes nil"}, c20Assumptions...)
	return &mc.BFS{Res: res, Env: env, NumOps: len(events), OpName: func(i int) string { return events[i].Name }, MaxDepth: depth,
		Repeats: env.Pick(0, 1), KeysMustAgree: true,
		New: func() mc.System {
			return &c20HistSys{h: c20NewHandler(), m: c20NewModel(), events: events, vars: vars, res: res}
		}}
}

func c20HistParts(env *mc.Env) map[string]func() *mc.BFS {
	secs := c20Schema()
	vars := make([][]c20Variant, len(secs))
	for i, s := range secs {
		vars[i] = c20Variants(s)
	}
	parts := map[string]func() *mc.BFS{}
	for fi, fs := range secs {
		fi, fs := fi, fs
		parts["hist-focus-"+fs.Name] = func() *mc.BFS {
			var events []c20Event
			others := []int{c20VAbsent, c20VP1, c20VP2}
			for v := 0; v < c20NumV; v++ {
				if vars[fi][v].Class == "skip" {
					continue
				}
				for _, o := range others {
					ev := c20Event{Name: fmt.Sprintf("%s=%s,others=%s", fs.Name, vars[fi][v].Name, vars[fi][o].Name)}
					for i := range secs {
						if i == fi {
							ev.V = append(ev.V, v)
						} else {
							ev.V = append(ev.V, o)
						}
					}
					events = append(events, ev)
				}
			}
			events = append(events, c20Event{Name: "configmap-deleted", Delete: true})
			return c20HistBFS(env, "hist-focus-"+fs.Name, events, vars, env.Pick(4, 6),
				fmt.Sprintf("BFS over histories of ConfigMap events; an event gives section %s one of %d states (absent, {}, null, unknown key, partial1, partial2, full, malformed (cut off / trailing brace / closed too early), 3 wrong shapes) and all other sections one of {absent, partial1, partial2}, or deletes the ConfigMap; after every event all 5 sections of all 3 nodes are judged; state = handler cache + reference", fs.Name, c20NumV))
		}
	}
	parts["hist-cross"] = func() *mc.BFS {
		var events []c20Event
		choice := []int{c20VP1, c20VP2, c20VMalformed}
		rx := mc.Radix{Dims: []int{3, 3, 3, 3, 3}}
		for i := int64(0); i < rx.Size(); i++ {
			d := rx.Decode(i, nil)
			ev := c20Event{}
			var nm []string
			for k := range secs {
				ev.V = append(ev.V, choice[d[k]])
				nm = append(nm, vars[k][choice[d[k]]].Name[:1]+vars[k][choice[d[k]]].Name[len(vars[k][choice[d[k]]].Name)-1:])
			}
			ev.Name = strings.Join(nm, "")
			events = append(events, ev)
		}
		events = append(events, c20Event{Name: "configmap-deleted", Delete: true})
		return c20HistBFS(env, "hist-cross", events, vars, env.Pick(3, 5),
			"BFS over histories of ConfigMap events in which every section independently is partial1 (p1), partial2 (p2) or malformed (md) - 243 events - or the ConfigMap is deleted; any subset of sections can be unparsable at once while the others change; after every event all 5 sections of all 3 nodes are judged")
	}
	return parts
}

func TestVerifC20Hist(t *testing.T) {
	env := mc.LoadEnv()
	if c20ReplayIfAsked(env) {
		return
	}
	// cheapest first, so that a short time budget (loaded machine) cuts only the tail of the largest part
	parts := c20HistParts(env)
	run := func(name string) {
		if !c20Only(name) {
			return
		}
		b := parts[name]()
		b.Run()
		env.Emit(b.Res)
	}
	for _, name := range mc.SortedKeys(parts) {
		if name != "hist-cross" {
			run(name)
		}
	}
	c20SectionsPart(env)
	run("hist-cross")
}

// ---------------------------------------------------------------------------------------------------------------
// replay: `bin/check C20 --replay replays/C20-xxxx.json`

type c20ReplayFile struct {
	c20Replay
	Idx []uint8  `json:"idx"`
	Ops []string `json:"ops"`
}

func c20ReplayIfAsked(env *mc.Env) bool {
	var rp c20ReplayFile
	part, ok := env.ReplayData(&rp)
	if !ok {
		return false
	}
	res := mc.NewResult("C20", "replay", "enumeration")
	res.Rule = "re-execution of one recorded case"
	res.Exhaustive = true
	defer env.Emit(res)
	if rp.Ops != nil {
		mk := c20HistParts(env)[part]
		if mk == nil {
			fmt.Printf("REPLAY: part %s has no op alphabet in this test function\n", part)
			return true
		}
		b := mk()
		viol, key := b.ReplayOps(rp.Idx)
		fmt.Printf("REPLAY part=%s ops=%v\n final state key: %s\n", part, rp.Ops, key)
		for _, v := range viol {
			fmt.Printf(" VIOLATION %s: %s\n", v.Key, v.What)
			v.Replay = map[string]any{"ops": rp.Ops, "idx": rp.Idx}
			res.Violate(v)
		}
		res.Evaluations = 1
		return true
	}
	secs := c20Schema()
	h := c20NewHandler()
	model := make([]any, len(secs))
	for e, data := range rp.Events {
		if data == nil {
			h.syncNodeSLOSpecIfChanged(nil)
			model = make([]any, len(secs))
			continue
		}
		h.syncNodeSLOSpecIfChanged(c20ConfigMap(data))
		for i, s := range secs {
			txt, has := data[s.DataKey]
			unp := false
			if e < len(rp.Unparsable) {
				for _, u := range rp.Unparsable[e] {
					if u == s.Name {
						unp = true
					}
				}
			}
			switch {
			case !has:
				model[i] = nil
			case unp:
			default:
				raw, err := c20Parse([]byte(txt))
				if err != nil {
					fmt.Printf("REPLAY: section %s of event %d is not JSON (%v) and was not labelled unparsable: treated as unparsable\n", s.Name, e, err)
					continue
				}
				if raw == nil {
					raw = map[string]any{}
				}
				model[i] = raw
			}
		}
	}
	_, flats, err := c20Observe(h, []int{0, 1, 2})
	if err != nil {
		fmt.Println("REPLAY deliver error:", err)
		return true
	}
	found, _ := c20JudgeAll(model, flats)
	fmt.Printf("REPLAY events=%v\n", rp.Events)
	for n := 0; n < 3; n++ {
		fmt.Printf(" node %s delivered: %v\n", c20NodeNames[n], flats[n])
	}
	res.Evaluations = 1
	for _, f := range found {
		fmt.Printf(" MISMATCH %s|%s.%s: %s\n", f.MM.Clause, f.Sec.Name, f.MM.Class, c20What(f.Sec, f.Node, f.MM, ""))
		res.Violate(mc.Violation{Key: "C20|" + f.MM.Clause + "|" + f.Sec.Name + "." + f.MM.Class, What: c20What(f.Sec, f.Node, f.MM, ""), Replay: rp.c20Replay})
	}
	if len(found) == 0 {
		fmt.Println(" no mismatch")
	}
	return true
}
