package nodeslo

// C20 parts "leaf-<section>" and "pairs-<section>": exhaustive enumeration of single-event configurations built
// around every leaf path (by reflection) of the five strategy types, judged by the independent overlay reference.

import (
	"fmt"
	"os"
	"reflect"
	"regexp"
	"sort"
	"testing"

	slov1alpha1 "github.com/koordinator-sh/koordinator/apis/slo/v1alpha1"
	"github.com/koordinator-sh/koordinator/pkg/zzverif/mc"
)

// what one layer (cluster / entry 1 / entry 2) says about the leaf under test
const (
	c20StNone        = iota // the layer has no strategy at all (cluster: key absent; entry: selector only)
	c20StComp               // the layer sets only the companion leaf (the strategy object exists, the leaf is absent)
	c20StNull               // "leaf": null
	c20StZero               // the type's zero value: false / 0 / "" / "0" / []
	c20StVal                // a non-default value specific to the layer
	c20StValComp            // leaf and companion
	c20StEmptyParent        // map entries only: the map itself is written as {}
	c20NumSt
)

var c20StNames = []string{"none", "companion-only", "null", "zero", "value", "value+companion", "empty-map"}

type c20Sel struct {
	name string
	obj  any // nil = no nodeSelector key
}

var c20Sels = []c20Sel{
	{"pool=a", map[string]any{"matchLabels": map[string]any{"pool": "a"}}},
	{"pool=b", map[string]any{"matchLabels": map[string]any{"pool": "b"}}},
	{"empty(all)", map[string]any{}},
	{"nil(none)", nil},
	{"invalid", map[string]any{"matchExpressions": []any{map[string]any{"key": "pool", "operator": "In", "values": []any{}}}}},
	{"exists-pool", map[string]any{"matchExpressions": []any{map[string]any{"key": "pool", "operator": "Exists"}}}},
	{"pool-notin-a", map[string]any{"matchExpressions": []any{map[string]any{"key": "pool", "operator": "NotIn", "values": []any{"a"}}}}},
	// matchLabels AND matchExpressions in one selector (both must hold; here they contradict each other: selects no node)
	{"pool=a&&pool-notin-a", map[string]any{"matchLabels": map[string]any{"pool": "a"},
		"matchExpressions": []any{map[string]any{"key": "pool", "operator": "NotIn", "values": []any{"a"}}}}},
}

func c20LayerTree(l, comp *c20Leaf, st, layer int) map[string]any {
	t := map[string]any{}
	switch st {
	case c20StNone:
		return nil
	case c20StComp:
		c20SetPath(t, comp.Path, comp.val(layer))
	case c20StNull:
		c20SetPath(t, l.Path, nil)
	case c20StZero:
		c20SetPath(t, l.Path, l.zero())
	case c20StVal:
		c20SetPath(t, l.Path, l.val(layer))
	case c20StValComp:
		c20SetPath(t, l.Path, l.val(layer))
		c20SetPath(t, comp.Path, comp.val(layer))
	case c20StEmptyParent:
		c20SetPath(t, l.Path[:len(l.Path)-1], map[string]any{})
	}
	return t
}

func c20SectionObj(s *c20Section, trees [3]map[string]any, sels [2]int) map[string]any {
	obj := map[string]any{}
	if s.ClusterKey != "" {
		if trees[0] != nil {
			obj[s.ClusterKey] = trees[0]
		}
	} else {
		for k, v := range trees[0] {
			obj[k] = v
		}
	}
	entries := []any{}
	for j := 0; j < 2; j++ {
		e := map[string]any{"name": fmt.Sprintf("e%d", j+1)}
		if so := c20Sels[sels[j]].obj; so != nil {
			e["nodeSelector"] = so
		}
		for k, v := range trees[j+1] {
			e[k] = v
		}
		entries = append(entries, e)
	}
	obj[s.EntriesKey] = entries
	return obj
}

type c20Found struct {
	Sec  *c20Section
	Node int
	MM   c20Mismatch
}

// c20Observe delivers the spec for the three nodes in the given order from ONE cache.
func c20Observe(h *SLOCfgHandlerForConfigMapEvent, order []int) (specs [3]*slov1alpha1.NodeSLOSpec, flats [3]map[string]map[string]string, err error) {
	for _, n := range order {
		specs[n], flats[n], err = c20Deliver(h, n)
		if err != nil {
			return
		}
	}
	return
}

// c20JudgeAll judges every section for every node against model (parsed effective raw text per section, nil = default).
func c20JudgeAll(model []any, flats [3]map[string]map[string]string) (found []c20Found, lays [3][]*c20Layers) {
	for n := 0; n < 3; n++ {
		for i, s := range c20Schema() {
			mms, lay := s.judge(model[i], c20NodeLabels[n], flats[n][s.Name])
			lays[n] = append(lays[n], lay)
			for _, mm := range mms {
				found = append(found, c20Found{s, n, mm})
			}
		}
	}
	return
}

func c20Only(part string) bool {
	o := os.Getenv("VERIF_PART")
	if o == "" {
		return true
	}
	ok, _ := regexp.MatchString(o, part)
	return ok
}

type c20SingleCase struct {
	sec  *c20Section
	data map[string]string
	text string
	raw  any
}

// c20RunSingle applies one ConfigMap to a fresh handler, delivers to the three nodes in both orders and judges.
// focus is the section the case is about; every other section must stay at its default.
func c20RunSingle(res *mc.Result, agg *c20Agg, l *mc.Local, c *c20SingleCase, leafName string) (flats [3]map[string]map[string]string, lays [3][]*c20Layers, ok bool) {
	l.Evals++
	secs := c20Schema()
	var found []c20Found
	var specs, specs2 [3]*slov1alpha1.NodeSLOSpec
	ps := mc.Guard(func() {
		h := c20NewHandler()
		h.syncNodeSLOSpecIfChanged(c20ConfigMap(c.data))
		var err error
		specs, flats, err = c20Observe(h, []int{0, 1, 2})
		if err != nil {
			panic(err)
		}
		// same cache, other order: a spec handed out for one node must not change what the next node gets
		specs2, _, err = c20Observe(h, []int{2, 1, 0})
		if err != nil {
			panic(err)
		}
	})
	rp := func(n int) c20Replay {
		return c20Replay{Events: []map[string]string{c.data}, Node: c20NodeNames[n], Labels: c20NodeLabels[n]}
	}
	if ps != "" {
		agg.add("C20|panic|"+c.sec.Name, leafName, ps, rp(0))
		return flats, lays, false
	}
	for n := 0; n < 3; n++ {
		l.Count("aliasing_order_checks", 1)
		if !reflect.DeepEqual(specs[n], specs2[n]) {
			agg.add("C20|aliasing|delivered-spec-depends-on-evaluation-order|"+c.sec.Name, leafName,
				fmt.Sprintf("node %s got %s when evaluated first and %s when evaluated after the other nodes from the same cache; section text %s",
					c20NodeNames[n], c20Text(specs[n]), c20Text(specs2[n]), c.text), rp(n))
			return flats, lays, false
		}
	}
	model := make([]any, len(secs))
	for i, s := range secs {
		if s == c.sec {
			model[i] = c.raw
		}
	}
	found, lays = c20JudgeAll(model, flats)
	for _, f := range found {
		if f.Sec != c.sec {
			agg.add("C20|cross-section|"+c.sec.Name+"-changes-"+f.Sec.Name, leafName,
				fmt.Sprintf("only section %s is configured, yet %s", c.sec.Name, c20What(f.Sec, f.Node, f.MM, c.text)), rp(f.Node))
			continue
		}
		agg.add("C20|"+f.MM.Clause+"|"+f.Sec.Name+"."+f.MM.Class, f.MM.Path, c20What(f.Sec, f.Node, f.MM, c.text), rp(f.Node))
	}
	return flats, lays, len(found) == 0
}

func c20Strict(l *c20Leaf, st int) bool {
	return st == c20StVal || st == c20StValComp || (st == c20StZero && !l.Soft)
}

func (l *c20Leaf) canon(v any) string {
	t := map[string]any{}
	c20SetPath(t, l.Path, v)
	if s, ok := l.Sec.flatten(t, true)[l.Key]; ok {
		return s
	}
	return c20Absent
}

func (l *c20Leaf) stCanon(st, layer int) string {
	if st == c20StZero {
		return l.canon(l.zero())
	}
	return l.canon(l.val(layer))
}

func c20LeafPart(env *mc.Env, s *c20Section, states []int, selPairs [][2]int) {
	part := "leaf-" + s.Name
	if !c20Only(part) {
		return
	}
	res := mc.NewResult("C20", part, "enumeration")
	agg := c20NewAgg()
	ds := mc.NewDistinctSet()
	type item struct {
		leaf *c20Leaf
		st   [3]int
	}
	var items []item
	ns := len(states)
	for _, lf := range s.Leaves {
		for code := 0; code < ns*ns*ns; code++ {
			st := [3]int{states[code%ns], states[code/ns%ns], states[code/ns/ns]}
			okc := true
			for _, x := range st {
				// null is not written inside map-valued fields (Go decodes {"k":null} into a bool map as k=false;
				// the statement says nothing about it, so it is kept out of the alphabet)
				if (x == c20StEmptyParent && !lf.InMap) || (x == c20StNull && lf.InMap) || ((x == c20StComp || x == c20StValComp) && len(s.Leaves) < 2) {
					okc = false
				}
			}
			if okc {
				items = append(items, item{lf, st})
			}
		}
	}
	zeroFlat := func(lf *c20Leaf) string { // what "the zero value was delivered" looks like (soft zeros are omitted)
		t := map[string]any{}
		c20SetPath(t, lf.Path, lf.zero())
		return c20Get(s.flatten(t, false), lf.Key)
	}
	done, complete := env.ParallelRangeL(res, int64(len(items)), func(l *mc.Local, i int64) {
		it := items[i]
		lf := it.leaf
		var comp *c20Leaf
		if len(s.Leaves) > 1 {
			comp = s.Leaves[(lf.Idx+1)%len(s.Leaves)]
		}
		var trees [3]map[string]any
		for k := 0; k < 3; k++ {
			trees[k] = c20LayerTree(lf, comp, it.st[k], k)
		}
		for spi, sp := range selPairs {
			obj := c20SectionObj(s, trees, sp)
			text := c20Text(obj)
			raw, err := c20Parse([]byte(text))
			if err != nil {
				panic(err)
			}
			c := &c20SingleCase{sec: s, data: map[string]string{s.DataKey: text}, text: text, raw: raw}
			flats, lays, ok := c20RunSingle(res, agg, l, c, lf.Key)
			if !ok {
				continue
			}
			// vacuity: which oracle situations did this (passing) case exercise on the leaf under test
			nontrivial := false
			for n := 0; n < 3; n++ {
				got := c20Get(flats[n][s.Name], lf.Key)
				lay := lays[n][indexOfSection(s)]
				f := lay.first()
				def := c20Get(s.DefFlat, lf.Key)
				clusterSets := c20Strict(lf, it.st[0])
				lower := def
				if clusterSets {
					lower = lf.stCanon(it.st[0], 0)
				}
				top := -1 // layer whose word decides
				switch {
				case f >= 0 && c20Strict(lf, it.st[f+1]):
					top = f + 1
					l.Count("node_override_applied", 1)
					if lf.stCanon(it.st[top], top) != lower {
						l.Count("node_override_changed_value", 1)
						nontrivial = true
					}
					if it.st[top] == c20StZero && lower != lf.canon(lf.zero()) && lower != c20Absent {
						l.Count("explicit_zero_at_node_won_over_nonzero", 1)
					}
				case clusterSets:
					top = 0
					if f >= 0 {
						l.Count("cluster_value_inherited_under_matching_entry", 1)
					} else {
						l.Count("cluster_value_delivered_no_matching_entry", 1)
					}
					if lower != def {
						nontrivial = true
					}
					if it.st[0] == c20StZero && def != lf.canon(lf.zero()) && def != c20Absent {
						l.Count("explicit_zero_at_cluster_won_over_default", 1)
					}
				default:
					l.Count("default_delivered", 1)
				}
				_ = top
				// soft zero written at the deciding position: both outcomes are accepted, which one happened is counted
				softAt := -1
				if f >= 0 && lf.Soft && it.st[f+1] == c20StZero {
					softAt = f + 1
				} else if (f < 0 || !c20Strict(lf, it.st[f+1])) && lf.Soft && it.st[0] == c20StZero {
					softAt = 0
				}
				if f >= 0 && it.st[f+1] == c20StEmptyParent {
					softAt = f + 1
				}
				if softAt >= 0 {
					l.Count("soft_zero_cases", 1)
					if got == zeroFlat(lf) {
						l.Count("soft_zero_outcome_cleared_or_nothing_to_clear", 1)
					} else {
						l.Count("soft_zero_outcome_lower_value_kept", 1)
					}
				}
				for j := 0; j < 2; j++ {
					if j == f || !c20Strict(lf, it.st[j+1]) {
						continue
					}
					if lf.stCanon(it.st[j+1], j+1) == got {
						continue // the same value is also the legitimate one: nothing to tell apart
					}
					later := false
					for _, k := range lay.matching {
						if k == j {
							later = true
						}
					}
					isInvalid := false
					for _, k := range lay.invalid {
						if k == j {
							isInvalid = true
						}
					}
					switch {
					case later:
						l.Count("first_match_wins_checks", 1)
					case isInvalid:
						l.Count("invalid_selector_entry_ignored_checks", 1)
					default:
						l.Count("leak_checks_non_selected_entry", 1)
					}
					nontrivial = true
				}
			}
			if nontrivial {
				ds.Add(text)
			}
			if i%977 == 0 && spi == 0 {
				res.Sample(map[string]any{"leaf": lf.Key, "cluster": c20StNames[it.st[0]], "entry1": c20StNames[it.st[1]], "entry2": c20StNames[it.st[2]], "text": text})
			}
		}
	})
	agg.flush(res)
	res.Traces = res.Evaluations
	res.Distinct = ds.Len()
	res.Exhaustive = complete
	if !complete {
		res.Capped = fmt.Sprintf("time budget hit after %d of %d (leaf, layer-state) items", done, len(items))
	}
	res.Count("leaves_enumerated_"+s.Name, int64(len(s.Leaves)))
	soft := 0
	for _, lf := range s.Leaves {
		if lf.Soft {
			soft++
		}
	}
	res.Count("leaves_soft_zero_"+s.Name, int64(soft))
	var sn, stn []string
	for _, sp := range selPairs {
		sn = append(sn, "("+c20Sels[sp[0]].name+","+c20Sels[sp[1]].name+")")
	}
	for _, st := range states {
		stn = append(stn, c20StNames[st])
	}
	res.Rule = fmt.Sprintf("section %s: every leaf path found by reflection (%d) x what each of cluster / node entry 1 / node entry 2 says about it %v x (selector of entry 1, selector of entry 2) in %v; each configuration is synced into a fresh handler and the spec is delivered to nodes with labels {}, {pool:a,zone:z}, {pool:b} in both orders; non-trivial = a node got a non-default value or a differing value of a non-selected entry had to be kept out; distinct = distinct section texts among those",
		s.Name, len(s.Leaves), stn, sn)
	res.Bounds = map[string]any{"leaves": len(s.Leaves), "layer_states": len(states), "selector_pairs": len(selPairs), "nodes": 3, "items": len(items)}
	res.Assumptions = c20Assumptions
	c20SoftDiag(res)
	env.Emit(res)
}

var c20Assumptions = []string{
	"values are not validated at this seam (enum strings and percentages are arbitrary distinct tokens); the webhook validates elsewhere",
	"nodes carry no bandwidth annotation (the per-node annotation override of system.totalNetworkBandwidth is outside the property)",
	"no third-party extension strategies are registered",
	"writing the zero value (\"\" / [] / {}) of a field whose API type cannot tell zero from unset (non-pointer omitempty string/slice/map) is accepted both as 'sets the field' and as 'does not set it'; the observed outcome is counted",
	"an entry whose selector is invalid never matches",
}

func c20SoftDiag(res *mc.Result) {
	if n := res.Counters["soft_zero_outcome_lower_value_kept"]; n > 0 {
		res.Diag(fmt.Sprintf("explicit zero of a non-pointer omitempty field did NOT override the lower layer in %d (case,node) pairs and did (or had nothing to clear) in %d: the typed round-trip of MergeCfg cannot carry it; accepted because the API type itself cannot express it", n, res.Counters["soft_zero_outcome_cleared_or_nothing_to_clear"]))
	}
}

func indexOfSection(s *c20Section) int {
	for i, x := range c20Schema() {
		if x == s {
			return i
		}
	}
	panic("section")
}

// pairs: two different leaves of one section, each set at one layer (all 9 layer combinations) with a value or the
// zero value: a leaf set at one layer must not disturb another leaf coming from another layer.
func c20PairsPart(env *mc.Env, s *c20Section, neighbours int) {
	part := "pairs-" + s.Name
	if !c20Only(part) || len(s.Leaves) < 2 {
		return
	}
	res := mc.NewResult("C20", part, "enumeration")
	agg := c20NewAgg()
	ds := mc.NewDistinctSet()
	type pr struct{ a, b *c20Leaf }
	var pairs []pr
	n := len(s.Leaves)
	for i := 0; i < n; i++ {
		for j := i + 1; j < n; j++ {
			d := j - i
			if n-d < d {
				d = n - d
			}
			if neighbours <= 0 || d <= neighbours {
				pairs = append(pairs, pr{s.Leaves[i], s.Leaves[j]})
			}
		}
	}
	selCombos := [][2]int{{0, 1}, {0, 2}, {2, 0}, {1, 0}, {0, 0}}
	done, complete := env.ParallelRangeL(res, int64(len(pairs)), func(l *mc.Local, i int64) {
		p := pairs[i]
		for x := 0; x < 3; x++ {
			for y := 0; y < 3; y++ {
				for k := 0; k < 4; k++ {
					var trees [3]map[string]any
					set := func(layer int, lf *c20Leaf, zero bool) {
						if trees[layer] == nil {
							trees[layer] = map[string]any{}
						}
						if zero {
							c20SetPath(trees[layer], lf.Path, lf.zero())
						} else {
							c20SetPath(trees[layer], lf.Path, lf.val(layer))
						}
					}
					set(x, p.a, k&1 != 0)
					set(y, p.b, k&2 != 0)
					for _, sc := range selCombos {
						obj := c20SectionObj(s, trees, sc)
						text := c20Text(obj)
						raw, err := c20Parse([]byte(text))
						if err != nil {
							panic(err)
						}
						c := &c20SingleCase{sec: s, data: map[string]string{s.DataKey: text}, text: text, raw: raw}
						flats, lays, ok := c20RunSingle(res, agg, l, c, p.a.Key+"+"+p.b.Key)
						if !ok {
							continue
						}
						for nd := 0; nd < 3; nd++ {
							f := lays[nd][indexOfSection(s)].first()
							visA := x == 0 || x == f+1
							visB := y == 0 || y == f+1
							if visA && visB && x != y {
								l.Count("both_leaves_delivered_from_different_layers", 1)
								ds.Add(text + c20NodeNames[nd])
							} else if visA != visB {
								l.Count("one_leaf_delivered_other_kept_out", 1)
							}
							_ = flats
						}
					}
				}
			}
		}
	})
	agg.flush(res)
	res.Traces = res.Evaluations
	res.Distinct = ds.Len()
	res.Exhaustive = complete
	if !complete {
		res.Capped = fmt.Sprintf("time budget hit after %d of %d leaf pairs", done, len(pairs))
	}
	res.Count("leaf_pairs", int64(len(pairs)))
	nb := "all unordered pairs"
	if neighbours > 0 {
		nb = fmt.Sprintf("unordered pairs at cyclic distance <= %d in declaration order", neighbours)
	}
	res.Rule = fmt.Sprintf("section %s: %s of its %d leaves x layer of the first leaf x layer of the second leaf (cluster, entry 1, entry 2) x {value, zero}^2 x selector pairs (a,b),(a,all),(all,a),(b,a),(a,a); three nodes, both orders; the whole section is judged so a disturbed third leaf is seen too; distinct = (text,node) where both leaves arrive from different layers",
		s.Name, nb, len(s.Leaves))
	res.Bounds = map[string]any{"leaves": len(s.Leaves), "pairs": len(pairs), "neighbour_distance": neighbours}
	res.Assumptions = c20Assumptions
	env.Emit(res)
}

func TestVerifC20Leaf(t *testing.T) {
	env := mc.LoadEnv()
	if c20ReplayIfAsked(env) {
		return
	}
	// quick: every leaf x {none, companion-only, null, zero, value}^3 x the ten selector pairs that give the three
	// nodes distinct situations; thorough: all layer states x every pair of the seven selector kinds.
	states := []int{c20StNone, c20StComp, c20StNull, c20StZero, c20StVal, c20StEmptyParent}
	selPairs := [][2]int{{0, 1}, {1, 0}, {0, 0}, {0, 2}, {2, 0}, {4, 0}, {4, 2}, {3, 2}, {0, 4}, {0, 3}, {7, 0}, {7, 2}} // 7: matchLabels+matchExpressions (seed C20-4)
	if env.Thorough() {
		states = nil
		for st := 0; st < c20NumSt; st++ {
			states = append(states, st)
		}
		selPairs = nil
		for a := range c20Sels {
			for b := range c20Sels {
				selPairs = append(selPairs, [2]int{a, b})
			}
		}
	}
	// small sections first: when the time budget is short only the tail of the largest section is cut off
	secs := append([]*c20Section{}, c20Schema()...)
	sort.SliceStable(secs, func(i, j int) bool { return len(secs[i].Leaves) < len(secs[j].Leaves) })
	for _, s := range secs {
		c20LeafPart(env, s, states, selPairs)
		nb := env.Pick(2, 0)
		if len(s.Leaves) <= 30 {
			nb = 0
		}
		c20PairsPart(env, s, nb)
	}
}
