package runtime

// C16 eviction caps through the production path: frameworkImpl.Evictor() -> evictorProxy.Evict ->
// EvictionLimiter.AllowEvict -> evict plugin (API call) -> EvictionLimiter.Done.
//  * sequential: every sequence of <= 5 eviction requests over {n1,n2} x {x,y}, every cap setting, dry-run on/off,
//    every subset of API calls failing;
//  * concurrent: 2-4 goroutines, 1-2 Evict calls each, every interleaving up to a preemption bound under the
//    controlled scheduler (sync shim on pkg/descheduler/evictions), caps checked at EVERY scheduling point.

import (
	"context"
	"fmt"
	"strings"
	"testing"

	corev1 "k8s.io/api/core/v1"
	metav1 "k8s.io/apimachinery/pkg/apis/meta/v1"

	"github.com/koordinator-sh/koordinator/pkg/descheduler/evictions"
	"github.com/koordinator-sh/koordinator/pkg/descheduler/framework"
	"github.com/koordinator-sh/koordinator/pkg/zzverif/mc"
	"github.com/koordinator-sh/koordinator/pkg/zzverif/mc/vsync"
)

type c16Kind struct{ node, ns string }

// (last kind: a pod that is not assigned to a node - e.g. a Pending pod: no per-node cap applies, the other caps do; seed C16-F)
var c16Kinds = []c16Kind{{"n1", "x"}, {"n1", "y"}, {"n2", "x"}, {"n2", "y"}, {"", "x"}}

// c16Plugin is the evict plugin at the end of the chain: it stands for the API server.
type c16Plugin struct {
	fail     map[string]bool // pods whose API call fails
	calls    []string
	accepted []*corev1.Pod
}

func (p *c16Plugin) Name() string { return "c16" }
func (p *c16Plugin) Evict(ctx context.Context, pod *corev1.Pod, o framework.EvictOptions) bool {
	vsync.Point("api-call")
	p.calls = append(p.calls, pod.Name)
	if p.fail[pod.Name] {
		return false
	}
	p.accepted = append(p.accepted, pod)
	vsync.Point("api-returned")
	return true
}

func c16Pod(i int, k c16Kind) *corev1.Pod {
	return &corev1.Pod{ObjectMeta: metav1.ObjectMeta{Name: fmt.Sprintf("p%d", i), Namespace: k.ns}, Spec: corev1.PodSpec{NodeName: k.node}}
}

func c16Cap(v int) *uint {
	if v < 0 {
		return nil
	}
	u := uint(v)
	return &u
}

type c16Caps struct{ node, ns, total int } // -1 = unset

func (c c16Caps) String() string {
	return fmt.Sprintf("caps{node=%d ns=%d total=%d}", c.node, c.ns, c.total)
}

func c16Framework(caps c16Caps, dry bool, pl *c16Plugin) (*frameworkImpl, *evictions.EvictionLimiter) {
	lim := evictions.NewEvictionLimiter(c16Cap(caps.node), c16Cap(caps.ns), c16Cap(caps.total))
	return &frameworkImpl{dryRun: dry, evictionLimiter: lim, evictPlugins: []framework.EvictPlugin{pl}}, lim
}

// c16Exceeded returns a description when the accepted evictions exceed a cap.
func c16Exceeded(caps c16Caps, accepted []*corev1.Pod) string {
	perNode, perNS := map[string]int{}, map[string]int{}
	for _, p := range accepted {
		perNode[p.Spec.NodeName]++
		perNS[p.Namespace]++
	}
	for n, c := range perNode {
		if n != "" && caps.node >= 0 && c > caps.node {
			return fmt.Sprintf("node %s: %d evictions issued, cap %d", n, c, caps.node)
		}
	}
	for n, c := range perNS {
		if caps.ns >= 0 && c > caps.ns {
			return fmt.Sprintf("namespace %s: %d evictions issued, cap %d", n, c, caps.ns)
		}
	}
	if caps.total >= 0 && len(accepted) > caps.total {
		return fmt.Sprintf("total: %d evictions issued, cap %d", len(accepted), caps.total)
	}
	return ""
}

func c16CountersMismatch(lim *evictions.EvictionLimiter, done []*corev1.Pod) string {
	perNode, perNS := map[string]uint{}, map[string]uint{}
	for _, p := range done {
		perNode[p.Spec.NodeName]++
		perNS[p.Namespace]++
	}
	for _, n := range []string{"n1", "n2"} {
		if lim.NodeEvicted(n) != perNode[n] {
			return fmt.Sprintf("node %s counter %d, evictions %d", n, lim.NodeEvicted(n), perNode[n])
		}
	}
	for _, n := range []string{"x", "y"} {
		if lim.NamespaceEvicted(n) != perNS[n] {
			return fmt.Sprintf("namespace %s counter %d, evictions %d", n, lim.NamespaceEvicted(n), perNS[n])
		}
	}
	if lim.TotalEvicted() != uint(len(done)) {
		return fmt.Sprintf("total counter %d, evictions %d", lim.TotalEvicted(), len(done))
	}
	return ""
}

func TestVerifC16ProxySeq(t *testing.T) {
	env := mc.LoadEnv()
	res := mc.NewResult("C16", "proxy-sequential", "enumeration")
	maxLen := env.Pick(4, 5)
	capVals := []int{-1, 0, 1, 2}
	ds := mc.NewDistinctSet()
	// case index = (sequence code over all lengths) x caps x dry
	type seqT []int
	var seqs []seqT
	for l := 1; l <= maxLen; l++ {
		n := 1
		for i := 0; i < l; i++ {
			n *= len(c16Kinds)
		}
		for c := 0; c < n; c++ {
			s := make(seqT, l)
			x := c
			for i := range s {
				s[i] = x % len(c16Kinds)
				x /= len(c16Kinds)
			}
			seqs = append(seqs, s)
		}
	}
	rx := mc.Radix{Dims: []int{len(seqs), len(capVals), len(capVals), len(capVals), 2}}
	done, complete := env.ParallelRangeL(res, rx.Size(), func(l *mc.Local, i int64) {
		d := rx.Decode(i, make([]int, 0, 5))
		seq := seqs[d[0]]
		caps := c16Caps{capVals[d[1]], capVals[d[2]], capVals[d[3]]}
		dry := d[4] == 1
		mc.Subsets(len(seq), func(failMask uint32) {
			if dry && failMask != 0 {
				return
			}
			l.Evals++
			pl := &c16Plugin{fail: map[string]bool{}}
			for k := range seq {
				if failMask&(1<<uint(k)) != 0 {
					pl.fail[fmt.Sprintf("p%d", k)] = true
				}
			}
			f, lim := c16Framework(caps, dry, pl)
			var evicted []*corev1.Pod
			cs := fmt.Sprintf("seq=%v %s dry=%v failMask=%b", seq, caps, dry, failMask)
			bad := func(clause, what string) {
				res.Violate(mc.Violation{Key: "C16|proxy-seq|" + clause, What: what + "; case " + cs, Replay: cs})
			}
			refusedSome := false
			for k, kind := range seq {
				pod := c16Pod(k, c16Kinds[kind])
				callsBefore, totalBefore := len(pl.calls), lim.TotalEvicted()
				ok := f.Evictor().Evict(context.TODO(), pod, framework.EvictOptions{})
				if ok {
					evicted = append(evicted, pod)
				} else {
					refusedSome = true
					if lim.TotalEvicted() != totalBefore {
						bad("refused-with-side-effect", fmt.Sprintf("request %d refused but the total counter moved %d -> %d", k, totalBefore, lim.TotalEvicted()))
					}
					if len(pl.calls) != callsBefore && !pl.fail[pod.Name] {
						bad("refused-with-api-call", fmt.Sprintf("request %d refused although its API call was issued and accepted", k))
					}
				}
				if e := c16Exceeded(caps, evicted); e != "" {
					bad("cap-exceeded", e)
				}
			}
			if dry && len(pl.calls) != 0 {
				bad("dry-run-api-call", fmt.Sprintf("dry-run issued %d API calls", len(pl.calls)))
			}
			if !dry && len(pl.accepted) != len(evicted) {
				bad("reported-ne-issued", fmt.Sprintf("%d evictions reported successful, %d accepted by the API", len(evicted), len(pl.accepted)))
			}
			if m := c16CountersMismatch(lim, evicted); m != "" {
				bad("counters-ne-issued", m)
			}
			if refusedSome {
				l.Count("cases_with_refusal", 1)
				ds.Add(cs)
			}
			if len(evicted) > 0 && refusedSome {
				l.Count("cases_with_cap_reached_after_evictions", 1)
			}
			if failMask != 0 {
				l.Count("cases_with_api_failures", 1)
			}
			if dry {
				l.Count("dry_run_cases", 1)
			}
		})
		if i%500009 == 0 {
			res.Sample(fmt.Sprintf("seq=%v %s dry=%v x every failing subset", seq, caps, dry))
		}
	})
	res.Traces = res.Evaluations
	res.Distinct = ds.Len()
	res.Exhaustive = complete
	if !complete {
		res.Capped = fmt.Sprintf("time budget hit after %d of %d", done, rx.Size())
	}
	res.Rule = fmt.Sprintf("every ordered sequence of 1..%d eviction requests over nodes{n1,n2} x namespaces{x,y} x caps(node,ns,total) in {unset,0,1,2}^3 x dry-run{off,on} x every subset of API calls failing, through frameworkImpl.Evictor().Evict; non-trivial = at least one request refused", maxLen)
	env.Emit(res)
}

func TestVerifC16ProxySched(t *testing.T) {
	env := mc.LoadEnv()
	res := mc.NewResult("C16", "proxy-concurrent", "schedules")
	type scen struct {
		caps    c16Caps
		threads [][]int // kinds per thread
		fail    int     // index of a globally numbered request whose API call fails (-1 none)
		bound   int
	}
	var scens []scen
	capSets := []c16Caps{{1, -1, -1}, {-1, 1, -1}, {-1, -1, 1}, {2, -1, -1}, {1, 2, 2}, {-1, -1, 2}, {0, -1, -1}}
	shapes := [][][]int{
		{{0}, {0}}, {{0}, {1}}, {{0}, {2}}, {{0, 0}, {0}}, {{0, 1}, {2, 0}}, {{0, 0}, {0, 0}},
		{{0}, {0}, {0}}, {{0}, {1}, {2}}, {{0, 0}, {0}, {0}},
	}
	if env.Thorough() {
		shapes = append(shapes, [][]int{{0, 2}, {0, 1}, {1, 0}}, [][]int{{0}, {0}, {0}, {0}}, [][]int{{0}, {1}, {2}, {3}}, [][]int{{0, 0}, {0}, {0}, {1}})
		capSets = append(capSets, c16Caps{2, 2, -1}, c16Caps{-1, 2, 3}, c16Caps{1, 1, 1})
	}
	// many evictors at once (the quantifier's upper range): one eviction each on the same node, low preemption bound
	type manyT struct{ n, b int }
	many := []manyT{{5, 1}, {6, 0}}
	if env.Thorough() {
		many = []manyT{{5, 2}, {6, 1}, {8, 0}}
	}
	for _, m := range many {
		sh := make([][]int, m.n)
		for i := range sh {
			sh[i] = []int{i % 2} // n1/x and n1/y alternately: all on node n1
		}
		scens = append(scens, scen{c16Caps{2, -1, -1}, sh, -1, m.b}, scen{c16Caps{-1, -1, 3}, sh, 1, m.b})
	}
	for _, c := range capSets {
		for _, sh := range shapes {
			n := 0
			for _, t := range sh {
				n += len(t)
			}
			b := env.Pick(2, 3)
			if len(sh) >= 4 {
				b = 2
			}
			scens = append(scens, scen{c, sh, -1, b})
			if n >= 3 {
				scens = append(scens, scen{c, sh, 0, b})
			}
		}
	}
	var execs, maxExecs int64
	outcomes := mc.NewDistinctSet()
	complete := true
	for si, sc := range scens {
		if !env.Mine(si) {
			continue
		}
		if env.Expired() {
			complete = false
			res.Capped = fmt.Sprintf("time budget hit at scenario %d of %d (this shard)", si, len(scens))
			break
		}
		var ts []string
		for _, t := range sc.threads {
			ts = append(ts, fmt.Sprint(t))
		}
		sname := fmt.Sprintf("%s threads=%s failing=%d", sc.caps, strings.Join(ts, "||"), sc.fail)
		var pl *c16Plugin
		var lim *evictions.EvictionLimiter
		var evicted []*corev1.Pod
		pointViolation := ""
		ex := &vsync.Explorer{Bound: sc.bound, Expired: env.Expired, Build: func() ([]func(), func(), func(*vsync.Outcome)) {
			pl = &c16Plugin{fail: map[string]bool{}}
			if sc.fail >= 0 {
				pl.fail[fmt.Sprintf("p%d", sc.fail)] = true
			}
			var f *frameworkImpl
			f, lim = c16Framework(sc.caps, false, pl)
			evicted = nil
			pointViolation = ""
			threads := make([]func(), len(sc.threads))
			id := 0
			for ti := range sc.threads {
				var pods []*corev1.Pod
				for _, k := range sc.threads[ti] {
					pods = append(pods, c16Pod(id, c16Kinds[k]))
					id++
				}
				ev := f.Evictor() // each plugin / worker obtains its own proxy from the shared framework
				threads[ti] = func() {
					for _, p := range pods {
						if ev.Evict(context.TODO(), p, framework.EvictOptions{}) {
							evicted = append(evicted, p)
						}
					}
				}
			}
			onPoint := func() {
				if pointViolation == "" {
					pointViolation = c16Exceeded(sc.caps, pl.accepted)
				}
			}
			return threads, onPoint, func(o *vsync.Outcome) {
				rep := map[string]any{"scenario": sname, "choices": o.Choices}
				switch {
				case o.Deadlock, o.Livelock:
					res.Violate(mc.Violation{Key: "C16|proxy-conc|deadlock", What: "deadlock/livelock in " + sname, Replay: rep})
				case o.Panic != "":
					res.Violate(mc.Violation{Key: "C16|proxy-conc|panic", What: o.Panic, Replay: rep})
				default:
					if pointViolation != "" {
						res.Violate(mc.Violation{Key: "C16|proxy-conc|cap-exceeded|evictorProxy.Evict", What: fmt.Sprintf("%s: %s (evictions accepted by the API: %d)", sname, pointViolation, len(pl.accepted)), Replay: rep})
					}
					if m := c16CountersMismatch(lim, evicted); m != "" {
						res.Violate(mc.Violation{Key: "C16|proxy-conc|counters-ne-issued", What: sname + ": " + m, Replay: rep})
					}
					if len(pl.accepted) != len(evicted) {
						res.Violate(mc.Violation{Key: "C16|proxy-conc|reported-ne-issued", What: fmt.Sprintf("%s: %d reported, %d accepted by API", sname, len(evicted), len(pl.accepted)), Replay: rep})
					}
					outcomes.Add(fmt.Sprintf("%s|%d|%d", sname, len(pl.accepted), len(pl.calls)))
				}
			}
		}}
		if !ex.Run() {
			complete = false
			res.Capped = ex.Capped + " in " + sname
		}
		execs += ex.Execs
		if ex.Execs > maxExecs {
			maxExecs = ex.Execs
		}
		res.Count("scenarios", 1)
		if si%11 == 0 {
			res.Sample(fmt.Sprintf("%s bound=%d: %d schedules", sname, sc.bound, ex.Execs))
		}
	}
	res.States = outcomes.Len()
	res.Transitions, res.Traces, res.Evaluations, res.Distinct = execs, execs, execs, outcomes.Len()
	res.Exhaustive = complete
	res.MaxCounter("max_schedules_in_one_scenario", maxExecs)
	res.Bounds = map[string]any{"threads": "2-3 full scenarios + 5,6 (quick) / 2-4 + 5,6,8 (thorough) single-eviction scenarios", "evict_calls_per_thread": "1-2", "preemption_bound": env.Pick(2, 3), "scenarios_total": len(scens)}
	res.Rule = "every schedule within the preemption bound; scheduling points at every lock operation of the eviction limiter and around the (fake) API call; caps evaluated at every scheduling point on the evictions accepted by the API; states = distinct (scenario, #accepted, #calls)"
	res.Assumptions = []string{"2-4 goroutines are explored at preemption bound 2-3; 5-8 goroutines (one eviction each) at preemption bound 0-2 (blocking on the serialising lock already yields every arrival order); 9-16 goroutines are not explored"}
	env.Emit(res)
}
