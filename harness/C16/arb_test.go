package arbitrator

// C16, part "arbitration rounds": explicit-state BFS over event histories on the real arbitratorImpl + the real
// filter (wired by the production initFilters) over a controller-runtime fake client that carries the five field
// indexes the production cache registers. After every arbitration round the PodMigrationJob / Pod objects of the
// fake API server are judged against a reference written from the STATEMENT (plain maps, no call into the code):
// caps per node / namespace / workload / globally, allowed unavailability per workload (both with the "already
// exceeded before the round => must not grow" proviso), "refused for lack of headroom => still waiting, not failed",
// and at EVERY reached state Filter(pod) must be false for every pod that has a live job.
// Besides the add / round / run / finish / unready cycle some configurations contain environment events that leave the
// arbitrator with state the rounds were not written for: podDeleted(p) (the pod of a waiting job disappears; the
// arbitrator gets no event), restart() (fresh arbitratorImpl + filter, the initial sync re-delivers every job as a Create
// event; nothing else is rebuilt by the production start-up), dupJob(p) (a user creates a second job for a pod; the API
// admits it), touchJob(p) (another writer updates a waiting job). They are judged by the same clauses; violations in
// states that carry such residue get the key suffix |after:podDeleted / |after:restart / |after:duplicateJob.
// Findings on the unchanged tree: arb_repro_test.go.txt (plain tests), arb_fix_proposal.diff.txt.
// See /verif/DESIGN.md §4 C16 "Arbitration rounds".

import (
	"context"
	"fmt"
	"sort"
	"strings"
	"sync"
	"testing"
	"time"

	corev1 "k8s.io/api/core/v1"
	metav1 "k8s.io/apimachinery/pkg/apis/meta/v1"
	"k8s.io/apimachinery/pkg/runtime"
	"k8s.io/apimachinery/pkg/runtime/serializer"
	"k8s.io/apimachinery/pkg/types"
	"k8s.io/apimachinery/pkg/util/intstr"
	"k8s.io/client-go/discovery"
	"k8s.io/client-go/informers"
	clientset "k8s.io/client-go/kubernetes"
	k8stesting "k8s.io/client-go/testing"
	"k8s.io/client-go/tools/events"
	"k8s.io/client-go/util/workqueue"
	"k8s.io/utils/clock"
	"k8s.io/utils/ptr"
	"sigs.k8s.io/controller-runtime/pkg/client"
	"sigs.k8s.io/controller-runtime/pkg/client/fake"
	"sigs.k8s.io/controller-runtime/pkg/event"
	"sigs.k8s.io/controller-runtime/pkg/handler"
	"sigs.k8s.io/controller-runtime/pkg/reconcile"

	"github.com/koordinator-sh/koordinator/apis/scheduling/v1alpha1"
	"github.com/koordinator-sh/koordinator/pkg/descheduler/apis/config"
	"github.com/koordinator-sh/koordinator/pkg/descheduler/fieldindex"
	"github.com/koordinator-sh/koordinator/pkg/descheduler/framework"
	"github.com/koordinator-sh/koordinator/pkg/descheduler/utils/sorter"
	"github.com/koordinator-sh/koordinator/pkg/zzverif/mc"
)

// ---------------------------------------------------------------------------------------------------------------
// universe

type c16PodSpec struct{ name, ns, node, wl string }

// n1: a1 a3 b1   n2: a2 b2      namespace x = workload w1 (3 replicas), namespace y = workload w2 (2 replicas)
var c16Universe = []c16PodSpec{
	{"a1", "x", "n1", "w1"},
	{"a2", "x", "n2", "w1"},
	{"a3", "x", "n1", "w1"},
	{"b1", "y", "n1", "w2"},
	{"b2", "y", "n2", "w2"},
}

var c16Replicas = map[string]int{"w1": 3, "w2": 2}

type c16Cfg struct {
	name      string
	elig      []string // pods that may get jobs (all five pods always exist)
	perNode   *int32
	perNs     *int32
	global    *int32
	perWl     *intstr.IntOrString
	maxUnav   *intstr.IntOrString
	unreadyOK []string // pods that may become unready
	termOK    []string // pods that may start terminating (deletionTimestamp set, grace period running) while still Ready
	touch     bool     // alphabet additionally contains "another writer updates the waiting job" (stale copy => Update conflicts)
	failRun   bool     // alphabet additionally contains Running -> Failed
	reready   bool     // alphabet additionally contains "pod becomes ready again"
	podDel    []string // pods that may be deleted while their job waits for arbitration
	podRepl   []string // pods that may be REPLACED (same name, new UID: a StatefulSet pod re-created) while their job waits
	restart   bool     // alphabet additionally contains "the descheduler restarts" (fresh arbitrator, initial sync re-delivers all jobs)
	dup       []string // pods for which a user may create a second job while one is live (no webhook / CRD rule forbids it)
	adopted   []string // jobs that are already Running when the arbitrator starts (delivered as Create events by the initial sync)
	repl      map[string]int // expected replicas of a workload when they differ from c16Replicas (only the universe's pods exist; the others are taken as running elsewhere)
	depthQ    int
	depthT    int
}

func (c *c16Cfg) replicas(w string) int {
	if r, ok := c.repl[w]; ok {
		return r
	}
	return c16Replicas[w]
}

func (c *c16Cfg) caps() string {
	i32 := func(p *int32) string {
		if p == nil {
			return "unset"
		}
		return fmt.Sprint(*p)
	}
	is := func(p *intstr.IntOrString) string {
		if p == nil {
			return "unset"
		}
		return p.String()
	}
	return fmt.Sprintf("perNode=%s perNamespace=%s perWorkload=%s globally=%s maxUnavailablePerWorkload=%s", i32(c.perNode), i32(c.perNs), is(c.perWl), i32(c.global), is(c.maxUnav))
}

// ---------------------------------------------------------------------------------------------------------------
// shared immutable fixtures (built once per process: the scheme is read-only after construction, the handle is only
// consulted by initFilters for discovery / recorder and never by the filters this universe reaches)

var (
	c16Once   sync.Once
	c16Scheme *runtime.Scheme
	c16Hdl    *c16Handle
	c16Codecs serializer.CodecFactory
)

type c16Disc struct{ discovery.DiscoveryInterface }

func (c16Disc) ServerGroups() (*metav1.APIGroupList, error) {
	return &metav1.APIGroupList{Groups: []metav1.APIGroup{{Name: "policy",
		Versions:         []metav1.GroupVersionForDiscovery{{GroupVersion: "policy/v1", Version: "v1"}},
		PreferredVersion: metav1.GroupVersionForDiscovery{GroupVersion: "policy/v1", Version: "v1"}}}}, nil
}

func (c16Disc) ServerResourcesForGroupVersion(gv string) (*metav1.APIResourceList, error) {
	return &metav1.APIResourceList{GroupVersion: "v1", APIResources: []metav1.APIResource{{Name: "pods/eviction", Kind: "Eviction", Group: "policy", Version: "v1"}}}, nil
}

type c16CS struct{ clientset.Interface }

func (c16CS) Discovery() discovery.DiscoveryInterface { return c16Disc{} }

type c16Handle struct {
	framework.Handle
	cs  clientset.Interface
	inf informers.SharedInformerFactory
}

func (h *c16Handle) ClientSet() clientset.Interface                         { return h.cs }
func (h *c16Handle) EventRecorder() events.EventRecorder                    { return &events.FakeRecorder{} }
func (h *c16Handle) SharedInformerFactory() informers.SharedInformerFactory { return h.inf }
func (h *c16Handle) GetPodsAssignedToNodeFunc() framework.GetPodsAssignedToNodeFunc {
	return func(string, framework.FilterFunc) ([]*corev1.Pod, error) { return nil, nil }
}

func c16Init() {
	c16Once.Do(func() {
		// only the kinds the arbitrator touches: the fake client's tracker rebuilds a REST mapper from the whole scheme
		// on every write, which dominates the run time with the full client-go scheme
		c16Scheme = runtime.NewScheme()
		c16Scheme.AddKnownTypes(corev1.SchemeGroupVersion, &corev1.Pod{}, &corev1.PodList{})
		metav1.AddToGroupVersion(c16Scheme, corev1.SchemeGroupVersion)
		c16Scheme.AddKnownTypes(v1alpha1.SchemeGroupVersion, &v1alpha1.PodMigrationJob{}, &v1alpha1.PodMigrationJobList{})
		metav1.AddToGroupVersion(c16Scheme, v1alpha1.SchemeGroupVersion)
		c16Codecs = serializer.NewCodecFactory(c16Scheme)
		cs := c16CS{}
		c16Hdl = &c16Handle{cs: cs, inf: informers.NewSharedInformerFactory(cs, 0)}
	})
}

type c16NopQueue struct {
	workqueue.TypedRateLimitingInterface[reconcile.Request]
}

func (c16NopQueue) Add(reconcile.Request) {}

// the controller finder of the universe: pods + expected replicas of a workload (the production finder resolves the
// scale sub-resource and lists by selector; both are outside the arbitration logic)
type c16Finder struct{ s *c16Sys }

func (f *c16Finder) GetPodsForRef(ref *metav1.OwnerReference, ns string, _ *metav1.LabelSelector, _ bool) ([]*corev1.Pod, int32, error) {
	var out []*corev1.Pod
	for _, ps := range c16Universe {
		if ps.wl == ref.Name && ps.ns == ns && !f.s.gone[ps.name] {
			out = append(out, f.s.podObj[ps.name])
		}
	}
	return out, int32(f.s.cfg.replicas(ref.Name)), nil
}
func (f *c16Finder) GetExpectedScaleForPod(pod *corev1.Pod) (int32, error) {
	ref := metav1.GetControllerOf(pod)
	return int32(f.s.cfg.replicas(ref.Name)), nil
}
func (f *c16Finder) ListPodsByWorkloads(uids []types.UID, ns string, _ *metav1.LabelSelector, _ bool) ([]*corev1.Pod, error) {
	return nil, nil
}

// ---------------------------------------------------------------------------------------------------------------
// system

var c16T0 = time.Date(2024, 1, 1, 0, 0, 0, 0, time.UTC)

type c16Op struct {
	name    string
	pod     string
	kind    string
	enabled func(s *c16Sys) bool
	apply   func(s *c16Sys)
}

type c16Sys struct {
	cfg    *c16Cfg
	ops    []c16Op
	res    *mc.Result
	cl     client.Client
	arb    *arbitratorImpl
	h      handler.EventHandler
	podObj map[string]*corev1.Pod // the pod objects as last written to the API server (what the finder's lister returns)
	gen    map[string]int         // jobs created so far per pod (only used to build unique job names)
	seq    int                    // creation sequence number -> distinct creation timestamps
	jobs   []v1alpha1.PodMigrationJob
	fresh  bool
	gone   map[string]bool // pods deleted from the API server
}

func c16MakePod(ps c16PodSpec) *corev1.Pod {
	return &corev1.Pod{
		ObjectMeta: metav1.ObjectMeta{
			Namespace: ps.ns, Name: ps.name, UID: types.UID(ps.ns + "/" + ps.name),
			CreationTimestamp: metav1.Time{Time: c16T0.Add(-time.Hour)},
			OwnerReferences: []metav1.OwnerReference{{APIVersion: "apps/v1", Kind: "ReplicaSet", Name: ps.wl, UID: types.UID("uid-" + ps.wl),
				Controller: ptr.To(true)}},
		},
		Spec: corev1.PodSpec{NodeName: ps.node, SchedulerName: "koord-scheduler", Priority: ptr.To[int32](0)},
		Status: corev1.PodStatus{Phase: corev1.PodRunning,
			Conditions: []corev1.PodCondition{{Type: corev1.PodReady, Status: corev1.ConditionTrue}}},
	}
}

func c16NewSys(cfg *c16Cfg, ops []c16Op, res *mc.Result) *c16Sys {
	c16Init()
	s := &c16Sys{cfg: cfg, ops: ops, res: res, podObj: map[string]*corev1.Pod{}, gen: map[string]int{}, gone: map[string]bool{}}
	// plain object tracker: the default field-managed tracker re-registers the whole client-go scheme on every Build and
	// computes managed fields on every write (server-side apply is not used by the arbitrator); resourceVersion
	// conflicts, status sub-resource semantics and field-selector indexes live in the fake client itself and are kept
	b := fake.NewClientBuilder().WithScheme(c16Scheme).WithStatusSubresource(&v1alpha1.PodMigrationJob{}).
		WithObjectTracker(k8stesting.NewObjectTracker(c16Scheme, c16Codecs.UniversalDecoder())).
		// the same five indexes as fieldindex.RegisterFieldIndexes (which needs a cache.Cache and a process-wide Once)
		WithIndex(&corev1.Pod{}, fieldindex.IndexPodByNodeName, func(obj client.Object) []string {
			pod := obj.(*corev1.Pod)
			if len(pod.Spec.NodeName) == 0 {
				return []string{}
			}
			return []string{pod.Spec.NodeName}
		}).
		WithIndex(&corev1.Pod{}, fieldindex.IndexPodByOwnerRefUID, func(obj client.Object) []string {
			var owners []string
			for _, ref := range obj.GetOwnerReferences() {
				owners = append(owners, string(ref.UID))
			}
			return owners
		}).
		WithIndex(&v1alpha1.PodMigrationJob{}, fieldindex.IndexJobByPodUID, func(obj client.Object) []string {
			j := obj.(*v1alpha1.PodMigrationJob)
			if j.Spec.PodRef == nil {
				return []string{}
			}
			return []string{string(j.Spec.PodRef.UID)}
		}).
		WithIndex(&v1alpha1.PodMigrationJob{}, fieldindex.IndexJobPodNamespacedName, func(obj client.Object) []string {
			j := obj.(*v1alpha1.PodMigrationJob)
			if j.Spec.PodRef == nil {
				return []string{}
			}
			return []string{fmt.Sprintf("%s/%s", j.Spec.PodRef.Namespace, j.Spec.PodRef.Name)}
		}).
		WithIndex(&v1alpha1.PodMigrationJob{}, fieldindex.IndexJobByPodNamespace, func(obj client.Object) []string {
			j := obj.(*v1alpha1.PodMigrationJob)
			if j.Spec.PodRef == nil {
				return []string{}
			}
			return []string{j.Spec.PodRef.Namespace}
		})
	for _, ps := range c16Universe {
		b = b.WithObjects(c16MakePod(ps))
	}
	s.cl = b.Build()
	for _, ps := range c16Universe {
		p := &corev1.Pod{}
		if err := s.cl.Get(context.TODO(), types.NamespacedName{Namespace: ps.ns, Name: ps.name}, p); err != nil {
			panic(err)
		}
		s.podObj[ps.name] = p
	}
	s.buildArb()
	for _, pn := range cfg.adopted {
		s.createJob(pn, v1alpha1.PodMigrationJobRunning, true)
	}
	return s
}

// buildArb: what arbitrator.New() + the controller's Watch set up: an empty waiting collection, an empty in-memory
// passed set, the production filter wiring and sort chain, the arbitration event handler. Nothing else is rebuilt at
// start-up (markJobPassedArbitration is only ever called by updatePassedJob).
func (s *c16Sys) buildArb() {
	cfg := s.cfg
	args := &config.MigrationControllerArgs{
		MaxMigratingPerNode:       cfg.perNode,
		MaxMigratingPerNamespace:  cfg.perNs,
		MaxMigratingGlobally:      cfg.global,
		MaxMigratingPerWorkload:   cfg.perWl,
		MaxUnavailablePerWorkload: cfg.maxUnav,
		DefaultJobMode:            string(v1alpha1.PodMigrationJobModeReservationFirst),
		SchedulerNames:            []string{"koord-scheduler"},
		EvictionPolicy:            "Eviction",
	}
	f := &filter{client: s.cl, args: args, controllerFinder: &c16Finder{s: s}, clock: clock.RealClock{},
		arbitratedPodMigrationJobs: map[types.UID]bool{}, skipEvictionGates: newEvictionGateSet(args.SkipEvictionGates)}
	if err := f.initFilters(args, c16Hdl); err != nil { // the production wiring of retryable / non-retryable filters
		panic(err)
	}
	s.arb = &arbitratorImpl{
		waitingCollection: map[types.UID]*v1alpha1.PodMigrationJob{},
		// the sort chain of New()
		sorts:         []SortFn{SortJobsByCreationTime(), SortJobsByPod(sorter.PodSorter().Sort), SortJobsByController(), SortJobsByMigratingNum(s.cl)},
		filter:        f,
		client:        s.cl,
		eventRecorder: &events.FakeRecorder{},
	}
	s.h = NewHandler(s.arb, s.cl)
}

// restart: the descheduler process restarts. The controller's Watch on PodMigrationJob has no Create predicate, so
// the informer's initial list is delivered as one Create event per existing job - whatever its phase - to the
// arbitration handler, which puts every one of them into the waiting collection.
func (s *c16Sys) restart() {
	s.buildArb()
	s.fresh = false
	jobs := s.listJobs()
	for i := range jobs {
		s.h.Create(context.TODO(), event.CreateEvent{Object: jobs[i].DeepCopy()}, c16NopQueue{})
	}
}

func c16Spec(pn string) c16PodSpec {
	for _, ps := range c16Universe {
		if ps.name == pn {
			return ps
		}
	}
	panic("no pod " + pn)
}

// createJob: a PodMigrationJob appears in the API server and the informer delivers its Create event.
func (s *c16Sys) createJob(pn string, phase v1alpha1.PodMigrationJobPhase, passed bool) {
	userLike := phase == ""
	ps := c16Spec(pn)
	s.gen[pn]++
	s.seq++
	name := fmt.Sprintf("j-%s-%d", pn, s.gen[pn])
	job := &v1alpha1.PodMigrationJob{
		ObjectMeta: metav1.ObjectMeta{Name: name, UID: types.UID("uid-" + name),
			CreationTimestamp: metav1.Time{Time: c16T0.Add(time.Duration(s.seq) * time.Minute)}},
		Spec: v1alpha1.PodMigrationJobSpec{
			PodRef: &corev1.ObjectReference{Namespace: ps.ns, Name: ps.name, UID: types.UID(ps.ns + "/" + ps.name)},
			Mode:   v1alpha1.PodMigrationJobModeReservationFirst,
		},
		Status: v1alpha1.PodMigrationJobStatus{Phase: phase},
	}
	if passed {
		job.Annotations = map[string]string{AnnotationPassedArbitration: "true"}
	}
	if userLike {
		// a hand-written job names the pod but not its UID (the controller fills the UID in when it starts the job)
		job.Spec.PodRef.UID = ""
	}
	if err := s.cl.Create(context.TODO(), job); err != nil {
		panic(err)
	}
	s.fresh = false
	got := s.getJob(name)
	s.h.Create(context.TODO(), event.CreateEvent{Object: got}, c16NopQueue{})
}

func (s *c16Sys) getJob(name string) *v1alpha1.PodMigrationJob {
	j := &v1alpha1.PodMigrationJob{}
	if err := s.cl.Get(context.TODO(), types.NamespacedName{Name: name}, j); err != nil {
		panic(err)
	}
	return j
}

func (s *c16Sys) listJobs() []v1alpha1.PodMigrationJob {
	if !s.fresh {
		l := &v1alpha1.PodMigrationJobList{}
		if err := s.cl.List(context.TODO(), l); err != nil {
			panic(err)
		}
		s.jobs = l.Items
		sort.Slice(s.jobs, func(i, j int) bool { return s.jobs[i].Name < s.jobs[j].Name })
		s.fresh = true
	}
	return s.jobs
}

func c16Phase(j *v1alpha1.PodMigrationJob) v1alpha1.PodMigrationJobPhase {
	if j.Status.Phase == "" {
		return v1alpha1.PodMigrationJobPending
	}
	return j.Status.Phase
}

func c16Live(j *v1alpha1.PodMigrationJob) bool {
	p := c16Phase(j)
	return p == v1alpha1.PodMigrationJobPending || p == v1alpha1.PodMigrationJobRunning
}

func c16Passed(j *v1alpha1.PodMigrationJob) bool {
	return j.Annotations[AnnotationPassedArbitration] == "true"
}

// liveJob returns the live job of pod pn as stored in the API server (nil if none).
func (s *c16Sys) liveJob(pn string) *v1alpha1.PodMigrationJob {
	jobs := s.listJobs()
	for i := range jobs {
		j := &jobs[i]
		if j.Spec.PodRef != nil && j.Spec.PodRef.Name == pn && c16Live(j) {
			return j
		}
	}
	return nil
}

// liveJobWhere returns the first (oldest) live job of pod pn that satisfies pred.
func (s *c16Sys) liveJobWhere(pn string, pred func(j *v1alpha1.PodMigrationJob) bool) *v1alpha1.PodMigrationJob {
	jobs := s.listJobs()
	for i := range jobs {
		j := &jobs[i]
		if j.Spec.PodRef != nil && j.Spec.PodRef.Name == pn && c16Live(j) && pred(j) {
			return j
		}
	}
	return nil
}

func (s *c16Sys) liveJobs(pn string) int {
	n := 0
	s.liveJobWhere(pn, func(*v1alpha1.PodMigrationJob) bool { n++; return false })
	return n
}

func (s *c16Sys) isWaiting(j *v1alpha1.PodMigrationJob) bool {
	_, ok := s.arb.waitingCollection[j.UID]
	return ok
}

// setPhase: the migration controller (or its timeout / abort path) writes the job status; the informer delivers the
// Update event to the arbitration handler.
func (s *c16Sys) setPhase(j *v1alpha1.PodMigrationJob, phase v1alpha1.PodMigrationJobPhase) {
	cur := s.getJob(j.Name)
	cur.Status.Phase = phase
	if err := s.cl.Status().Update(context.TODO(), cur); err != nil {
		panic(err)
	}
	s.fresh = false
	s.h.Update(context.TODO(), event.UpdateEvent{ObjectOld: j.DeepCopy(), ObjectNew: s.getJob(j.Name)}, c16NopQueue{})
}

func c16In(l []string, x string) bool {
	for _, v := range l {
		if v == x {
			return true
		}
	}
	return false
}

func c16BuildOps(cfg *c16Cfg) []c16Op {
	var ops []c16Op
	ops = append(ops, c16Op{name: "round()", kind: "round",
		enabled: func(s *c16Sys) bool { return len(s.arb.waitingCollection) > 0 },
		apply:   func(s *c16Sys) { s.arb.doOnceArbitrate(); s.fresh = false }})
	for _, pn := range cfg.elig {
		pn := pn
		canRun := func(j *v1alpha1.PodMigrationJob) bool {
			return c16Phase(j) == v1alpha1.PodMigrationJobPending && (c16Passed(j) || j.Labels["touched"] != "")
		}
		canFinish := func(j *v1alpha1.PodMigrationJob) bool {
			return c16Phase(j) == v1alpha1.PodMigrationJobRunning || c16Passed(j)
		}
		isRunning := func(j *v1alpha1.PodMigrationJob) bool { return c16Phase(j) == v1alpha1.PodMigrationJobRunning }
		ops = append(ops,
			// the descheduler (after Filter(pod) said yes) or a user creates a job for a pod that has no live job
			c16Op{name: "addJob(" + pn + ")", pod: pn, kind: "add",
				enabled: func(s *c16Sys) bool { return !s.gone[pn] && s.liveJob(pn) == nil },
				apply: func(s *c16Sys) {
					ph := v1alpha1.PodMigrationJobPending // what CreatePodMigrationJob writes
					if strings.HasPrefix(pn, "b") {
						ph = "" // a user-created job: no status, no pod UID
					}
					s.createJob(pn, ph, false)
				}},
			// the migration controller starts a job: it reconciles a job on every Update event of the job, i.e. after the
			// arbitrator annotated it as passed - or after any other writer updated it (the reconciler itself does not look
			// at the annotation), which is how a limit can be exceeded BEFORE a round. (When the pod is gone the
			// controller fails the job instead: see finish.)
			c16Op{name: "running(" + pn + ")", pod: pn, kind: "running",
				enabled: func(s *c16Sys) bool { return !s.gone[pn] && s.liveJobWhere(pn, canRun) != nil },
				apply: func(s *c16Sys) {
					// preparePendingJob: write the pod UID into the spec (Update), then the phase (Status().Update)
					j := s.liveJobWhere(pn, canRun)
					cur := s.getJob(j.Name)
					ps := c16Spec(pn)
					cur.Spec.PodRef.UID = types.UID(ps.ns + "/" + ps.name)
					if err := s.cl.Update(context.TODO(), cur); err != nil {
						panic(err)
					}
					s.fresh = false
					s.h.Update(context.TODO(), event.UpdateEvent{ObjectOld: j.DeepCopy(), ObjectNew: s.getJob(j.Name)}, c16NopQueue{})
					s.setPhase(s.getJob(j.Name), v1alpha1.PodMigrationJobRunning)
				}},
			// the job completes: Running -> Succeeded, passed-but-not-started -> Aborted (timeout path; for a job whose
			// pod is gone this stands for the controller's abortJobByMissingPod)
			c16Op{name: "finish(" + pn + ")", pod: pn, kind: "finish",
				enabled: func(s *c16Sys) bool { return s.liveJobWhere(pn, canFinish) != nil },
				apply: func(s *c16Sys) {
					j := s.liveJobWhere(pn, canFinish)
					if c16Phase(j) == v1alpha1.PodMigrationJobRunning {
						s.setPhase(j, v1alpha1.PodMigrationJobSucceeded)
					} else {
						s.setPhase(j, v1alpha1.PodMigrationJobAborted)
					}
				}},
		)
		if cfg.failRun {
			ops = append(ops, c16Op{name: "failRunning(" + pn + ")", pod: pn, kind: "fail",
				enabled: func(s *c16Sys) bool { return s.liveJobWhere(pn, isRunning) != nil },
				apply:   func(s *c16Sys) { s.setPhase(s.liveJobWhere(pn, isRunning), v1alpha1.PodMigrationJobFailed) }})
		}
		if cfg.touch {
			// another writer (kubectl label, a mutating controller) updates a job the arbitrator still holds a copy of
			ops = append(ops, c16Op{name: "touchJob(" + pn + ")", pod: pn, kind: "touch",
				enabled: func(s *c16Sys) bool {
					j := s.liveJob(pn)
					return j != nil && s.isWaiting(j) && j.Labels["touched"] == ""
				},
				apply: func(s *c16Sys) {
					j := s.liveJob(pn)
					cur := s.getJob(j.Name)
					cur.Labels = map[string]string{"touched": "1"}
					if err := s.cl.Update(context.TODO(), cur); err != nil {
						panic(err)
					}
					s.fresh = false
					s.h.Update(context.TODO(), event.UpdateEvent{ObjectOld: j.DeepCopy(), ObjectNew: s.getJob(j.Name)}, c16NopQueue{})
				}})
		}
		if c16In(cfg.podDel, pn) {
			// the pod of a job that still waits for arbitration is deleted (rollout, scale-down, node drain ...). The
			// migration controller watches PodMigrationJobs and Reservations only: the arbitrator receives no event.
			ops = append(ops, c16Op{name: "podDeleted(" + pn + ")", pod: pn, kind: "podDeleted",
				enabled: func(s *c16Sys) bool {
					return !s.gone[pn] && s.liveJobWhere(pn, func(j *v1alpha1.PodMigrationJob) bool {
						return c16Phase(j) == v1alpha1.PodMigrationJobPending && !c16Passed(j) && s.isWaiting(j)
					}) != nil
				},
				apply: func(s *c16Sys) {
					ps := c16Spec(pn)
					p := &corev1.Pod{}
					if err := s.cl.Get(context.TODO(), types.NamespacedName{Namespace: ps.ns, Name: ps.name}, p); err != nil {
						panic(err)
					}
					if err := s.cl.Delete(context.TODO(), p); err != nil {
						panic(err)
					}
					s.gone[pn] = true
				}})
		}
		if c16In(cfg.podRepl, pn) {
			// the pod of a waiting job is re-created under the same name (new UID, same node / namespace / workload, Ready):
			// the job now names the replacement, which is arbitrated like any pod (seed C16-H treated it as missing = unchecked)
			ops = append(ops, c16Op{name: "podReplaced(" + pn + ")", pod: pn, kind: "podReplaced",
				enabled: func(s *c16Sys) bool {
					return !s.gone[pn] && !strings.HasSuffix(string(s.podObj[pn].UID), "#2") && s.liveJobWhere(pn, func(j *v1alpha1.PodMigrationJob) bool {
						return c16Phase(j) == v1alpha1.PodMigrationJobPending && !c16Passed(j) && s.isWaiting(j)
					}) != nil
				},
				apply: func(s *c16Sys) {
					ps := c16Spec(pn)
					p := &corev1.Pod{}
					if err := s.cl.Get(context.TODO(), types.NamespacedName{Namespace: ps.ns, Name: ps.name}, p); err != nil {
						panic(err)
					}
					if err := s.cl.Delete(context.TODO(), p); err != nil {
						panic(err)
					}
					q := c16MakePod(ps)
					q.UID = types.UID(string(q.UID) + "#2")
					if err := s.cl.Create(context.TODO(), q); err != nil {
						panic(err)
					}
					s.podObj[pn] = q
				}})
		}
		if c16In(cfg.dup, pn) {
			// a user creates a second PodMigrationJob for a pod that already has a live one: the API server admits it
			// (there is no validating webhook for PodMigrationJob and the CRD has no cross-object rule)
			ops = append(ops, c16Op{name: "dupJob(" + pn + ")", pod: pn, kind: "dup",
				enabled: func(s *c16Sys) bool { return !s.gone[pn] && s.liveJobs(pn) == 1 },
				apply:   func(s *c16Sys) { s.createJob(pn, "", false) }})
		}
	}
	if cfg.restart {
		ops = append(ops, c16Op{name: "restart()", kind: "restart",
			enabled: func(s *c16Sys) bool { return len(s.listJobs()) > 0 },
			apply:   func(s *c16Sys) { s.restart() }})
	}
	for _, pn := range cfg.termOK {
		pn := pn
		ps := c16Spec(pn)
		// somebody (an eviction of a finished job, a user, a rollout) deletes the pod: during its grace period it is still
		// in the API server, still reports Ready, and is no longer available to its workload
		ops = append(ops, c16Op{name: "terminating(" + pn + ")", pod: pn, kind: "terminating",
			enabled: func(s *c16Sys) bool { return !s.gone[pn] && s.podObj[pn].DeletionTimestamp == nil },
			apply: func(s *c16Sys) {
				key := types.NamespacedName{Namespace: ps.ns, Name: ps.name}
				p := &corev1.Pod{}
				if err := s.cl.Get(context.TODO(), key, p); err != nil {
					panic(err)
				}
				p.Finalizers = []string{"verif/grace-period"} // keeps the object in the fake API server after Delete
				if err := s.cl.Update(context.TODO(), p); err != nil {
					panic(err)
				}
				if err := s.cl.Delete(context.TODO(), p); err != nil {
					panic(err)
				}
				q := &corev1.Pod{}
				if err := s.cl.Get(context.TODO(), key, q); err != nil {
					panic(err)
				}
				if q.DeletionTimestamp == nil {
					panic("c16: pod is not terminating after Delete")
				}
				s.podObj[pn] = q
			}})
	}
	for _, pn := range cfg.unreadyOK {
		pn := pn
		ps := c16Spec(pn)
		setReady := func(s *c16Sys, ready bool) {
			p := &corev1.Pod{}
			if err := s.cl.Get(context.TODO(), types.NamespacedName{Namespace: ps.ns, Name: ps.name}, p); err != nil {
				panic(err)
			}
			p.Status.Conditions[0].Status = corev1.ConditionFalse
			if ready {
				p.Status.Conditions[0].Status = corev1.ConditionTrue
			}
			if err := s.cl.Status().Update(context.TODO(), p); err != nil {
				panic(err)
			}
			q := &corev1.Pod{}
			if err := s.cl.Get(context.TODO(), types.NamespacedName{Namespace: ps.ns, Name: ps.name}, q); err != nil {
				panic(err)
			}
			if c16Ready(q) != ready {
				panic("c16: pod status update was not stored")
			}
			s.podObj[pn] = q
		}
		ops = append(ops, c16Op{name: "unready(" + pn + ")", pod: pn, kind: "unready",
			enabled: func(s *c16Sys) bool { return !s.gone[pn] && c16Ready(s.podObj[pn]) },
			apply:   func(s *c16Sys) { setReady(s, false) }})
		if cfg.reready {
			ops = append(ops, c16Op{name: "ready(" + pn + ")", pod: pn, kind: "ready",
				enabled: func(s *c16Sys) bool { return !s.gone[pn] && !c16Ready(s.podObj[pn]) },
				apply:   func(s *c16Sys) { setReady(s, true) }})
		}
	}
	return ops
}

func c16Ready(p *corev1.Pod) bool {
	for _, c := range p.Status.Conditions {
		if c.Type == corev1.PodReady {
			return c.Status == corev1.ConditionTrue
		}
	}
	return false
}

// ---------------------------------------------------------------------------------------------------------------
// observation of the API server + reference model (from the statement; never calls the code under check)

type c16JobObs struct {
	uid, name, pod string
	podNs          string // namespace named by the job's pod reference
	marked         bool   // in the arbitrator's in-memory passed set (only used to label witness classes)
	rawPhase       string
	phase          string
	passed         bool
	waiting        bool
	created        int64
}

type c16PodObs struct {
	name, ns, node, wl string
	ready              bool
}

type c16Obs struct {
	jobs map[string]c16JobObs // by uid
	pods map[string]c16PodObs // by name
}

func (s *c16Sys) observe() c16Obs {
	o := c16Obs{jobs: map[string]c16JobObs{}, pods: map[string]c16PodObs{}}
	pl := &corev1.PodList{}
	if err := s.cl.List(context.TODO(), pl); err != nil {
		panic(err)
	}
	for i := range pl.Items {
		p := &pl.Items[i]
		wl := ""
		if ref := metav1.GetControllerOf(p); ref != nil {
			wl = ref.Name
		}
		o.pods[p.Name] = c16PodObs{name: p.Name, ns: p.Namespace, node: p.Spec.NodeName, wl: wl,
			ready: p.DeletionTimestamp == nil && p.Status.Phase != corev1.PodFailed && p.Status.Phase != corev1.PodSucceeded && c16Ready(p)}
	}
	s.fresh = false
	for _, j := range s.listJobs() {
		jo := c16JobObs{uid: string(j.UID), name: j.Name, rawPhase: string(j.Status.Phase), phase: string(c16Phase(&j)), passed: c16Passed(&j),
			created: j.CreationTimestamp.Unix()}
		if j.Spec.PodRef != nil {
			jo.pod = j.Spec.PodRef.Name
			jo.podNs = j.Spec.PodRef.Namespace
		}
		_, jo.waiting = s.arb.waitingCollection[j.UID]
		jo.marked = s.arb.filter.arbitratedPodMigrationJobs[j.UID]
		o.jobs[jo.uid] = jo
	}
	return o
}

// counted: "migration jobs that are running or have passed arbitration"
func (j c16JobObs) counted() bool {
	return j.phase == "Running" || (j.phase == "Pending" && j.passed)
}
func (j c16JobObs) live() bool { return j.phase == "Running" || j.phase == "Pending" }

type c16Counts struct {
	node, ns, wl map[string]int
	global       int
	unav         map[string]map[string]bool // workload -> pods unavailable or being migrated
}

func c16Count(o c16Obs, except string) c16Counts {
	c := c16Counts{node: map[string]int{}, ns: map[string]int{}, wl: map[string]int{}, unav: map[string]map[string]bool{}}
	for _, p := range o.pods {
		if c.unav[p.wl] == nil {
			c.unav[p.wl] = map[string]bool{}
		}
		if !p.ready {
			c.unav[p.wl][p.name] = true
		}
	}
	for _, j := range o.jobs {
		if !j.counted() || j.uid == except {
			continue
		}
		p, ok := o.pods[j.pod]
		if !ok {
			// the pod is gone: the job still is a job that passed / runs; the namespace is named by its pod reference,
			// node and workload are no longer known from the API objects
			c.ns[j.podNs]++
			c.global++
			continue
		}
		c.node[p.node]++
		c.ns[p.ns]++
		c.wl[p.wl]++
		c.global++
		c.unav[p.wl][p.name] = true
	}
	return c
}

// scaled value of an int-or-percent setting: percent of the expected replicas rounded down, at least 1, at most replicas.
// An unset setting stands for the controller's built-in allowance: 10% of the expected replicas (rounded down like every
// percentage) for more than 10 replicas, 2 for 4..10 replicas, 1 below (seed C16-G rounded the 10% up).
func c16Scaled(v *intstr.IntOrString, replicas int) (int, bool) {
	if v == nil {
		n := 1
		switch {
		case replicas > 10:
			n = replicas * 10 / 100
		case replicas >= 4:
			n = 2
		}
		if n > replicas {
			n = replicas
		}
		return n, true
	}
	n := 0
	if v.Type == intstr.Int {
		n = int(v.IntVal)
	} else {
		var pct int
		if _, err := fmt.Sscanf(v.StrVal, "%d%%", &pct); err != nil {
			panic(err)
		}
		n = replicas * pct / 100
	}
	if n < 1 {
		n = 1
	}
	if n > replicas {
		n = replicas
	}
	return n, true
}

func c16I32(p *int32) (int, bool) {
	if p == nil || *p <= 0 {
		return 0, false
	}
	return int(*p), true
}

func (s *c16Sys) viol(clause, what string) mc.Violation {
	return mc.Violation{Key: "C16|arb|" + clause, What: "[" + s.cfg.name + ": " + s.cfg.caps() + "] " + what}
}

// c16Class labels the witness class of a violation by what the judged state carries over from the environment events
// that lie outside the plain add / round / run / finish cycle: a live job whose pod was deleted, a job that was
// admitted by an earlier arbitrator incarnation (annotation present, not in the in-memory passed set), two live jobs
// for one pod. The label only names the class (for /verif/known_findings.json); the verdict never depends on it.
func c16Class(o c16Obs) string {
	var del, rst, dup bool
	perPod := map[string]int{}
	for _, j := range o.jobs {
		if !j.live() {
			continue
		}
		perPod[j.pod]++
		if _, ok := o.pods[j.pod]; !ok {
			del = true
		}
		if j.phase == "Pending" && j.passed && !j.marked {
			rst = true
		}
	}
	for _, n := range perPod {
		if n > 1 {
			dup = true
		}
	}
	out := ""
	if del {
		out += "|after:podDeleted"
	}
	if rst {
		out += "|after:restart"
	}
	if dup {
		out += "|after:duplicateJob"
	}
	return out
}

// lacksHeadroom lists the limits that leave no room for one more migration of pod p, given the jobs counted in o
// (the job `except` itself is left out).
func (s *c16Sys) lacksHeadroom(o c16Obs, p c16PodObs, except string) []string {
	c := c16Count(o, except)
	var out []string
	if p.name == "" {
		return nil // pod gone: otherReason applies
	}
	if cap, ok := c16I32(s.cfg.perNode); ok && c.node[p.node]+1 > cap {
		out = append(out, "node")
	}
	if cap, ok := c16I32(s.cfg.perNs); ok && c.ns[p.ns]+1 > cap {
		out = append(out, "namespace")
	}
	if cap, ok := c16I32(s.cfg.global); ok && c.global+1 > cap {
		out = append(out, "global")
	}
	if cap, ok := c16Scaled(s.cfg.perWl, s.cfg.replicas(p.wl)); ok && c.wl[p.wl]+1 > cap {
		out = append(out, "workload")
	}
	if cap, ok := c16Scaled(s.cfg.maxUnav, s.cfg.replicas(p.wl)); ok {
		n := len(c.unav[p.wl])
		if !c.unav[p.wl][p.name] {
			n++
		}
		if n > cap {
			out = append(out, "unavailable")
		}
	}
	return out
}

// otherReason: is there a reason other than missing headroom to refuse migrating a pod of this workload? In this
// universe (owned, non-critical pods without volumes) these are: the pod is gone, the pod has another live job, and the
// expected-replicas rule: a workload whose
// whole replica count equals its migration / unavailability allowance (or that has a single replica) is never migrated.
func (s *c16Sys) otherReason(o c16Obs, p c16PodObs, self string) bool {
	if p.name == "" {
		return true // the pod no longer exists: nothing can be migrated
	}
	for _, j := range o.jobs {
		if j.uid != self && j.live() && j.pod == p.name {
			return true // "a pod that already has a live migration job never gets a second one"
		}
	}
	r := s.cfg.replicas(p.wl)
	if r == 1 {
		return true
	}
	if m, ok := c16Scaled(s.cfg.perWl, r); ok && m == r {
		return true
	}
	if m, ok := c16Scaled(s.cfg.maxUnav, r); ok && m == r {
		return true
	}
	return false
}

func (s *c16Sys) judgeRound(before, after c16Obs) (viol []mc.Violation) {
	res := s.res
	res.Count("rounds", 1)
	class := c16Class(before)
	if class != "" {
		res.Count("rounds"+class, 1)
	}
	defer func() {
		for i := range viol {
			viol[i].Key += class
		}
	}()
	cb, ca := c16Count(before, ""), c16Count(after, "")
	// --- caps (with the "already exceeded before the round" proviso)
	chk := func(limit, group string, b, a, cap int) {
		if a == cap {
			res.Count("tight_after_round|"+limit, 1)
		}
		if b > cap {
			res.Count("proviso_exceeded_before_round|"+limit, 1)
			if a > b {
				viol = append(viol, s.viol("cap-grew-while-exceeded|"+limit, fmt.Sprintf("%s %s: %d counted before the round (already above the maximum %d) and %d after it", limit, group, b, cap, a)))
			}
			return
		}
		if a > cap {
			viol = append(viol, s.viol("cap-exceeded|"+limit, fmt.Sprintf("%s %s: %d jobs running or passed after the round, maximum %d (before the round: %d)", limit, group, a, cap, b)))
		}
	}
	if cap, ok := c16I32(s.cfg.perNode); ok {
		for _, n := range []string{"n1", "n2"} {
			chk("node", n, cb.node[n], ca.node[n], cap)
		}
	}
	if cap, ok := c16I32(s.cfg.perNs); ok {
		for _, n := range []string{"x", "y"} {
			chk("namespace", n, cb.ns[n], ca.ns[n], cap)
		}
	}
	if cap, ok := c16I32(s.cfg.global); ok {
		chk("global", "*", cb.global, ca.global, cap)
	}
	for _, w := range []string{"w1", "w2"} {
		if cap, ok := c16Scaled(s.cfg.perWl, s.cfg.replicas(w)); ok {
			chk("workload", w, cb.wl[w], ca.wl[w], cap)
		}
		if cap, ok := c16Scaled(s.cfg.maxUnav, s.cfg.replicas(w)); ok {
			chk("unavailable", w, len(cb.unav[w]), len(ca.unav[w]), cap)
		}
	}
	// --- every job that was waiting: passed, failed, or still waiting unchanged
	uids := mc.SortedKeys(before.jobs)
	passedN, waitN, failN := 0, 0, 0
	for _, uid := range uids {
		jb := before.jobs[uid]
		if !jb.waiting {
			continue
		}
		if jb.phase != "Pending" || jb.passed {
			// a job that was already admitted / started / finished but is (still) held by the arbitrator (adopted at
			// start-up): re-arbitration of such a job is not described by the statement; the caps above still apply
			res.Count("rearbitrated_already_admitted_job", 1)
			continue
		}
		ja := after.jobs[uid]
		p := after.pods[ja.pod]
		switch {
		case ja.phase == "Failed" && jb.phase != "Failed":
			failN++
			res.Count("jobs_failed_by_round", 1)
			lack := s.lacksHeadroom(after, p, uid)
			if s.otherReason(after, p, uid) {
				res.Count("failed_with_non_headroom_reason", 1)
			} else if len(lack) > 0 {
				viol = append(viol, s.viol("failed-for-lack-of-headroom|"+strings.Join(lack, "+"),
					fmt.Sprintf("job %s (pod %s) was set Failed by the round although nothing but missing headroom (%v) speaks against migrating the pod; it must stay waiting", ja.name, ja.pod, lack)))
			} else {
				res.Diag(fmt.Sprintf("[%s] job %s (pod %s) failed by the round without any reason the reference knows", s.cfg.name, ja.name, ja.pod))
				res.Count("diag_failed_without_reason", 1)
			}
		case ja.passed && !jb.passed:
			passedN++
			res.Count("jobs_passed", 1)
			if ja.waiting {
				res.Count("diag_passed_but_still_in_waiting_collection", 1)
			}
		default:
			// refused (or its update did not go through): must still be waiting, untouched
			if s.otherReason(after, p, uid) {
				// a job that is to be rejected for good but whose status update did not go through: not described by the statement
				res.Count("diag_non_retryable_rejection_not_recorded", 1)
				continue
			}
			if !ja.waiting || ja.rawPhase != jb.rawPhase || ja.passed != jb.passed {
				viol = append(viol, s.viol("refused-job-not-waiting",
					fmt.Sprintf("job %s (pod %s) was neither admitted nor failed by the round but is no longer waiting unchanged: inWaitingCollection=%v phase %q->%q passed %v->%v",
						ja.name, ja.pod, ja.waiting, jb.rawPhase, ja.rawPhase, jb.passed, ja.passed)))
				continue
			}
			waitN++
			res.Count("jobs_kept_waiting", 1)
			lack := s.lacksHeadroom(after, p, uid)
			for _, l := range lack {
				res.Count("refused_kept_waiting|"+l, 1)
			}
			if len(lack) == 0 {
				res.Count("diag_kept_waiting_although_reference_sees_headroom", 1)
			}
		}
	}
	if passedN > 0 && waitN > 0 {
		res.Count("rounds_admitting_some_and_refusing_others", 1)
	}
	if passedN >= 2 {
		res.Count("rounds_admitting_2plus", 1)
	}
	if waitN > 0 {
		res.Count("rounds_with_refusals", 1)
	}
	if failN > 0 {
		res.Count("rounds_with_failures", 1)
	}
	return viol
}

func (s *c16Sys) Apply(op int, check bool) (bool, []mc.Violation) {
	o := s.ops[op]
	if !o.enabled(s) {
		return false, nil
	}
	if o.kind == "round" && check {
		before := s.observe()
		o.apply(s)
		after := s.observe()
		return true, s.judgeRound(before, after)
	}
	if o.kind == "add" && check {
		// how the job came about (vacuity: both descheduler-like and user-like creations are explored)
		if s.arb.Filter(s.podObj[o.pod].DeepCopy()) {
			s.res.Count("addJob_where_Filter_allowed", 1)
		} else {
			s.res.Count("addJob_where_Filter_refused(user-created)", 1)
		}
	}
	o.apply(s)
	return true, nil
}

// Invariants: at every reached state the descheduler may ask Filter(pod) for every pod.
func (s *c16Sys) Invariants() []mc.Violation {
	var viol []mc.Violation
	for _, ps := range c16Universe {
		if s.gone[ps.name] {
			continue // the descheduler only asks about pods that exist
		}
		got := s.arb.Filter(s.podObj[ps.name].DeepCopy())
		j := s.liveJob(ps.name)
		switch {
		case j != nil && got:
			st := "waiting"
			if c16Phase(j) == v1alpha1.PodMigrationJobRunning {
				st = "running"
			} else if c16Passed(j) {
				st = "passed"
			}
			viol = append(viol, s.viol("filter-admits-pod-with-live-job|"+st, fmt.Sprintf("Filter(%s) = true although the live job %s (phase %q, passed=%v) exists for the pod", ps.name, j.Name, j.Status.Phase, c16Passed(j))))
		case j != nil:
			s.res.Count("Filter_false_pod_has_live_job", 1)
		case got:
			s.res.Count("Filter_true", 1)
		default:
			s.res.Count("Filter_false_no_headroom", 1)
		}
	}
	if len(viol) > 0 {
		class := c16Class(s.observe())
		for i := range viol {
			viol[i].Key += class
		}
	}
	return viol
}

// Key: canonical state. Kept: per pod readiness, the state of its live job (raw phase, passed annotation, membership in
// the waiting collection, membership in the in-memory passed set, whether the arbitrator's copy is stale), which
// terminal phases the pod's earlier jobs ended in, and the creation ORDER of the waiting jobs (it drives the sort).
// Dropped: resourceVersions (only their equality between the arbitrator's copy and the server matters => "stale"),
// absolute creation timestamps (only their order among waiting jobs is read, by SortJobsByCreationTime; jobs get
// distinct timestamps so the order is total), job names / UIDs (only compared for equality with the pod reference).
func (s *c16Sys) Key() string {
	var sb strings.Builder
	jobs := s.listJobs()
	type w struct {
		pod string
		t   int64
	}
	var ws []w
	for _, ps := range c16Universe {
		fmt.Fprintf(&sb, "%s:r=%v,gone=%v,term=%v,uid=%s", ps.name, c16Ready(s.podObj[ps.name]), s.gone[ps.name], s.podObj[ps.name].DeletionTimestamp != nil, s.podObj[ps.name].UID)
		var fin []string
		for i := range jobs {
			j := &jobs[i]
			if j.Spec.PodRef == nil || j.Spec.PodRef.Name != ps.name {
				continue
			}
			wc, inW := s.arb.waitingCollection[j.UID]
			stale := inW && wc.ResourceVersion != j.ResourceVersion
			if !c16Live(j) {
				f := string(j.Status.Phase)
				if inW {
					f += fmt.Sprintf(":stillwaiting(passed=%v,stale=%v)", c16Passed(j), stale)
				}
				if s.arb.filter.arbitratedPodMigrationJobs[j.UID] {
					f += ":stillmarked"
				}
				fin = append(fin, f)
				continue
			}
			fmt.Fprintf(&sb, ",job{%q,passed=%v,waiting=%v,marked=%v,stale=%v,touched=%v,uid=%v}", j.Status.Phase, c16Passed(j), inW,
				s.arb.filter.arbitratedPodMigrationJobs[j.UID], stale, j.Labels["touched"] != "", j.Spec.PodRef.UID != "")
			if inW {
				ws = append(ws, w{ps.name, j.CreationTimestamp.Unix()})
			}
		}
		sort.Strings(fin)
		// multiplicities of finished jobs are irrelevant, the set of terminal phases is kept
		var set []string
		for i, f := range fin {
			if i == 0 || fin[i-1] != f {
				set = append(set, f)
			}
		}
		fmt.Fprintf(&sb, ",fin=%v;", set)
	}
	sort.Slice(ws, func(i, j int) bool { return ws[i].t < ws[j].t })
	sb.WriteString("|order:")
	for _, x := range ws {
		sb.WriteString(x.pod + ",")
	}
	return sb.String()
}

// ---------------------------------------------------------------------------------------------------------------
// configurations

func c16IS(v string) *intstr.IntOrString {
	var x intstr.IntOrString
	if strings.HasSuffix(v, "%") {
		x = intstr.FromString(v)
	} else {
		var n int
		fmt.Sscan(v, &n)
		x = intstr.FromInt(n)
	}
	return &x
}

func c16Configs(env *mc.Env) []*c16Cfg {
	all := []string{"a1", "a2", "a3", "b1", "b2"}
	i := func(v int32) *int32 { return &v }
	// percent settings: 70% gives w1 (3 replicas) 2 and w2 (2 replicas) 1; 50% gives 1 and 1. An allowance equal to the
	// replica count (integer 2 for w2) makes the workload non-migratable (expected-replicas rule): those jobs fail.
	cfgs := []*c16Cfg{
		// node cap binding (n1 hosts a1 a3 b1)
		{name: "node1", elig: all, perNode: i(1), perWl: c16IS("70%"), maxUnav: c16IS("70%"), depthQ: 6, depthT: 9},
		// namespace cap binding inside w1's two slots, global cap 2 across namespaces
		{name: "ns1-global2", elig: all, perNs: i(1), global: i(2), perWl: c16IS("70%"), maxUnav: c16IS("70%"), depthQ: 6, depthT: 9},
		// workload cap (1) below the unavailability allowance (2 for w1), node cap 2
		{name: "wl1-node2-restart", elig: []string{"a1", "a2", "a3", "b1"}, perNode: i(2), perWl: c16IS("1"), maxUnav: c16IS("70%"), unreadyOK: []string{"a2"}, restart: true, depthQ: 7, depthT: 9},
		// unavailability 50% (1 of 3, 1 of 2) below the workload cap, pods turning unready (also beyond the allowance)
		{name: "unav50pct", elig: []string{"a1", "a2", "b1"}, perWl: c16IS("70%"), maxUnav: c16IS("50%"), unreadyOK: []string{"a1", "a3", "b2"}, termOK: []string{"a3"}, depthQ: 7, depthT: 10},
		// unavailability 1 (one slot per workload), global 1 (the binding limit across the workloads), everything else unset
		{name: "unav1-global1-poddel", elig: []string{"a1", "a3", "b1", "b2"}, global: i(1), maxUnav: c16IS("1"), unreadyOK: []string{"a2"}, termOK: []string{"a2"}, podDel: []string{"a3", "b2"}, depthQ: 7, depthT: 9},
		// allowance == replicas for w2: its jobs are refused for good (Failed) while w1 competes for node / namespace slots
		{name: "wl2-nonretryable", elig: all, perNode: i(2), perNs: i(2), perWl: c16IS("2"), maxUnav: c16IS("2"), depthQ: 6, depthT: 9},
		// the arbitrator's copy of a waiting job goes stale (another writer updated the job): its Update conflicts
		// (the update event also makes the migration controller start the job without arbitration: limits exceeded before a round)
		{name: "conflict-ns1-global2-restart-poddel", elig: []string{"a1", "b1", "b2"}, perNs: i(1), global: i(2), perWl: c16IS("70%"), maxUnav: c16IS("70%"), touch: true, restart: true, podDel: []string{"b1"}, depthQ: 7, depthT: 9},
		// jobs already Running above the node cap when the arbitrator starts (delivered as Create events by the initial
		// sync): the only way a count cap can be "already exceeded before the round"
		// a user creates a second job for a pod that already has a live one (admitted by the API: no webhook, no CRD rule)
		{name: "dup-node1", elig: []string{"a1", "a3"}, dup: []string{"a1"}, perNode: i(1), perWl: c16IS("70%"), maxUnav: c16IS("70%"), depthQ: 7, depthT: 10},
		// budgets unset: the built-in allowance applies; 15 expected replicas of w1 (of which a1 a2 a3 are in the universe)
		// allow floor(10%) = 1 migrating / unavailable pod
		{name: "wl-budgets-unset-15replicas", elig: []string{"a1", "a2", "a3", "b1"}, repl: map[string]int{"w1": 15}, perNode: i(2), depthQ: 6, depthT: 9},
		// the pod of a waiting job is re-created under the same name while the namespace budget is in use
		{name: "ns1-podreplaced", elig: []string{"a1", "a3", "b1"}, perNs: i(1), perWl: c16IS("70%"), maxUnav: c16IS("70%"), podRepl: []string{"a3", "a1"}, depthQ: 6, depthT: 9},
		{name: "adopted-running-node1", elig: all, adopted: []string{"a1", "a3"}, perNode: i(1), global: i(3), perWl: c16IS("70%"), maxUnav: c16IS("70%"), depthQ: 6, depthT: 9},
	}
	if env.Thorough() {
		cfgs = append(cfgs,
			&c16Cfg{name: "all-caps-1", elig: all, perNode: i(1), perNs: i(1), global: i(1), perWl: c16IS("1"), maxUnav: c16IS("1"), unreadyOK: []string{"a3"}, failRun: true, reready: true, depthT: 8},
			&c16Cfg{name: "all-caps-2", elig: all, perNode: i(2), perNs: i(2), global: i(2), perWl: c16IS("70%"), maxUnav: c16IS("70%"), unreadyOK: []string{"a3", "b2"}, failRun: true, depthT: 8},
			&c16Cfg{name: "node2-ns2-unav50pct", elig: all, perNode: i(2), perNs: i(2), perWl: c16IS("70%"), maxUnav: c16IS("50%"), unreadyOK: []string{"a1", "b1"}, reready: true, depthT: 8},
			&c16Cfg{name: "global1-unav2-conflict", elig: all, global: i(1), perWl: c16IS("2"), maxUnav: c16IS("2"), touch: true, depthT: 8},
			&c16Cfg{name: "node1-ns2-wl-unset-restart-poddel", elig: all, perNode: i(1), perNs: i(2), maxUnav: c16IS("70%"), unreadyOK: []string{"a2"}, restart: true, podDel: []string{"a1", "b2"}, depthT: 8},
		)
	}
	return cfgs
}

func TestVerifC16Arb(t *testing.T) {
	env := mc.LoadEnv()
	cfgs := c16Configs(env)
	for ci, cfg := range cfgs {
		cfg := cfg
		ops := c16BuildOps(cfg)
		res := mc.NewResult("C16", "arb-"+cfg.name, "bfs")
		extra := ""
		if cfg.touch {
			extra += "; another writer updates a waiting job (the arbitrator's copy goes stale; the update event makes the migration controller start the job without arbitration)"
		}
		if cfg.failRun {
			extra += "; a Running job fails"
		}
		if cfg.reready {
			extra += "; unready pods become ready again"
		}
		if len(cfg.podDel) > 0 {
			extra += fmt.Sprintf("; the pod of a still waiting job is deleted (pods %v; the arbitrator gets no event for it)", cfg.podDel)
		}
		if cfg.restart {
			extra += "; the descheduler restarts (fresh arbitratorImpl + filter with empty waiting collection and empty in-memory passed set, then one Create event per existing job of any phase from the informer's initial list, exactly what New() + the controller's Watch do)"
		}
		if len(cfg.dup) > 0 {
			extra += fmt.Sprintf("; a user creates a second job for a pod that already has a live one (pods %v)", cfg.dup)
		}
		if len(cfg.adopted) > 0 {
			extra += fmt.Sprintf("; initial state: jobs for %v are already Running and were delivered to the arbitrator by the initial sync", cfg.adopted)
		}
		res.Rule = fmt.Sprintf("BFS over all event sequences of the %d-event alphabet {one arbitration round (doOnceArbitrate); per eligible pod %v: a job for the pod is created in the API server and handed to the arbitrator by its event handler, the passed job is set Running, the job finishes (Running->Succeeded / passed->Aborted; the handler drops it from the arbitrator); pods %v turn unready%s} on the real arbitratorImpl + filter (production initFilters wiring, production sort chain) over a controller-runtime fake client with the production field indexes; caps: %s. After every round the API objects are judged against the statement; at every reached state Filter(pod) is asked for all five pods. A state is distinct when pod readiness, the live job's phase / passed annotation / waiting-collection and passed-set membership / staleness, the terminal phases seen per pod or the creation order of the waiting jobs differ.",
			len(ops), cfg.elig, cfg.unreadyOK, extra, cfg.caps())
		res.Assumptions = []string{
			"unless the configuration's alphabet contains dupJob: a new job is only created for a pod without a live job (the descheduler asks Filter first)",
			"unless the configuration's alphabet contains restart(): one arbitrator incarnation; unless it contains podDeleted: pods are not deleted while their job waits",
			"after a restart the migration controller treats every job like a user-created one (it would ignore jobs stamped with the previous incarnation's reconciler UID)",
			"API reads are fresh (fake client, no informer lag); events between rounds are atomic",
			"expected replicas: w1=3 (pods a1 a2 a3, namespace x), w2=2 (b1 b2, namespace y); n1 hosts a1 a3 b1, n2 hosts a2 b2; percent settings are rounded down and at least 1",
		}
		// every configuration gets an equal share of what is left of the unit's budget, so that a slow machine caps all
		// configurations a little instead of starving the last ones
		sub := mc.LoadEnv()
		sub.Budget = (env.Budget - env.Elapsed()) / time.Duration(len(cfgs)-ci)
		b := &mc.BFS{Res: res, Env: sub, New: func() mc.System { return c16NewSys(cfg, ops, res) }, NumOps: len(ops),
			OpName: func(i int) string { return ops[i].name }, MaxDepth: env.Pick(cfg.depthQ, cfg.depthT), Repeats: 1}
		b.Run()
		res.WallS = sub.Elapsed().Seconds()
		env.Emit(res)
	}
}
