package evictions

// C16 eviction caps through PodEvictor.Evict (cap check, API eviction, counter increment) with a client-go fake
// clientset standing for the API server: sequential sequences x caps x dry-run x failing API subsets, and
// preemption-bounded interleavings of 2-3 concurrent callers (sync shim on this package).

import (
	"context"
	"fmt"
	"strings"
	"testing"

	corev1 "k8s.io/api/core/v1"
	apierrors "k8s.io/apimachinery/pkg/api/errors"
	metav1 "k8s.io/apimachinery/pkg/apis/meta/v1"
	"k8s.io/apimachinery/pkg/runtime"
	"k8s.io/apimachinery/pkg/runtime/schema"
	"k8s.io/client-go/kubernetes/fake"
	core "k8s.io/client-go/testing"

	"github.com/koordinator-sh/koordinator/pkg/descheduler/framework"
	"github.com/koordinator-sh/koordinator/pkg/zzverif/mc"
	"github.com/koordinator-sh/koordinator/pkg/zzverif/mc/vsync"
)

type c16eKind struct{ node, ns string }

var c16eKinds = []c16eKind{{"n1", "x"}, {"n1", "y"}, {"n2", "x"}, {"n2", "y"}}

type c16eRecorder struct{}

func (c16eRecorder) Eventf(regarding runtime.Object, related runtime.Object, eventtype, reason, action, note string, args ...interface{}) {
}

type c16eAPI struct {
	client   *fake.Clientset
	fail     map[string]bool
	calls    int
	accepted []string // "node/ns"
}

func c16eNewAPI(fail map[string]bool, kindOf map[string]c16eKind) *c16eAPI {
	a := &c16eAPI{client: fake.NewSimpleClientset(), fail: fail}
	a.client.PrependReactor("create", "pods", func(action core.Action) (bool, runtime.Object, error) {
		if action.GetSubresource() != "eviction" {
			return false, nil, nil
		}
		ca := action.(core.CreateAction)
		name := ca.GetObject().(metav1.Object).GetName()
		a.calls++
		if a.fail[name] {
			return true, nil, apierrors.NewTooManyRequests("pdb", 1)
		}
		k := kindOf[name]
		a.accepted = append(a.accepted, k.node+"/"+k.ns)
		return true, nil, nil
	})
	return a
}

var _ = schema.GroupVersionResource{}

func c16eCap(v int) *uint {
	if v < 0 {
		return nil
	}
	u := uint(v)
	return &u
}

func c16eExceeded(capNode, capNS int, accepted []string) string {
	perNode, perNS := map[string]int{}, map[string]int{}
	for _, a := range accepted {
		p := strings.SplitN(a, "/", 2)
		perNode[p[0]]++
		perNS[p[1]]++
	}
	for n, c := range perNode {
		if capNode >= 0 && c > capNode {
			return fmt.Sprintf("node %s: %d evictions issued, cap %d", n, c, capNode)
		}
	}
	for n, c := range perNS {
		if capNS >= 0 && c > capNS {
			return fmt.Sprintf("namespace %s: %d evictions issued, cap %d", n, c, capNS)
		}
	}
	return ""
}

func c16ePod(i int, k c16eKind) *corev1.Pod {
	return &corev1.Pod{ObjectMeta: metav1.ObjectMeta{Name: fmt.Sprintf("p%d", i), Namespace: k.ns}, Spec: corev1.PodSpec{NodeName: k.node}}
}

func TestVerifC16EvictorSeq(t *testing.T) {
	env := mc.LoadEnv()
	res := mc.NewResult("C16", "podevictor-sequential", "enumeration")
	maxLen := env.Pick(3, 4)
	capVals := []int{-1, 0, 1, 2}
	var seqs [][]int
	for l := 1; l <= maxLen; l++ {
		n := 1
		for i := 0; i < l; i++ {
			n *= len(c16eKinds)
		}
		for c := 0; c < n; c++ {
			s := make([]int, l)
			x := c
			for i := range s {
				s[i] = x % len(c16eKinds)
				x /= len(c16eKinds)
			}
			seqs = append(seqs, s)
		}
	}
	ds := mc.NewDistinctSet()
	rx := mc.Radix{Dims: []int{len(seqs), len(capVals), len(capVals), 2}}
	done, complete := env.ParallelRangeL(res, rx.Size(), func(l *mc.Local, i int64) {
		d := rx.Decode(i, make([]int, 0, 4))
		seq, capNode, capNS, dry := seqs[d[0]], capVals[d[1]], capVals[d[2]], d[3] == 1
		mc.Subsets(len(seq), func(failMask uint32) {
			if dry && failMask != 0 {
				return
			}
			l.Evals++
			fail, kindOf := map[string]bool{}, map[string]c16eKind{}
			for k, kd := range seq {
				kindOf[fmt.Sprintf("p%d", k)] = c16eKinds[kd]
				if failMask&(1<<uint(k)) != 0 {
					fail[fmt.Sprintf("p%d", k)] = true
				}
			}
			api := c16eNewAPI(fail, kindOf)
			pe := NewPodEvictor(api.client, c16eRecorder{}, "policy/v1", dry, c16eCap(capNode), c16eCap(capNS))
			cs := fmt.Sprintf("seq=%v capNode=%d capNS=%d dry=%v failMask=%b", seq, capNode, capNS, dry, failMask)
			bad := func(clause, what string) {
				res.Violate(mc.Violation{Key: "C16|podevictor-seq|" + clause, What: what + "; case " + cs, Replay: cs})
			}
			okCount, refused := 0, false
			for k, kd := range seq {
				callsBefore, totalBefore := api.calls, pe.TotalEvicted()
				ok := pe.Evict(context.TODO(), c16ePod(k, c16eKinds[kd]), framework.EvictOptions{})
				if ok {
					okCount++
				} else {
					refused = true
					if pe.TotalEvicted() != totalBefore {
						bad("refused-with-side-effect", fmt.Sprintf("request %d refused but the total counter moved", k))
					}
					if api.calls != callsBefore && !fail[fmt.Sprintf("p%d", k)] {
						bad("refused-with-api-call", fmt.Sprintf("request %d refused although its API call was accepted", k))
					}
				}
				if e := c16eExceeded(capNode, capNS, api.accepted); e != "" {
					bad("cap-exceeded", e)
				}
			}
			if dry && api.calls != 0 {
				bad("dry-run-api-call", fmt.Sprintf("dry-run issued %d API calls", api.calls))
			}
			if !dry {
				if len(api.accepted) != okCount {
					bad("reported-ne-issued", fmt.Sprintf("%d reported successful, %d accepted by the API", okCount, len(api.accepted)))
				}
				if pe.TotalEvicted() != len(api.accepted) {
					bad("counters-ne-issued", fmt.Sprintf("total counter %d, evictions issued %d", pe.TotalEvicted(), len(api.accepted)))
				}
				perNode, perNS := map[string]uint{}, map[string]uint{}
				for _, a := range api.accepted {
					p := strings.SplitN(a, "/", 2)
					perNode[p[0]]++
					perNS[p[1]]++
				}
				for _, n := range []string{"n1", "n2"} {
					if pe.NodeEvicted(n) != perNode[n] {
						bad("counters-ne-issued", fmt.Sprintf("node %s counter %d, issued %d", n, pe.NodeEvicted(n), perNode[n]))
					}
				}
				for _, n := range []string{"x", "y"} {
					if pe.NamespaceEvicted(n) != perNS[n] {
						bad("counters-ne-issued", fmt.Sprintf("namespace %s counter %d, issued %d", n, pe.NamespaceEvicted(n), perNS[n]))
					}
				}
			}
			if refused {
				l.Count("cases_with_refusal", 1)
				ds.Add(cs)
			}
			if failMask != 0 {
				l.Count("cases_with_api_failures", 1)
			}
		})
	})
	res.Traces, res.Distinct, res.Exhaustive = res.Evaluations, ds.Len(), complete
	if !complete {
		res.Capped = fmt.Sprintf("time budget hit after %d of %d", done, rx.Size())
	}
	res.Rule = fmt.Sprintf("every ordered sequence of 1..%d eviction requests over nodes{n1,n2} x namespaces{x,y} x caps(node,ns) in {unset,0,1,2}^2 x dry-run x every subset of API calls failing (429), through PodEvictor.Evict with a fake clientset; non-trivial = some request refused", maxLen)
	res.Sample(fmt.Sprintf("%d sequences, e.g. %v", len(seqs), seqs[len(seqs)/2]))
	env.Emit(res)
}

func TestVerifC16EvictorSched(t *testing.T) {
	env := mc.LoadEnv()
	res := mc.NewResult("C16", "podevictor-concurrent", "schedules")
	type scen struct {
		capNode, capNS int
		threads        [][]int
		bound          int
	}
	var scens []scen
	shapes := [][][]int{{{0}, {0}}, {{0}, {1}}, {{0}, {2}}, {{0, 0}, {0}}, {{0}, {0}, {0}}, {{0, 1}, {2, 0}}}
	for _, c := range [][2]int{{1, -1}, {-1, 1}, {2, -1}, {1, 2}, {0, -1}} {
		for _, sh := range shapes {
			scens = append(scens, scen{c[0], c[1], sh, env.Pick(2, 3)})
		}
	}
	var execs int64
	outcomes := mc.NewDistinctSet()
	complete := true
	for si, sc := range scens {
		if !env.Mine(si) {
			continue
		}
		if env.Expired() {
			complete = false
			res.Capped = "time budget hit"
			break
		}
		var ts []string
		for _, t := range sc.threads {
			ts = append(ts, fmt.Sprint(t))
		}
		sname := fmt.Sprintf("capNode=%d capNS=%d threads=%s", sc.capNode, sc.capNS, strings.Join(ts, "||"))
		var api *c16eAPI
		var pe *PodEvictor
		okCount := 0
		pointViolation := ""
		ex := &vsync.Explorer{Bound: sc.bound, Expired: env.Expired, Build: func() ([]func(), func(), func(*vsync.Outcome)) {
			kindOf := map[string]c16eKind{}
			threads := make([]func(), len(sc.threads))
			id := 0
			var all [][]*corev1.Pod
			for ti := range sc.threads {
				var pods []*corev1.Pod
				for _, k := range sc.threads[ti] {
					pods = append(pods, c16ePod(id, c16eKinds[k]))
					kindOf[fmt.Sprintf("p%d", id)] = c16eKinds[k]
					id++
				}
				all = append(all, pods)
			}
			api = c16eNewAPI(map[string]bool{}, kindOf)
			pe = NewPodEvictor(api.client, c16eRecorder{}, "policy/v1", false, c16eCap(sc.capNode), c16eCap(sc.capNS))
			okCount, pointViolation = 0, ""
			for ti := range sc.threads {
				pods := all[ti]
				threads[ti] = func() {
					for _, p := range pods {
						vsync.Point("before-evict")
						if pe.Evict(context.TODO(), p, framework.EvictOptions{}) {
							okCount++
						}
					}
				}
			}
			return threads, func() {
					if pointViolation == "" {
						pointViolation = c16eExceeded(sc.capNode, sc.capNS, api.accepted)
					}
				}, func(o *vsync.Outcome) {
					rep := map[string]any{"scenario": sname, "choices": o.Choices}
					switch {
					case o.Deadlock, o.Livelock:
						res.Violate(mc.Violation{Key: "C16|podevictor-conc|deadlock", What: "deadlock in " + sname, Replay: rep})
					case o.Panic != "":
						res.Violate(mc.Violation{Key: "C16|podevictor-conc|panic", What: o.Panic, Replay: rep})
					default:
						if pointViolation != "" {
							res.Violate(mc.Violation{Key: "C16|podevictor-conc|cap-exceeded|PodEvictor.Evict", What: sname + ": " + pointViolation, Replay: rep})
						}
						if pe.TotalEvicted() != len(api.accepted) || okCount != len(api.accepted) {
							res.Violate(mc.Violation{Key: "C16|podevictor-conc|counters-ne-issued", What: fmt.Sprintf("%s: counter %d reported %d issued %d", sname, pe.TotalEvicted(), okCount, len(api.accepted)), Replay: rep})
						}
						outcomes.Add(fmt.Sprintf("%s|%d", sname, len(api.accepted)))
					}
				}
		}}
		if !ex.Run() {
			complete = false
			res.Capped = ex.Capped
		}
		execs += ex.Execs
		res.Count("scenarios", 1)
		if si%7 == 0 {
			res.Sample(fmt.Sprintf("%s bound=%d: %d schedules", sname, sc.bound, ex.Execs))
		}
	}
	res.States, res.Distinct = outcomes.Len(), outcomes.Len()
	res.Transitions, res.Traces, res.Evaluations = execs, execs, execs
	res.Exhaustive = complete
	res.Bounds = map[string]any{"threads": "2-3", "preemption_bound": env.Pick(2, 3), "scenarios_total": len(scens)}
	res.Rule = "every schedule within the preemption bound of 2-3 goroutines calling PodEvictor.Evict; scheduling points before each call and at every lock operation of PodEvictor; caps evaluated at every point on the evictions accepted by the fake API"
	env.Emit(res)
}
