package loadaware

// C08 filter part ("load-aware placement keeps nodes under threshold"): exhaustive product enumeration of
// threshold profile x thresholds x allocatable (incl. an amplified node) x scaling factors x existing-pod scenario x
// node usage placed at the decision boundary x incoming pod, executed on the REAL Plugin.PreFilter+Filter over a real
// podAssignCache that was fed the metric and the pods through its event handlers. One-directional oracle in exact
// integer arithmetic, the estimates E_min/E_max being the harness' independent reference (c08RefBand), never the
// cache's own numbers:
//   Success          => for every thresholded resource 200*(E_min+e_in) <= (2*thr+1)*alloc   (rounded utilisation <= thr)
//   Unschedulable(usage) => for some thresholded resource 100*(E_max+e_in) > thr*alloc        (really above)
//   daemonset pod    => Success; missing / expired / empty metrics => exactly the configured verdict.
// Expiry is decided by time.Since in the code: the harness only uses update times 1 h (fresh) or 48 h (expired) before
// the start of the run with a 12 h expiration, so no verdict depends on when or how long the check runs.

import (
	"context"
	"encoding/json"
	"fmt"
	"strings"
	"time"

	corev1 "k8s.io/api/core/v1"
	metav1 "k8s.io/apimachinery/pkg/apis/meta/v1"
	fwktype "k8s.io/kube-scheduler/framework"
	"k8s.io/kubernetes/pkg/scheduler/framework"

	"github.com/koordinator-sh/koordinator/apis/extension"
	"github.com/koordinator-sh/koordinator/pkg/scheduler/apis/config"
	"github.com/koordinator-sh/koordinator/pkg/zzverif/mc"
)

const (
	c08ProfWhole = iota // UsageThresholds
	c08ProfProd         // ProdUsageThresholds (+ default whole-node thresholds for the other pods)
	c08ProfAgg          // Aggregated thresholds on p95/5m (+ default whole-node thresholds, which aggregated replaces)
	c08ProfNode         // thresholds from the node's usage-thresholds annotation override the plugin arguments
	c08ProfNodeProd     // the node's annotation alone sets PROD thresholds (the arguments carry none): per-field merge (seed C08-7)
)

var c08ProfNames = []string{"whole-node", "prod", "aggregated", "node-annotation", "node-annotation-prod"}

const (
	c08MFresh = iota
	c08MExpired
	c08MMissing // no NodeMetric object for the node
	c08MEmpty   // NodeMetric without status (never reported)
	c08MNoInfo  // update time but no node usage section
)

var c08MNames = []string{"fresh", "expired", "missing", "no-status", "no-usage-section"}

type c08FCase struct {
	Prof       int
	Thr        c08Vec
	Alloc      int
	Factors    c08Vec
	Scen       int
	Bound      int // resource driven to the boundary
	Target     int
	Incoming   int
	IncludeSys bool
	Metric     int
	F, Ena     int // 0 nil, 1 false, 2 true
	ExpSet     bool
	NoPreFilt  bool
}

type c08Alloc struct {
	Name     string
	Status   c08Vec
	Raw      *c08Vec
	Physical c08Vec // what utilisation is measured against
}

var c08Allocs = []c08Alloc{
	{Name: "4c8Gi", Status: c08Vec{4000, 8 << 30}, Physical: c08Vec{4000, 8 << 30}},
	{Name: "8c16Gi", Status: c08Vec{8000, 16 << 30}, Physical: c08Vec{8000, 16 << 30}},
	{Name: "amplified-16c(raw 8c)16Gi", Status: c08Vec{16000, 16 << 30}, Raw: &c08Vec{8000, 16 << 30}, Physical: c08Vec{8000, 16 << 30}},
}

func c08Node(a c08Alloc, annoThr *c08Vec, prod ...bool) *corev1.Node {
	if annoThr != nil && len(prod) > 0 && prod[0] {
		n := c08Node(a, nil)
		b, _ := json.Marshal(&extension.CustomUsageThresholds{ProdUsageThresholds: map[corev1.ResourceName]int64{corev1.ResourceCPU: annoThr[0], corev1.ResourceMemory: annoThr[1]}})
		n.Annotations[extension.AnnotationCustomUsageThresholds] = string(b)
		return n
	}
	n := &corev1.Node{ObjectMeta: metav1.ObjectMeta{Name: "n", Annotations: map[string]string{}}, Status: corev1.NodeStatus{Allocatable: c08RL(a.Status)}}
	if a.Raw != nil {
		extension.SetNodeRawAllocatable(n, c08RL(*a.Raw))
	}
	if annoThr != nil {
		b, _ := json.Marshal(&extension.CustomUsageThresholds{UsageThresholds: map[corev1.ResourceName]int64{corev1.ResourceCPU: annoThr[0], corev1.ResourceMemory: annoThr[1]}})
		n.Annotations[extension.AnnotationCustomUsageThresholds] = string(b)
	}
	return n
}

func c08Incoming(i int) c08PodSpec {
	switch i {
	case 0:
		return c08PodSpec{Name: "in", Label: extension.PriorityProd, Flavor: c08Native, Req: c08Vec{1000, 10 * c08M}, Lim: c08Vec{2000, 20 * c08M}, Phase: corev1.PodPending, Window: -1}
	case 1:
		return c08PodSpec{Name: "in", Label: extension.PriorityBatch, Flavor: c08Batch, Req: c08Vec{1000, 10 * c08M}, Lim: c08Vec{1000, 10 * c08M}, Phase: corev1.PodPending, Window: -1}
	case 2: // declares nothing: best effort, counted with the default estimate
		return c08PodSpec{Name: "in", Flavor: c08Native, Phase: corev1.PodPending, Window: -1}
	case 3: // no explicit priority but cpu/memory requests: prod by default
		return c08PodSpec{Name: "in", Flavor: c08Native, Req: c08Vec{500, 5 * c08M}, Lim: c08Vec{500, 5 * c08M}, Phase: corev1.PodPending, Window: -1}
	default:
		return c08PodSpec{Name: "in", Label: extension.PriorityProd, Flavor: c08Native, Req: c08Vec{1000, 10 * c08M}, Lim: c08Vec{2000, 20 * c08M}, Phase: corev1.PodPending, Window: -1, Daemon: true}
	}
}

var c08IncomingNames = []string{"prod", "batch", "best-effort-no-requests", "no-priority-with-requests", "daemonset"}

// c08Scenario returns the pods already assigned to the node (with their PodScheduled times relative to the report's
// update time ut) and the usage the report carries for them. steer names the pod whose reported usage carries the
// prod base usage (if any).
func c08Scenario(i int, ut time.Time) (pods []c08PodSpec, usage map[string]c08PodUsage, steer string) {
	usage = map[string]c08PodUsage{}
	mk := func(name string, label extension.PriorityClass, flavor int, req, lim c08Vec, sched time.Time) c08PodSpec {
		return c08PodSpec{Name: name, Label: label, Flavor: flavor, Req: req, Lim: lim, Node: "n", Sched: sched, Phase: corev1.PodRunning, Window: -1}
	}
	// a: prod, placed after the report, no usage yet -> counts with its whole estimate
	a := mk("a", extension.PriorityProd, c08Native, c08Vec{1000, 10 * c08M}, c08Vec{2000, 20 * c08M}, ut.Add(10*time.Second))
	// b: prod, placed ten intervals before the report, usage reported as prod -> already reflected
	b := mk("b", extension.PriorityProd, c08Native, c08Vec{1000, 10 * c08M}, c08Vec{1000, 10 * c08M}, ut.Add(-600*time.Second))
	// c: batch, placed after the report
	c := mk("c", extension.PriorityBatch, c08Batch, c08Vec{2000, 20 * c08M}, c08Vec{2000, 20 * c08M}, ut.Add(10*time.Second))
	// d: prod, placed half an interval before the report with little usage -> may or may not count (band)
	d := mk("d", extension.PriorityProd, c08Native, c08Vec{2000, 20 * c08M}, c08Vec{2000, 20 * c08M}, ut.Add(-30*time.Second))
	// e: prod, old, but the report carries it as batch -> reflected in the node usage, not in the prod usage
	e := mk("e", extension.PriorityProd, c08Native, c08Vec{1000, 10 * c08M}, c08Vec{1000, 10 * c08M}, ut.Add(-600*time.Second))
	switch i {
	case 0:
	case 1:
		pods = []c08PodSpec{a}
	case 2:
		pods = []c08PodSpec{b}
		usage["b"] = c08PodUsage{c08Vec{200, 2 * c08M}, true}
		steer = "b"
	case 3:
		pods = []c08PodSpec{a, b, c}
		usage["b"] = c08PodUsage{c08Vec{200, 2 * c08M}, true}
		steer = "b"
	case 4:
		pods = []c08PodSpec{d}
		usage["d"] = c08PodUsage{c08Vec{500, 5 * c08M}, true}
	case 5:
		pods = []c08PodSpec{e, b}
		usage["e"] = c08PodUsage{c08Vec{300, 3 * c08M}, false}
		usage["b"] = c08PodUsage{c08Vec{200, 2 * c08M}, true}
		steer = "b"
	}
	return
}

const c08NumScen = 6

func c08TriBool(v int) *bool {
	switch v {
	case 1:
		return c08Ptr(false)
	case 2:
		return c08Ptr(true)
	}
	return nil
}

var c08DefaultThr = c08Vec{65, 95}

func c08FArgs(c c08FCase) *config.LoadAwareSchedulingArgs {
	thrMap := func(v c08Vec) map[corev1.ResourceName]int64 {
		return map[corev1.ResourceName]int64{corev1.ResourceCPU: v[0], corev1.ResourceMemory: v[1]}
	}
	a := &config.LoadAwareSchedulingArgs{
		EstimatedScalingFactors:              thrMap(c.Factors),
		ProdUsageIncludeSys:                  c.IncludeSys,
		FilterExpiredNodeMetrics:             c08TriBool(c.F),
		EnableScheduleWhenNodeMetricsExpired: c08TriBool(c.Ena),
	}
	if c.ExpSet {
		a.NodeMetricExpirationSeconds = c08Ptr(int64(12 * 3600))
	}
	switch c.Prof {
	case c08ProfWhole:
		a.UsageThresholds = thrMap(c.Thr)
	case c08ProfProd:
		a.UsageThresholds = thrMap(c08DefaultThr)
		a.ProdUsageThresholds = thrMap(c.Thr)
	case c08ProfAgg:
		a.UsageThresholds = thrMap(c08DefaultThr)
		a.Aggregated = &config.LoadAwareSchedulingAggregatedArgs{UsageThresholds: thrMap(c.Thr), UsageAggregationType: extension.P95,
			UsageAggregatedDuration: metav1.Duration{Duration: 5 * time.Minute}}
	case c08ProfNode, c08ProfNodeProd:
		a.UsageThresholds = thrMap(c08DefaultThr)
	}
	return a
}

// c08Applicable: which thresholds the configuration sets for this incoming pod, and against which figure
// (documented selection: a prod pod is held against the prod thresholds when any is configured, otherwise the
// aggregated thresholds apply when configured, otherwise the whole-node thresholds; node annotation beats arguments).
func c08Applicable(c c08FCase, in c08PodSpec) (thr c08Vec, q c08Query, name string) {
	switch c.Prof {
	case c08ProfProd, c08ProfNodeProd:
		if in.isProd() && !c.Thr.zero() {
			return c.Thr, c08Query{Name: "prod", Prod: true}, "prod"
		}
		return c08DefaultThr, c08Query{Name: "node"}, "whole-node(default)"
	case c08ProfAgg:
		return c.Thr, c08Query{Name: "agg", Type: extension.P95, Dur: 5 * time.Minute}, "aggregated"
	}
	return c.Thr, c08Query{Name: "node"}, c08ProfNames[c.Prof]
}

type c08FOutcome struct {
	Code    string
	Expired bool
	Msg     string
}

type c08FJudged struct {
	Clause     string // "" = holds
	What       string
	Class      string // vacuity class
	Skipped    bool
	Nontrivial bool
	Digest     string
}

var c08Now0 = time.Now()

// c08RunFilter builds everything for one case, runs the real code and judges it.
func c08RunFilter(c c08FCase) (j c08FJudged) {
	al := c08Allocs[c.Alloc]
	in := c08Incoming(c.Incoming)
	args := c08FArgs(c)
	rc := c08RefCfgOf(args)
	ein := c08RefEstimate(rc, in)
	thr, q, profName := c08Applicable(c, in)

	ut := c08Now0.Add(-time.Hour)
	if c.Metric == c08MExpired {
		ut = c08Now0.Add(-48 * time.Hour)
	}
	pods, usage, steer := c08Scenario(c.Scen, ut)
	as := make([]c08Assigned, len(pods))
	for i, p := range pods {
		as[i] = c08Assigned{Spec: p, Times: []time.Time{p.Sched}}
	}
	mv := &c08MetricVar{ID: "case", Pods: usage, Agg: map[c08AggKey]c08Vec{}}
	switch c.Metric {
	case c08MEmpty:
		mv.Empty = true
	case c08MNoInfo:
		mv.NoInfo = true
	}
	// ---- place the estimate at the requested target on the bound resource (other resource: 10% of allocatable)
	r := c.Bound
	T := thr[r] * al.Physical[r] / 100
	H := (2*thr[r] + 1) * al.Physical[r] / 200
	var target int64
	if thr[r] == 0 {
		switch c.Target {
		case 0:
			target = 0
		case 1:
			target = al.Physical[r]
		default:
			j.Skipped = true
			return
		}
	} else {
		target = []int64{0, T - 1, T, T + 1, H - 1, H, H + 1, al.Physical[r] + al.Physical[r]/50}[c.Target]
	}
	// contribution of everything except the steerable base, from the reference (zero base)
	if steer != "" && q.Prod && !c.IncludeSys {
		pu := mv.Pods[steer]
		pu.U = c08Vec{}
		mv.Pods[steer] = pu
	}
	lo0, _, _ := c08RefBand(rc, mv, ut, q, as)
	want := c08Vec{al.Physical[0] / 10, al.Physical[1] / 10}
	want[r] = target
	base := want.sub(lo0).sub(ein)
	if base[r] < 0 {
		if c.Target != 0 {
			j.Skipped = true // the target lies below what pods alone contribute: not constructible with non-negative usage
			return
		}
	}
	base = base.pos()
	switch {
	case !q.Prod:
		if q.Type == "" {
			mv.Usage = base
			mv.Agg[c08AggKey{extension.P95, 5 * time.Minute}] = al.Physical // a different figure where it must not be read
		} else {
			mv.Usage = c08Vec{}
			mv.Agg[c08AggKey{extension.P95, 5 * time.Minute}] = base
			mv.Agg[c08AggKey{extension.P95, 10 * time.Minute}] = al.Physical
		}
		mv.Sys = c08Vec{100, c08M}
	case c.IncludeSys:
		mv.Sys = base
		mv.Usage = al.Physical
	case steer != "":
		pu := mv.Pods[steer]
		pu.U = base
		mv.Pods[steer] = pu
		mv.Usage = al.Physical
		mv.Sys = c08Vec{100, c08M}
	default:
		// the prod base cannot be steered in this scenario: only the first target is evaluated
		if c.Target != 0 {
			j.Skipped = true
			return
		}
		mv.Usage = al.Physical
		mv.Sys = c08Vec{100, c08M}
	}
	lo, hi, _ := c08RefBand(rc, mv, ut, q, as)

	// ---- real code
	clk := &c08Clock{t: c08Now0}
	pl := c08NewPlugin(args, clk)
	var annoThr *c08Vec
	if c.Prof == c08ProfNode || c.Prof == c08ProfNodeProd {
		annoThr = &c.Thr
	}
	node := c08Node(al, annoThr, c.Prof == c08ProfNodeProd)
	ni := framework.NewNodeInfo()
	ni.SetNode(node)
	if c.Metric != c08MMissing {
		pl.podAssignCache.NodeMetricHandler().OnAdd(c08BuildMetric("n", mv, ut), true)
	}
	for _, p := range pods {
		pl.podAssignCache.OnAdd(p.obj(), true)
	}
	inObj := in.obj()
	state := framework.NewCycleState()
	ctx := context.TODO()
	if !c.NoPreFilt {
		pl.PreFilter(ctx, state, inObj, nil)
	}
	st := pl.Filter(ctx, state, inObj, ni)
	out := c08FOutcome{Code: "Success"}
	if st != nil && st.Code() != fwktype.Success {
		out.Code = st.Code().String()
		out.Msg = st.Message()
		out.Expired = strings.Contains(out.Msg, ErrReasonNodeMetricExpired)
	}
	j.Digest = fmt.Sprintf("%+v", c)

	// ---- judgement
	fail := func(clause, what string) c08FJudged {
		j.Clause = clause
		j.What = fmt.Sprintf("%s; verdict %s %q; case: profile=%s thresholds(cpu,mem)=%v applicable=%s%v alloc=%s factors=%v scenario=%d incoming=%s metric=%s includeSys=%v filterExpired=%d enableWhenExpired=%d expirationSet=%v; reference estimate of existing pods %v..%v, incoming estimate %v (cpu milli, memory bytes)",
			what, out.Code, out.Msg, c08ProfNames[c.Prof], c.Thr, profName, thr, al.Name, c.Factors, c.Scen, c08IncomingNames[c.Incoming], c08MNames[c.Metric], c.IncludeSys, c.F, c.Ena, c.ExpSet, lo, hi, ein)
		return j
	}
	if out.Code != "Success" && out.Code != fwktype.Unschedulable.String() {
		return fail("error-status", "Filter returned neither Success nor Unschedulable")
	}
	if in.Daemon {
		j.Class = "daemonset_success"
		if out.Code != "Success" {
			return fail("daemonset-rejected", "a daemon-set pod was rejected")
		}
		return
	}
	metricsCfg := fmt.Sprintf("%s|filterExpired=%d|enableWhenExpired=%d|expirationSet=%v", c08MNames[c.Metric], c.F, c.Ena, c.ExpSet)
	if c.Metric == c08MMissing {
		j.Class = "missing_metric_skipped"
		if out.Code != "Success" {
			return fail("metrics-verdict|"+metricsCfg, "a node without NodeMetric must be skipped (Success)")
		}
		return
	}
	stale := c.Metric == c08MExpired || c.Metric == c08MEmpty
	nothingThresholded := thr.zero()
	if stale && c.F == 2 && c.ExpSet && !nothingThresholded {
		if c.Ena == 1 {
			j.Class = "expired_rejected_as_configured"
			if out.Code == "Success" || !out.Expired {
				return fail("metrics-verdict|"+metricsCfg, "expired metrics with scheduling on expired metrics disabled must be rejected as expired")
			}
		} else {
			j.Class = "expired_skipped_as_configured"
			if out.Code != "Success" {
				return fail("metrics-verdict|"+metricsCfg, "expired metrics with scheduling on expired metrics allowed must be skipped (Success)")
			}
		}
		return
	}
	if out.Expired && !(stale && c.F == 2 && c.ExpSet) {
		return fail("metrics-verdict|"+metricsCfg, "rejected as expired although the configuration does not filter expired metrics or the metric is fresh")
	}
	if c.Metric == c08MEmpty || c.Metric == c08MNoInfo {
		j.Class = "no_usage_section_skipped"
		if out.Code != "Success" {
			return fail("metrics-verdict|"+metricsCfg, "a metric without usage information must be skipped (Success)")
		}
		return
	}
	mustReject, canReject := false, false
	for i := range thr {
		if thr[i] == 0 || al.Physical[i] == 0 {
			continue
		}
		if 200*(lo[i]+ein[i]) > (2*thr[i]+1)*al.Physical[i] {
			mustReject = true
		}
		if 100*(hi[i]+ein[i]) > thr[i]*al.Physical[i] {
			canReject = true
		}
	}
	j.Nontrivial = !nothingThresholded
	switch {
	case out.Code == "Success" && mustReject:
		return fail("admitted-above-threshold|"+profName, "admitted although the rounded utilisation exceeds the threshold in a thresholded resource")
	case out.Code != "Success" && !canReject:
		return fail("rejected-below-threshold|"+profName, "rejected for usage although no thresholded resource is above its threshold")
	case mustReject:
		j.Class = "above_threshold_rejected"
	case !canReject && nothingThresholded:
		j.Class = "nothing_thresholded_admitted"
	case !canReject:
		j.Class = "at_or_below_threshold_admitted"
	case out.Code == "Success":
		j.Class = "rounding_or_ambiguity_band_admitted"
	default:
		j.Class = "rounding_or_ambiguity_band_rejected"
	}
	j.Class += "[" + profName + "]"
	if c.Metric == c08MExpired {
		j.Class += "_on_expired_metric_not_filtered"
	}
	return
}

type c08FDim struct {
	name string
	n    int
	set  func(c *c08FCase, i int)
}

func c08FilterPart(env *mc.Env, part string, rule string, dims []c08FDim) {
	res := mc.NewResult("C08", part, "enumeration")
	t0 := env.Elapsed()
	var replay c08FCase
	if p, ok := env.ReplayData(&replay); ok {
		if p == part {
			j := c08RunFilter(replay)
			fmt.Printf("REPLAY part=%s case=%+v clause=%q %s\n", part, replay, j.Clause, j.What)
			if j.Clause != "" {
				res.Violate(mc.Violation{Key: "C08|filter|" + j.Clause, What: j.What, Replay: replay})
			}
			res.Evaluations, res.Traces = 1, 1
			env.Emit(res)
		}
		return
	}
	sizes := make([]int, len(dims))
	var names []string
	for i, d := range dims {
		sizes[i] = d.n
		names = append(names, fmt.Sprintf("%s(%d)", d.name, d.n))
	}
	rx := mc.Radix{Dims: sizes}
	ds := mc.NewDistinctSet()
	done, complete := env.ParallelRangeL(res, rx.Size(), func(l *mc.Local, i int64) {
		d := rx.Decode(i, make([]int, 0, 16))
		var c c08FCase
		for k, dim := range dims {
			dim.set(&c, d[k])
		}
		var j c08FJudged
		if ps := mc.Guard(func() { j = c08RunFilter(c) }); ps != "" {
			res.Violate(mc.Violation{Key: "C08|filter|panic", What: ps, Replay: c})
			return
		}
		if j.Skipped {
			l.Count("skipped_not_constructible", 1)
			return
		}
		l.Evals++
		if j.Clause != "" {
			res.Violate(mc.Violation{Key: "C08|filter|" + j.Clause, What: j.What, Replay: c})
			return
		}
		l.Count(j.Class, 1)
		if j.Nontrivial {
			ds.Add(j.Digest + j.Class)
		}
		if i%40009 == 0 {
			res.Sample(fmt.Sprintf("%+v -> %s", c, j.Class))
		}
	})
	res.Traces = res.Evaluations
	res.Distinct = ds.Len()
	res.Exhaustive = complete
	if !complete {
		res.Capped = fmt.Sprintf("time budget hit after %d of %d cases", done, rx.Size())
	}
	res.Rule = rule + "; dimensions " + strings.Join(names, " x ") + "; distinct = distinct (case, verdict class) among cases with at least one thresholded resource"
	res.Bounds = map[string]any{"cases": rx.Size()}
	res.Assumptions = []string{
		"which thresholds apply to a pod follows the documented selection (prod thresholds for prod pods when configured, else aggregated when configured, else whole-node; the node's usage-thresholds annotation overrides the arguments; threshold 0 = not thresholded)",
		"existing pods carry a PodScheduled condition; reported usages and allocatables are exact multiples so that no estimate involves rounding; utilisation is measured against the raw (un-amplified) allocatable when the node carries it",
	}
	res.WallS = (env.Elapsed() - t0).Seconds()
	env.Emit(res)
}

func c08FilterParts(env *mc.Env) {
	thrCPU := []int64{0, 50, 65, 100}
	thrMem := []int64{0, 70, 100}
	factors := []c08Vec{{85, 70}, {100, 100}}
	idx := func(name string, n int, set func(c *c08FCase, i int)) c08FDim { return c08FDim{name, n, set} }
	fixed := func(c *c08FCase) { c.Metric, c.ExpSet = c08MFresh, true }
	// part 1: thresholds at the boundary on fresh metrics
	c08FilterPart(env, "filter-threshold",
		"every combination of threshold profile, cpu/memory thresholds, allocatable, scaling factors, existing-pod scenario, resource driven to the boundary, boundary target {0, thr-1u, thr, thr+1u, thr+0.5%-1u, thr+0.5%, thr+0.5%+1u, 102% of allocatable}, incoming pod and prod-usage-includes-system switch; fresh metric, default expiry switches",
		[]c08FDim{
			idx("profile", 5, func(c *c08FCase, i int) { fixed(c); c.Prof = i }),
			idx("thrCPU", len(thrCPU), func(c *c08FCase, i int) { c.Thr[0] = thrCPU[i] }),
			idx("thrMem", len(thrMem), func(c *c08FCase, i int) { c.Thr[1] = thrMem[i] }),
			idx("alloc", len(c08Allocs), func(c *c08FCase, i int) { c.Alloc = i }),
			idx("factors", len(factors), func(c *c08FCase, i int) { c.Factors = factors[i] }),
			idx("scenario", c08NumScen, func(c *c08FCase, i int) { c.Scen = i }),
			idx("boundResource", 2, func(c *c08FCase, i int) { c.Bound = i }),
			idx("target", 8, func(c *c08FCase, i int) { c.Target = i }),
			idx("incoming", len(c08IncomingNames), func(c *c08FCase, i int) { c.Incoming = i }),
			idx("includeSys", 2, func(c *c08FCase, i int) { c.IncludeSys = i == 1 }),
			idx("preFilterSkipped", 2, func(c *c08FCase, i int) { c.NoPreFilt = i == 1 }),
		})
	// part 2: metric availability x expiry switches
	profs := []int{c08ProfWhole, c08ProfProd, c08ProfAgg}
	scens := []int{0, 3}
	targets := []int{0, 2, 7}
	c08FilterPart(env, "filter-metrics-expiry",
		"every combination of metric state {fresh, expired, missing, no status, no usage section} x FilterExpiredNodeMetrics {nil,false,true} x EnableScheduleWhenNodeMetricsExpired {nil,false,true} x expiration configured {no,yes} x profile x scenario x target {0, thr, 102%} x incoming pod",
		[]c08FDim{
			idx("metric", 5, func(c *c08FCase, i int) {
				c.Metric = i
				c.Thr = c08Vec{65, 70}
				c.Alloc = 1
				c.Factors = c08Vec{85, 70}
			}),
			idx("filterExpired", 3, func(c *c08FCase, i int) { c.F = i }),
			idx("enableWhenExpired", 3, func(c *c08FCase, i int) { c.Ena = i }),
			idx("expirationSet", 2, func(c *c08FCase, i int) { c.ExpSet = i == 1 }),
			idx("profile", len(profs), func(c *c08FCase, i int) { c.Prof = profs[i] }),
			idx("scenario", len(scens), func(c *c08FCase, i int) { c.Scen = scens[i] }),
			idx("target", len(targets), func(c *c08FCase, i int) { c.Target = targets[i] }),
			idx("incoming", len(c08IncomingNames), func(c *c08FCase, i int) { c.Incoming = i }),
			idx("includeSys", 2, func(c *c08FCase, i int) { c.IncludeSys = i == 1 }),
		})
}
