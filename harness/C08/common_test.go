package loadaware

// C08 shared fixtures: pod / node-metric builders, a settable clock behind the cache's existing `clock` field, and
// the *independent* reference (plain int64 arithmetic written from the property statement and the documented
// estimator / threshold semantics; it never calls into the code under check).

import (
	"encoding/json"
	"fmt"
	"sort"
	"strings"
	"time"

	corev1 "k8s.io/api/core/v1"
	"k8s.io/apimachinery/pkg/api/resource"
	metav1 "k8s.io/apimachinery/pkg/apis/meta/v1"
	"k8s.io/apimachinery/pkg/types"
	"k8s.io/utils/clock"

	"github.com/koordinator-sh/koordinator/apis/extension"
	slov1alpha1 "github.com/koordinator-sh/koordinator/apis/slo/v1alpha1"
	"github.com/koordinator-sh/koordinator/pkg/scheduler/apis/config"
	"github.com/koordinator-sh/koordinator/pkg/scheduler/plugins/loadaware/estimator"
)

const (
	c08NS = "default"
	// memory unit: 100Mi, so that every whole-percent scaling factor gives an integral number of bytes
	c08M = int64(100) << 20
)

// c08Vec is (cpu in milli-cores, memory in bytes).
type c08Vec [2]int64

func (v c08Vec) add(o c08Vec) c08Vec { return c08Vec{v[0] + o[0], v[1] + o[1]} }
func (v c08Vec) sub(o c08Vec) c08Vec { return c08Vec{v[0] - o[0], v[1] - o[1]} }
func (v c08Vec) pos() c08Vec {
	r := v
	for i := range r {
		if r[i] < 0 {
			r[i] = 0
		}
	}
	return r
}
func (v c08Vec) le(o c08Vec) bool { return v[0] <= o[0] && v[1] <= o[1] }
func (v c08Vec) zero() bool       { return v[0] == 0 && v[1] == 0 }

var c08ResNames = [2]corev1.ResourceName{corev1.ResourceCPU, corev1.ResourceMemory}

// c08FromVector converts the plugin's ResourceVector into (cpu, memory) by resource *name* (no assumption on order).
func c08FromVector(vz ResourceVectorizer, rv ResourceVector) c08Vec {
	var out c08Vec
	for i, n := range vz {
		if i >= len(rv) {
			break
		}
		switch n {
		case corev1.ResourceCPU:
			out[0] = rv[i]
		case corev1.ResourceMemory:
			out[1] = rv[i]
		}
	}
	return out
}

func c08RL(v c08Vec) corev1.ResourceList {
	return corev1.ResourceList{
		corev1.ResourceCPU:    *resource.NewMilliQuantity(v[0], resource.DecimalSI),
		corev1.ResourceMemory: *resource.NewQuantity(v[1], resource.BinarySI),
	}
}

// ---------------------------------------------------------------------------------------------------------------
// clock: the cache's own seam (field `clock`); only Now/Since are overridden.

type c08Clock struct {
	clock.RealClock
	t time.Time
}

func (c *c08Clock) Now() time.Time                   { return c.t }
func (c *c08Clock) Since(ts time.Time) time.Duration { return c.t.Sub(ts) }

var c08Base = time.Date(2024, 3, 1, 12, 0, 0, 0, time.UTC)

func c08Off(t time.Time) string {
	if t.IsZero() {
		return "z"
	}
	return fmt.Sprint(int64(t.Sub(c08Base) / time.Second))
}

// ---------------------------------------------------------------------------------------------------------------
// pods

const (
	c08Native = iota // cpu / memory
	c08Batch         // kubernetes.io/batch-cpu (milli-cores) / batch-memory
)

// c08PodSpec is the harness' plain description of one delivered pod object.
type c08PodSpec struct {
	Name     string
	Label    extension.PriorityClass // koordinator.sh/priority-class label ("" = absent)
	Prio     int32                   // spec.priority (0 = absent)
	Flavor   int
	Req, Lim c08Vec
	Node     string
	Sched    time.Time // PodScheduled=True transition time (zero = condition absent)
	Ready    bool      // a further condition (Ready=True)
	Phase    corev1.PodPhase
	Factors  string // custom scaling factor annotation (json) or ""
	Window   int64  // custom estimated-seconds-after-pod-scheduled annotation; <0 = absent
	Daemon   bool
	Gen      int // distinguishes otherwise equal deliveries (resourceVersion)
}

func (ps c08PodSpec) desc() string {
	return fmt.Sprintf("%s{%s,%d,f%d,%v,%v,n=%s,s=%s,r=%v,%s,%s,%d,%v}", ps.Name, ps.Label, ps.Prio, ps.Flavor, ps.Req, ps.Lim, ps.Node,
		c08Off(ps.Sched), ps.Ready, ps.Phase, ps.Factors, ps.Window, ps.Daemon)
}

func c08FlavorRL(flavor int, v c08Vec) corev1.ResourceList {
	rl := corev1.ResourceList{}
	switch flavor {
	case c08Native:
		if v[0] > 0 {
			rl[corev1.ResourceCPU] = *resource.NewMilliQuantity(v[0], resource.DecimalSI)
		}
		if v[1] > 0 {
			rl[corev1.ResourceMemory] = *resource.NewQuantity(v[1], resource.BinarySI)
		}
	case c08Batch:
		if v[0] > 0 {
			rl[extension.BatchCPU] = *resource.NewQuantity(v[0], resource.DecimalSI)
		}
		if v[1] > 0 {
			rl[extension.BatchMemory] = *resource.NewQuantity(v[1], resource.BinarySI)
		}
	}
	return rl
}

func (ps c08PodSpec) obj() *corev1.Pod {
	p := &corev1.Pod{
		ObjectMeta: metav1.ObjectMeta{Name: ps.Name, Namespace: c08NS, UID: types.UID("uid-" + ps.Name), ResourceVersion: fmt.Sprint(ps.Gen),
			Labels: map[string]string{}, Annotations: map[string]string{}},
		Spec: corev1.PodSpec{NodeName: ps.Node, Containers: []corev1.Container{{Name: "main",
			Resources: corev1.ResourceRequirements{Requests: c08FlavorRL(ps.Flavor, ps.Req), Limits: c08FlavorRL(ps.Flavor, ps.Lim)}}}},
		Status: corev1.PodStatus{Phase: ps.Phase},
	}
	if ps.Label != "" {
		p.Labels[extension.LabelPodPriorityClass] = string(ps.Label)
	}
	if ps.Prio != 0 {
		v := ps.Prio
		p.Spec.Priority = &v
	}
	if !ps.Sched.IsZero() {
		p.Status.Conditions = append(p.Status.Conditions, corev1.PodCondition{Type: corev1.PodScheduled, Status: corev1.ConditionTrue,
			LastTransitionTime: metav1.NewTime(ps.Sched)})
	}
	if ps.Ready {
		p.Status.Conditions = append(p.Status.Conditions, corev1.PodCondition{Type: corev1.PodReady, Status: corev1.ConditionTrue})
	}
	if ps.Factors != "" {
		p.Annotations[extension.AnnotationCustomEstimatedScalingFactors] = ps.Factors
	}
	if ps.Window >= 0 {
		p.Annotations[extension.AnnotationCustomEstimatedSecondsAfterPodScheduled] = fmt.Sprint(ps.Window)
	}
	if ps.Daemon {
		p.OwnerReferences = []metav1.OwnerReference{{APIVersion: "apps/v1", Kind: "DaemonSet", Name: "ds", UID: "ds-uid"}}
	}
	return p
}

// class is the pod's koordinator priority class as documented: the priority-class label, else the band of
// spec.priority, else derived from the Kubernetes QoS (pods declaring cpu/memory are LS -> prod, pods declaring
// nothing are BE -> batch). The band limits are the package's own variables.
func (ps c08PodSpec) class() extension.PriorityClass {
	if ps.Label != "" {
		return ps.Label
	}
	if p := ps.Prio; p != 0 {
		switch {
		case p >= extension.PriorityProdValueMin && p <= extension.PriorityProdValueMax:
			return extension.PriorityProd
		case p >= extension.PriorityMidValueMin && p <= extension.PriorityMidValueMax:
			return extension.PriorityMid
		case p >= extension.PriorityBatchValueMin && p <= extension.PriorityBatchValueMax:
			return extension.PriorityBatch
		case p >= extension.PriorityFreeValueMin && p <= extension.PriorityFreeValueMax:
			return extension.PriorityFree
		}
	}
	if ps.Flavor == c08Native && (!ps.Req.zero() || !ps.Lim.zero()) {
		return extension.PriorityProd
	}
	return extension.PriorityBatch
}

func (ps c08PodSpec) isProd() bool { return ps.class() == extension.PriorityProd }

// c08RefCfg is what the reference needs to know about the plugin configuration.
type c08RefCfg struct {
	Factors     c08Vec // scaling factors in percent (cpu, memory)
	AllowCustom bool
	Window      int64 // EstimatedSecondsAfterPodScheduled (0 = none)
	IncludeSys  bool
}

// c08RefEstimate is the documented estimate of a pod: per resource the larger of request and limit - of the
// resource flavour that belongs to the pod's priority class (batch-cpu/batch-memory for koord-batch) - times the
// scaling factor in percent, rounded to the nearest unit and never above a declared limit; a resource the pod
// declares nothing for counts with the default 250m / 200Mi. All harness amounts are chosen so that the
// percentage is integral (no rounding judgement is involved).
func c08RefEstimate(rc c08RefCfg, ps c08PodSpec) c08Vec {
	factors := rc.Factors
	if rc.AllowCustom && ps.Factors != "" {
		m := map[string]int64{}
		if json.Unmarshal([]byte(ps.Factors), &m) == nil {
			if v, ok := m["cpu"]; ok {
				factors[0] = v
			}
			if v, ok := m["memory"]; ok {
				factors[1] = v
			}
		}
	}
	want := c08Native
	if ps.class() == extension.PriorityBatch {
		want = c08Batch
	}
	req, lim := ps.Req, ps.Lim
	if ps.Flavor != want {
		req, lim = c08Vec{}, c08Vec{}
	}
	def := c08Vec{estimator.DefaultMilliCPURequest, estimator.DefaultMemoryRequest}
	var out c08Vec
	for i := range out {
		v := req[i]
		if lim[i] > v {
			v = lim[i]
		}
		if v == 0 {
			out[i] = def[i]
			continue
		}
		e := (v*factors[i] + 50) / 100
		if lim[i] > 0 && e > lim[i] {
			e = lim[i]
		}
		out[i] = e
	}
	return out
}

func (rc c08RefCfg) window(ps c08PodSpec) time.Duration {
	w := rc.Window
	if rc.AllowCustom && ps.Window >= 0 {
		w = ps.Window
	}
	return time.Duration(w) * time.Second
}

// ---------------------------------------------------------------------------------------------------------------
// node metrics

type c08PodUsage struct {
	U    c08Vec
	Prod bool // the priority class the report carries for the pod
}

type c08AggKey struct {
	T extension.AggregationType
	D time.Duration
}

// c08MetricVar is one NodeMetric content of the alphabet.
type c08MetricVar struct {
	ID       string
	Empty    bool // freshly created object: no status at all (no update time, no usage)
	NoInfo   bool // update time present but status.nodeMetric missing
	Usage    c08Vec
	Sys      c08Vec
	Agg      map[c08AggKey]c08Vec
	Pods     map[string]c08PodUsage
	Behind   time.Duration // the report's update time lies this far before its delivery
	Interval int64         // spec.metricCollectPolicy.reportIntervalSeconds, 0 = absent (default)
}

func (mv *c08MetricVar) interval() time.Duration {
	if mv.Interval > 0 {
		return time.Duration(mv.Interval) * time.Second
	}
	return DefaultNodeMetricReportInterval
}

func c08BuildMetric(node string, mv *c08MetricVar, ut time.Time) *slov1alpha1.NodeMetric {
	m := &slov1alpha1.NodeMetric{ObjectMeta: metav1.ObjectMeta{Name: node}}
	if mv.Interval > 0 {
		v := mv.Interval
		m.Spec.CollectPolicy = &slov1alpha1.NodeMetricCollectPolicy{ReportIntervalSeconds: &v}
	}
	if mv.Empty {
		return m
	}
	t := metav1.NewTime(ut)
	m.Status.UpdateTime = &t
	if mv.NoInfo {
		return m
	}
	info := &slov1alpha1.NodeMetricInfo{
		NodeUsage:   slov1alpha1.ResourceMap{ResourceList: c08RL(mv.Usage)},
		SystemUsage: slov1alpha1.ResourceMap{ResourceList: c08RL(mv.Sys)},
	}
	byDur := map[time.Duration]map[extension.AggregationType]slov1alpha1.ResourceMap{}
	var durs []time.Duration
	for k, v := range mv.Agg {
		if byDur[k.D] == nil {
			byDur[k.D] = map[extension.AggregationType]slov1alpha1.ResourceMap{}
			durs = append(durs, k.D)
		}
		byDur[k.D][k.T] = slov1alpha1.ResourceMap{ResourceList: c08RL(v)}
	}
	sort.Slice(durs, func(i, j int) bool { return durs[i] < durs[j] })
	for _, d := range durs {
		info.AggregatedNodeUsages = append(info.AggregatedNodeUsages, slov1alpha1.AggregatedUsage{Usage: byDur[d], Duration: metav1.Duration{Duration: d}})
	}
	m.Status.NodeMetric = info
	names := make([]string, 0, len(mv.Pods))
	for n := range mv.Pods {
		names = append(names, n)
	}
	sort.Strings(names)
	for _, n := range names {
		pu := mv.Pods[n]
		prio := extension.PriorityBatch
		if pu.Prod {
			prio = extension.PriorityProd
		}
		m.Status.PodsMetric = append(m.Status.PodsMetric, &slov1alpha1.PodMetricInfo{Name: n, Namespace: c08NS,
			PodUsage: slov1alpha1.ResourceMap{ResourceList: c08RL(pu.U)}, Priority: prio})
	}
	return m
}

// ---------------------------------------------------------------------------------------------------------------
// queries against the cache (the observation point named by the property)

type c08Query struct {
	Name string
	Prod bool
	Type extension.AggregationType
	Dur  time.Duration
}

// base usage of a non-prod query according to the report: the plain node usage, or the aggregated usage of the
// requested type and period ("period 0" = the longest period reported for the type, falling back to the plain usage
// when the type is not reported at all). ok=false: the report has no such figure.
func (mv *c08MetricVar) baseUsage(q c08Query) (c08Vec, bool) {
	if mv.Empty || mv.NoInfo {
		return c08Vec{}, false
	}
	if q.Type == "" {
		return mv.Usage, true
	}
	if q.Dur != 0 {
		v, ok := mv.Agg[c08AggKey{q.Type, q.Dur}]
		return v, ok
	}
	var best time.Duration = -1
	for k := range mv.Agg {
		if k.T == q.Type && k.D > best {
			best = k.D
		}
	}
	if best < 0 {
		return mv.Usage, true
	}
	return mv.Agg[c08AggKey{q.Type, best}], true
}

// c08Assigned is one pod the reference considers assigned to the node under judgement.
type c08Assigned struct {
	Spec  c08PodSpec
	Times []time.Time // candidate assignment times (one unless the recorded time is legitimately ambiguous)
}

// c08BandStat says how the reference classified the pods with reported usage (vacuity measurement).
type c08BandStat struct {
	Unamb                      bool
	Counted, Reflected, Either int // estimate counted (c=1) / usage already reflected (c=0) / both admitted
}

// c08RefBand computes the closed interval [lo, hi] the statement admits for the node's estimate:
// usage + sum over assigned pods of c_p * max(0, estimate_p - reportedUsage_p), with c_p = 1 when the report carries
// no usage for p, or p was assigned after the report's update time, or p is inside its estimation window; c_p = 0
// when p has reported usage, was assigned more than one report interval before the update time and its window (if
// any) has passed; otherwise both are admitted. Without a usage figure in the report every pod counts in full.
func c08RefBand(rc c08RefCfg, mv *c08MetricVar, ut time.Time, q c08Query, pods []c08Assigned) (lo, hi c08Vec, st c08BandStat) {
	unamb := true
	defer func() { st.Unamb = unamb }()
	R := mv.interval()
	reported := func(name string) (c08PodUsage, bool) {
		if mv.Empty || mv.NoInfo {
			return c08PodUsage{}, false
		}
		pu, ok := mv.Pods[name]
		return pu, ok
	}
	decide := func(p c08Assigned, has bool) (cmin, cmax int64) {
		if !has {
			return 1, 1
		}
		w := rc.window(p.Spec)
		allOne, allZero := true, true
		for _, t := range p.Times {
			one := t.After(ut) || (w > 0 && ut.Before(t.Add(w)))
			zero := t.Add(R).Before(ut) && (w == 0 || t.Add(w).Before(ut))
			allOne = allOne && one
			allZero = allZero && zero
		}
		switch {
		case allOne:
			st.Counted++
			return 1, 1
		case allZero:
			st.Reflected++
			return 0, 0
		}
		st.Either++
		unamb = false
		return 0, 1
	}
	scale := func(v c08Vec, c int64) c08Vec { return c08Vec{v[0] * c, v[1] * c} }
	if q.Prod {
		if rc.IncludeSys && !mv.Empty && !mv.NoInfo {
			lo, hi = lo.add(mv.Sys), hi.add(mv.Sys)
		}
		seen := map[string]bool{}
		for _, p := range pods {
			seen[p.Spec.Name] = true
			if !p.Spec.isProd() {
				continue
			}
			est := c08RefEstimate(rc, p.Spec)
			pu, has := reported(p.Spec.Name)
			if !has || !pu.Prod {
				// the prod usage of the report does not reflect this pod at all
				lo, hi = lo.add(est), hi.add(est)
				continue
			}
			lo, hi = lo.add(pu.U), hi.add(pu.U)
			d := est.sub(pu.U).pos()
			cmin, cmax := decide(p, true)
			lo, hi = lo.add(scale(d, cmin)), hi.add(scale(d, cmax))
		}
		// usage reported for prod pods that are not (or no longer) assigned may or may not be counted
		if !mv.Empty && !mv.NoInfo {
			for n, pu := range mv.Pods {
				if !seen[n] && pu.Prod {
					hi = hi.add(pu.U)
					unamb = false
				}
			}
		}
		return
	}
	base, ok := mv.baseUsage(q)
	if ok {
		lo, hi = base, base
	}
	for _, p := range pods {
		est := c08RefEstimate(rc, p.Spec)
		pu, has := reported(p.Spec.Name)
		d := est
		if has {
			d = est.sub(pu.U).pos()
		}
		cmin, cmax := decide(p, has)
		lo = lo.add(scale(d, cmin))
		if ok {
			hi = hi.add(scale(d, cmax))
		} else {
			hi = hi.add(est)
			if est != scale(d, cmin) {
				unamb = false
			}
		}
	}
	return
}

// ---------------------------------------------------------------------------------------------------------------
// real objects

func c08RefCfgOf(args *config.LoadAwareSchedulingArgs) c08RefCfg {
	rc := c08RefCfg{AllowCustom: args.AllowCustomizeEstimation, IncludeSys: args.ProdUsageIncludeSys}
	rc.Factors = c08Vec{args.EstimatedScalingFactors[corev1.ResourceCPU], args.EstimatedScalingFactors[corev1.ResourceMemory]}
	if s := args.EstimatedSecondsAfterPodScheduled; s != nil {
		rc.Window = *s
	}
	return rc
}

// c08NewPlugin builds the plugin exactly as New does, minus informers / framework handle (never dereferenced on
// the paths under check): estimator, vectorizer, filter profile and assign cache from the arguments.
func c08NewPlugin(args *config.LoadAwareSchedulingArgs, clk clock.Clock) *Plugin {
	est, err := estimator.NewDefaultEstimator(args, nil)
	if err != nil {
		panic(err)
	}
	vz := NewResourceVectorizerFromArgs(args)
	cache := newPodAssignCache(est, vz, args)
	cache.clock = clk
	return &Plugin{args: args, vectorizer: vz, filterProfile: NewUsageThresholdsFilterProfile(args, vz), estimator: est, podAssignCache: cache}
}

func c08OpKind(name string) string { return strings.SplitN(name, "(", 2)[0] }

func c08Ptr[T any](v T) *T { return &v }
