package loadaware

// C08 history part ("load estimates never drift"): explicit-state BFS over event histories executed on the REAL
// Plugin.Reserve/Unreserve + podAssignCache informer handlers + node-metric handlers (no informers, no goroutines,
// clock through the cache's `clock` field). Every reached state is judged, per node and per query the plugin
// issues (prod / whole node / aggregated keys), by
//   (1) differential: the estimate equals what a FRESH cache reports after being fed the current metric and then
//       the pods the reference considers assigned, with their recorded assign timestamps (the code's own
//       from-scratch path);
//   (2) the independent reference band computed from the statement (common_test.go c08RefBand), which also
//       contains the sanity clauses E >= reported usage and E <= usage + sum of estimates.
// See /verif/DESIGN.md §4 C08.

import (
	"context"
	"fmt"
	"os"
	"sort"
	"strings"
	"testing"
	"time"

	corev1 "k8s.io/api/core/v1"
	"k8s.io/apimachinery/pkg/api/errors"
	metav1 "k8s.io/apimachinery/pkg/apis/meta/v1"
	"k8s.io/apimachinery/pkg/types"

	"github.com/koordinator-sh/koordinator/apis/extension"
	slov1alpha1 "github.com/koordinator-sh/koordinator/apis/slo/v1alpha1"
	"github.com/koordinator-sh/koordinator/pkg/scheduler/apis/config"
	"github.com/koordinator-sh/koordinator/pkg/zzverif/mc"
)

const (
	c08Pending = iota
	c08Bound
	c08Gone // terminated or deleted: final for the UID
)

const (
	c08ResNone      = iota
	c08ResLive      // assumed by the scheduler, not (yet) confirmed by the informer on that node
	c08ResConfirmed // the informer showed the pod bound to the reserved node; the binding cycle may still roll back
)

type c08Kind struct {
	Name      string
	Base      c08PodSpec // the pending object
	AltReq    c08Vec     // in-place resize target
	AltLim    c08Vec
	FlipLabel extension.PriorityClass // label-only priority change (rare events part)
	FlipPrio  int32                   // spec.priority change
	AltWindow int64                   // annotation-only change of the custom estimation window (rare events part)
}

type c08PodRef struct {
	kind    *c08Kind
	inf     int
	spec    c08PodSpec  // description of the object the informer delivered last
	obj     *corev1.Pod // that object
	res     int
	resNode string
	assumed *corev1.Pod // the object handed to Reserve
	aspec   c08PodSpec
	tRes    time.Time
	tFirst  time.Time // bound pods: delivery time of the first / latest bound object of the current residence
	tLast   time.Time
	gen     int
	// root-cause tags of rare events (only used to give their violations an own key)
	staleMeta  bool // a metadata-only update (priority label / estimation annotation) was delivered since the last spec/condition change
	lateUnres  bool // Unreserve arrived after the informer had confirmed the binding
	resDeleted bool // informer delete arrived while the pod was only assumed
}

type c08MetricRef struct {
	mv  *c08MetricVar
	ut  time.Time
	obj *slov1alpha1.NodeMetric
}

type c08Cfg struct {
	name    string
	args    *config.LoadAwareSchedulingArgs
	rc      c08RefCfg
	nodes   []string
	kinds   []*c08Kind
	metrics map[string][]*c08MetricVar
	queries []c08Query
	rare    bool
	tick    time.Duration
	ops     []c08Op
	depth   [2]int
}

type c08Op struct {
	name    string
	enabled func(s *c08Sys) bool
	apply   func(s *c08Sys)
}

type c08Sys struct {
	cfg    *c08Cfg
	clk    *c08Clock
	pl     *Plugin
	cache  *podAssignCache
	pods   []*c08PodRef
	metric map[string]*c08MetricRef
	ticks  int
	last   string
	descs  map[*corev1.Pod]string
	res    *mc.Result
	sink   string // set by Invariants when a rare-event finding is established in this state
	quiet  bool   // Invariants is being consulted by Key: no vacuity counting
}

func c08NewSys(cfg *c08Cfg, res *mc.Result) *c08Sys {
	clk := &c08Clock{t: c08Base}
	pl := c08NewPlugin(cfg.args.DeepCopy(), clk) // own copy: nothing a plugin instance does to its arguments may reach another instance
	s := &c08Sys{cfg: cfg, clk: clk, pl: pl, cache: pl.podAssignCache, metric: map[string]*c08MetricRef{}, descs: map[*corev1.Pod]string{}, res: res}
	for _, k := range cfg.kinds {
		p := &c08PodRef{kind: k, inf: c08Pending, spec: k.Base, res: c08ResNone}
		p.obj = s.mk(p.spec)
		// the informer's add of the pending pod (a no-op for the cache, delivered for completeness)
		s.cache.OnAdd(p.obj, true)
		s.pods = append(s.pods, p)
	}
	return s
}

func (s *c08Sys) mk(ps c08PodSpec) *corev1.Pod {
	o := ps.obj()
	s.descs[o] = ps.desc()
	return o
}

func (s *c08Sys) now() time.Time { return s.clk.t }

func (s *c08Sys) otherNode(n string) string {
	for _, m := range s.cfg.nodes {
		if m != n {
			return m
		}
	}
	return ""
}

// deliver sends an informer update carrying the new description; the old object is the one delivered last.
func (s *c08Sys) deliver(p *c08PodRef, ns c08PodSpec) {
	p.gen++
	ns.Gen = p.gen
	old := p.obj
	p.spec, p.obj = ns, s.mk(ns)
	s.cache.OnUpdate(old, p.obj)
	p.lateUnres = false // any update of a bound pod the cache does not hold re-adds it
}

func c08BuildOps(cfg *c08Cfg) []c08Op {
	var ops []c08Op
	ctx := context.TODO()
	for pi := range cfg.kinds {
		pi := pi
		k := cfg.kinds[pi]
		pn := k.Name
		for _, node := range cfg.nodes {
			node := node
			ops = append(ops, c08Op{name: fmt.Sprintf("reserve(%s,%s)", pn, node),
				enabled: func(s *c08Sys) bool { p := s.pods[pi]; return p.inf == c08Pending && p.res == c08ResNone },
				apply: func(s *c08Sys) {
					p := s.pods[pi]
					p.aspec = p.spec
					p.aspec.Node = node // the scheduler assumes a copy of the pod with spec.nodeName set
					p.assumed = s.mk(p.aspec)
					s.pl.Reserve(ctx, nil, p.assumed, node)
					p.res, p.resNode, p.tRes = c08ResLive, node, s.now()
				}})
		}
		ops = append(ops, c08Op{name: fmt.Sprintf("unreserve(%s)", pn),
			enabled: func(s *c08Sys) bool {
				p := s.pods[pi]
				return p.res == c08ResLive || (cfg.rare && p.res == c08ResConfirmed)
			},
			apply: func(s *c08Sys) {
				p := s.pods[pi]
				s.pl.Unreserve(ctx, nil, p.assumed, p.resNode)
				if p.res == c08ResConfirmed {
					p.lateUnres = true
				}
				p.res, p.assumed = c08ResNone, nil
			}})
		for _, withCond := range []bool{true, false} {
			withCond := withCond
			ops = append(ops, c08Op{name: fmt.Sprintf("bind(%s,cond=%v)", pn, withCond),
				// the binding becomes visible: to the reserved node, or (bound by someone else) to the first node
				enabled: func(s *c08Sys) bool { return s.pods[pi].inf == c08Pending },
				apply: func(s *c08Sys) {
					p := s.pods[pi]
					ns := p.spec
					ns.Node = cfg.nodes[0]
					if p.res == c08ResLive {
						ns.Node = p.resNode
					}
					ns.Phase = corev1.PodRunning
					if withCond {
						ns.Sched = s.now()
					}
					s.deliver(p, ns)
					p.inf, p.tFirst, p.tLast = c08Bound, s.now(), s.now()
					if p.res == c08ResLive && p.resNode == ns.Node {
						p.res = c08ResConfirmed
						p.tFirst = p.tRes
					}
				}})
		}
		if len(cfg.nodes) > 1 {
			ops = append(ops, c08Op{name: fmt.Sprintf("bindElsewhere(%s)", pn),
				// another binder won the race: the pod shows up on a node different from the one it is assumed on
				enabled: func(s *c08Sys) bool { p := s.pods[pi]; return p.inf == c08Pending && p.res == c08ResLive },
				apply: func(s *c08Sys) {
					p := s.pods[pi]
					ns := p.spec
					ns.Node, ns.Phase, ns.Sched = s.otherNode(p.resNode), corev1.PodRunning, s.now()
					s.deliver(p, ns)
					p.inf, p.tFirst, p.tLast = c08Bound, s.now(), s.now()
				}},
				c08Op{name: fmt.Sprintf("nodeChange(%s)", pn),
					// spec.nodeName changes on a bound pod (named by the property; the handler has a branch for it)
					enabled: func(s *c08Sys) bool { return s.pods[pi].inf == c08Bound },
					apply: func(s *c08Sys) {
						p := s.pods[pi]
						ns := p.spec
						ns.Node = s.otherNode(p.spec.Node)
						if !ns.Sched.IsZero() {
							ns.Sched = s.now()
						}
						s.deliver(p, ns)
						p.tFirst, p.tLast, p.staleMeta = s.now(), s.now(), false
						switch {
						case p.res == c08ResConfirmed:
							p.res = c08ResNone // the reservation was consumed by the first binding
						case p.res == c08ResLive && p.resNode == ns.Node:
							p.res, p.tFirst = c08ResConfirmed, p.tRes
						}
					}})
		}
		ops = append(ops,
			c08Op{name: fmt.Sprintf("resize(%s)", pn),
				enabled: func(s *c08Sys) bool { return s.pods[pi].inf == c08Bound },
				apply: func(s *c08Sys) {
					p := s.pods[pi]
					ns := p.spec
					if ns.Req == k.Base.Req && ns.Lim == k.Base.Lim {
						ns.Req, ns.Lim = k.AltReq, k.AltLim
					} else {
						ns.Req, ns.Lim = k.Base.Req, k.Base.Lim
					}
					s.deliver(p, ns)
					p.tLast, p.staleMeta = s.now(), false
				}},
			c08Op{name: fmt.Sprintf("conditions(%s)", pn),
				enabled: func(s *c08Sys) bool { return s.pods[pi].inf == c08Bound },
				apply: func(s *c08Sys) {
					p := s.pods[pi]
					ns := p.spec
					ns.Ready = !ns.Ready
					s.deliver(p, ns)
					p.tLast, p.staleMeta = s.now(), false
				}},
			c08Op{name: fmt.Sprintf("terminated(%s)", pn),
				enabled: func(s *c08Sys) bool { return s.pods[pi].inf == c08Bound },
				apply: func(s *c08Sys) {
					p := s.pods[pi]
					ns := p.spec
					ns.Phase = corev1.PodSucceeded
					s.deliver(p, ns)
					p.inf = c08Gone
					if p.res == c08ResConfirmed {
						p.res = c08ResNone
					}
				}},
			c08Op{name: fmt.Sprintf("delete(%s)", pn),
				enabled: func(s *c08Sys) bool { return s.pods[pi].inf != c08Gone },
				apply: func(s *c08Sys) {
					p := s.pods[pi]
					s.cache.OnDelete(p.obj)
					if p.inf == c08Pending && p.res == c08ResLive {
						p.resDeleted = true
					}
					p.inf = c08Gone
					if p.res == c08ResConfirmed {
						p.res = c08ResNone
					}
				}},
		)
		if k.FlipPrio != 0 {
			ops = append(ops, c08Op{name: fmt.Sprintf("priority(%s)", pn),
				// the priority class changes through spec.priority
				enabled: func(s *c08Sys) bool { return s.pods[pi].inf == c08Bound },
				apply: func(s *c08Sys) {
					p := s.pods[pi]
					ns := p.spec
					if ns.Prio == k.Base.Prio {
						ns.Prio = k.FlipPrio
					} else {
						ns.Prio = k.Base.Prio
					}
					s.deliver(p, ns)
					p.tLast, p.staleMeta = s.now(), false
				}})
		}
		if cfg.rare && k.FlipLabel != "" {
			ops = append(ops, c08Op{name: fmt.Sprintf("priorityLabel(%s)", pn),
				// the priority class changes through the koordinator.sh/priority-class label only
				enabled: func(s *c08Sys) bool { return s.pods[pi].inf == c08Bound },
				apply: func(s *c08Sys) {
					p := s.pods[pi]
					ns := p.spec
					if ns.Label == k.Base.Label {
						ns.Label = k.FlipLabel
					} else {
						ns.Label = k.Base.Label
					}
					s.deliver(p, ns)
					p.staleMeta, p.tLast = true, s.now()
				}})
		}
		if cfg.rare && k.AltWindow != 0 {
			ops = append(ops, c08Op{name: fmt.Sprintf("estimationAnnotation(%s)", pn),
				enabled: func(s *c08Sys) bool { return s.pods[pi].inf == c08Bound },
				apply: func(s *c08Sys) {
					p := s.pods[pi]
					ns := p.spec
					if ns.Window == k.Base.Window {
						ns.Window = k.AltWindow
					} else {
						ns.Window = k.Base.Window
					}
					s.deliver(p, ns)
					p.staleMeta, p.tLast = true, s.now()
				}})
		}
	}
	for _, node := range cfg.nodes {
		node := node
		for _, mv := range cfg.metrics[node] {
			mv := mv
			ops = append(ops, c08Op{name: fmt.Sprintf("metric(%s,%s)", node, mv.ID),
				enabled: func(s *c08Sys) bool {
					// a re-delivery of an identical object is not an event
					cur := s.metric[node]
					return cur == nil || cur.mv.ID != s.report(node, mv).ID || (!mv.Empty && !cur.ut.Equal(s.now().Add(-mv.Behind)))
				},
				apply: func(s *c08Sys) {
					ut := s.now().Add(-mv.Behind)
					inst := s.report(node, mv)
					m := c08BuildMetric(node, inst, ut)
					h := s.cache.NodeMetricHandler()
					if cur := s.metric[node]; cur == nil {
						h.OnAdd(m, false)
					} else {
						h.OnUpdate(cur.obj, m)
					}
					s.metric[node] = &c08MetricRef{mv: inst, ut: ut, obj: m}
				}})
		}
		if len(cfg.metrics[node]) > 0 {
			ops = append(ops, c08Op{name: fmt.Sprintf("metricDelete(%s)", node),
				enabled: func(s *c08Sys) bool { return s.metric[node] != nil },
				apply: func(s *c08Sys) {
					s.cache.NodeMetricHandler().OnDelete(s.metric[node].obj)
					delete(s.metric, node)
				}})
		}
	}
	if cfg.tick == 0 {
		cfg.tick = 60 * time.Second
	}
	ops = append(ops, c08Op{name: fmt.Sprintf("tick(%v)", cfg.tick),
		enabled: func(s *c08Sys) bool { return s.ticks < 4 },
		apply:   func(s *c08Sys) { s.ticks++; s.clk.t = s.clk.t.Add(cfg.tick) }})
	return ops
}

// report instantiates a metric content for the node as koordlet would write it now: pod usages only for the pods
// that are on the node - bound there according to the informer, or assumed there (already running while the
// scheduler's informer lags) - plus the content's explicitly leaked pods. Pods that leave afterwards stay in the
// report until the next one (that is how leaked entries arise).
func (s *c08Sys) report(node string, mv *c08MetricVar) *c08MetricVar {
	inst := *mv
	inst.Pods = map[string]c08PodUsage{}
	var names []string
	for n, pu := range mv.Pods {
		known, here := false, false
		for _, p := range s.pods {
			if p.kind.Name == n {
				known = true
				here = (p.inf == c08Bound && p.spec.Node == node) || (p.res == c08ResLive && p.resNode == node)
			}
		}
		if !known || here {
			inst.Pods[n] = pu
			names = append(names, n)
		}
	}
	sort.Strings(names)
	inst.ID = mv.ID + "{" + strings.Join(names, ",") + "}"
	return &inst
}

func (s *c08Sys) Apply(op int, check bool) (bool, []mc.Violation) {
	o := s.cfg.ops[op]
	if !o.enabled(s) {
		return false, nil
	}
	o.apply(s)
	s.last = o.name
	return true, nil
}

// assigned returns, from the reference ledger only, the pods assigned to the node: assumed there by the scheduler
// (reserve without roll-back, not yet confirmed) or bound there according to the informer and not terminated.
func (s *c08Sys) assigned(node string) (out []c08Assigned, objs []*corev1.Pod, refs []*c08PodRef) {
	for _, p := range s.pods {
		switch {
		case p.inf == c08Bound && p.spec.Node == node:
			a := c08Assigned{Spec: p.spec}
			if !p.spec.Sched.IsZero() {
				a.Times = []time.Time{p.spec.Sched}
			} else {
				// no PodScheduled condition: the assignment time is that of the (first or latest) delivery
				a.Times = []time.Time{p.tFirst, p.tLast}
			}
			out, objs, refs = append(out, a), append(objs, p.obj), append(refs, p)
		case p.res == c08ResLive && p.resNode == node:
			out = append(out, c08Assigned{Spec: p.aspec, Times: []time.Time{p.tRes}})
			objs, refs = append(objs, p.assumed), append(refs, p)
		}
	}
	return
}

// tag names the rare-event class whose symptom is present in the state (only used to key findings): a bound pod
// that received a metadata-only update and whose cached object is not the delivered one, or a bound pod that a late
// Unreserve removed from the cache. "plain" otherwise.
func (s *c08Sys) tag() string {
	var tags []string
	for _, p := range s.pods {
		if p.inf != c08Bound || !(p.staleMeta || p.lateUnres) {
			continue
		}
		var held *podAssignInfo
		if ni, ok := s.cache.getNodeInfo(p.spec.Node); ok && ni != nil {
			held = ni.podInfos[p.obj.UID]
		}
		if p.staleMeta && held != nil && held.pod != p.obj {
			tags = append(tags, "metadata-only-update")
		}
		if p.lateUnres && held == nil {
			tags = append(tags, "unreserve-after-confirmed-bind")
		}
	}
	if len(tags) == 0 {
		return "plain"
	}
	sort.Strings(tags)
	return tags[0]
}

// viol: violations in states that a rare event has touched (see tag) are filed under one key per rare-event class,
// all others under clause + query. Defects that do not depend on the rare event are also reachable - at the same
// or a smaller depth - without it, so nothing hides behind a rare-event key.
func (s *c08Sys) viol(clause, q, what string) mc.Violation {
	key := "C08|hist|" + clause + "|" + q
	if t := s.tag(); t != "plain" {
		key = "C08|hist|rare-event|" + t
		s.sink = t
	}
	return mc.Violation{Key: key, What: fmt.Sprintf("[%s] after %s: %s (%s)", s.cfg.name, s.last, what, clause)}
}

func (s *c08Sys) get(c *podAssignCache, node string, q c08Query) (c08Vec, bool, error) {
	m, est, _, err := c.GetNodeMetricAndEstimatedOfExisting(node, q.Prod, metav1.Duration{Duration: q.Dur}, q.Type, false)
	if err != nil {
		if errors.IsNotFound(err) {
			return c08Vec{}, false, nil
		}
		return c08Vec{}, false, err
	}
	if m == nil {
		return c08Vec{}, false, fmt.Errorf("nil metric without error")
	}
	out := c08FromVector(c.vectorizer, est)
	// Filter and Score add the incoming pod's estimate IN PLACE to the vector this getter returns (addEstimatedOfIncoming):
	// do the same, so that a getter that hands out the cache's own vector shows up as drift on the next query
	for i := range est {
		est[i] += 1000
	}
	return out, true, nil
}

func (s *c08Sys) Invariants() []mc.Violation {
	var viol []mc.Violation
	s.sink = ""
	cnt := map[string]int64{}
	defer func() {
		if s.quiet {
			return
		}
		for k, v := range cnt {
			s.res.Count(k, v)
		}
	}()
	for _, node := range s.cfg.nodes {
		as, objs, refs := s.assigned(node)
		mr := s.metric[node]
		// ---- differential: fresh cache, current metric first, then the assigned pods with their recorded timestamps
		fclk := &c08Clock{t: c08Base}
		fresh := c08NewPlugin(s.cfg.args.DeepCopy(), fclk).podAssignCache
		if mr != nil {
			fresh.AddOrUpdateNodeMetric(mr.obj)
		}
		var recorded map[types.UID]*podAssignInfo
		if ni, ok := s.cache.getNodeInfo(node); ok && ni != nil {
			recorded = ni.podInfos
		}
		for i, o := range objs {
			ts := as[i].Times[len(as[i].Times)-1]
			if r := recorded[o.UID]; r != nil {
				ts = r.timestamp
			} else {
				cnt["assigned_pod_absent_from_cache"]++
			}
			fclk.t = ts
			fresh.assign(node, o)
		}
		if len(recorded) > len(objs) {
			cnt["cache_holds_pod_not_assigned"]++
		}
		for _, q := range s.cfg.queries {
			got, gok, gerr := s.get(s.cache, node, q)
			want, wok, werr := s.get(fresh, node, q)
			if again, aok, aerr := s.get(s.cache, node, q); gerr == nil && aerr == nil && gok && aok && again != got {
				viol = append(viol, s.viol("query-not-read-only", q.Name, fmt.Sprintf(
					"node %s query %s: the same query answered %v and then %v after the caller added an incoming pod's estimate to the first answer in place (as Filter/Score do): the getter handed out the cache's own vector",
					node, q.Name, got, again)))
			}
			if gerr != nil || werr != nil {
				viol = append(viol, s.viol("query-error", q.Name, fmt.Sprintf("node %s: unexpected error %v / %v", node, gerr, werr)))
				continue
			}
			if gok != wok || got != want {
				viol = append(viol, s.viol("drift-vs-fresh", q.Name, fmt.Sprintf(
					"node %s query %s: incrementally kept estimate %v (present=%v) but a fresh cache fed the current metric %s and the assigned pods %s reports %v (present=%v) [cpu milli, memory bytes]",
					node, q.Name, got, gok, c08MetricDesc(mr), c08AssignedDesc(as), want, wok)))
			}
			if s.sink != "" {
				return viol[:1] // one report per transition into a rare-event finding
			}
			if !gok {
				cnt["state_query_no_metric"]++
				continue
			}
			// ---- independent reference band
			lo, hi, bst := c08RefBand(s.cfg.rc, mr.mv, mr.ut, q, as)
			unamb := bst.Unamb
			base, hasBase := mr.mv.baseUsage(q)
			switch {
			case !q.Prod && hasBase && !base.le(got):
				viol = append(viol, s.viol("below-reported-usage", q.Name, fmt.Sprintf("node %s query %s: estimate %v is below the reported usage %v", node, q.Name, got, base)))
			case !lo.le(got):
				viol = append(viol, s.viol("below-reference", q.Name, fmt.Sprintf(
					"node %s query %s: estimate %v is below the lowest value the statement admits %v (band %v..%v; metric %s; assigned %s)",
					node, q.Name, got, lo, lo, hi, c08MetricDesc(mr), c08AssignedDesc(as))))
			case !got.le(hi):
				viol = append(viol, s.viol("above-reference", q.Name, fmt.Sprintf(
					"node %s query %s: estimate %v is above the highest value the statement admits %v (band %v..%v; metric %s; assigned %s)",
					node, q.Name, got, hi, lo, hi, c08MetricDesc(mr), c08AssignedDesc(as))))
			}
			if s.sink != "" {
				return viol[:1]
			}
			if len(as) > 0 {
				cnt["judged_"+q.Name+"_with_pods"]++
				cnt["ref_pods_with_usage_estimate_counted"] += int64(bst.Counted)
				cnt["ref_pods_with_usage_already_reflected"] += int64(bst.Reflected)
				cnt["ref_pods_with_usage_either_admitted"] += int64(bst.Either)
				if lo != hi {
					cnt["judged_ambiguous_band"]++
				} else if unamb {
					cnt["judged_exact_reference"]++
				}
				if hasBase && got != base {
					cnt["judged_estimate_above_usage"]++
				}
				if hasBase && got == base {
					cnt["judged_estimate_equals_usage"]++
				}
			}
		}
		for _, p := range refs {
			if p.res == c08ResLive && p.inf == c08Bound {
				cnt["state_assumed_here_bound_elsewhere"]++
			}
			if p.resDeleted {
				cnt["state_assumed_pod_deleted_by_informer"]++
			}
		}
	}
	return viol
}

func c08MetricDesc(mr *c08MetricRef) string {
	if mr == nil {
		return "<none>"
	}
	return fmt.Sprintf("%s@%s", mr.mv.ID, c08Off(mr.ut))
}

func c08AssignedDesc(as []c08Assigned) string {
	var sb strings.Builder
	sb.WriteString("[")
	for i, a := range as {
		if i > 0 {
			sb.WriteString(" ")
		}
		ts := make([]string, len(a.Times))
		for j, t := range a.Times {
			ts[j] = c08Off(t)
		}
		fmt.Fprintf(&sb, "%s(class=%s req=%v lim=%v t=%s)", a.Spec.Name, a.Spec.class(), a.Spec.Req, a.Spec.Lim, strings.Join(ts, "/"))
	}
	sb.WriteString("]")
	return sb.String()
}

// Key: the complete cache content per node (every field that feeds an estimate or a later add/delete, pod objects
// by their description) + the reference ledger + the clock. Absolute times are offsets from a fixed base and only
// advance through tick(), so they are bounded by the depth.
func (s *c08Sys) Key() string {
	if s.cfg.rare && s.tag() != "plain" {
		// a state in which a rare-event finding is established is merged into one sink per class, i.e. the search
		// does not continue behind it (every transition INTO such a state is still judged and reported). The engine
		// takes the key before it runs the state oracle, so the (read-only) oracle is consulted here.
		s.quiet = true
		s.Invariants()
		s.quiet = false
		if s.sink != "" {
			return "SINK|" + s.sink
		}
	}
	var sb strings.Builder
	vz := s.cache.vectorizer
	for _, node := range s.cfg.nodes {
		ni, ok := s.cache.getNodeInfo(node)
		if !ok || ni == nil {
			fmt.Fprintf(&sb, "%s:-;", node)
			continue
		}
		if ni.nodeMetric != nil {
			fmt.Fprintf(&sb, "%s:ut=%s,ri=%d,del=%v,nu=%v,pu=%v,nd=%v,pd=%v,ne=%v,pods=", node, c08Off(ni.updateTime),
				ni.reportInterval/time.Second, ni.deleted, ni.nodeUsage, ni.prodUsage, ni.nodeDelta, ni.prodDelta, ni.nodeEstimated)
		} else {
			// without a metric object every sum is dead: each read and each incremental add/delete is guarded by
			// nodeMetric != nil and the next metric overwrites all of them (only updateTime can survive)
			fmt.Fprintf(&sb, "%s:nometric,ut=%s,del=%v,pods=", node, c08Off(ni.updateTime), ni.deleted)
		}
		uids := make([]string, 0, len(ni.podInfos))
		for u := range ni.podInfos {
			uids = append(uids, string(u))
		}
		sort.Strings(uids)
		for _, u := range uids {
			pi := ni.podInfos[types.UID(u)]
			fmt.Fprintf(&sb, "%s@%s/%s/%v/%s,", u, c08Off(pi.timestamp), c08Off(pi.estimatedDeadline), c08FromVector(vz, pi.estimated), s.descs[pi.pod])
		}
		if mr := s.metric[node]; mr != nil {
			fmt.Fprintf(&sb, "ref=%s@%s", mr.mv.ID, c08Off(mr.ut))
		}
		sb.WriteString(";")
	}
	for _, node := range s.cfg.nodes {
		if _, ok := s.cache.getNodeInfo(node); !ok {
			if mr := s.metric[node]; mr != nil {
				fmt.Fprintf(&sb, "%s:ref=%s@%s;", node, mr.mv.ID, c08Off(mr.ut))
			}
		}
	}
	for _, p := range s.pods {
		fmt.Fprintf(&sb, "%s:%d,%s,res=%d@%s/%s,tf=%s,tl=%s,%v%v%v;", p.kind.Name, p.inf, p.spec.desc(), p.res, p.resNode, c08Off(p.tRes),
			c08Off(p.tFirst), c08Off(p.tLast), p.staleMeta, p.lateUnres, p.resDeleted)
	}
	fmt.Fprintf(&sb, "t=%d", s.ticks)
	return sb.String()
}

// ---------------------------------------------------------------------------------------------------------------
// alphabets

func c08Kinds(custom bool) []*c08Kind {
	x := &c08Kind{Name: "x", Base: c08PodSpec{Name: "x", Label: extension.PriorityProd, Flavor: c08Native, Req: c08Vec{1000, 10 * c08M}, Lim: c08Vec{2000, 20 * c08M},
		Phase: corev1.PodPending, Window: -1}, AltReq: c08Vec{1000, 10 * c08M}, AltLim: c08Vec{3000, 20 * c08M}, FlipLabel: extension.PriorityBatch}
	y := &c08Kind{Name: "y", Base: c08PodSpec{Name: "y", Label: extension.PriorityBatch, Flavor: c08Batch, Req: c08Vec{2000, 20 * c08M}, Lim: c08Vec{2000, 20 * c08M},
		Phase: corev1.PodPending, Window: -1}, AltReq: c08Vec{1000, 10 * c08M}, AltLim: c08Vec{1000, 10 * c08M}, FlipLabel: extension.PriorityProd}
	z := &c08Kind{Name: "z", Base: c08PodSpec{Name: "z", Prio: extension.PriorityProdValueDefault, Flavor: c08Native, Req: c08Vec{500, 5 * c08M},
		Phase: corev1.PodPending, Window: -1}, AltReq: c08Vec{800, 5 * c08M}, FlipPrio: extension.PriorityBatchValueDefault}
	if custom {
		y.Base.Factors = `{"cpu":50}`
		x.Base.Window = 150
		x.AltWindow = -1
	}
	return []*c08Kind{x, y, z}
}

func c08MetricVars() (main []*c08MetricVar, second []*c08MetricVar) {
	agg := map[c08AggKey]c08Vec{
		{extension.P95, 5 * time.Minute}:  {3500, 45 * c08M},
		{extension.P95, 10 * time.Minute}: {3200, 42 * c08M},
		{extension.AVG, 5 * time.Minute}:  {2800, 38 * c08M},
	}
	all := map[string]c08PodUsage{
		"x": {c08Vec{300, 25 * c08M}, true},   // cpu below, memory above the estimate
		"y": {c08Vec{2500, 30 * c08M}, false}, // above the estimate
		"z": {c08Vec{100, 1 * c08M}, true},    // below the estimate
	}
	mis := map[string]c08PodUsage{
		"x": {c08Vec{1800, 5 * c08M}, false}, // reported as non-prod although the pod claims prod
		"y": {c08Vec{400, 4 * c08M}, true},   // reported as prod although the pod claims batch
		"w": {c08Vec{700, 7 * c08M}, true},   // leaked: a prod pod the scheduler does not (or no longer) know on this node
	}
	main = []*c08MetricVar{
		{ID: "empty", Empty: true},
		{ID: "all@0", Usage: c08Vec{3000, 40 * c08M}, Sys: c08Vec{200, 2 * c08M}, Agg: agg, Pods: all},
		{ID: "all@30", Usage: c08Vec{3000, 40 * c08M}, Sys: c08Vec{200, 2 * c08M}, Agg: agg, Pods: all, Behind: 30 * time.Second},
		{ID: "mismatch@0,interval30", Usage: c08Vec{1000, 10 * c08M}, Sys: c08Vec{100, 1 * c08M}, Pods: mis, Interval: 30},
		{ID: "nopods@0", Usage: c08Vec{500, 5 * c08M}},
	}
	second = []*c08MetricVar{
		{ID: "all@0", Usage: c08Vec{2000, 20 * c08M}, Sys: c08Vec{100, 1 * c08M}, Pods: all},
	}
	return
}

var c08Queries = []c08Query{
	{Name: "prod", Prod: true},
	{Name: "node"},
	{Name: "agg-p95-5m", Type: extension.P95, Dur: 5 * time.Minute},
	{Name: "agg-p95-longest", Type: extension.P95},
	{Name: "agg-p95-1h-unreported", Type: extension.P95, Dur: time.Hour},
	{Name: "agg-p50-unreported-type", Type: extension.P50},
}

func c08Args(window int64, custom, includeSys bool) *config.LoadAwareSchedulingArgs {
	a := &config.LoadAwareSchedulingArgs{
		EstimatedScalingFactors:  map[corev1.ResourceName]int64{corev1.ResourceCPU: 85, corev1.ResourceMemory: 70},
		UsageThresholds:          map[corev1.ResourceName]int64{corev1.ResourceCPU: 65, corev1.ResourceMemory: 95},
		AllowCustomizeEstimation: custom,
		ProdUsageIncludeSys:      includeSys,
	}
	if window > 0 {
		a.EstimatedSecondsAfterPodScheduled = c08Ptr(window)
	}
	return a
}

func c08Configs(env *mc.Env) []*c08Cfg {
	m1, m2 := c08MetricVars()
	pick := func(ks []*c08Kind, names string) []*c08Kind {
		var out []*c08Kind
		for _, k := range ks {
			if strings.Contains(names, k.Name) {
				out = append(out, k)
			}
		}
		return out
	}
	var cfgs []*c08Cfg
	add := func(c *c08Cfg) {
		c.rc = c08RefCfgOf(c.args)
		c.queries = c08Queries
		c.ops = c08BuildOps(c)
		cfgs = append(cfgs, c)
	}
	// estimation window + custom estimation annotations + system usage counted for prod
	add(&c08Cfg{name: "1node-window-xy", args: c08Args(90, true, true), nodes: []string{"n1"}, kinds: pick(c08Kinds(true), "xy"),
		metrics: map[string][]*c08MetricVar{"n1": {m1[1], m1[2], m1[3]}}, depth: [2]int{5, 7}, tick: 61 * time.Second})
	// two nodes: nodeName changes, binding to another node than the assumed one
	add(&c08Cfg{name: "2nodes-xz", args: c08Args(0, false, false), nodes: []string{"n1", "n2"}, kinds: pick(c08Kinds(false), "xz"),
		metrics: map[string][]*c08MetricVar{"n1": {m1[1], m1[3]}, "n2": m2}, depth: [2]int{5, 6}, tick: 90 * time.Second})
	// rare but producible events, reported under their own keys (VERIF_C08_SKIP_RARE=1 leaves the part out, e.g. to
	// look at mutants while its findings are not yet registered in known_findings.json)
	if os.Getenv("VERIF_C08_SKIP_RARE") == "" {
		add(&c08Cfg{name: "1node-rare-xy", args: c08Args(90, true, false), nodes: []string{"n1"}, kinds: pick(c08Kinds(true), "xy"), rare: true,
			metrics: map[string][]*c08MetricVar{"n1": {m1[1], m1[3]}}, depth: [2]int{5, 6}})
	}
	// one node, default arguments, all three pods (the largest part runs last and gets the remaining time)
	add(&c08Cfg{name: "1node-xyz", args: c08Args(0, false, false), nodes: []string{"n1"}, kinds: pick(c08Kinds(false), "xyz"),
		metrics: map[string][]*c08MetricVar{"n1": m1}, depth: [2]int{5, 6}})
	return cfgs
}

// c08HistParts runs the BFS parts one after the other; each part gets its share of what is left of the time budget
// (a slow machine caps the later parts instead of starving them).
func c08HistParts(env *mc.Env) {
	total := env.Budget
	defer func() { env.Budget = total }()
	cfgs := c08Configs(env)
	for ci, cfg := range cfgs {
		cfg := cfg
		left := total - env.Elapsed()
		if left < 0 {
			left = 0
		}
		t0 := env.Elapsed()
		env.Budget = t0 + left/time.Duration(len(cfgs)-ci)
		res := mc.NewResult("C08", "hist-"+cfg.name, "bfs")
		names := make([]string, len(cfg.ops))
		for i, o := range cfg.ops {
			names[i] = o.name
		}
		res.Rule = fmt.Sprintf("BFS over all event sequences of the %d-event alphabet %v on the real Plugin.Reserve/Unreserve, podAssignCache pod handlers and node-metric handlers; "+
			"states deduplicated by the complete cache content + reference ledger + clock; every state judged per node for the %d queries the plugin can issue", len(cfg.ops), names, len(cfg.queries))
		res.Assumptions = []string{
			"pods are known to the informer as pending before they are reserved; informer updates carry as old object the object delivered last; terminated/deleted is final per UID; Unreserve only follows a Reserve of the same pod and node",
			"spec.nodeName changes of a bound pod and bindings to a node other than the assumed one are fed although the API server / a single scheduler would not produce them (the property's quantifier names node changes and the handler has a branch for them)",
			"node metrics carry an update time whenever they carry usage (koordlet writes both in one status update); a metric without status models a freshly created NodeMetric object",
			"EstimatedSecondsAfterInitialized is not configured; pod amounts are multiples of 100m / 100Mi so that scaled estimates are integral",
		}
		if cfg.rare {
			res.Assumptions = append(res.Assumptions, "part "+cfg.name+": additionally metadata-only pod updates (priority-class label, custom estimation annotation; the koordinator webhook forbids the former) and an Unreserve that arrives after the informer already confirmed the binding (bind call failed client-side but succeeded server-side)")
		}
		repeats := env.Pick(0, 1)
		b := &mc.BFS{Res: res, Env: env, New: func() mc.System { return c08NewSys(cfg, res) }, NumOps: len(cfg.ops),
			OpName: func(i int) string { return cfg.ops[i].name }, MaxDepth: env.Pick(cfg.depth[0], cfg.depth[1]), Repeats: repeats}
		b.Run()
		if res.Bounds == nil {
			res.Bounds = map[string]any{}
		}
		res.Bounds["nodes"] = len(cfg.nodes)
		res.Bounds["pods"] = len(cfg.kinds)
		res.Bounds["map_order_repeats"] = repeats
		res.WallS = (env.Elapsed() - t0).Seconds()
		if env.Replay != "" && res.Traces == 0 {
			continue // the replay file belongs to another part
		}
		env.Emit(res)
	}
}

// TestVerifC08 is the single entry point: the parts share one result file.
func TestVerifC08(t *testing.T) {
	env := mc.LoadEnv()
	c08FilterParts(env)
	c08HistParts(env)
}
