package nodenumaresource

// C06 part (b) histories: explicit-state BFS (replay based) over allocate+commit / release / re-commit (same and a
// different allocation) of three pods on the real resourceManager + NodeAllocation.
//   alloc(p,spec)   = resourceManager.Allocate (what Reserve calls) and, on success, resourceManager.Update (commit)
//   release(p)      = resourceManager.Release (Unreserve / pod delete; also delivered for a pod that holds nothing)
//   recommit(p)     = resourceManager.Update with the allocation p already holds (informer echo of the annotated pod)
//   recommit-alt(p) = resourceManager.Update with another allocation for p (annotation written by another scheduler
//                     instance / before a restart); only produced when that allocation is free for p, see assumptions
//   alloc(x as owner of reservation y) = resourceManager.Allocate with preferredCPUs = the CPUs recorded for pod y
//                     (what tryAllocateFromReusable passes for a Default/Aligned reservation: every CPU of the reserve
//                     pod, consumed or not) + commit. The reserve pod stays recorded as a pod, so a consumed reserved
//                     CPU has RefCount = owners + 1, exactly as the plugin accounts it.
// Reference model: map pod -> (CPU bit mask, per-NUMA milli amounts) kept by this file.
// Oracle: on every successful Allocate the clauses of part (a) plus, with a hint, sum == request and per node <=
// free (for an owner of reservation y a CPU is free when its holders, NOT counting y's own reference, are below the
// sharing limit: a reserved CPU another pod already consumed is not free again);
// in every state: for every CPU RefCount == number of live pods holding it, and that number -- not counting a
// reservation on the CPUs one of its owners holds -- is <= the sharing limit, the recorded pods
// are the live pods, allocatedResources[node] == sum of the live pods' amounts; commit followed by release gives
// back the ledger as it was (amounts and ref counts).

import (
	"fmt"
	"math/bits"
	"sort"
	"strings"
	"testing"
	"time"

	corev1 "k8s.io/api/core/v1"
	"k8s.io/apimachinery/pkg/api/resource"
	"k8s.io/apimachinery/pkg/types"

	schedulingconfig "github.com/koordinator-sh/koordinator/pkg/scheduler/apis/config"
	"github.com/koordinator-sh/koordinator/pkg/scheduler/frameworkext/topologymanager"
	"github.com/koordinator-sh/koordinator/pkg/util/bitmask"
	"github.com/koordinator-sh/koordinator/pkg/util/cpuset"
	"github.com/koordinator-sh/koordinator/pkg/zzverif/mc"
)

type c06Spec struct {
	N        int // CPUs (CPUBind) -- also the cpu amount requested from the hinted NUMA nodes
	Bind     int // index into c06BindPolicies
	Excl     schedulingconfig.CPUExclusivePolicy
	CPUBind  bool
	Hint     []int // nil = allocate without NUMA hint (no per-NUMA amounts recorded)
	Mem      int64 // memory units requested (with a hint)
	MilliCPU int64 // shared milli-CPU for pods that do not bind CPUs (with a hint)
}

func (s c06Spec) String() string {
	if !s.CPUBind {
		return fmt.Sprintf("shared %dm mem%d hint%v", s.MilliCPU, s.Mem, s.Hint)
	}
	h := ""
	if s.Hint != nil {
		h = fmt.Sprintf(" mem%d hint%v", s.Mem, s.Hint)
	}
	return fmt.Sprintf("%dcpu %s excl=%s%s", s.N, c06BindPolicies[s.Bind].Name, s.Excl, h)
}

type c06RefPod struct {
	cpus uint32
	excl schedulingconfig.CPUExclusivePolicy
	numa map[int]map[string]int64 // node -> resource -> milli
	// resvOf: 0 = a plain allocation; 1+y = this pod was allocated as an owner of "reservation" pod y, i.e. with
	// preferred CPUs = the CPUs recorded for y (the plugin restores one reference of each of them)
	resvOf int
}

// c06From is the event "allocate pod X as an owner of the reservation held by pod Y, and commit": what
// tryAllocateFromReusable does for a Default/Aligned reservation -- resourceManager.Allocate with preferredCPUs = all
// CPUs recorded for the reserve pod (allocated and remaining ones), the reserve pod itself staying recorded as a pod.
type c06From struct {
	X, Y int
	Spec c06Spec
}

type c06HistCfg struct {
	Name       string
	L          *c06Layout
	topo       *CPUTopology
	MaxRef     int
	Reserved   uint32
	Strat      schedulingconfig.NUMAAllocateStrategy
	MemPerNode int64
	Specs      [3][]c06Spec
	Alts       [3]c06RefPod
	Froms      []c06From
	res        *mc.Result
}

var c06PodNames = []string{"a", "b", "c"}

const (
	c06SpecsPerPod = 4
	c06OpsPerPod   = c06SpecsPerPod + 3
)

func (c *c06HistCfg) opName(op int) string {
	if op >= 3*c06OpsPerPod {
		f := c.Froms[op-3*c06OpsPerPod]
		return fmt.Sprintf("alloc+commit(%s as owner of reservation %s: %s)", c06PodNames[f.X], c06PodNames[f.Y], f.Spec)
	}
	p, k := op/c06OpsPerPod, op%c06OpsPerPod
	switch {
	case k < c06SpecsPerPod:
		return fmt.Sprintf("alloc+commit(%s: %s)", c06PodNames[p], c.Specs[p][k])
	case k == c06SpecsPerPod:
		return fmt.Sprintf("release(%s)", c06PodNames[p])
	case k == c06SpecsPerPod+1:
		return fmt.Sprintf("recommit-same(%s)", c06PodNames[p])
	}
	return fmt.Sprintf("recommit-alt(%s: cpus%v %s)", c06PodNames[p], c06MaskList(c.Alts[p].cpus), c06AmountsString(c.Alts[p].numa))
}

func (c *c06HistCfg) capacity(node int, resName string) int64 {
	if resName == "cpu" {
		return int64(bits.OnesCount32(c.L.NodeMask[node]&^c.Reserved)) * 1000
	}
	return c.MemPerNode * 1000
}

type c06Sys struct {
	cfg  *c06HistCfg
	rm   *resourceManager
	live map[int]*c06RefPod
}

func c06NewSys(cfg *c06HistCfg) *c06Sys {
	numa := make([]NUMANodeResource, cfg.L.NumNodes)
	for node := range numa {
		numa[node] = NUMANodeResource{Node: node, Resources: corev1.ResourceList{
			corev1.ResourceCPU:    *resource.NewMilliQuantity(cfg.capacity(node, "cpu"), resource.DecimalSI),
			corev1.ResourceMemory: *resource.NewQuantity(cfg.MemPerNode, resource.BinarySI),
		}}
	}
	rm, _ := c06NewManager(cfg.topo, cfg.MaxRef, cfg.Reserved, numa)
	rm.numaAllocateStrategy = cfg.Strat
	return &c06Sys{cfg: cfg, rm: rm, live: map[int]*c06RefPod{}}
}

// reference views ----------------------------------------------------------------------------------------------

func (s *c06Sys) holders(id int, except int) int {
	h := 0
	for p, rp := range s.live {
		if p != except && rp.cpus&(1<<uint(id)) != 0 {
			h++
		}
	}
	return h
}

func (s *c06Sys) freeFor(except int) uint32 {
	var m uint32
	for id := 0; id < s.cfg.L.N; id++ {
		if s.cfg.Reserved&(1<<uint(id)) == 0 && s.holders(id, except) < s.cfg.MaxRef {
			m |= 1 << uint(id)
		}
	}
	return m
}

// freeForOwnerOf: the CPUs free for a pod that consumes the reservation held by live pod y: one reference of y on
// its own CPUs does not count -- but every other holder does (a reserved CPU that another owner already took is not
// free again).
func (s *c06Sys) freeForOwnerOf(y int) uint32 {
	var m uint32
	ry := s.live[y]
	for id := 0; id < s.cfg.L.N; id++ {
		h := s.holders(id, -1)
		if ry != nil && ry.cpus&(1<<uint(id)) != 0 {
			h--
		}
		if s.cfg.Reserved&(1<<uint(id)) == 0 && h < s.cfg.MaxRef {
			m |= 1 << uint(id)
		}
	}
	return m
}

func (s *c06Sys) ledgerRef(node int, resName string, except int) int64 {
	var sum int64
	for p, rp := range s.live {
		if p != except {
			sum += rp.numa[node][resName]
		}
	}
	return sum
}

func c06ToAllocation(p int, rp *c06RefPod) *PodAllocation {
	a := &PodAllocation{UID: types.UID(c06PodNames[p]), Name: c06PodNames[p], Namespace: "default", CPUSet: c06MaskToSet(rp.cpus), CPUExclusivePolicy: rp.excl}
	nodes := make([]int, 0, len(rp.numa))
	for node := range rp.numa {
		nodes = append(nodes, node)
	}
	sort.Ints(nodes)
	for _, node := range nodes {
		rl := corev1.ResourceList{}
		for name, v := range rp.numa[node] {
			rl[corev1.ResourceName(name)] = *resource.NewMilliQuantity(v, resource.DecimalSI)
		}
		a.NUMANodeResources = append(a.NUMANodeResources, NUMANodeResource{Node: node, Resources: rl})
	}
	return a
}

func c06FromAllocation(a *PodAllocation, n int) (*c06RefPod, string) {
	mask, bad := c06SetToMask(a.CPUSet, n)
	rp := &c06RefPod{cpus: mask, excl: a.CPUExclusivePolicy, numa: map[int]map[string]int64{}}
	for _, r := range a.NUMANodeResources {
		for name, q := range r.Resources {
			if rp.numa[r.Node] == nil {
				rp.numa[r.Node] = map[string]int64{}
			}
			rp.numa[r.Node][string(name)] += c06Milli(q)
		}
	}
	return rp, bad
}

// events ---------------------------------------------------------------------------------------------------------

func (s *c06Sys) Apply(op int, check bool) (bool, []mc.Violation) {
	cfg := s.cfg
	if op >= 3*c06OpsPerPod {
		f := cfg.Froms[op-3*c06OpsPerPod]
		if s.live[f.X] != nil || s.live[f.Y] == nil || s.live[f.Y].cpus == 0 {
			return false, nil
		}
		return true, s.alloc(f.X, c06SpecsPerPod+f.Y, f.Spec, f.Y, check)
	}
	p, k := op/c06OpsPerPod, op%c06OpsPerPod
	uid := types.UID(c06PodNames[p])
	switch {
	case k < c06SpecsPerPod:
		if s.live[p] != nil {
			return false, nil
		}
		return true, s.alloc(p, k, cfg.Specs[p][k], -1, check)
	case k == c06SpecsPerPod:
		s.rm.Release(c06Node, uid)
		if s.live[p] != nil && check {
			cfg.res.Count("release_of_live_pod", 1)
		}
		delete(s.live, p)
		return true, nil
	case k == c06SpecsPerPod+1:
		rp := s.live[p]
		if rp == nil {
			return false, nil
		}
		s.rm.Update(c06Node, c06ToAllocation(p, rp))
		if check {
			cfg.res.Count("recommit_same", 1)
		}
		return true, nil
	}
	alt := cfg.Alts[p]
	if alt.cpus&^s.freeFor(p) != 0 {
		return false, nil
	}
	for node, m := range alt.numa {
		for name, v := range m {
			if s.ledgerRef(node, name, p)+v > cfg.capacity(node, name) {
				return false, nil
			}
		}
	}
	cp := alt
	s.rm.Update(c06Node, c06ToAllocation(p, &cp))
	if check {
		if s.live[p] != nil {
			cfg.res.Count("recommit_alt_replacing_live_allocation", 1)
		} else {
			cfg.res.Count("recommit_alt_as_first_commit", 1)
		}
	}
	s.live[p] = &cp
	return true, nil
}

func (s *c06Sys) alloc(p, k int, spec c06Spec, from int, check bool) (viol []mc.Violation) {
	cfg, l := s.cfg, s.cfg.L
	bp := c06BindPolicies[spec.Bind]
	cpuQ := *resource.NewQuantity(int64(spec.N), resource.DecimalSI)
	if !spec.CPUBind {
		cpuQ = *resource.NewMilliQuantity(spec.MilliCPU, resource.DecimalSI)
	}
	requests := corev1.ResourceList{corev1.ResourceCPU: cpuQ}
	if spec.Mem > 0 {
		requests[corev1.ResourceMemory] = *resource.NewQuantity(spec.Mem, resource.BinarySI)
	}
	opts := &ResourceOptions{
		requestCPUBind: spec.CPUBind, requests: requests, originalRequests: requests.DeepCopy(),
		requiredCPUBindPolicy: bp.Required && spec.CPUBind, cpuBindPolicy: bp.Policy, cpuExclusivePolicy: spec.Excl,
		preferredCPUs: cpuset.NewCPUSet(), preemptibleCPUs: cpuset.NewCPUSet(),
		topologyOptions: s.rm.topologyOptionsManager.GetTopologyOptions(c06Node),
	}
	if spec.CPUBind {
		opts.numCPUsNeeded = spec.N
	}
	if from >= 0 {
		opts.preferredCPUs = c06MaskToSet(s.live[from].cpus)
	}
	if spec.Hint != nil {
		mask, err := bitmask.NewBitMask(spec.Hint...)
		if err != nil {
			panic(err)
		}
		opts.hint = topologymanager.NUMATopologyHint{NUMANodeAffinity: mask}
	}
	a, st := s.rm.Allocate(c06NodeObj(), c06PodObj(c06PodNames[p]), opts)
	if !st.IsSuccess() || a == nil {
		if check {
			cfg.res.Count("alloc_refused", 1)
		}
		return nil
	}
	rp, bad := c06FromAllocation(a, l.N)
	rp.resvOf = from + 1
	if check {
		cfg.res.Count("alloc_success", 1)
		cfg.res.Count(fmt.Sprintf("alloc_success_%s%d", c06PodNames[p], k), 1)
		replay := fmt.Sprintf("pod %s spec {%s} got cpus %v numa %s", c06PodNames[p], spec, a.CPUSet.ToSlice(), c06AmountsString(rp.numa))
		add := func(key, what string) {
			viol = append(viol, mc.Violation{Key: "C06|hist|" + key, What: what + " -- " + replay})
		}
		free := s.freeFor(-1)
		if from >= 0 {
			free = s.freeForOwnerOf(from)
			replay += fmt.Sprintf(" as owner of reservation %s (cpus %v)", c06PodNames[from], c06MaskList(s.live[from].cpus))
			cfg.res.Count("alloc_as_reservation_owner_success", 1)
			if rp.cpus&s.live[from].cpus != 0 {
				cfg.res.Count("alloc_as_reservation_owner_took_reserved_cpus", 1)
			}
			if s.live[from].cpus&^free != 0 {
				cfg.res.Count("alloc_as_reservation_owner_while_part_of_the_reservation_is_not_free_for_it", 1)
			}
		}
		if bad != "" {
			add("malformed-set", bad)
		}
		if spec.CPUBind && bad == "" {
			cnt := bits.OnesCount32(rp.cpus)
			switch {
			case cnt != spec.N:
				add("wrong-count", fmt.Sprintf("asked for %d CPUs, success returned %d", spec.N, cnt))
			case rp.cpus&cfg.Reserved != 0:
				add("reserved-cpu-handed-out", fmt.Sprintf("result contains reserved CPUs %v", c06MaskList(rp.cpus&cfg.Reserved)))
			case rp.cpus&^free != 0:
				add("cpu-not-free", fmt.Sprintf("result contains CPUs %v that are not free for this pod (sharing limit %d); reference: %s", c06MaskList(rp.cpus&^free), cfg.MaxRef, s.refString()))
			}
			if cfg.MaxRef > 1 {
				for id := 0; id < l.N; id++ {
					if rp.cpus&(1<<uint(id)) != 0 && s.holders(id, -1) > 0 {
						cfg.res.Count("alloc_took_cpu_shared_below_limit", 1)
						break
					}
				}
			}
			if bp.Required {
				switch bp.Policy {
				case schedulingconfig.CPUBindPolicyFullPCPUs:
					cfg.res.Count("alloc_required_FullPCPUs_reported_satisfied", 1)
					if !l.fullCores(rp.cpus) {
						add("FullPCPUs-reported-satisfied-but-partial-core", "a core is owned only partly")
					}
				case schedulingconfig.CPUBindPolicySpreadByPCPUs:
					cfg.res.Count("alloc_required_SpreadByPCPUs_reported_satisfied", 1)
					if !l.onePerCore(rp.cpus) {
						add("SpreadByPCPUs-reported-satisfied-but-two-on-a-core", "two CPUs of one core")
					}
				}
			}
		}
		if spec.Hint != nil {
			cfg.res.Count("alloc_success_with_numa_hint", 1)
			if len(spec.Hint) > 1 {
				cfg.res.Count("alloc_success_with_multi_node_hint", 1)
			}
			for name, q := range requests {
				var sum int64
				for node := 0; node < l.NumNodes; node++ {
					v := rp.numa[node][string(name)]
					sum += v
					if freeN := cfg.capacity(node, string(name)) - s.ledgerRef(node, string(name), -1); v > freeN {
						add("numa-over-node-free", fmt.Sprintf("node %d hands out %dm of %s but had only %dm free", node, v, name, freeN))
					}
				}
				for node := range rp.numa {
					if node < 0 || node >= l.NumNodes {
						add("numa-unknown-node", fmt.Sprintf("allocation names NUMA node %d", node))
					}
				}
				if sum != c06Milli(q) {
					add("numa-sum-ne-request", fmt.Sprintf("per-node amounts of %s sum to %dm, requested %dm", name, sum, c06Milli(q)))
				}
			}
		}
		// commit followed by release gives the ledger back (amounts and ref counts); then commit again below.
		na := s.rm.getOrCreateNodeAllocation(c06Node)
		before, beforeMarks := c06Ledger(na, false), c06Ledger(na, true)
		s.rm.Update(c06Node, a)
		s.rm.Release(c06Node, a.UID)
		if after := c06Ledger(na, false); after != before {
			add("release-does-not-undo-commit", "ledger before commit:\n"+before+"after commit+release:\n"+after)
		} else if c06Ledger(na, true) != beforeMarks {
			cfg.res.Count("diag_exclusive_marks_or_numa_status_differ_after_commit_release", 1)
		}
	}
	s.rm.Update(c06Node, a)
	s.live[p] = rp
	return viol
}

// state-level oracle -------------------------------------------------------------------------------------------------

func (s *c06Sys) Invariants() (viol []mc.Violation) {
	cfg, l := s.cfg, s.cfg.L
	na := s.rm.getOrCreateNodeAllocation(c06Node)
	add := func(key, what string) {
		viol = append(viol, mc.Violation{Key: "C06|hist|" + key, What: what + "\nledger:\n" + c06Ledger(na, false) + "reference: " + s.refString()})
	}
	shared, resvShared := false, false
	for id := 0; id < l.N; id++ {
		rc := 0
		if info, ok := na.allocatedCPUs[id]; ok {
			rc = info.RefCount
		}
		h := s.holders(id, -1)
		if rc != h {
			add("refcount-ne-holders", fmt.Sprintf("CPU %d: RefCount %d but %d live pod(s) hold it", id, rc, h))
		}
		// a reservation's own reference does not count against the limit where one of its owners holds the CPU
		discount := 0
		for r, rr := range s.live {
			if rr.cpus&(1<<uint(id)) == 0 {
				continue
			}
			for x, rx := range s.live {
				if x != r && rx.resvOf == r+1 && rx.cpus&(1<<uint(id)) != 0 {
					discount++
					break
				}
			}
		}
		if discount > 0 {
			resvShared = true
		}
		if h-discount > cfg.MaxRef {
			add("cpu-held-beyond-sharing-limit", fmt.Sprintf("CPU %d is held by %d live pods (%d of them reservations consumed by one of the others), sharing limit %d", id, h, discount, cfg.MaxRef))
		}
		if h > 1 {
			shared = true
		}
	}
	for id := range na.allocatedCPUs {
		if id < 0 || id >= l.N {
			add("unknown-cpu-in-ledger", fmt.Sprintf("CPU id %d", id))
		}
	}
	if shared {
		cfg.res.Count("states_with_a_cpu_held_twice", 1)
	}
	if resvShared {
		cfg.res.Count("states_with_a_cpu_held_by_reservation_and_owner", 1)
	}
	if len(na.allocatedPods) != len(s.live) {
		add("recorded-pods-ne-live-pods", fmt.Sprintf("%d pods recorded, %d live", len(na.allocatedPods), len(s.live)))
	}
	nonzero := false
	for p, rp := range s.live {
		rec, ok := na.allocatedPods[types.UID(c06PodNames[p])]
		if !ok {
			add("recorded-pods-ne-live-pods", "live pod "+c06PodNames[p]+" is not recorded")
			continue
		}
		got, _ := c06FromAllocation(&rec, l.N)
		if got.cpus != rp.cpus || c06AmountsString(got.numa) != c06AmountsString(rp.numa) {
			add("pod-record-ne-allocation", fmt.Sprintf("pod %s recorded cpus %v numa %s", c06PodNames[p], c06MaskList(got.cpus), c06AmountsString(got.numa)))
		}
	}
	for node, r := range na.allocatedResources {
		if r == nil {
			continue
		}
		for name, q := range r.Resources {
			want := int64(0)
			if node >= 0 && node < l.NumNodes {
				want = s.ledgerRef(node, string(name), -1)
			}
			if c06Milli(q) != want {
				add("numa-ledger-ne-sum-of-live-pods", fmt.Sprintf("NUMA node %d %s: ledger %dm, live pods hold %dm", node, name, c06Milli(q), want))
			}
			if want != 0 {
				nonzero = true
			}
		}
		if r.Node != node {
			cfg.res.Count("diag_ledger_entry_Node_field_ne_map_key(never read)", 1)
		}
	}
	for node := 0; node < l.NumNodes; node++ {
		for _, name := range []string{"cpu", "memory"} {
			want := s.ledgerRef(node, name, -1)
			var have int64
			if r := na.allocatedResources[node]; r != nil {
				q := r.Resources[corev1.ResourceName(name)]
				have = c06Milli(q)
			}
			if have != want {
				add("numa-ledger-ne-sum-of-live-pods", fmt.Sprintf("NUMA node %d %s: ledger %dm, live pods hold %dm", node, name, have, want))
			}
		}
	}
	if nonzero {
		cfg.res.Count("states_with_nonzero_numa_ledger", 1)
	}
	if len(s.live) >= 2 {
		cfg.res.Count("states_with_two_or_more_live_pods", 1)
	}
	return viol
}

func (s *c06Sys) refString() string {
	var sb strings.Builder
	for p := 0; p < 3; p++ {
		if rp := s.live[p]; rp != nil {
			fmt.Fprintf(&sb, "%s:cpus%v excl=%q numa%s", c06PodNames[p], c06MaskList(rp.cpus), rp.excl, c06AmountsString(rp.numa))
			if rp.resvOf > 0 {
				fmt.Fprintf(&sb, " owner-of-reservation=%s", c06PodNames[rp.resvOf-1])
			}
			sb.WriteString("; ")
		}
	}
	return sb.String()
}

// Key: the reference model plus the complete real ledger including exclusive marks and the idle/single/shared NUMA
// bookkeeping (they influence later picks). Nothing in there is a counter or a timestamp.
func (s *c06Sys) Key() string {
	return s.refString() + "\n" + c06Ledger(s.rm.getOrCreateNodeAllocation(c06Node), true)
}

// configurations -----------------------------------------------------------------------------------------------------

func c06Amounts(l *c06Layout, cpus uint32, memByNode map[int]int64) map[int]map[string]int64 {
	out := map[int]map[string]int64{}
	for node := 0; node < l.NumNodes; node++ {
		c := int64(bits.OnesCount32(cpus&l.NodeMask[node])) * 1000
		m := memByNode[node] * 1000
		if c == 0 && m == 0 {
			continue
		}
		out[node] = map[string]int64{}
		if c != 0 {
			out[node]["cpu"] = c
		}
		if m != 0 {
			out[node]["memory"] = m
		}
	}
	return out
}

func c06HistConfigs(thorough bool) []*c06HistCfg {
	const (
		none = schedulingconfig.CPUExclusivePolicyNone
		pcpu = schedulingconfig.CPUExclusivePolicyPCPULevel
		numa = schedulingconfig.CPUExclusivePolicyNUMANodeLevel
	)
	const (
		dflt, fullP, fullR, spreadP, spreadR = 0, 1, 2, 3, 4
	)
	bind := func(n, b int, e schedulingconfig.CPUExclusivePolicy) c06Spec {
		return c06Spec{N: n, Bind: b, Excl: e, CPUBind: true}
	}
	hinted := func(n, b int, e schedulingconfig.CPUExclusivePolicy, mem int64, hint ...int) c06Spec {
		return c06Spec{N: n, Bind: b, Excl: e, CPUBind: true, Hint: hint, Mem: mem}
	}
	shared := func(milli, mem int64, hint ...int) c06Spec {
		return c06Spec{MilliCPU: milli, Mem: mem, Hint: hint}
	}
	var out []*c06HistCfg
	mk := func(name string, l *c06Layout, maxRef int, reserved uint32, strat schedulingconfig.NUMAAllocateStrategy, specs [3][]c06Spec, altCPUs [3]uint32, altMem [3]map[int]int64) {
		c := &c06HistCfg{Name: name, L: l, topo: l.topology(), MaxRef: maxRef, Reserved: reserved, Strat: strat, MemPerNode: 8, Specs: specs}
		for p := 0; p < 3; p++ {
			if len(specs[p]) != c06SpecsPerPod {
				panic("c06: every pod needs c06SpecsPerPod specs")
			}
			c.Alts[p] = c06RefPod{cpus: altCPUs[p], excl: []schedulingconfig.CPUExclusivePolicy{none, pcpu, numa}[p], numa: c06Amounts(l, altCPUs[p], altMem[p])}
		}
		// reservation-owner events: c acts as the reservation for a and b (so that it gets consumed piecewise: c; a from
		// c; b from c; release a; ...), b for c. The owners ask for few CPUs and without NUMA hint.
		big := 1
		if l.N >= 12 {
			big = 3
		}
		c.Froms = []c06From{
			{X: 0, Y: 2, Spec: bind(2, fullP, none)},
			{X: 1, Y: 2, Spec: bind(big, dflt, pcpu)},
			{X: 2, Y: 1, Spec: bind(1, spreadP, none)},
		}
		out = append(out, c)
	}
	// one NUMA node, 2 cores x 2 threads
	mk("1x1x2x2-limit1", c06NewLayout(1, 1, 2, 2, false), 1, 0, schedulingconfig.NUMAMostAllocated, [3][]c06Spec{
		{bind(2, fullR, pcpu), hinted(1, dflt, none, 3, 0), bind(1, spreadP, numa), hinted(2, spreadR, none, 1, 0)},
		{hinted(2, spreadR, none, 4, 0), bind(3, dflt, numa), bind(1, fullP, pcpu), shared(500, 2, 0)},
		{bind(1, fullP, pcpu), shared(1500, 5, 0), bind(2, dflt, none), hinted(4, fullR, pcpu, 8, 0)},
	}, [3]uint32{0b0110, 0b1000, 0b0011}, [3]map[int]int64{{0: 2}, {}, {0: 6}})
	// two NUMA nodes, one reserved CPU
	mk("1x2x2x2-limit1-reserved0", c06NewLayout(1, 2, 2, 2, false), 1, 0b1, schedulingconfig.NUMAMostAllocated, [3][]c06Spec{
		{hinted(2, fullR, pcpu, 2, 1), hinted(3, dflt, none, 10, 0, 1), bind(1, dflt, numa), hinted(2, spreadR, none, 5, 0)},
		{bind(2, spreadR, numa), hinted(4, fullP, none, 6, 0, 1), hinted(1, fullP, pcpu, 1, 1), bind(5, dflt, none)},
		{hinted(1, dflt, pcpu, 7, 0), shared(2500, 9, 0, 1), bind(3, spreadP, none), hinted(4, fullR, numa, 4, 0, 1)},
	}, [3]uint32{0b00110010, 0b11000000, 0b00001100}, [3]map[int]int64{{0: 1, 1: 3}, {1: 8}, {}})
	mk("1x2x2x2ilv-limit2", c06NewLayout(1, 2, 2, 2, true), 2, 0, schedulingconfig.NUMALeastAllocated, [3][]c06Spec{
		{bind(4, fullR, pcpu), hinted(5, dflt, none, 10, 0, 1), bind(3, spreadP, numa), hinted(2, fullR, none, 2, 0)},
		{bind(6, spreadP, numa), hinted(2, spreadR, none, 6, 1), bind(8, dflt, none), hinted(4, fullR, pcpu, 4, 0, 1)},
		{bind(7, dflt, none), hinted(8, fullP, pcpu, 3, 0, 1), bind(2, spreadR, pcpu), shared(3000, 7, 0, 1)},
	}, [3]uint32{0b00110011, 0b11110000, 0b01011010}, [3]map[int]int64{{0: 1, 1: 3}, {1: 5}, {}})
	// four NUMA nodes on two sockets, interleaved numbering, reserved CPUs on two nodes, hints that do not start at 0
	mk("2x2x2x2ilv-limit1-reserved", c06NewLayout(2, 2, 2, 2, true), 1, 1<<0|1<<13, schedulingconfig.NUMAMostAllocated, [3][]c06Spec{
		{hinted(4, fullR, pcpu, 6, 1, 2), hinted(6, dflt, none, 20, 0, 1, 2, 3), bind(3, dflt, numa), hinted(2, fullR, none, 3, 3)},
		{hinted(2, spreadR, numa, 8, 3), bind(5, fullP, none), hinted(3, dflt, pcpu, 5, 0, 2), bind(8, fullR, pcpu)},
		{hinted(2, spreadP, pcpu, 9, 2, 3), shared(3500, 12, 1, 3), bind(4, spreadR, none), hinted(1, dflt, numa, 1, 1)},
	}, [3]uint32{0b0000110000001100, 0b0001000001010000, 0b1100000011000000}, [3]map[int]int64{{1: 4}, {2: 8}, {3: 2}})
	if thorough {
		mk("2x2x2x2-limit2", c06NewLayout(2, 2, 2, 2, false), 2, 1<<15, schedulingconfig.NUMALeastAllocated, [3][]c06Spec{
			{bind(8, fullR, pcpu), hinted(9, dflt, none, 20, 0, 1, 2, 3), bind(3, spreadP, numa), hinted(4, fullR, none, 6, 2, 3)},
			{bind(10, spreadP, numa), hinted(4, spreadR, none, 6, 0, 1), bind(15, dflt, none), hinted(2, fullP, pcpu, 8, 1)},
			{bind(12, dflt, none), hinted(6, fullP, pcpu, 3, 2, 3), bind(6, spreadR, pcpu), shared(5000, 11, 0, 3)},
		}, [3]uint32{0b0000000011111111, 0b0000111111110000, 0b0111100000001111}, [3]map[int]int64{{0: 1, 1: 3}, {1: 5}, {}})
		mk("1x2x3x2-limit1", c06NewLayout(1, 2, 3, 2, false), 1, 0b100000000010, schedulingconfig.NUMALeastAllocated, [3][]c06Spec{
			{hinted(2, fullR, numa, 2, 1), hinted(5, dflt, none, 10, 0, 1), bind(1, spreadP, pcpu), bind(4, fullR, pcpu)},
			{bind(3, spreadR, pcpu), hinted(4, fullR, none, 6, 0, 1), hinted(2, dflt, numa, 8, 0), bind(6, dflt, none)},
			{hinted(1, dflt, pcpu, 7, 0), bind(6, spreadP, numa), shared(2500, 3, 0, 1), hinted(2, spreadR, none, 2, 1)},
		}, [3]uint32{0b000011001100, 0b001100000000, 0b000000110001}, [3]map[int]int64{{0: 1, 1: 3}, {1: 8}, {}})
		mk("2x1x2x1-limit2", c06NewLayout(2, 1, 2, 1, false), 2, 0b0100, schedulingconfig.NUMAMostAllocated, [3][]c06Spec{
			{bind(2, fullR, pcpu), hinted(1, dflt, none, 3, 1), bind(3, spreadP, numa), hinted(2, spreadR, none, 1, 0, 1)},
			{hinted(2, spreadR, none, 4, 0), bind(3, dflt, numa), bind(1, fullP, pcpu), shared(500, 2, 1)},
			{bind(1, fullP, pcpu), shared(1500, 5, 0, 1), bind(2, dflt, none), hinted(3, fullR, pcpu, 8, 0, 1)},
		}, [3]uint32{0b0011, 0b1000, 0b1001}, [3]map[int]int64{{0: 2}, {}, {1: 6}})
	}
	return out
}

func TestVerifC06Hist(t *testing.T) {
	env := mc.LoadEnv()
	cfgs := c06HistConfigs(env.Thorough())
	for ci, cfg := range cfgs {
		cfg := cfg
		// every configuration gets an equal share of what is left of the time budget (a cap in one configuration
		// must not starve the following ones); results are still emitted through the one process-wide env.
		sub := mc.LoadEnv()
		sub.Budget = (env.Budget - env.Elapsed()) / time.Duration(len(cfgs)-ci)
		res := mc.NewResult("C06", "hist-"+cfg.Name, "bfs")
		cfg.res = res
		res.Rule = "every sequence of {alloc+commit with one of four specs, release, recommit-same, recommit-alt} x pods {a,b,c} plus {alloc+commit a resp. b as owner of reservation c, c as owner of reservation b (preferred CPUs = the reserve pod's recorded CPUs)} up to the depth bound, states merged by (reference model, complete real ledger); " +
			"distinct = distinct reachable (reference, ledger) states"
		res.Assumptions = []string{
			"re-commits with a different allocation (resourceManager.Update from pod annotations) only carry CPU sets that are free for that pod and per-NUMA amounts that fit: the environment does not itself report two pods on one exclusive CPU",
			"one node; the CPU topology, reserved CPUs and sharing limit do not change during a history",
			"reservation owners are allocated the Default/Aligned way (preferred = all CPUs of the reserve pod) and without NUMA hint; the Restricted policy's second pass (preferred = remaining CPUs only), reusable NUMA amounts and preemption restore are not modelled",
		}
		specs := map[string]any{}
		for p := 0; p < 3; p++ {
			var list []string
			for _, sp := range cfg.Specs[p] {
				list = append(list, sp.String())
			}
			specs[c06PodNames[p]] = append(list, "alt: "+fmt.Sprint(c06MaskList(cfg.Alts[p].cpus))+" "+c06AmountsString(cfg.Alts[p].numa))
		}
		res.Bounds = map[string]any{"topology": cfg.L.Name, "max_ref_count": cfg.MaxRef, "reserved": c06MaskList(cfg.Reserved), "pods": specs}
		b := &mc.BFS{Res: res, Env: sub, New: func() mc.System { return c06NewSys(cfg) }, NumOps: 3*c06OpsPerPod + len(cfg.Froms),
			OpName: cfg.opName, MaxDepth: env.Pick(6, 9), Repeats: 1}
		b.Run() // (in replay mode the engine re-executes the stored history of the matching part instead)
		for p := 0; p < 3 && env.Replay == ""; p++ {
			for k := 0; k < c06SpecsPerPod; k++ {
				if res.Counters[fmt.Sprintf("alloc_success_%s%d", c06PodNames[p], k)] == 0 {
					res.Diag(fmt.Sprintf("vacuity warning: spec %d of pod %s (%s) never allocated successfully", k, c06PodNames[p], cfg.Specs[p][k]))
				}
			}
		}
		for _, f := range cfg.Froms {
			if env.Replay == "" && res.Counters[fmt.Sprintf("alloc_success_%s%d", c06PodNames[f.X], c06SpecsPerPod+f.Y)] == 0 {
				res.Diag(fmt.Sprintf("vacuity warning: %s never allocated successfully as owner of reservation %s", c06PodNames[f.X], c06PodNames[f.Y]))
			}
		}
		env.Emit(res)
	}
}
