package nodenumaresource

// C06 part (c) NUMA split by hint: exhaustive enumeration, on the real code, of
//   NUMA node ids {0..N-1} (N = 2,3,4) x hint = EVERY non-empty subset of the ids (also hints not starting at node 0
//   and non-contiguous ones -- generateResourceHints really tries every mask) x per-node free amount from a small
//   alphabet x request 0..sum(free over the hint)+1 x resource kind.
// Seams: tryBestToDistributeEvenly directly, and resourceManager.Allocate (the function the plugin calls) on a
// ledger where "free" is total minus what an already committed pod holds.
// Oracle (statement only): success => sum of the per-node amounts == request, and per node amount <= that node's
// free amount; for a freely divisible resource (memory, shared milli-CPU): sum of free over the hinted nodes >=
// request => the allocation must succeed, whichever node ids the hint names.

import (
	"fmt"
	"math/bits"
	"os"
	"regexp"
	"testing"

	corev1 "k8s.io/api/core/v1"
	"k8s.io/apimachinery/pkg/api/resource"
	"k8s.io/apimachinery/pkg/types"

	schedulingconfig "github.com/koordinator-sh/koordinator/pkg/scheduler/apis/config"
	"github.com/koordinator-sh/koordinator/pkg/scheduler/frameworkext/topologymanager"
	"github.com/koordinator-sh/koordinator/pkg/util/bitmask"
	"github.com/koordinator-sh/koordinator/pkg/util/cpuset"
	"github.com/koordinator-sh/koordinator/pkg/zzverif/mc"
)

type c06NumaKind struct {
	Name      string
	Divisible bool  // the statement's "freely divisible": success is demanded whenever the hinted nodes have enough
	Unit      int64 // milli amount of one alphabet unit
	Step      int64 // request step in milli
	Memory    bool
	CPUBind   bool
	FullPCPUs bool
	Spread    bool // REQUIRED SpreadByPCPUs (one CPU per core: the usable CPUs of a NUMA node are half of it)
	WithMem   bool // additionally request memory (free vector reversed) in the same call: no cross-talk between resources
	ViaRM     bool // through resourceManager.Allocate on a ledger with a committed occupant
	CPUSet    bool // (ViaRM) on a real topology of N NUMA nodes x 4 cores x 2 threads whose CPUs are all free while a CPU-share occupant holds NUMA-level amounts: the CPU set built along the per-node shares is judged too
}

type c06NumaCase struct {
	Kind    string   `json:"kind"`
	Nodes   int      `json:"numa_nodes"`
	Hint    []int    `json:"hint"`
	Free    []int64  `json:"free_milli_by_node"`
	Request int64    `json:"request_milli"`
	Result  string   `json:"result"`
	Reasons []string `json:"reasons"`
}

func c06Quantity(milli int64, memory bool) resource.Quantity {
	if memory {
		return *resource.NewQuantity(milli/1000, resource.BinarySI)
	}
	return *resource.NewMilliQuantity(milli, resource.DecimalSI)
}

// c06HintClass names the shape of the hint for the violation key: violations that only appear when node ids differ
// from slice positions are a different witness class from those that also appear for {0..k-1}.
func c06HintClass(hint []int) string {
	for i, id := range hint {
		if id != i {
			return "hint-ids-not-positions"
		}
	}
	return "hint-is-prefix-0..k-1"
}

func TestVerifC06Numa(t *testing.T) {
	env := mc.LoadEnv()
	var only *regexp.Regexp
	if s := os.Getenv("VERIF_ONLY"); s != "" && s != "numa" {
		only, _ = regexp.Compile(s)
	}
	var rp *c06NumaCase
	{
		var c c06NumaCase
		if _, ok := env.ReplayData(&c); ok {
			rp = &c
		}
	}
	const gi = int64(1) << 30
	kinds := []c06NumaKind{
		{Name: "memory", Divisible: true, Unit: 1000, Step: 1000, Memory: true},
		{Name: "memory-Gi", Divisible: true, Unit: gi * 1000, Step: gi * 1000, Memory: true},
		{Name: "memory-via-Allocate", Divisible: true, Unit: gi * 1000, Step: gi * 1000, Memory: true, ViaRM: true},
		{Name: "shared-cpu", Divisible: true, Unit: 1000, Step: 500},
		{Name: "shared-cpu-via-Allocate", Divisible: true, Unit: 1000, Step: 500, ViaRM: true},
		{Name: "shared-cpu+memory", Divisible: true, Unit: 1000, Step: 1000, WithMem: true},
		// (the per-resource ordering of the hinted nodes only happens for resources the node reports per NUMA node, i.e. on this path)
		{Name: "shared-cpu+memory-via-Allocate", Divisible: true, Unit: 1000, Step: 1000, WithMem: true, ViaRM: true},
		{Name: "bound-cpu", Divisible: false, Unit: 1000, Step: 1000, CPUBind: true},
		{Name: "bound-cpu-FullPCPUs-required", Divisible: false, Unit: 1000, Step: 1000, CPUBind: true, FullPCPUs: true},
		// the CPU set taken along the per-node shares of the hint (allocateCPUSet's hint branch; needs >= 3 hinted nodes with
		// odd-capped shares to end in split cores: seed C06-5)
		{Name: "bound-cpu-set-via-Allocate", Divisible: false, Unit: 1000, Step: 1000, CPUBind: true, ViaRM: true, CPUSet: true},
		{Name: "bound-cpu-set-FullPCPUs-required-via-Allocate", Divisible: false, Unit: 1000, Step: 1000, CPUBind: true, FullPCPUs: true, ViaRM: true, CPUSet: true},
		// (a required policy makes trimNUMANodeResources lower the available amounts it was handed: they must be the call's
		// own copy, not the node's recorded NUMA capacity - seed C06-8)
		{Name: "bound-cpu-set-SpreadByPCPUs-required-via-Allocate", Divisible: false, Unit: 1000, Step: 1000, CPUBind: true, Spread: true, ViaRM: true, CPUSet: true},
	}
	alphabet := []int64{0, 1, 2, 3, 5, 8}
	smt := c06NewLayout(1, 1, 2, 2, false).topology() // only CPUsPerCore()==2 is read from it by splitQuantity
	emitted := 0
	defer func() {
		if emitted == 0 { // replay of a witness that belongs to another unit / --only without match: say so instead of nothing
			r := mc.NewResult("C06", "numa-split-(nothing selected)", "enumeration")
			r.Exhaustive = true
			env.Emit(r)
		}
	}()
	for _, kind := range kinds {
		kind := kind
		if only != nil && !only.MatchString(kind.Name) {
			continue
		}
		if rp != nil && rp.Kind != kind.Name {
			continue
		}
		res := mc.NewResult("C06", "numa-split-"+kind.Name, "enumeration")
		res.Rule = fmt.Sprintf("NUMA node ids {0..N-1} for N in {2,3,4}; hint = every non-empty subset of the ids; free per node from %v units (%d milli each); request 0..sum(free over hint)+1 in steps of %d milli; "+
			"non-trivial = a successful allocation of a positive amount over a hint of >= 2 nodes; distinct = distinct (N, hint, free vector, request, per-node result)", alphabet, kind.Unit, kind.Step)
		if kind.ViaRM {
			res.Assumptions = []string{"via-Allocate: the free amounts are produced as node total minus the amounts of one already committed pod (total_i = free_i + (i+1) units)"}
		}
		ds := mc.NewDistinctSet()
		complete := true
		var total int64
		for N := 2; N <= 4; N++ {
			N := N
			if rp != nil && rp.Nodes != N {
				continue
			}
			dims := make([]int, 0, N+1)
			for i := 0; i < N; i++ {
				dims = append(dims, len(alphabet))
			}
			dims = append(dims, 1<<uint(N)-1)
			rx := mc.Radix{Dims: dims}
			total += rx.Size()
			_, ok := env.ParallelRangeL(res, rx.Size(), func(loc *mc.Local, i int64) {
				d := rx.Decode(i, make([]int, 0, 6))
				free := make([]int64, N)
				for k := 0; k < N; k++ {
					free[k] = alphabet[d[k]] * kind.Unit
				}
				hintMask := d[N] + 1
				var hint []int
				var sumHint int64
				for k := 0; k < N; k++ {
					if hintMask&(1<<uint(k)) != 0 {
						hint = append(hint, k)
						sumHint += free[k]
					}
				}
				mask, err := bitmask.NewBitMask(hint...)
				if err != nil {
					panic(err)
				}
				resName := corev1.ResourceCPU
				if kind.Memory {
					resName = corev1.ResourceMemory
				}
				for req := int64(0); req <= sumHint+kind.Unit; req += kind.Step {
					if rp != nil && (req != rp.Request || fmt.Sprint(hint) != fmt.Sprint(rp.Hint) || fmt.Sprint(free) != fmt.Sprint(rp.Free)) {
						continue
					}
					loc.Evals++
					requests := corev1.ResourceList{resName: c06Quantity(req, kind.Memory)}
					var memReq int64
					memFree := make([]int64, N)
					if kind.WithMem {
						for k := 0; k < N; k++ {
							memFree[k] = free[N-1-k]
						}
						for _, k := range hint {
							memReq += memFree[k]
						}
						// all but one unit of what the hinted nodes have: the split of the second resource has to drain its own
						// scarcest node first, in ITS order of free amounts (reversed w.r.t. the first resource: seed C06-4)
						if memReq >= 2000 {
							memReq -= 1000
						}
						requests[corev1.ResourceMemory] = c06Quantity(memReq, true)
					}
					opts := &ResourceOptions{
						requests: requests, originalRequests: requests.DeepCopy(), requestCPUBind: kind.CPUBind,
						hint: topologymanager.NUMATopologyHint{NUMANodeAffinity: mask},
					}
					if kind.CPUBind {
						opts.numCPUsNeeded = int(req / 1000)
						opts.topologyOptions.CPUTopology = smt
						if kind.FullPCPUs {
							opts.requiredCPUBindPolicy = true
							opts.cpuBindPolicy = schedulingconfig.CPUBindPolicyFullPCPUs
						}
						if kind.Spread {
							opts.requiredCPUBindPolicy = true
							opts.cpuBindPolicy = schedulingconfig.CPUBindPolicySpreadByPCPUs
						}
					}
					var got []NUMANodeResource
					var reasons []string
					var ps string
					var gotSet *cpuset.CPUSet
					var lay *c06Layout
					mk0 := func() c06NumaCase { return c06NumaCase{Kind: kind.Name, Nodes: N, Hint: hint, Free: free, Request: req} }
					if kind.CPUSet {
						lay = c06NewLayout(1, N, 4, 2, false)
						totals := make([]NUMANodeResource, N)
						occ := &PodAllocation{UID: types.UID("occ"), Name: "occ", Namespace: "default"}
						for k := 0; k < N; k++ {
							totals[k] = NUMANodeResource{Node: k, Resources: corev1.ResourceList{resName: c06Quantity(8*kind.Unit, false)}}
							if 8*kind.Unit-free[k] > 0 { // (a NUMA node nobody holds anything of has no ledger entry at all)
								occ.NUMANodeResources = append(occ.NUMANodeResources, NUMANodeResource{Node: k, Resources: corev1.ResourceList{resName: c06Quantity(8*kind.Unit-free[k], false)}})
							}
						}
						rm, tom := c06NewManager(lay.topology(), 1, 0, totals)
						if len(occ.NUMANodeResources) > 0 {
							rm.Update(c06Node, occ)
						}
						opts.topologyOptions = tom.GetTopologyOptions(c06Node)
						defer func() {
							// the call is a query as far as the node's recorded NUMA capacity is concerned
							for _, r := range tom.GetTopologyOptions(c06Node).NUMANodeResources {
								if q := r.Resources[resName]; c06Milli(q) != 8*kind.Unit {
									res.Violate(mc.Violation{Key: "C06|numa-split|" + kind.Name + "|allocate-rewrites-numa-capacity", What: fmt.Sprintf("%s: after Allocate (hint %v free %v request %d) the node's recorded capacity of NUMA node %d is %d milli, it was %d", kind.Name, hint, free, req, r.Node, c06Milli(q), 8*kind.Unit), Replay: mk0()})
								}
							}
						}()
						ps = mc.Guard(func() {
							alloc, st := rm.Allocate(c06NodeObj(), c06PodObj("new"), opts)
							if st.IsSuccess() && alloc != nil {
								got = alloc.NUMANodeResources
								cs := alloc.CPUSet
								gotSet = &cs
							} else {
								reasons = append([]string{"status: " + st.Message()}, st.Reasons()...)
							}
						})
					} else if kind.ViaRM {
						totals := make([]NUMANodeResource, N)
						occ := &PodAllocation{UID: types.UID("occ"), Name: "occ", Namespace: "default"}
						for k := 0; k < N; k++ {
							used := int64(k+1) * kind.Unit
							totals[k] = NUMANodeResource{Node: k, Resources: corev1.ResourceList{resName: c06Quantity(free[k]+used, kind.Memory)}}
							occ.NUMANodeResources = append(occ.NUMANodeResources, NUMANodeResource{Node: k, Resources: corev1.ResourceList{resName: c06Quantity(used, kind.Memory)}})
							if kind.WithMem {
								totals[k].Resources[corev1.ResourceMemory] = c06Quantity(memFree[k]+used, true)
								occ.NUMANodeResources[k].Resources[corev1.ResourceMemory] = c06Quantity(used, true)
							}
						}
						rm, tom := c06NewManager(smt, 1, 0, totals)
						rm.Update(c06Node, occ)
						opts.topologyOptions = tom.GetTopologyOptions(c06Node)
						ps = mc.Guard(func() {
							alloc, st := rm.Allocate(c06NodeObj(), c06PodObj("new"), opts)
							if st.IsSuccess() && alloc != nil {
								got = alloc.NUMANodeResources
							} else {
								reasons = append([]string{"status: " + st.Message()}, st.Reasons()...)
							}
						})
					} else {
						avail := map[int]corev1.ResourceList{}
						for k := 0; k < N; k++ {
							avail[k] = corev1.ResourceList{resName: c06Quantity(free[k], kind.Memory)}
							if kind.WithMem {
								avail[k][corev1.ResourceMemory] = c06Quantity(memFree[k], true)
							}
						}
						ps = mc.Guard(func() { got, reasons = tryBestToDistributeEvenly(requests.DeepCopy(), avail, opts) })
					}
					mk := func() c06NumaCase {
						return c06NumaCase{Kind: kind.Name, Nodes: N, Hint: hint, Free: free, Request: req, Result: fmt.Sprintf("%+v", got), Reasons: reasons}
					}
					if rp != nil {
						fmt.Printf("REPLAY %s N=%d hint=%v free=%v request=%d -> result %+v reasons %v %s\n", kind.Name, N, hint, free, req, got, reasons, ps)
					}
					if ps != "" {
						res.Violate(mc.Violation{Key: "C06|numa-split|" + kind.Name + "|panic", What: ps, Replay: mk()})
						continue
					}
					if len(reasons) > 0 {
						loc.Count("refused", 1)
						enough := req <= sumHint
						// (with memory added: the memory request is at most half of what the hint has, so it is never a
						// legitimate reason either)
						if enough {
							if kind.Divisible {
								res.Violate(mc.Violation{Key: "C06|numa-split|insufficient-despite-capacity|" + c06HintClass(hint),
									What: fmt.Sprintf("%s: hint %v, free (milli) by node %v: the hinted nodes together have %d >= request %d, but the allocation was refused: %v", kind.Name, hint, free, sumHint, req, reasons), Replay: mk()})
							} else {
								loc.Count("refused_although_hint_has_enough(not demanded for this kind)", 1)
							}
						} else {
							loc.Count("refused_rightly_not_enough_in_hint", 1)
						}
						continue
					}
					loc.Count("success", 1)
					// sum and per-node bound, per requested resource
					check := func(name corev1.ResourceName, want int64, freeBy []int64) bool {
						var sum int64
						per := make([]int64, N)
						for _, r := range got {
							q, has := r.Resources[name]
							if !has {
								continue
							}
							if r.Node < 0 || r.Node >= N {
								res.Violate(mc.Violation{Key: "C06|numa-split|" + kind.Name + "|unknown-node", What: fmt.Sprintf("result names NUMA node %d", r.Node), Replay: mk()})
								return false
							}
							per[r.Node] += c06Milli(q)
							sum += c06Milli(q)
						}
						if sum != want {
							res.Violate(mc.Violation{Key: "C06|numa-split|" + kind.Name + "|sum-ne-request", What: fmt.Sprintf("%s: success, but the per-node amounts of %s %v sum to %d, requested %d (hint %v free %v)", kind.Name, name, per, sum, want, hint, freeBy), Replay: mk()})
							return false
						}
						for k := 0; k < N; k++ {
							if per[k] > freeBy[k] {
								res.Violate(mc.Violation{Key: "C06|numa-split|" + kind.Name + "|over-node-free", What: fmt.Sprintf("%s: node %d hands out %d of %s but had only %d free (hint %v free %v request %d)", kind.Name, k, per[k], name, freeBy[k], hint, freeBy, want), Replay: mk()})
								return false
							}
							if per[k] > 0 && hintMask&(1<<uint(k)) == 0 {
								loc.Count("allocated_outside_hint(diagnostic)", 1)
							}
						}
						return true
					}
					good := check(resName, req, free)
					if good && kind.CPUSet {
						mask, bad := c06SetToMask(*gotSet, lay.N)
						switch {
						case bad != "":
							good = false
							res.Violate(mc.Violation{Key: "C06|numa-split|" + kind.Name + "|cpuset-malformed", What: fmt.Sprintf("%s: success with CPU set %s: %s (hint %v free %v request %d)", kind.Name, gotSet.String(), bad, hint, free, req), Replay: mk()})
						case int64(bits.OnesCount32(mask))*1000 != req:
							good = false
							res.Violate(mc.Violation{Key: "C06|numa-split|" + kind.Name + "|cpuset-size-ne-request", What: fmt.Sprintf("%s: success with CPU set %s of %d CPUs for a request of %d milli (hint %v free %v, per-node shares %+v)", kind.Name, gotSet.String(), bits.OnesCount32(mask), req, hint, free, got), Replay: mk()})
						case kind.FullPCPUs && !lay.fullCores(mask):
							good = false
							res.Violate(mc.Violation{Key: "C06|numa-split|" + kind.Name + "|required-FullPCPUs-reported-satisfied-but-not", What: fmt.Sprintf("%s: success with CPU set %s, which splits a physical core of topology %s although the REQUIRED FullPCPUs policy was reported satisfied (hint %v free %v request %d, per-node shares %+v)", kind.Name, gotSet.String(), lay.Name, hint, free, req, got), Replay: mk()})
						default:
							if req > 0 {
								loc.Count("cpu_sets_judged", 1)
							}
							for k := 0; k < N; k++ {
								if hintMask&(1<<uint(k)) == 0 && mask&lay.NodeMask[k] != 0 {
									loc.Count("cpus_taken_outside_hint(diagnostic)", 1)
								}
							}
						}
					}
					if good && kind.WithMem {
						good = check(corev1.ResourceMemory, memReq, memFree)
					}
					if good && req > 0 && len(hint) >= 2 {
						loc.Count("success_positive_multi_node_hint", 1)
						if c06HintClass(hint) == "hint-ids-not-positions" {
							loc.Count("success_positive_multi_node_hint_ids_not_positions", 1)
						}
						h := c06Mix(uint64(N), uint64(hintMask))
						for k := 0; k < N; k++ {
							h = c06Mix(h, uint64(free[k]))
						}
						h = c06Mix(h, uint64(req))
						for _, r := range got {
							q := r.Resources[resName]
							h = c06Mix(c06Mix(h, uint64(r.Node)), uint64(c06Milli(q)))
						}
						ds.AddHash(h)
						if i%9973 == 0 && req == sumHint {
							res.Sample(mk())
						}
					}
				}
			})
			if !ok {
				complete = false
				break
			}
		}
		res.Traces = res.Evaluations
		res.Distinct = ds.Len()
		res.Exhaustive = complete
		if !complete {
			res.Capped = "time budget hit"
		}
		res.Bounds = map[string]any{"numa_nodes": []int{2, 3, 4}, "free_alphabet_units": alphabet, "free_vectors_x_hints": total}
		env.Emit(res)
		emitted++
	}
}
