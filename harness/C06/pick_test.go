package nodenumaresource

// C06 part (a) CPU picking: exhaustive enumeration, on the real code, of
//   topology x free set (EVERY subset of the CPUs) x who occupies the non-free CPUs (pods with each exclusive policy /
//   reserved / mixed) x sharing limit (1, or 2 with some free CPUs already held once) x request size x bind policy
//   (preferred / required) x exclusive policy x NUMA strategy x preferred (reservation-restored) CPUs.
// Two seams per case: takeCPUs/takePreferredCPUs on the result of NodeAllocation.getAvailableCPUs, and
// resourceManager.Allocate (what the plugin calls). The ledger is built through resourceManager.Update.
// Oracle (from the property statement only; reference = bit masks computed by plain loops in this file):
//   success => exactly n distinct known CPUs, none reserved, all free for this pod (holders < sharing limit, where a
//   CPU restored from the pod's reservation does not count its reservation holder);
//   policy reported satisfied (satisfiedRequiredCPUBindPolicy == nil / Allocate succeeded with a required policy)
//   => FullPCPUs: every touched core entirely in the result; SpreadByPCPUs: at most one CPU per core.
// Nothing is demanded about WHICH CPUs are chosen, about failures, or about exclusive policies (best effort in the
// code and not part of the statement).

import (
	"fmt"
	"math/bits"
	"testing"

	corev1 "k8s.io/api/core/v1"
	"k8s.io/apimachinery/pkg/api/resource"
	"k8s.io/apimachinery/pkg/types"

	schedulingconfig "github.com/koordinator-sh/koordinator/pkg/scheduler/apis/config"
	"github.com/koordinator-sh/koordinator/pkg/util/cpuset"
	"github.com/koordinator-sh/koordinator/pkg/zzverif/mc"
)

type c06PickCase struct {
	Topology string `json:"topology"`
	Free     []int  `json:"free_cpus_unheld_unreserved"`
	OccMode  string `json:"non_free_cpus_are"`
	MaxRef   int    `json:"max_ref_count"`
	Share    string `json:"free_cpus_already_held_once"`
	N        int    `json:"cpus_needed"`
	Bind     string `json:"bind_policy"`
	Excl     string `json:"exclusive_policy"`
	Strategy string `json:"numa_strategy"`
	Pref     string `json:"preferred_cpus"`
	Seam     string `json:"seam"`
	Holders  []int  `json:"holders_per_cpu"`
	Reserved []int  `json:"reserved_cpus"`
	Result   []int  `json:"result_cpus"`
}

var c06OccModes = []string{"held-by-pod(excl none)", "held-by-pod(PCPULevel)", "held-by-pod(NUMANodeLevel)", "reserved", "mixed reserved/PCPULevel/NUMANodeLevel"}

// refModes: sharing limit and which of the free CPUs are already held once (only possible below the limit).
var c06RefModes = []struct {
	MaxRef int
	Share  int // 0 none, 1 every even-position free CPU held once by a pod without exclusive policy, 2 odd-position by a PCPULevel pod
	Name   string
}{
	{1, 0, "none"},
	{2, 0, "none"},
	{2, 1, "even-position free CPUs held once (excl none)"},
	{2, 2, "odd-position free CPUs held once (PCPULevel)"},
}

// c06PickWorld is one ledger situation built on the real code plus its independent description.
type c06PickWorld struct {
	rm       *resourceManager
	na       *NodeAllocation
	topo     *CPUTopology
	holders  []int
	reserved uint32
	firstOcc uint32 // CPUs of the first occupant pod (used as "preferred" = restored from the pod's reservation)
	evenFree uint32 // the unheld, unreserved CPUs at even positions (preferred mode 2 lets a reserve pod hold them)
}

var c06PrefModes = []string{"none", "the first occupant pod's CPUs (a reservation that nobody consumed yet)",
	"a reserve pod's CPUs: even-position free CPUs (held by it alone) + the first occupant group's CPUs (also held by their owners, up to the limit)"}

// addReservation commits a reserve pod on top of the situation: it holds some otherwise free CPUs alone and shares
// the first occupant group's CPUs with the pods that already consumed them (RefCount = owners + 1, as the plugin
// records a reservation and its owner pods).
func (w *c06PickWorld) addReservation(n int) uint32 {
	mask := w.evenFree | w.firstOcc
	if mask == 0 {
		return 0
	}
	w.rm.Update(c06Node, &PodAllocation{UID: "resv", Name: "resv", Namespace: "default", CPUSet: c06MaskToSet(mask)})
	for id := 0; id < n; id++ {
		if mask&(1<<uint(id)) != 0 {
			w.holders[id]++
		}
	}
	return mask
}

func c06BuildPickWorld(l *c06Layout, topo *CPUTopology, freeMask uint32, occMode int, maxRef, share int) *c06PickWorld {
	w := &c06PickWorld{topo: topo, holders: make([]int, l.N)}
	// group the non-free CPUs
	var grp [3]uint32 // by exclusive policy index
	k := 0
	for id := 0; id < l.N; id++ {
		if freeMask&(1<<uint(id)) != 0 {
			continue
		}
		switch {
		case occMode <= 2:
			grp[occMode] |= 1 << uint(id)
		case occMode == 3:
			w.reserved |= 1 << uint(id)
		default:
			switch k % 3 {
			case 0:
				w.reserved |= 1 << uint(id)
			case 1:
				grp[1] |= 1 << uint(id)
			case 2:
				grp[2] |= 1 << uint(id)
			}
		}
		k++
	}
	k = 0
	for id := 0; id < l.N; id++ {
		if freeMask&(1<<uint(id)) != 0 {
			if k%2 == 0 {
				w.evenFree |= 1 << uint(id)
			}
			k++
		}
	}
	var shareMask uint32
	if share > 0 {
		k = 0
		for id := 0; id < l.N; id++ {
			if freeMask&(1<<uint(id)) == 0 {
				continue
			}
			if (share == 1 && k%2 == 0) || (share == 2 && k%2 == 1) {
				shareMask |= 1 << uint(id)
			}
			k++
		}
	}
	w.rm, _ = c06NewManager(topo, maxRef, w.reserved, nil)
	add := func(uid string, mask uint32, excl schedulingconfig.CPUExclusivePolicy) {
		if mask == 0 {
			return
		}
		w.rm.Update(c06Node, &PodAllocation{UID: types.UID(uid), Name: uid, Namespace: "default", CPUSet: c06MaskToSet(mask), CPUExclusivePolicy: excl})
		for id := 0; id < l.N; id++ {
			if mask&(1<<uint(id)) != 0 {
				w.holders[id]++
			}
		}
		if w.firstOcc == 0 {
			w.firstOcc = mask
		}
	}
	// occupants hold their CPUs up to the sharing limit (so that they are not free)
	for layer := 1; layer <= maxRef; layer++ {
		for p, mask := range grp {
			add(fmt.Sprintf("occ-%d-%d", p, layer), mask, c06ExclPolicies[p])
		}
	}
	if shareMask != 0 {
		excl := schedulingconfig.CPUExclusivePolicyNone
		if share == 2 {
			excl = schedulingconfig.CPUExclusivePolicyPCPULevel
		}
		add("sharer", shareMask, excl)
	}
	w.na = w.rm.getOrCreateNodeAllocation(c06Node)
	return w
}

func TestVerifC06Pick(t *testing.T) {
	env := mc.LoadEnv()
	// Every free subset is enumerated for every listed topology. The full product of the other dimensions is used up
	// to fullMax CPUs; for the larger topologies the occupant / sharing dimensions are reduced to two values each.
	var layouts []*c06Layout
	maxCPUs, fullMax := env.Pick(8, 12), env.Pick(6, 8)
	for size := 1; size <= maxCPUs; size++ {
		for _, s := range []int{1, 2} {
			for _, m := range []int{1, 2} {
				for _, c := range []int{1, 2, 3} {
					for _, th := range []int{1, 2} {
						if s*m*c*th != size {
							continue
						}
						layouts = append(layouts, c06NewLayout(s, m, c, th, false))
						if th == 2 && s*m*c > 1 {
							layouts = append(layouts, c06NewLayout(s, m, c, th, true))
						}
					}
				}
			}
		}
	}
	// three and four sockets (the design's alphabet stopped at two): small ones with every free subset, the 12/16-CPU
	// ones with every union of whole cores as the free set (quick) resp. every subset for 12 CPUs (thorough). They
	// are cheap and go first, so that a time cap can only drop the largest two-socket topologies.
	coreGranular := map[*c06Layout]bool{}
	var multi []*c06Layout
	for _, x := range []struct {
		s, c int
		ilv  bool
	}{{3, 1, false}, {4, 1, false}, {3, 2, false}, {3, 2, true}, {4, 2, false}} {
		l := c06NewLayout(x.s, 1, x.c, 2, x.ilv)
		if l.N > maxCPUs {
			coreGranular[l] = true
		}
		multi = append(multi, l)
	}
	layouts = append(multi, layouts...)
	selFor := func(l *c06Layout) (occ, ref []int) {
		if coreGranular[l] {
			return []int{0, 4}, []int{0}
		}
		if l.N <= fullMax {
			return []int{0, 1, 2, 3, 4}, []int{0, 1, 2, 3}
		}
		return []int{0, 4}, []int{0, 2}
	}
	var rp *c06PickCase
	{
		var c c06PickCase
		if _, ok := env.ReplayData(&c); ok {
			rp = &c
		}
	}
	res := mc.NewResult("C06", "pick", "enumeration")
	res.Rule = "every topology sockets{1,2} x NUMA/socket{1,2} x cores/NUMA{1,2,3} x threads{1,2} with at most the stated number of CPUs, sequential and interleaved-HT id numbering; EVERY subset of the CPUs as the free set; the non-free CPUs " +
		"held by pods of each exclusive policy / reserved / mixed; sharing limit 1, or 2 with some free CPUs already held once; n in 0..|free|+1; bind policy {default, FullPCPUs, SpreadByPCPUs} x {preferred, required}; " +
		"exclusive policy {none, PCPULevel, NUMANodeLevel}; NUMA strategy {Most,Least}Allocated; preferred CPUs {none, the first occupant pod's, a reserve pod's that is partly consumed by owner pods (RefCount = owners + 1)}; additionally sockets {3,4} x 1 NUMA x cores{1,2} x 2 threads (every subset up to the CPU bound, else every union of whole cores); each through takeCPUs/takePreferredCPUs(getAvailableCPUs(..)) and through resourceManager.Allocate. " +
		"non-trivial = a successful pick with n>=1; distinct = distinct (topology, free-for-this-pod set, n, chosen set)"
	res.Assumptions = []string{"the ledger situations are those reachable by committing whole pods through resourceManager.Update; occupant patterns for non-free CPUs come from a fixed list of five (all pods of one exclusive policy, all reserved, mixed), not every per-CPU assignment"}
	ds := mc.NewDistinctSet()
	var total, doneAll int64
	complete := true
	for li, l := range layouts {
		l := l
		li := li
		topo := l.topology()
		socketClass := "" // witness class: the design's alphabet (<= 2 sockets) vs. machines with three or more sockets
		if l.Sockets >= 3 {
			socketClass = "|sockets>=3"
		}
		occSel, refSel := selFor(l)
		freeBits := l.N
		if coreGranular[l] {
			freeBits = l.NumCores
		}
		rx := mc.Radix{Dims: []int{1 << uint(freeBits), len(occSel), len(refSel), l.N + 2}}
		total += rx.Size()
		done, ok := env.ParallelRangeL(res, rx.Size(), func(loc *mc.Local, i int64) {
			d := rx.Decode(i, make([]int, 0, 4))
			freeMask, occMode, refMode, n := uint32(d[0]), occSel[d[1]], c06RefModes[refSel[d[2]]], d[3]
			if coreGranular[l] {
				freeMask = 0
				for core, cm := range l.CoreMask {
					if d[0]&(1<<uint(core)) != 0 {
						freeMask |= cm
					}
				}
			}
			if n > bits.OnesCount32(freeMask)+1 {
				return
			}
			if rp != nil && (rp.Topology != l.Name || fmt.Sprint(rp.Free) != fmt.Sprint(c06MaskList(freeMask)) || rp.OccMode != c06OccModes[occMode] || rp.MaxRef != refMode.MaxRef || rp.Share != refMode.Name || rp.N != n) {
				return
			}
			if freeMask == l.All && d[1] > 0 {
				return // no non-free CPU: the occupant mode makes no difference
			}
			w := c06BuildPickWorld(l, topo, freeMask, occMode, refMode.MaxRef, refMode.Share)
			if w.reserved != 0 {
				loc.Count("worlds_with_reserved_cpus", 1)
			}
			for pref := 0; pref < 3; pref++ {
				if pref == 1 && w.firstOcc == 0 {
					continue
				}
				if rp != nil && rp.Pref != c06PrefModes[pref] {
					continue
				}
				var prefMask uint32
				switch pref {
				case 1:
					prefMask = w.firstOcc
				case 2:
					// from here on the situation contains the reserve pod (last preferred mode, the world is not reused)
					if prefMask = w.addReservation(l.N); prefMask == 0 {
						continue
					}
					if w.firstOcc != 0 {
						loc.Count("worlds_with_partly_consumed_reservation", 1)
					}
				}
				// reference: CPUs free for this pod
				var freeForPod uint32
				for id := 0; id < l.N; id++ {
					h := w.holders[id]
					if prefMask&(1<<uint(id)) != 0 && h > 0 {
						h--
					}
					if h < refMode.MaxRef && w.reserved&(1<<uint(id)) == 0 {
						freeForPod |= 1 << uint(id)
					}
				}
				if prefMask&^freeForPod&^w.reserved != 0 {
					loc.Count("situations_where_a_preferred_cpu_stays_unavailable_after_restore", 1)
				}
				for bi, bp := range c06BindPolicies {
					for _, excl := range c06ExclPolicies {
						for _, strat := range c06Strategies {
							if rp != nil && (rp.Excl != string(excl) || rp.Strategy != string(strat) || (rp.Bind != bp.Name && !(rp.Seam == "take" && c06BindPolicies[bi].Policy == bp.Policy))) {
								continue
							}
							mk := func(seam string, result []int) c06PickCase {
								return c06PickCase{Topology: l.Name, Free: c06MaskList(freeMask), OccMode: c06OccModes[occMode], MaxRef: refMode.MaxRef, Share: refMode.Name,
									N: n, Bind: bp.Name, Excl: string(excl), Strategy: string(strat), Pref: c06PrefModes[pref], Seam: seam, Holders: w.holders, Reserved: c06MaskList(w.reserved), Result: result}
							}
							judge := func(seam string, set cpuset.CPUSet, reportedSatisfied bool) {
								loc.Count(seam+"_success", 1)
								mask, bad := c06SetToMask(set, l.N)
								if rp != nil {
									fmt.Printf("REPLAY %+v\n", mk(seam, set.ToSlice()))
								}
								if bad != "" {
									res.Violate(mc.Violation{Key: "C06|pick|" + seam + "|malformed-set", What: bad, Replay: mk(seam, set.ToSlice())})
									return
								}
								cnt := bits.OnesCount32(mask)
								switch {
								case cnt != n:
									res.Violate(mc.Violation{Key: "C06|pick|" + seam + "|wrong-count" + socketClass, What: fmt.Sprintf("asked for %d CPUs, success returned %d: %v", n, cnt, c06MaskList(mask)), Replay: mk(seam, c06MaskList(mask))})
								case mask&w.reserved != 0:
									res.Violate(mc.Violation{Key: "C06|pick|" + seam + "|reserved-cpu-handed-out", What: fmt.Sprintf("result %v contains reserved CPUs %v", c06MaskList(mask), c06MaskList(mask&w.reserved)), Replay: mk(seam, c06MaskList(mask))})
								case mask&^freeForPod != 0:
									res.Violate(mc.Violation{Key: "C06|pick|" + seam + "|cpu-not-free", What: fmt.Sprintf("result %v contains CPUs %v that are not free for this pod: holders per CPU %v, sharing limit %d, preferred(restored) %v", c06MaskList(mask), c06MaskList(mask&^freeForPod), w.holders, refMode.MaxRef, c06MaskList(prefMask)), Replay: mk(seam, c06MaskList(mask))})
								}
								if reportedSatisfied {
									switch bp.Policy {
									case schedulingconfig.CPUBindPolicyFullPCPUs:
										loc.Count(seam+"_FullPCPUs_reported_satisfied", 1)
										if !l.fullCores(mask) {
											res.Violate(mc.Violation{Key: "C06|pick|" + seam + "|FullPCPUs-reported-satisfied-but-partial-core", What: fmt.Sprintf("result %v owns a core only partly (cores by CPU id: %v)", c06MaskList(mask), l.Core), Replay: mk(seam, c06MaskList(mask))})
										}
									case schedulingconfig.CPUBindPolicySpreadByPCPUs:
										loc.Count(seam+"_SpreadByPCPUs_reported_satisfied", 1)
										if !l.onePerCore(mask) {
											res.Violate(mc.Violation{Key: "C06|pick|" + seam + "|SpreadByPCPUs-reported-satisfied-but-two-on-a-core", What: fmt.Sprintf("result %v has two CPUs of one core (cores by CPU id: %v)", c06MaskList(mask), l.Core), Replay: mk(seam, c06MaskList(mask))})
										}
									}
								}
								if n >= 1 && cnt == n {
									if seam == "allocate" {
										ds.AddHash(c06Mix(c06Mix(c06Mix(c06Mix(uint64(li), uint64(freeForPod)), uint64(n)), uint64(mask)), 7))
									}
									for id := 0; id < l.N; id++ {
										if mask&(1<<uint(id)) != 0 && w.holders[id] > 0 {
											if prefMask&(1<<uint(id)) != 0 {
												loc.Count(seam+"_took_cpu_restored_from_reservation", 1)
											} else {
												loc.Count(seam+"_took_cpu_shared_below_limit", 1)
											}
											break
										}
									}
								}
							}
							// seam 1: the picker on what the ledger reports available (once per policy, not per required flag)
							if !bp.Required {
								loc.Evals++
								var got cpuset.CPUSet
								var err error
								ps := mc.Guard(func() {
									if pref >= 1 {
										avail, allocated := w.na.getAvailableCPUs(topo, refMode.MaxRef, c06MaskToSet(w.reserved), c06MaskToSet(prefMask))
										got, err = takePreferredCPUs(topo, refMode.MaxRef, avail, c06MaskToSet(prefMask), allocated, n, bp.Policy, excl, strat)
									} else {
										avail, allocated := w.na.getAvailableCPUs(topo, refMode.MaxRef, c06MaskToSet(w.reserved))
										got, err = takeCPUs(topo, refMode.MaxRef, avail, allocated, n, bp.Policy, excl, strat)
									}
								})
								if ps != "" {
									res.Violate(mc.Violation{Key: "C06|pick|take|panic", What: ps, Replay: mk("take", nil)})
								} else if err == nil {
									judge("take", got, satisfiedRequiredCPUBindPolicy(bp.Policy, got, topo) == nil && bp.Policy != schedulingconfig.CPUBindPolicyDefault)
								} else {
									loc.Count("take_refused", 1)
									if n <= bits.OnesCount32(freeForPod) {
										loc.Count("take_refused_although_enough_free(diagnostic)", 1)
									}
								}
							}
							// seam 2: resourceManager.Allocate
							loc.Evals++
							w.rm.numaAllocateStrategy = strat
							opts := &ResourceOptions{
								numCPUsNeeded: n, requestCPUBind: true,
								requests:              corev1.ResourceList{corev1.ResourceCPU: *resource.NewQuantity(int64(n), resource.DecimalSI)},
								originalRequests:      corev1.ResourceList{corev1.ResourceCPU: *resource.NewQuantity(int64(n), resource.DecimalSI)},
								requiredCPUBindPolicy: bp.Required, cpuBindPolicy: bp.Policy, cpuExclusivePolicy: excl,
								preferredCPUs: c06MaskToSet(prefMask), preemptibleCPUs: cpuset.NewCPUSet(),
								topologyOptions: w.rm.topologyOptionsManager.GetTopologyOptions(c06Node),
							}
							var alloc *PodAllocation
							var ok bool
							ps := mc.Guard(func() {
								a, st := w.rm.Allocate(c06NodeObj(), c06PodObj("new"), opts)
								alloc, ok = a, st.IsSuccess()
							})
							if ps != "" {
								res.Violate(mc.Violation{Key: "C06|pick|allocate|panic", What: ps, Replay: mk("allocate", nil)})
							} else if ok && alloc != nil {
								judge("allocate", alloc.CPUSet, bp.Required)
								if bi == 0 && i%50021 == 0 {
									res.Sample(mk("allocate", alloc.CPUSet.ToSlice()))
								}
							} else {
								loc.Count("allocate_refused", 1)
							}
						}
					}
				}
			}
		})
		doneAll += done
		if !ok {
			complete = false
			break
		}
	}
	res.Traces = res.Evaluations
	res.Distinct = ds.Len()
	res.Exhaustive = complete
	if !complete {
		res.Capped = fmt.Sprintf("time budget hit after %d of %d ledger situations", doneAll, total)
	}
	names := []string{}
	for _, l := range layouts {
		names = append(names, l.Name)
	}
	res.Bounds = map[string]any{"max_cpus_with_every_free_subset": maxCPUs, "max_cpus_with_full_occupant_and_sharing_product": fullMax,
		"reduced_product_above_that": "occupants {pods without exclusive policy, mixed}, sharing {limit 1, limit 2 with even-position free CPUs held once}",
		"topologies":                 names, "ledger_situations_x_n": total, "whole_core_free_sets_only": func() []string {
			var o []string
			for _, l := range layouts {
				if coreGranular[l] {
					o = append(o, l.Name)
				}
			}
			return o
		}()}
	env.Emit(res)
	// the ledger must not have been changed by Allocate (it only computes); covered by part (b) state invariants.
}
