package nodenumaresource

// C06 common helpers: CPU layouts with an independent reference table (which core / NUMA node / socket a CPU id
// belongs to is decided HERE by plain loops and never read back from the code under check), conversion of the
// code's cpuset values into bit masks, and a deterministic rendering of the real NodeAllocation ledger.

import (
	"fmt"
	"math/bits"
	"sort"
	"strings"

	corev1 "k8s.io/api/core/v1"
	"k8s.io/apimachinery/pkg/api/resource"
	metav1 "k8s.io/apimachinery/pkg/apis/meta/v1"
	"k8s.io/apimachinery/pkg/types"

	schedulingconfig "github.com/koordinator-sh/koordinator/pkg/scheduler/apis/config"
	"github.com/koordinator-sh/koordinator/pkg/util/cpuset"
)

const c06Node = "c06-node"

type c06Layout struct {
	Name                                           string
	Sockets, NodesPerSocket, CoresPerNode, Threads int
	Interleaved                                    bool
	N, NumNodes, NumCores                          int
	Core, Node, Socket                             []int    // by CPU id (reference tables)
	CoreMask                                       []uint32 // by global core index: the CPU ids of that core
	NodeMask                                       []uint32 // by NUMA node id
	All                                            uint32
}

// c06NewLayout lays out sockets x NUMA nodes x cores x threads. CPU ids are numbered either sequentially (hyper
// thread siblings adjacent: 0,1 | 2,3 ...) or interleaved as Linux usually reports them (sibling = id + #cores).
func c06NewLayout(s, m, c, t int, interleaved bool) *c06Layout {
	l := &c06Layout{Sockets: s, NodesPerSocket: m, CoresPerNode: c, Threads: t, Interleaved: interleaved}
	l.NumNodes = s * m
	l.NumCores = s * m * c
	l.N = l.NumCores * t
	num := "seq"
	if interleaved {
		num = "ilv"
	}
	l.Name = fmt.Sprintf("%dx%dx%dx%d-%s", s, m, c, t, num)
	l.Core = make([]int, l.N)
	l.Node = make([]int, l.N)
	l.Socket = make([]int, l.N)
	l.CoreMask = make([]uint32, l.NumCores)
	l.NodeMask = make([]uint32, l.NumNodes)
	core := 0
	for si := 0; si < s; si++ {
		for mi := 0; mi < m; mi++ {
			node := si*m + mi
			for ci := 0; ci < c; ci++ {
				for ti := 0; ti < t; ti++ {
					id := core*t + ti
					if interleaved {
						id = ti*l.NumCores + core
					}
					l.Core[id], l.Node[id], l.Socket[id] = core, node, si
					l.CoreMask[core] |= 1 << uint(id)
					l.NodeMask[node] |= 1 << uint(id)
				}
				core++
			}
		}
	}
	l.All = uint32(1)<<uint(l.N) - 1
	return l
}

// topology builds the code's CPUTopology through the package's own builder, the way convertCPUTopology does for a
// reported NodeResourceTopology (core ids are per socket there).
func (l *c06Layout) topology() *CPUTopology {
	b := NewCPUTopologyBuilder()
	for id := 0; id < l.N; id++ {
		coreInSocket := l.Core[id] % (l.NodesPerSocket * l.CoresPerNode)
		b.AddCPUInfo(l.Socket[id], l.Node[id], coreInSocket, id)
	}
	return b.Result()
}

// fullCores: every core touched by mask is entirely inside mask.
func (l *c06Layout) fullCores(mask uint32) bool {
	for _, cm := range l.CoreMask {
		if x := mask & cm; x != 0 && x != cm {
			return false
		}
	}
	return true
}

// onePerCore: no core contributes more than one CPU to mask.
func (l *c06Layout) onePerCore(mask uint32) bool {
	for _, cm := range l.CoreMask {
		if bits.OnesCount32(mask&cm) > 1 {
			return false
		}
	}
	return true
}

func c06MaskToSet(mask uint32) cpuset.CPUSet {
	b := cpuset.NewCPUSetBuilder()
	for id := 0; mask != 0; id, mask = id+1, mask>>1 {
		if mask&1 != 0 {
			b.Add(id)
		}
	}
	return b.Result()
}

func c06MaskList(mask uint32) []int {
	out := []int{}
	for id := 0; mask != 0; id, mask = id+1, mask>>1 {
		if mask&1 != 0 {
			out = append(out, id)
		}
	}
	return out
}

// c06SetToMask converts a cpuset returned by the code; bad != "" when the set is not a set of n distinct known
// CPU ids (Size() and the listed elements must agree).
func c06SetToMask(s cpuset.CPUSet, n int) (mask uint32, bad string) {
	ids := s.ToSliceNoSort()
	for _, id := range ids {
		if id < 0 || id >= n {
			return 0, fmt.Sprintf("CPU id %d is not in the topology (0..%d)", id, n-1)
		}
		if mask&(1<<uint(id)) != 0 {
			return 0, fmt.Sprintf("CPU id %d listed twice", id)
		}
		mask |= 1 << uint(id)
	}
	if s.Size() != len(ids) {
		return 0, fmt.Sprintf("Size()=%d but %d elements listed", s.Size(), len(ids))
	}
	return mask, ""
}

var c06BindPolicies = []struct {
	Name     string
	Policy   schedulingconfig.CPUBindPolicy
	Required bool
}{
	{"default", schedulingconfig.CPUBindPolicyDefault, false},
	{"FullPCPUs-preferred", schedulingconfig.CPUBindPolicyFullPCPUs, false},
	{"FullPCPUs-required", schedulingconfig.CPUBindPolicyFullPCPUs, true},
	{"SpreadByPCPUs-preferred", schedulingconfig.CPUBindPolicySpreadByPCPUs, false},
	{"SpreadByPCPUs-required", schedulingconfig.CPUBindPolicySpreadByPCPUs, true},
}

var c06ExclPolicies = []schedulingconfig.CPUExclusivePolicy{
	schedulingconfig.CPUExclusivePolicyNone, schedulingconfig.CPUExclusivePolicyPCPULevel, schedulingconfig.CPUExclusivePolicyNUMANodeLevel,
}

var c06Strategies = []schedulingconfig.NUMAAllocateStrategy{schedulingconfig.NUMAMostAllocated, schedulingconfig.NUMALeastAllocated}

func c06NewManager(topo *CPUTopology, maxRef int, reserved uint32, numa []NUMANodeResource) (*resourceManager, TopologyOptionsManager) {
	tom := NewTopologyOptionsManager()
	tom.UpdateTopologyOptions(c06Node, func(o *TopologyOptions) {
		o.CPUTopology = topo
		o.MaxRefCount = maxRef
		o.ReservedCPUs = c06MaskToSet(reserved)
		o.NUMANodeResources = numa
	})
	return &resourceManager{topologyOptionsManager: tom, nodeAllocations: map[string]*NodeAllocation{}}, tom
}

func c06NodeObj() *corev1.Node { return &corev1.Node{ObjectMeta: metav1.ObjectMeta{Name: c06Node}} }

func c06PodObj(name string) *corev1.Pod {
	return &corev1.Pod{ObjectMeta: metav1.ObjectMeta{Name: name, Namespace: "default", UID: types.UID(name)}}
}

func c06Milli(q resource.Quantity) int64 { return q.MilliValue() }

// c06Ledger renders the real NodeAllocation deterministically. Zero amounts and empty per-node entries are left
// out: release leaves {cpu:0} behind where there was no entry before, which is the same ledger. The exclusive
// policy marks and the idle/single/shared NUMA bookkeeping are rendered only when asked for (state key), they are
// not part of the amounts the property talks about.
func c06Ledger(na *NodeAllocation, withMarks bool) string {
	var sb strings.Builder
	uids := make([]string, 0, len(na.allocatedPods))
	for uid := range na.allocatedPods {
		uids = append(uids, string(uid))
	}
	sort.Strings(uids)
	for _, uid := range uids {
		p := na.allocatedPods[types.UID(uid)]
		fmt.Fprintf(&sb, "pod %s cpus=%v", uid, p.CPUSet.ToSlice())
		if withMarks {
			fmt.Fprintf(&sb, " excl=%q", p.CPUExclusivePolicy)
		}
		per := map[int]map[string]int64{}
		for _, r := range p.NUMANodeResources {
			for name, q := range r.Resources {
				if per[r.Node] == nil {
					per[r.Node] = map[string]int64{}
				}
				per[r.Node][string(name)] += c06Milli(q)
			}
		}
		sb.WriteString(" numa=" + c06AmountsString(per) + "\n")
	}
	ids := make([]int, 0, len(na.allocatedCPUs))
	for id := range na.allocatedCPUs {
		ids = append(ids, id)
	}
	sort.Ints(ids)
	for _, id := range ids {
		info := na.allocatedCPUs[id]
		fmt.Fprintf(&sb, "cpu %d rc=%d", id, info.RefCount)
		if withMarks {
			fmt.Fprintf(&sb, " excl=%q", info.ExclusivePolicy)
		}
		sb.WriteString("\n")
	}
	per := map[int]map[string]int64{}
	for node, r := range na.allocatedResources {
		if r == nil {
			continue
		}
		for name, q := range r.Resources {
			if per[node] == nil {
				per[node] = map[string]int64{}
			}
			per[node][string(name)] += c06Milli(q)
		}
	}
	sb.WriteString("allocated " + c06AmountsString(per) + "\n")
	if withMarks {
		for _, m := range []struct {
			n string
			v map[int]map[string]struct{}
		}{{"shared", c06StringSets(na, true)}, {"single", c06StringSets(na, false)}} {
			nodes := make([]int, 0, len(m.v))
			for node, set := range m.v {
				if len(set) > 0 {
					nodes = append(nodes, node)
				}
			}
			sort.Ints(nodes)
			for _, node := range nodes {
				names := make([]string, 0, len(m.v[node]))
				for s := range m.v[node] {
					names = append(names, s)
				}
				sort.Strings(names)
				fmt.Fprintf(&sb, "%s %d %v\n", m.n, node, names)
			}
		}
	}
	return sb.String()
}

func c06StringSets(na *NodeAllocation, shared bool) map[int]map[string]struct{} {
	out := map[int]map[string]struct{}{}
	src := na.singleNUMANode
	if shared {
		src = na.sharedNode
	}
	for node, set := range src {
		out[node] = map[string]struct{}{}
		for s := range set {
			out[node][s] = struct{}{}
		}
	}
	return out
}

// c06AmountsString renders node -> resource -> milli amount, sorted, zero amounts dropped.
func c06AmountsString(per map[int]map[string]int64) string {
	nodes := make([]int, 0, len(per))
	for node := range per {
		nodes = append(nodes, node)
	}
	sort.Ints(nodes)
	var sb strings.Builder
	sb.WriteString("{")
	for _, node := range nodes {
		names := make([]string, 0, len(per[node]))
		for name, v := range per[node] {
			if v != 0 {
				names = append(names, name)
			}
		}
		if len(names) == 0 {
			continue
		}
		sort.Strings(names)
		fmt.Fprintf(&sb, "%d:[", node)
		for _, name := range names {
			fmt.Fprintf(&sb, "%s=%dm ", name, per[node][name])
		}
		sb.WriteString("] ")
	}
	sb.WriteString("}")
	return sb.String()
}

func c06Mix(h uint64, v uint64) uint64 {
	h ^= v + 0x9e3779b97f4a7c15 + (h << 6) + (h >> 2)
	h *= 0x100000001b3
	return h
}
