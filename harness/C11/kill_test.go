package util

// C11 part "kill": exhaustive enumeration of pod sets x 1-2 simultaneous tasks (overlapping victim lists, same or
// different release-target type, 1-2 dimensional targets at 0 / small / exact sum / sum+1) x every subset of pods
// reported already-evicted x every pattern of individual Evict calls failing, executed on the real
// KillAndEvictPods with a recording / failing EvictionExecutor. Judged by c11Judge (judge_test.go) from the inputs.

import (
	"encoding/json"
	"fmt"
	"hash/fnv"
	"sort"
	"strconv"
	"strings"
	"testing"

	corev1 "k8s.io/api/core/v1"
	"k8s.io/apimachinery/pkg/api/resource"
	metav1 "k8s.io/apimachinery/pkg/apis/meta/v1"
	"k8s.io/apimachinery/pkg/types"

	apiext "github.com/koordinator-sh/koordinator/apis/extension"
	"github.com/koordinator-sh/koordinator/pkg/zzverif/mc"
)

// c11KPod is what evicting the pod frees: [release-target type][resource of that type].
type c11KPod [2][2]int64

var c11KTypes = [2]ReleaseTargetType{ReleaseTargetTypeResourceUsed, ReleaseTargetTypeResourceRequest}
var c11KRes = [2][2]corev1.ResourceName{{corev1.ResourceMemory, corev1.ResourceCPU}, {apiext.BatchCPU, apiext.MidCPU}}

type c11KTaskSpec struct {
	Type   int      `json:"type"`
	Target [2]int64 `json:"target"` // -1: resource absent from ToReleaseResource
	List   []int    `json:"list"`
	// Sparse: GetPodResourceFunc reports only the resources named in the task's target and nil when all are zero
	// (like the allocatable strategies); otherwise it reports both resources of its type, zeros included.
	Sparse bool `json:"sparse"`
}

type c11KCase struct {
	Pods    []c11KPod      `json:"pods"`
	Tasks   []c11KTaskSpec `json:"tasks"`
	Already []bool         `json:"already"`
	Fails   []bool         `json:"fails"` // decision per Evict call in call order, true = the call fails
}

func (c c11KCase) String() string {
	return fmt.Sprintf("{pods(frees [used mem,cpu][request batch-cpu,mid-cpu]):%v tasks:%+v alreadyEvicted:%v failingCalls:%v}", c.Pods, c.Tasks, c.Already, c.Fails)
}

var c11KNode = &corev1.Node{ObjectMeta: metav1.ObjectMeta{Name: "c11-node"}}

func c11KMakePods(n int) []*corev1.Pod {
	pods := make([]*corev1.Pod, n)
	for i := range pods {
		name := "p" + strconv.Itoa(i)
		pods[i] = &corev1.Pod{ObjectMeta: metav1.ObjectMeta{Name: name, Namespace: "default", UID: types.UID(name + "-uid"),
			Labels: map[string]string{apiext.LabelPodQoS: string(apiext.QoSBE)}}}
	}
	return pods
}

func c11KModelTasks(c *c11KCase) []c11Task {
	ts := make([]c11Task, len(c.Tasks))
	for k, s := range c.Tasks {
		t := c11Task{Name: "c11task" + strconv.Itoa(k), Type: string(c11KTypes[s.Type]), Target: map[string]int64{}, List: s.List}
		for r := 0; r < 2; r++ {
			if s.Target[r] >= 0 {
				t.Target[string(c11KRes[s.Type][r])] = s.Target[r]
			}
		}
		ts[k] = t
	}
	return ts
}

// c11KRun executes one case on the real KillAndEvictPods.
func c11KRun(c *c11KCase, pods []*corev1.Pod) (ex *c11Exec, returned map[string]map[string]int64, newly bool, panicS string) {
	model := c11KModelTasks(c)
	ex = &c11Exec{tasks: model, already: c.Already, fails: c.Fails}
	tasks := make([]*EvictTaskInfo, len(c.Tasks))
	for k := range c.Tasks {
		s := c.Tasks[k]
		t := &EvictTaskInfo{Reason: model[k].Name, ReleaseTarget: c11KTypes[s.Type], ToReleaseResource: corev1.ResourceList{}}
		for r := 0; r < 2; r++ {
			if s.Target[r] >= 0 {
				t.ToReleaseResource[c11KRes[s.Type][r]] = *resource.NewQuantity(s.Target[r], resource.DecimalSI)
			}
		}
		for _, p := range s.List {
			t.SortedEvictPods = append(t.SortedEvictPods, &PodEvictInfo{Pod: pods[p]})
		}
		t.GetPodResourceFunc = func(info *PodEvictInfo) corev1.ResourceList {
			i := c11PodIndex(info.Pod)
			rl := corev1.ResourceList{}
			nonzero := false
			for r := 0; r < 2; r++ {
				if s.Sparse && s.Target[r] < 0 {
					continue
				}
				v := c.Pods[i][s.Type][r]
				if v != 0 {
					nonzero = true
				}
				rl[c11KRes[s.Type][r]] = *resource.NewQuantity(v, resource.DecimalSI)
			}
			if s.Sparse && !nonzero {
				return nil
			}
			return rl
		}
		tasks[k] = t
	}
	var rel ReleaseList
	panicS = mc.Guard(func() { rel, newly = KillAndEvictPods(ex, c11KNode, tasks) })
	returned = map[string]map[string]int64{}
	for t, rl := range rel {
		returned[string(t)] = map[string]int64{}
		for rn, q := range rl {
			returned[string(t)][string(rn)] = q.Value()
		}
	}
	return
}

func c11KJudge(c *c11KCase, ex *c11Exec, returned map[string]map[string]int64, count c11Counter) []c11Finding {
	model := ex.tasks
	typeIdx := map[string]int{string(c11KTypes[0]): 0, string(c11KTypes[1]): 1}
	run := &c11Run{
		Tasks:   model,
		Already: c.Already,
		Contrib: func(pod int, typ, res string) (int64, bool) {
			ti := typeIdx[typ]
			for r := 0; r < 2; r++ {
				if string(c11KRes[ti][r]) == res {
					return c.Pods[pod][ti][r], true
				}
			}
			return 0, true
		},
		Elig: func(task, pod int) string {
			if !c11InList(&model[task], pod) {
				return "the pod is not in the task's victim list"
			}
			return ""
		},
		MayPrecede: func(task, a, b int) (bool, string) {
			pa, pb := -1, -1
			for i, p := range model[task].List {
				if p == a {
					pa = i
				}
				if p == b {
					pb = i
				}
			}
			if pa < pb {
				return true, ""
			}
			return false, fmt.Sprintf("the published list of the task is %v", model[task].List)
		},
		Events:   ex.events,
		Returned: returned,
	}
	return c11Judge(run, count)
}

type c11KTmpl struct {
	Type int
	Dims []int // resources (0/1) of the type that carry a target; the other one is absent
}

type c11KScenario struct {
	name     string
	n        int
	alpha    []c11KPod
	tasks    []c11KTmpl
	extended bool // single-dimension target values {0,1,2,S-1,S,S+1} instead of {0,1,S,S+1}
	absent   bool // a targeted dimension may also be absent from the target
}

// c11OrderedSublists returns every ordered selection of distinct elements of 0..n-1 (all lengths >= 1).
func c11OrderedSublists(n int) [][]int {
	var out [][]int
	var rec func(cur []int, used uint32)
	rec = func(cur []int, used uint32) {
		if len(cur) > 0 {
			out = append(out, append([]int{}, cur...))
		}
		for i := 0; i < n; i++ {
			if used&(1<<uint(i)) == 0 {
				rec(append(cur, i), used|1<<uint(i))
			}
		}
	}
	rec(nil, 0)
	return out
}

func c11TargetValues(sum int64, extended, absent bool) []int64 {
	cand := []int64{0, 1, sum, sum + 1}
	if extended {
		cand = []int64{0, 1, 2, sum - 1, sum, sum + 1}
	}
	if absent {
		cand = append([]int64{-1}, cand...)
	}
	var out []int64
	for _, v := range cand {
		if v < -1 {
			continue
		}
		dup := false
		for _, o := range out {
			if o == v {
				dup = true
			}
		}
		if !dup {
			out = append(out, v)
		}
	}
	return out
}

func c11KScenarios(env *mc.Env) []c11KScenario {
	used := func(vals ...int64) []c11KPod {
		var a []c11KPod
		for _, v := range vals {
			a = append(a, c11KPod{{v, 0}, {0, 0}})
		}
		return a
	}
	var req2 []c11KPod // frees (a, b) of the two request resources
	for a := int64(0); a <= 2; a++ {
		for b := int64(0); b <= 2; b++ {
			req2 = append(req2, c11KPod{{0, 0}, {a, b}})
		}
	}
	var cross []c11KPod // frees u of used memory and q of one request resource
	for _, u := range []int64{0, 1, 3} {
		for _, q := range []int64{0, 1, 2} {
			cross = append(cross, c11KPod{{u, 0}, {q, 0}})
		}
	}
	var req2s []c11KPod // request class pods: only one of the two resources, or none
	for _, p := range [][2]int64{{0, 0}, {1, 0}, {2, 0}, {0, 1}, {0, 2}} {
		req2s = append(req2s, c11KPod{{0, 0}, {p[0], p[1]}})
	}
	U := c11KTmpl{0, []int{0}}
	Q := c11KTmpl{1, []int{0}}
	Q2 := c11KTmpl{1, []int{0, 1}}
	QB := c11KTmpl{1, []int{1}}
	var s []c11KScenario
	for n := 1; n <= 4; n++ {
		s = append(s, c11KScenario{name: fmt.Sprintf("1task-1dim-n%d", n), n: n, alpha: used(0, 1, 2, 3), tasks: []c11KTmpl{U}, extended: true})
	}
	for n := 1; n <= env.Pick(3, 4); n++ {
		s = append(s, c11KScenario{name: fmt.Sprintf("1task-2dim-n%d", n), n: n, alpha: req2, tasks: []c11KTmpl{Q2}, absent: true})
	}
	for n := 1; n <= 3; n++ {
		s = append(s, c11KScenario{name: fmt.Sprintf("2task-same-n%d", n), n: n, alpha: used(0, 1, 3), tasks: []c11KTmpl{U, U}})
	}
	for n := 1; n <= env.Pick(2, 3); n++ {
		cr, r2 := cross, req2s
		if n == 3 {
			// three pods under two tasks of different kind: reduced contribution alphabets
			cr = []c11KPod{{{0, 0}, {0, 0}}, {{1, 0}, {0, 0}}, {{0, 0}, {2, 0}}, {{1, 0}, {2, 0}}}
			r2 = []c11KPod{{{0, 0}, {1, 0}}, {{0, 0}, {0, 1}}, {{0, 0}, {2, 1}}}
		}
		s = append(s, c11KScenario{name: fmt.Sprintf("2task-used+request-n%d", n), n: n, alpha: cr, tasks: []c11KTmpl{U, Q}})
		s = append(s, c11KScenario{name: fmt.Sprintf("2task-request+used-n%d", n), n: n, alpha: cr, tasks: []c11KTmpl{Q, U}})
		s = append(s, c11KScenario{name: fmt.Sprintf("2task-request-a+ab-n%d", n), n: n, alpha: r2, tasks: []c11KTmpl{Q, Q2}})
		s = append(s, c11KScenario{name: fmt.Sprintf("2task-request-a+b-n%d", n), n: n, alpha: r2, tasks: []c11KTmpl{Q, QB}})
	}
	sort.SliceStable(s, func(i, j int) bool { return s[i].n < s[j].n }) // small pod sets first: they always complete
	return s
}

func c11KDigest(c *c11KCase, ev []c11Event) uint64 {
	h := fnv.New64a()
	fmt.Fprint(h, c.Pods, c.Already, c.Fails)
	for _, t := range c.Tasks {
		fmt.Fprint(h, t.Type, t.Target, t.List, t.Sparse, ";")
	}
	fmt.Fprint(h, ev)
	return h.Sum64()
}

func TestVerifC11Kill(t *testing.T) {
	env := mc.LoadEnv()
	{
		var raw map[string]json.RawMessage
		if part, ok := env.ReplayData(&raw); ok {
			// every unit receives the replay file; only the unit that produced it re-executes the case
			res := mc.NewResult("C11", "kill-replay", "faults")
			res.Exhaustive = true
			if strings.HasPrefix(part, "kill-") {
				var c c11KCase
				env.ReplayData(&c)
				ex, ret, newly, ps := c11KRun(&c, c11KMakePods(len(c.Pods)))
				fmt.Printf("REPLAY case=%v\n events=%+v\n returned=%v newlyEvicted=%v panic=%q\n", c, ex.events, ret, newly, ps)
				res.Evaluations = 1
				for _, f := range c11KJudge(&c, ex, ret, func(string, int64) {}) {
					fmt.Printf(" FINDING %s: %s\n", f.Clause, f.What)
					res.Violate(mc.Violation{Key: "C11|kill|" + f.Clause, What: f.What + "; case " + c.String(), Replay: c})
				}
			}
			env.Emit(res)
			return
		}
	}
	scenarios := c11KScenarios(env)
	var emitted []*mc.Result
	for si, sc := range scenarios {
		sc := sc
		penv := c11PartEnv(env, len(scenarios)-si)
		cpu0 := c11CPUms()
		res := mc.NewResult("C11", "kill-"+sc.name, "faults")
		ds := mc.NewDistinctSet()
		rep := &c11Reporter{}
		pods := c11KMakePods(sc.n)
		sub := c11OrderedSublists(sc.n)
		two := len(sc.tasks) == 2
		tcodes := 4
		if sc.extended {
			tcodes = 6
		}
		if sc.absent {
			tcodes++
		}
		var dims []int
		for i := 0; i < sc.n; i++ {
			dims = append(dims, len(sc.alpha))
		}
		if two {
			dims = append(dims, 1<<uint(sc.n), len(sub))
		}
		ndimT := 0
		for _, tm := range sc.tasks {
			ndimT += len(tm.Dims)
		}
		for i := 0; i < ndimT; i++ {
			dims = append(dims, tcodes)
		}
		dims = append(dims, 2, 1<<uint(sc.n)) // sparse, already-evicted subset
		rx := mc.Radix{Dims: dims}
		done, complete := penv.ParallelRangeL(res, rx.Size(), func(l *mc.Local, idx int64) {
			d := rx.Decode(idx, make([]int, 0, 16))
			c := c11KCase{Pods: make([]c11KPod, sc.n), Already: make([]bool, sc.n)}
			pos := 0
			for i := 0; i < sc.n; i++ {
				c.Pods[i] = sc.alpha[d[pos]]
				pos++
			}
			lists := make([][]int, len(sc.tasks))
			if two {
				mask := d[pos]
				pos++
				for i := 0; i < sc.n; i++ {
					if mask&(1<<uint(i)) != 0 {
						lists[0] = append(lists[0], i)
					}
				}
				lists[1] = sub[d[pos]]
				pos++
				if len(lists[0]) == 0 {
					return
				}
				// pods in neither list do not take part: that case is the one with fewer pods
				cover := uint32(mask)
				for _, p := range lists[1] {
					cover |= 1 << uint(p)
				}
				if cover != 1<<uint(sc.n)-1 {
					return
				}
			} else {
				for i := 0; i < sc.n; i++ {
					lists[0] = append(lists[0], i)
				}
			}
			for k, tm := range sc.tasks {
				ts := c11KTaskSpec{Type: tm.Type, Target: [2]int64{-1, -1}, List: lists[k]}
				for _, r := range tm.Dims {
					var sum int64
					for _, p := range lists[k] {
						sum += c.Pods[p][tm.Type][r]
					}
					vals := c11TargetValues(sum, sc.extended, sc.absent)
					code := d[pos]
					pos++
					if code >= len(vals) {
						return // duplicate target value
					}
					ts.Target[r] = vals[code]
				}
				c.Tasks = append(c.Tasks, ts)
			}
			sparse := d[pos] == 1
			pos++
			for k := range c.Tasks {
				c.Tasks[k].Sparse = sparse
			}
			am := d[pos]
			for i := 0; i < sc.n; i++ {
				c.Already[i] = am&(1<<uint(i)) != 0
			}
			l.Count("input_cases", 1)
			c11ExploreFailures(func(fails []bool) int {
				cc := c
				cc.Fails = append([]bool{}, fails...)
				l.Evals++
				ex, ret, newly, ps := c11KRun(&cc, pods)
				if ps != "" {
					rep.Report(res, l, "C11|kill|panic", func() (string, any) { return ps + " case " + cc.String(), cc })
					return ex.calls
				}
				for _, f := range c11KJudge(&cc, ex, ret, l.Count) {
					f := f
					rep.Report(res, l, "C11|kill|"+f.Clause, func() (string, any) {
						return fmt.Sprintf("%s; case %v; calls %+v; returned %v", f.What, cc, c11EvictsOnly(ex.events), ret), cc
					})
				}
				anyOK := false
				for _, e := range ex.events {
					if e.Evict && e.OK {
						anyOK = true
					}
				}
				if anyOK != newly {
					l.Count("diag_newlyEvicted_flag_differs_from_successful_calls", 1)
				}
				if ex.calls > 0 {
					ds.AddHash(c11KDigest(&cc, ex.events))
				}
				if len(fails) > 0 {
					l.Count("runs_with_failing_calls", 1)
				}
				if idx%500009 == 0 && len(fails) == 0 {
					res.Sample(fmt.Sprintf("%v -> calls %+v returned %v", cc, c11EvictsOnly(ex.events), ret))
				}
				return ex.calls
			})
		})
		res.Count("cpu_ms", c11CPUms()-cpu0)
		res.Traces = res.Evaluations
		res.Distinct = ds.Len()
		res.Exhaustive = complete
		if !complete {
			res.Capped = fmt.Sprintf("time budget hit after %d of %d input codes", done, rx.Size())
		}
		res.Rule = fmt.Sprintf("every tuple of %d pods over the contribution alphabet %v (rows: [used memory,cpu][request batch-cpu,mid-cpu]); tasks %+v (type 0=podUsed 1=podResourceRequest; with two tasks: victim list 1 = every subset in index order, list 2 = every ordered selection, union = all pods); each targeted dimension at every distinct value of {absent?,0,1,(2,S-1,)S,S+1} with S = sum over the task's own list; GetPodResourceFunc full / sparse(nil when zero); every subset of pods already evicted; every pattern of individual Evict calls failing (decision tree over the calls made). evaluations = executions of KillAndEvictPods; non-trivial = at least one Evict call; distinct = distinct (input, call log)", sc.n, sc.alpha, sc.tasks)
		res.Bounds = map[string]any{"pods": sc.n, "tasks": len(sc.tasks), "input_codes": rx.Size()}
		res.Assumptions = []string{"an Evict call on a pod that IsPodEvicted reports as evicted answers true (behaviour of Evictor.EvictPodIfNotEvicted)", "the per-pod resource functions of simultaneous tasks report the same facts about a pod (possibly restricted to the task's own resources)"}
		if n := res.Counters["diag_stopped_early_with_useful_candidate"]; n > 0 {
			res.Diag(fmt.Sprintf("%d task runs ended with the target not covered although an untried candidate would free something of it (not a violation: the statement bounds eviction from above only)", n))
		}
		env.Emit(res)
		emitted = append(emitted, res)
	}
	c11Vacuity(env, "kill", emitted, c11RoundVacuity)
}
