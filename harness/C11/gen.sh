#!/bin/sh
# Derives the per-package copies of the common files (only the package clause differs).
cd "$(dirname "$0")"
sed 's/^package util$/package memoryevict/' judge_test.go > judge_mem_test.go
sed 's/^package util$/package cpuevict/' judge_test.go > judge_cpu_test.go
sed 's/^package memoryevict$/package cpuevict/' round_test.go > round_cpu_test.go
