package memoryevict

// C11, memoryevict-specific part: features, resources, construction of the real memoryEvictor on fakes, the node
// situations that steer the computed release targets. Everything else is in round_test.go / judge_mem_test.go.

import (
	"testing"
	"time"

	corev1 "k8s.io/api/core/v1"
	"k8s.io/apimachinery/pkg/api/resource"
	metav1 "k8s.io/apimachinery/pkg/apis/meta/v1"
	"k8s.io/component-base/featuregate"

	slov1alpha1 "github.com/koordinator-sh/koordinator/apis/slo/v1alpha1"
	"github.com/koordinator-sh/koordinator/pkg/features"
	"github.com/koordinator-sh/koordinator/pkg/koordlet/metriccache"
	qosmanagerUtil "github.com/koordinator-sh/koordinator/pkg/koordlet/qosmanager/plugins/util"
	"github.com/koordinator-sh/koordinator/pkg/koordlet/statesinformer"
	"github.com/koordinator-sh/koordinator/pkg/zzverif/mc"
)

const (
	c11Unit     = "mem"
	c11Scale    = int64(1) // usage / request alphabets in bytes
	c11ResBatch = "kubernetes.io/batch-memory"
	c11ResMid   = "kubernetes.io/mid-memory"
	c11ResPlain = "memory"
	c11FBE      = "BEMemoryEvict"
	c11FUsed    = "MemoryEvict"
	c11FAlloc   = "MemoryAllocatableEvict"
)

// the order in which memoryEvict() builds the tasks
var c11FeatureOrder = []featuregate.Feature{features.BEMemoryEvict, features.MemoryAllocatableEvict, features.MemoryEvict}

func c11ReqQuantity(res string, v int64) resource.Quantity {
	return *resource.NewQuantity(v, resource.BinarySI)
}

func c11QValue(res string, q resource.Quantity) int64 { return q.Value() }

// c11BELastKey: last key of the best-effort order, "compare priority > podMetric": larger memory usage first.
func c11BELastKey(a, b *c11P) (bool, string) { return a.Usage >= b.Usage, "usage" }

type c11MCfg struct {
	NodeUsed       int64 `json:"nodeUsed"` // node memory usage metric (bytes); capacity is 100 bytes, so it is also the percentage
	Threshold      int64 `json:"threshold"`
	Lower          int64 `json:"lower"`
	UsedPrioTh     int32 `json:"usedPrioTh"`
	AllocPrioTh    int32 `json:"allocPrioTh"`
	AllocThreshold int64 `json:"allocThreshold"`
	AllocLower     int64 `json:"allocLower"`
	Allocatable    int64 `json:"allocatable"` // node allocatable of batch-memory, mid-memory and memory; -1: absent
}

type c11World struct {
	m     *memoryEvictor
	pods  []*corev1.Pod
	metas []*statesinformer.PodMeta
	node  *corev1.Node
	slo   *slov1alpha1.NodeSLO
	th    *slov1alpha1.ResourceThresholdStrategy
}

func c11NewWorld(ps []c11P, cfg *c11MCfg) *c11World {
	w := &c11World{}
	vals := map[string]float64{}
	for i := range ps {
		pod := c11BuildPod(i, &ps[i])
		w.pods = append(w.pods, pod)
		w.metas = append(w.metas, &statesinformer.PodMeta{Pod: pod})
		if ps[i].Usage >= 0 {
			meta, err := metriccache.PodMemUsageMetric.BuildQueryMeta(metriccache.MetricPropertiesFunc.Pod(string(pod.UID)))
			if err != nil {
				panic(err)
			}
			vals[c11MetaKey(meta)] = float64(ps[i].Usage)
		}
	}
	meta, err := metriccache.NodeMemoryUsageMetric.BuildQueryMeta(nil)
	if err != nil {
		panic(err)
	}
	vals[c11MetaKey(meta)] = float64(cfg.NodeUsed)
	w.node = &corev1.Node{ObjectMeta: metav1.ObjectMeta{Name: "c11-node"}}
	w.node.Status.Capacity = corev1.ResourceList{corev1.ResourceMemory: *resource.NewQuantity(100, resource.BinarySI)}
	w.node.Status.Allocatable = corev1.ResourceList{}
	if cfg.Allocatable >= 0 {
		for _, rn := range []string{c11ResBatch, c11ResMid, c11ResPlain} {
			w.node.Status.Allocatable[corev1.ResourceName(rn)] = *resource.NewQuantity(cfg.Allocatable, resource.BinarySI)
		}
	}
	enable := true
	th := &slov1alpha1.ResourceThresholdStrategy{Enable: &enable}
	c := *cfg
	th.MemoryEvictThresholdPercent = &c.Threshold
	th.MemoryEvictLowerPercent = &c.Lower
	th.EvictEnabledPriorityThreshold = &c.UsedPrioTh
	th.AllocatableEvictPriorityThreshold = &c.AllocPrioTh
	th.MemoryAllocatableEvictThresholdPercent = &c.AllocThreshold
	th.MemoryAllocatableEvictLowerPercent = &c.AllocLower
	w.th = th
	w.slo = &slov1alpha1.NodeSLO{Spec: slov1alpha1.NodeSLOSpec{ResourceUsedThresholdWithBE: th}}
	inf := &c11Informer{pods: w.metas, node: w.node, slo: w.slo}
	w.m = &memoryEvictor{statesInformer: inf, metricCache: &c11Cache{vals: vals, now: time.Now().UnixMilli()}, metricCollectInterval: time.Second}
	return w
}

func (w *c11World) buildTask(f featuregate.Feature) (*qosmanagerUtil.EvictTaskInfo, error) {
	return w.m.buildEvictTask(f, w.slo, w.node)
}

func (w *c11World) setExecutor(ex qosmanagerUtil.EvictionExecutor) { w.m.evictExecutor = ex }

// round runs the strategy's own round function (feature gates, task building in its fixed order, KillAndEvictPods)
func (w *c11World) round() { w.m.memoryEvict() }

func (w *c11World) list(feature string) []*qosmanagerUtil.PodEvictInfo {
	switch feature {
	case c11FBE:
		return w.m.getSortedBEPodInfos(feature, w.th, w.metas)
	case c11FUsed:
		return w.m.getPodEvictInfoAndSortByUsed(feature, w.th, w.metas)
	default:
		return w.m.getPodEvictInfoAndSortByAllocatable(feature, w.th, w.metas)
	}
}

// name of the last key of the best-effort order (vacuity counter)
const c11BEKeyName = "usage"

// which pod keys the enabled features read (the others are not varied in the whole-round parts)
func c11NeedsUsage(fs []string) bool { return c11Has(fs, c11FBE) || c11Has(fs, c11FUsed) }
func c11NeedsReq(fs []string) bool   { return c11Has(fs, c11FAlloc) }

func c11BuilderCfg(th int32) c11MCfg {
	return c11MCfg{NodeUsed: 50, Threshold: 1, Lower: 0, UsedPrioTh: th, AllocPrioTh: th, AllocThreshold: 1, AllocLower: 0, Allocatable: 100}
}

const c11SituationsText = "used-memory target {below threshold,1,2,sum,sum+1} bytes through the node usage metric (capacity 100 bytes, threshold 1%, lower 0%); priority thresholds {9999,7999} / {7999,5999}; allocatable target through lower percent {0,1} with node allocatable 100, or node allocatable absent"

// c11ECfgs: the node situations of one pod set: used-memory targets 1 / 2 / exact sum / sum+1 (and "below the
// threshold"), allocatable targets through the lower percent and the node allocatable (present / absent).
func c11ECfgs(ps []c11P, fs []string, rich bool) []c11MCfg {
	var sum int64
	for i := range ps {
		if ps[i].Usage > 0 {
			sum += ps[i].Usage
		}
	}
	base := c11MCfg{NodeUsed: 0, Threshold: 1, Lower: 0, UsedPrioTh: 9999, AllocPrioTh: 7999, AllocThreshold: 1, AllocLower: 0, Allocatable: 100}
	cfgs := []c11MCfg{base}
	if c11Has(fs, c11FBE) || c11Has(fs, c11FUsed) {
		var next []c11MCfg
		for _, c := range cfgs {
			for _, u := range c11Dedupe([]int64{0, 1, 2, sum, sum + 1}) {
				c.NodeUsed = u
				next = append(next, c)
			}
		}
		cfgs = next
	}
	if c11Has(fs, c11FUsed) && rich {
		var next []c11MCfg
		for _, c := range cfgs {
			for _, t := range []int32{9999, 7999} {
				c.UsedPrioTh = t
				next = append(next, c)
			}
		}
		cfgs = next
	}
	if c11Has(fs, c11FAlloc) {
		var next []c11MCfg
		for _, c := range cfgs {
			for _, v := range [][2]int64{{0, 100}, {1, 100}, {0, -1}} {
				c.AllocLower, c.AllocThreshold, c.Allocatable = v[0], v[0]+1, v[1]
				ths := []int32{7999}
				if rich {
					ths = []int32{7999, 5999}
				}
				for _, t := range ths {
					c.AllocPrioTh = t
					next = append(next, c)
				}
			}
		}
		cfgs = next
	}
	return cfgs
}

func TestVerifC11Mem(t *testing.T) {
	env := mc.LoadEnv()
	if c11Replay(env) {
		return
	}
	c11RunUnit(env)
}
