package cpuevict

// C11, cpuevict-specific part: features, resources, construction of the real cpuEvictor on fakes, the node
// situations that steer the computed release targets. Everything else is in round_cpu_test.go / judge_cpu_test.go.
// CPU amounts are multiples of 125 milli-CPU so that every float conversion in the code (cores x 1000) is exact.

import (
	"testing"
	"time"

	corev1 "k8s.io/api/core/v1"
	"k8s.io/apimachinery/pkg/api/resource"
	metav1 "k8s.io/apimachinery/pkg/apis/meta/v1"
	"k8s.io/component-base/featuregate"

	slov1alpha1 "github.com/koordinator-sh/koordinator/apis/slo/v1alpha1"
	"github.com/koordinator-sh/koordinator/pkg/features"
	"github.com/koordinator-sh/koordinator/pkg/koordlet/metriccache"
	qosmanagerUtil "github.com/koordinator-sh/koordinator/pkg/koordlet/qosmanager/plugins/util"
	"github.com/koordinator-sh/koordinator/pkg/koordlet/statesinformer"
	"github.com/koordinator-sh/koordinator/pkg/zzverif/mc"
)

const (
	c11Unit     = "cpu"
	c11Scale    = int64(125) // usage / request alphabets in units of 125 milli-CPU
	c11ResBatch = "kubernetes.io/batch-cpu"
	c11ResMid   = "kubernetes.io/mid-cpu"
	c11ResPlain = "cpu"
	c11FBE      = "BECPUEvict"
	c11FUsed    = "CPUEvict"
	c11FAlloc   = "CPUAllocatableEvict"

	c11NodeMilli = int64(12500) // node CPU capacity: 1% = 125 milli
)

// the order in which cpuEvict() builds the tasks
var c11FeatureOrder = []featuregate.Feature{features.BECPUEvict, features.CPUAllocatableEvict, features.CPUEvict}

// batch-cpu / mid-cpu are counted in milli-CPU as plain integers, cpu is a normal CPU quantity
func c11ReqQuantity(res string, v int64) resource.Quantity {
	if res == c11ResPlain {
		return *resource.NewMilliQuantity(v, resource.DecimalSI)
	}
	return *resource.NewQuantity(v, resource.DecimalSI)
}

func c11QValue(res string, q resource.Quantity) int64 {
	if res == c11ResPlain {
		return q.MilliValue()
	}
	return q.Value()
}

// c11BELastKey: last key of the best-effort order: larger usage/request ratio first (request = batch-cpu request);
// a pod without batch-cpu request has no ratio and is incomparable.
func c11BELastKey(a, b *c11P) (bool, string) {
	ra, rb := int64(0), int64(0)
	if c11ClassRes(a) == c11ResBatch {
		ra = a.Req
	}
	if c11ClassRes(b) == c11ResBatch {
		rb = b.Req
	}
	if ra <= 0 || rb <= 0 {
		return true, ""
	}
	return a.Usage*rb >= b.Usage*ra, "usage/request"
}

type c11MCfg struct {
	// BETarget steers the BECPUEvict target: the node BE metrics say request 4096, real limit 2048-BETarget, usage 4096;
	// with satisfaction lower = upper = 50% the code computes exactly BETarget milli-CPU (0: satisfied, no task)
	BETarget       int64 `json:"beTarget"`
	NodeUsed       int64 `json:"nodeUsed"` // node cpu usage metric in milli-CPU; capacity 12500 milli
	Threshold      int64 `json:"threshold"`
	Lower          int64 `json:"lower"`
	UsedPrioTh     int32 `json:"usedPrioTh"`
	AllocPrioTh    int32 `json:"allocPrioTh"`
	AllocThreshold int64 `json:"allocThreshold"`
	AllocLower     int64 `json:"allocLower"`
	Allocatable    int64 `json:"allocatable"` // node allocatable of batch-cpu, mid-cpu and cpu in milli; -1: absent
}

type c11World struct {
	m     *cpuEvictor
	pods  []*corev1.Pod
	metas []*statesinformer.PodMeta
	node  *corev1.Node
	slo   *slov1alpha1.NodeSLO
	th    *slov1alpha1.ResourceThresholdStrategy
}

func c11NewWorld(ps []c11P, cfg *c11MCfg) *c11World {
	w := &c11World{}
	vals := map[string]float64{}
	put := func(res metriccache.MetricResource, props map[metriccache.MetricProperty]string, v float64) {
		meta, err := res.BuildQueryMeta(props)
		if err != nil {
			panic(err)
		}
		vals[c11MetaKey(meta)] = v
	}
	for i := range ps {
		pod := c11BuildPod(i, &ps[i])
		w.pods = append(w.pods, pod)
		w.metas = append(w.metas, &statesinformer.PodMeta{Pod: pod})
		if ps[i].Usage >= 0 {
			put(metriccache.PodCPUUsageMetric, metriccache.MetricPropertiesFunc.Pod(string(pod.UID)), float64(ps[i].Usage)/1000)
		}
	}
	put(metriccache.NodeCPUUsageMetric, nil, float64(cfg.NodeUsed)/1000)
	be := func(alloc metriccache.MetricPropertyValue, v float64) {
		put(metriccache.NodeBEMetric, metriccache.MetricPropertiesFunc.NodeBE(string(metriccache.BEResourceCPU), string(alloc)), v)
	}
	be(metriccache.BEResourceAllocationUsage, 4096)
	be(metriccache.BEResourceAllocationRequest, 4096)
	be(metriccache.BEResourceAllocationRealLimit, float64(2048-cfg.BETarget))
	w.node = &corev1.Node{ObjectMeta: metav1.ObjectMeta{Name: "c11-node"}}
	w.node.Status.Capacity = corev1.ResourceList{corev1.ResourceCPU: *resource.NewMilliQuantity(c11NodeMilli, resource.DecimalSI)}
	w.node.Status.Allocatable = corev1.ResourceList{}
	if cfg.Allocatable >= 0 {
		for _, rn := range []string{c11ResBatch, c11ResMid, c11ResPlain} {
			w.node.Status.Allocatable[corev1.ResourceName(rn)] = c11ReqQuantity(rn, cfg.Allocatable)
		}
	}
	enable := true
	th := &slov1alpha1.ResourceThresholdStrategy{Enable: &enable}
	c := *cfg
	fifty := int64(50)
	th.CPUEvictBESatisfactionLowerPercent = &fifty
	th.CPUEvictBESatisfactionUpperPercent = &fifty
	th.CPUEvictThresholdPercent = &c.Threshold
	th.CPUEvictLowerPercent = &c.Lower
	th.EvictEnabledPriorityThreshold = &c.UsedPrioTh
	th.AllocatableEvictPriorityThreshold = &c.AllocPrioTh
	th.CPUAllocatableEvictThresholdPercent = &c.AllocThreshold
	th.CPUAllocatableEvictLowerPercent = &c.AllocLower
	w.th = th
	w.slo = &slov1alpha1.NodeSLO{Spec: slov1alpha1.NodeSLOSpec{ResourceUsedThresholdWithBE: th}}
	inf := &c11Informer{pods: w.metas, node: w.node, slo: w.slo}
	w.m = &cpuEvictor{statesInformer: inf, metricCache: &c11Cache{vals: vals, now: time.Now().UnixMilli()}, metricCollectInterval: time.Second}
	return w
}

func (w *c11World) buildTask(f featuregate.Feature) (*qosmanagerUtil.EvictTaskInfo, error) {
	return w.m.buildEvictTask(f, w.slo, w.node)
}

func (w *c11World) setExecutor(ex qosmanagerUtil.EvictionExecutor) { w.m.evictExecutor = ex }

// round runs the strategy's own round function (feature gates, task building in its fixed order, KillAndEvictPods)
func (w *c11World) round() { w.m.cpuEvict() }

func (w *c11World) list(feature string) []*qosmanagerUtil.PodEvictInfo {
	switch feature {
	case c11FBE:
		return w.m.getBEPodEvictInfoAndSort(feature, w.th, w.metas)
	case c11FUsed:
		return w.m.getPodEvictInfoAndSortByUsed(feature, w.th, w.metas)
	default:
		return w.m.getPodEvictInfoAndSortByAllocatable(feature, w.th, w.metas)
	}
}

// name of the last key of the best-effort order (vacuity counter)
const c11BEKeyName = "usage/request"

// which pod keys the enabled features read (the others are not varied in the whole-round parts)
func c11NeedsUsage(fs []string) bool { return c11Has(fs, c11FBE) || c11Has(fs, c11FUsed) }
func c11NeedsReq(fs []string) bool   { return c11Has(fs, c11FBE) || c11Has(fs, c11FAlloc) }

func c11BuilderCfg(th int32) c11MCfg {
	return c11MCfg{BETarget: 125, NodeUsed: 6250, Threshold: 1, Lower: 0, UsedPrioTh: th, AllocPrioTh: th, AllocThreshold: 1, AllocLower: 0, Allocatable: c11NodeMilli}
}

const c11SituationsText = "BE-satisfaction target {none,125,250,sum of batch requests,sum+125} milli through the node BE metrics (request 4096, limit 2048-target, satisfaction bounds 50%/50%); used-CPU target {below threshold,125,250,sum,sum+125} milli through the node usage metric (capacity 12500 milli, threshold 1%, lower 0%); priority thresholds {9999,7999} / {7999,5999}; allocatable target through lower percent {0,1} with node allocatable 12500 milli, or node allocatable absent"

func c11ECfgs(ps []c11P, fs []string, rich bool) []c11MCfg {
	var sumU, sumB int64
	for i := range ps {
		if ps[i].Usage > 0 {
			sumU += ps[i].Usage
		}
		if c11ClassRes(&ps[i]) == c11ResBatch {
			sumB += ps[i].Req
		}
	}
	base := c11MCfg{BETarget: 0, NodeUsed: 0, Threshold: 1, Lower: 0, UsedPrioTh: 9999, AllocPrioTh: 7999, AllocThreshold: 1, AllocLower: 0, Allocatable: c11NodeMilli}
	cfgs := []c11MCfg{base}
	both := c11Has(fs, c11FBE) && c11Has(fs, c11FUsed)
	targets := func(sum int64) []int64 {
		if both && !rich {
			return c11Dedupe([]int64{125, sum, sum + 125})
		}
		return c11Dedupe([]int64{0, 125, 250, sum, sum + 125})
	}
	if c11Has(fs, c11FBE) {
		var next []c11MCfg
		for _, c := range cfgs {
			for _, t := range targets(sumB) {
				c.BETarget = t
				next = append(next, c)
			}
		}
		cfgs = next
	}
	if c11Has(fs, c11FUsed) {
		var next []c11MCfg
		for _, c := range cfgs {
			for _, u := range targets(sumU) {
				c.NodeUsed = u
				ths := []int32{9999}
				if rich {
					ths = []int32{9999, 7999}
				}
				for _, t := range ths {
					c.UsedPrioTh = t
					next = append(next, c)
				}
			}
		}
		cfgs = next
	}
	if c11Has(fs, c11FAlloc) {
		var next []c11MCfg
		for _, c := range cfgs {
			for _, v := range [][2]int64{{0, c11NodeMilli}, {1, c11NodeMilli}, {0, -1}} {
				c.AllocLower, c.AllocThreshold, c.Allocatable = v[0], v[0]+1, v[1]
				ths := []int32{7999}
				if rich {
					ths = []int32{7999, 5999}
				}
				for _, t := range ths {
					c.AllocPrioTh = t
					next = append(next, c)
				}
			}
		}
		cfgs = next
	}
	return cfgs
}

func TestVerifC11Cpu(t *testing.T) {
	env := mc.LoadEnv()
	if c11Replay(env) {
		return
	}
	c11RunUnit(env)
}
