package memoryevict

// MASTER COPY of the part of the C11 harness that is common to the memoryevict and cpuevict packages; gen.sh derives
// round_cpu_test.go from it by rewriting the package clause. The package-specific hooks (features, resources, world
// construction, node situations) are in mem_test.go / cpu_test.go.

// C11 parts "<unit>-builders-*" and "<unit>-round-*": the victim-list builders of the strategies (best-effort list,
// getPodEvictInfoAndSortByPriority through its two wrappers), the release-target functions and the whole round
// (buildEvictTask for 1-3 simultaneous features -> KillAndEvictPods) on enumerated pod sets, with hand-written
// fakes for the states informer and the metric cache (the real aggregate result is used) and the recording /
// failing executor of judge_test.go. All oracle predicates below are restated from the property statement and
// the published API documentation; they read the harness' own pod description (c11P), never the code's helpers.

import (
	"encoding/json"
	"fmt"
	"hash/fnv"
	"sort"
	"strconv"
	"strings"
	"time"

	"github.com/prometheus/prometheus/model/labels"
	"github.com/prometheus/prometheus/tsdb/chunkenc"
	corev1 "k8s.io/api/core/v1"
	metav1 "k8s.io/apimachinery/pkg/apis/meta/v1"
	"k8s.io/apimachinery/pkg/types"

	slov1alpha1 "github.com/koordinator-sh/koordinator/apis/slo/v1alpha1"
	"github.com/koordinator-sh/koordinator/pkg/features"
	"github.com/koordinator-sh/koordinator/pkg/koordlet/metriccache"
	qosmanagerUtil "github.com/koordinator-sh/koordinator/pkg/koordlet/qosmanager/plugins/util"
	"github.com/koordinator-sh/koordinator/pkg/koordlet/statesinformer"
	"github.com/koordinator-sh/koordinator/pkg/zzverif/mc"
)

// ---------------------------------------------------------------------------------------------- fakes

type c11Informer struct {
	statesinformer.StatesInformer // nil: any other call panics (and is reported)
	pods                          []*statesinformer.PodMeta
	node                          *corev1.Node
	slo                           *slov1alpha1.NodeSLO
}

func (f *c11Informer) GetAllPods() []*statesinformer.PodMeta { return f.pods }
func (f *c11Informer) GetNode() *corev1.Node                 { return f.node }
func (f *c11Informer) GetNodeSLO() *slov1alpha1.NodeSLO      { return f.slo }

func c11MetaKey(meta metriccache.MetricMeta) string {
	p := meta.GetProperties()
	ks := make([]string, 0, len(p))
	for k := range p {
		ks = append(ks, k)
	}
	sort.Strings(ks)
	var b strings.Builder
	b.WriteString(meta.GetKind())
	for _, k := range ks {
		b.WriteString("|" + k + "=" + p[k])
	}
	return b.String()
}

// c11Cache answers every query with at most one series of one fresh point, like the TSDB querier does for a
// metric that was just collected; a metric that is not in vals has no series (pod without metrics).
type c11Cache struct {
	metriccache.MetricCache
	vals map[string]float64
	now  int64
}

func (c *c11Cache) Querier(start, end time.Time) (metriccache.Querier, error) {
	return &c11Querier{c}, nil
}

type c11Querier struct{ *c11Cache }

func (c *c11Querier) Close() {}
func (c *c11Querier) QueryAndClose(meta metriccache.MetricMeta, hints *metriccache.QueryHints, result metriccache.MetricResult) error {
	return c.Query(meta, hints, result)
}
func (c *c11Querier) Query(meta metriccache.MetricMeta, hints *metriccache.QueryHints, result metriccache.MetricResult) error {
	v, ok := c.vals[c11MetaKey(meta)]
	if !ok {
		return nil
	}
	return result.AddSeries(&c11Series{lbl: meta.GetProperties(), t: c.now, v: v})
}

type c11Series struct {
	lbl  map[string]string
	t    int64
	v    float64
	done bool
}

func (s *c11Series) Labels() labels.Labels       { return labels.FromMap(s.lbl) }
func (s *c11Series) Iterator() chunkenc.Iterator { return &c11Series{t: s.t, v: s.v} }
func (s *c11Series) Next() bool {
	if s.done {
		return false
	}
	s.done = true
	return true
}
func (s *c11Series) Seek(t int64) bool    { return s.Next() }
func (s *c11Series) At() (int64, float64) { return s.t, s.v }
func (s *c11Series) Err() error           { return nil }

// ---------------------------------------------------------------------------------------------- pods

// c11P is the harness' description of one pod; the corev1.Pod handed to the code is built from it.
type c11P struct {
	QoS      string  `json:"qos"`      // label koordinator.sh/qosClass
	Prio     *int32  `json:"prio"`     // spec.priority
	Enabled  bool    `json:"enabled"`  // label koordinator.sh/eviction-enabled=true
	Policy   *string `json:"policy"`   // annotation koordinator.sh/eviction-policy
	EvP      *string `json:"evp"`      // annotation koordinator.sh/eviction-priority
	SubPrio  *string `json:"subprio"`  // label koordinator.sh/priority
	Usage    int64   `json:"usage"`    // memory usage metric in bytes, -1: no metric
	Req      int64   `json:"req"`      // request of the pod's class resource (batch-memory / mid-memory / memory)
	Inactive bool    `json:"inactive"` // phase Succeeded
}

func (p c11P) String() string {
	s := p.QoS
	if p.Prio != nil {
		s += fmt.Sprintf(",prio=%d", *p.Prio)
	} else {
		s += ",prio=nil"
	}
	if p.Enabled {
		s += ",evict-enabled"
	}
	if p.Policy != nil {
		s += ",policy=" + *p.Policy
	}
	if p.EvP != nil {
		s += ",eviction-priority=" + *p.EvP
	}
	if p.SubPrio != nil {
		s += ",priority-label=" + *p.SubPrio
	}
	s += fmt.Sprintf(",usage=%d,req=%d", p.Usage, p.Req)
	if p.Inactive {
		s += ",Succeeded"
	}
	return "{" + s + "}"
}

const (
	c11LblQoS     = "koordinator.sh/qosClass"
	c11LblEnabled = "koordinator.sh/eviction-enabled"
	c11LblSubPrio = "koordinator.sh/priority"
	c11AnnPolicy  = "koordinator.sh/eviction-policy"
	c11AnnEvP     = "koordinator.sh/eviction-priority"
	c11TypeUsed   = "podUsed"
	c11TypeReq    = "podResourceRequest"
)

// c11ClassRes: which resource the pod requests (the koordinator priority bands: batch 5000-5999, mid 7000-7999).
func c11ClassRes(p *c11P) string {
	if p.Prio == nil {
		if p.QoS == "BE" {
			return c11ResBatch
		}
		return c11ResPlain
	}
	switch {
	case *p.Prio >= 5000 && *p.Prio <= 5999:
		return c11ResBatch
	case *p.Prio >= 7000 && *p.Prio <= 7999:
		return c11ResMid
	}
	return c11ResPlain
}

func c11BuildPod(i int, p *c11P) *corev1.Pod {
	name := "p" + strconv.Itoa(i)
	pod := &corev1.Pod{ObjectMeta: metav1.ObjectMeta{Name: name, Namespace: "default", UID: types.UID(name + "-uid"),
		Labels: map[string]string{}, Annotations: map[string]string{}}}
	if p.QoS != "" {
		pod.Labels[c11LblQoS] = p.QoS
	}
	if p.Enabled {
		pod.Labels[c11LblEnabled] = "true"
	}
	if p.SubPrio != nil {
		pod.Labels[c11LblSubPrio] = *p.SubPrio
	}
	if p.Policy != nil {
		pod.Annotations[c11AnnPolicy] = *p.Policy
	}
	if p.EvP != nil {
		pod.Annotations[c11AnnEvP] = *p.EvP
	}
	if p.Prio != nil {
		v := *p.Prio
		pod.Spec.Priority = &v
	}
	pod.Spec.Containers = []corev1.Container{{Name: "main", Resources: corev1.ResourceRequirements{Requests: corev1.ResourceList{
		corev1.ResourceName(c11ClassRes(p)): c11ReqQuantity(c11ClassRes(p), p.Req)}}}}
	pod.Status.Phase = corev1.PodRunning
	if p.Inactive {
		pod.Status.Phase = corev1.PodSucceeded
	}
	return pod
}

// ---------------------------------------------------------------------------------------------- oracle predicates

// c11Elig: "every victim is a pod the policy allows (best-effort QoS, or priority not above the configured
// threshold with eviction enabled, and not opted out of this eviction policy)". th == nil: the policy has no
// priority threshold (best-effort strategies). Anything the statement leaves open is accepted: a malformed
// opt-out annotation, a pod without spec.priority.
func c11Elig(feature string, th *int32, p *c11P) string {
	if p.Policy != nil {
		var allowed []string
		if err := json.Unmarshal([]byte(*p.Policy), &allowed); err == nil {
			in := false
			for _, a := range allowed {
				if a == feature {
					in = true
				}
			}
			if !in {
				return fmt.Sprintf("the pod restricts eviction to the policies %s, which do not include %s", *p.Policy, feature)
			}
		}
	}
	if p.QoS == "BE" {
		return ""
	}
	if th == nil {
		return "the pod is not best-effort and the policy has no priority threshold"
	}
	// the pod's priority in koordinator's documented sense (apis/extension GetPodPriorityValueWithDefault): a non-zero
	// spec.priority as it is; an absent or zero one stands for the default of the pod's koordinator priority class,
	// which without a priority-class label follows from the QoS (LS/LSR/LSE/SYSTEM: koord-prod 9500)
	prio, how := int32(0), ""
	switch {
	case p.Prio != nil && *p.Prio != 0:
		prio = *p.Prio
	case p.QoS == "LS" || p.QoS == "LSR" || p.QoS == "LSE" || p.QoS == "SYSTEM":
		prio, how = 9500, " (spec.priority absent or 0: default of the class koord-prod its QoS implies)"
	default:
		return "" // no QoS class either: what priority such a pod has is left open
	}
	if prio > *th {
		return fmt.Sprintf("the pod is not best-effort and its priority %d%s is above the threshold %d", prio, how, *th)
	}
	if !p.Enabled {
		return "the pod is not best-effort and eviction is not enabled on it"
	}
	return ""
}

// c11CertainVictim: does p certainly belong to the documented victim set of the feature? (Narrower than c11Elig, which
// is the statement's permissive disjunction used to judge a victim: here every documented condition of the feature's
// own rule must hold.) Best-effort features: best-effort QoS and not opted out. Threshold features: active, not opted
// out, a determined priority not above the threshold, eviction enabled, a usage metric present.
func c11CertainVictim(feature string, th *int32, p *c11P) bool {
	if c11Elig(feature, th, p) != "" {
		return false
	}
	if th == nil {
		return p.QoS == "BE"
	}
	if p.Inactive || p.Usage < 0 || !p.Enabled {
		return false
	}
	switch {
	case p.Prio != nil && *p.Prio != 0:
		return *p.Prio <= *th
	case p.QoS == "LS" || p.QoS == "LSR" || p.QoS == "LSE" || p.QoS == "SYSTEM":
		return 9500 <= *th
	}
	return false
}

func c11ParseInt(s *string, bits int) (int64, bool) {
	if s == nil {
		return 0, false
	}
	v, err := strconv.ParseInt(*s, 10, bits)
	return v, err == nil
}

// c11MayPrecede: may a be taken before b under the published order of the feature? Non-strict (ties either way);
// a key the statement does not define for a pod (no spec.priority, unparsable annotation, no priority label, no
// metric) makes the pair incomparable from that key on, and incomparable pairs are accepted.
// Priority strategies: eviction-priority annotation (unset = 0) ascending, then spec.priority ascending, then the
// koordinator.sh/priority label ascending, then usage (MemoryEvict) or request (MemoryAllocatableEvict) descending.
// Best-effort strategy: spec.priority ascending, then usage descending (the eviction-priority annotation is
// published for the priority strategies; its effect on the best-effort strategy is only counted).
func c11MayPrecede(feature string, a, b *c11P) (ok bool, level string) {
	if feature != c11FBE {
		ea, eb := int64(0), int64(0)
		var oka, okb = true, true
		if a.EvP != nil {
			ea, oka = c11ParseInt(a.EvP, 32)
		}
		if b.EvP != nil {
			eb, okb = c11ParseInt(b.EvP, 32)
		}
		if !oka || !okb {
			return true, ""
		}
		if ea != eb {
			return ea < eb, "eviction-priority"
		}
	}
	if a.Prio == nil || b.Prio == nil || *a.Prio == 0 || *b.Prio == 0 { // absent or 0: stands for a class default, not an order key the statement defines
		return true, ""
	}
	if *a.Prio != *b.Prio {
		return *a.Prio < *b.Prio, "priority"
	}
	if feature != c11FBE {
		sa, oka := c11ParseInt(a.SubPrio, 64)
		sb, okb := c11ParseInt(b.SubPrio, 64)
		if !oka || !okb {
			return true, ""
		}
		if sa != sb {
			return sa < sb, "priority-label"
		}
	}
	if feature == c11FAlloc {
		return a.Req >= b.Req, "request"
	}
	if a.Usage < 0 || b.Usage < 0 {
		return true, ""
	}
	if feature == c11FBE {
		return c11BELastKey(a, b)
	}
	return a.Usage >= b.Usage, "usage"
}

// ---------------------------------------------------------------------------------------------- running the code

type c11MCase struct {
	Pods     []c11P   `json:"pods"`
	Features []string `json:"features"`
	Cfg      c11MCfg  `json:"cfg"`
	Already  []bool   `json:"already"`
	Fails    []bool   `json:"fails"`
}

func (c c11MCase) String() string {
	return fmt.Sprintf("{pods:%v features:%v cfg:%+v alreadyEvicted:%v failingCalls:%v}", c.Pods, c.Features, c.Cfg, c.Already, c.Fails)
}

func c11FeatureTh(feature string, cfg *c11MCfg) *int32 {
	switch feature {
	case c11FUsed:
		v := cfg.UsedPrioTh
		return &v
	case c11FAlloc:
		v := cfg.AllocPrioTh
		return &v
	}
	return nil
}

func c11FeatureOfReason(reason string) string {
	return strings.TrimPrefix(reason, qosmanagerUtil.EvictReasonPrefix)
}

func c11Indices(infos []*qosmanagerUtil.PodEvictInfo) []int {
	out := make([]int, 0, len(infos))
	for _, in := range infos {
		out = append(out, c11PodIndex(in.Pod))
	}
	return out
}

// c11ViaRound: the part additionally runs the strategy's own round function (memoryEvict / cpuEvict) on a second fresh
// world and requires the same Evict calls as the task loop the harness drives itself (whatever the round function keeps
// between the features of one round must not change who is evicted: seed C11-8). The feature gates are process-global,
// so they are set per part, before its parallel range starts.
var c11ViaRound bool

func c11SetGates(fs []string) {
	m := map[string]bool{}
	for _, f := range c11FeatureOrder {
		m[string(f)] = c11Has(fs, string(f))
	}
	if err := features.DefaultMutableKoordletFeatureGate.SetFromMap(m); err != nil {
		panic(err)
	}
	c11ViaRound = len(fs) >= 2 // (with a single feature the round function is the task loop: nothing is carried from one feature to the next)
}

type c11MObs struct {
	roundEvents []c11Event
	roundPanic  string
	tasks    []c11Task
	ex       *c11Exec
	returned map[string]map[string]int64
	newly    bool
	panicS   string
	buildErr int
}

// c11MRun performs one round like memoryEvict() / cpuEvict() do for the enabled features: build the tasks in the fixed
// feature order, hand them to KillAndEvictPods.
func c11MRun(c *c11MCase) (o c11MObs) {
	o.panicS = mc.Guard(func() {
		w := c11NewWorld(c.Pods, &c.Cfg)
		// a pod that an earlier round evicted and that is still terminating carries a deletionTimestamp (seed C11-5)
		for i := range c.Already {
			if c.Already[i] {
				ts := metav1.NewTime(time.Unix(1700000000, 0))
				w.pods[i].DeletionTimestamp = &ts
			}
		}
		var tasks []*qosmanagerUtil.EvictTaskInfo
		for _, f := range c11FeatureOrder {
			sel := false
			for _, s := range c.Features {
				if s == string(f) {
					sel = true
				}
			}
			if !sel {
				continue
			}
			task, err := w.buildTask(f)
			if err != nil {
				o.buildErr++
				continue
			}
			if task == nil {
				continue
			}
			tasks = append(tasks, task)
			mt := c11Task{Name: task.Reason, Type: string(task.ReleaseTarget), Target: map[string]int64{}, List: c11Indices(task.SortedEvictPods)}
			for rn, q := range task.ToReleaseResource {
				mt.Target[string(rn)] = c11QValue(string(rn), q)
			}
			o.tasks = append(o.tasks, mt)
		}
		o.ex = &c11Exec{tasks: o.tasks, already: c.Already, fails: c.Fails}
		w.setExecutor(o.ex)
		if len(tasks) == 0 {
			return
		}
		rel, newly := qosmanagerUtil.KillAndEvictPods(o.ex, w.node, tasks)
		o.newly = newly
		o.returned = map[string]map[string]int64{}
		for t, rl := range rel {
			o.returned[string(t)] = map[string]int64{}
			for rn, q := range rl {
				o.returned[string(t)][string(rn)] = c11QValue(string(rn), q)
			}
		}
	})
	if o.ex == nil {
		o.ex = &c11Exec{}
	}
	if c11ViaRound && o.panicS == "" {
		ex2 := &c11Exec{tasks: o.tasks, already: c.Already, fails: c.Fails}
		o.roundPanic = mc.Guard(func() {
			w2 := c11NewWorld(c.Pods, &c.Cfg)
			for i := range c.Already {
				if c.Already[i] {
					ts := metav1.NewTime(time.Unix(1700000000, 0))
					w2.pods[i].DeletionTimestamp = &ts
				}
			}
			w2.setExecutor(ex2)
			w2.round()
		})
		o.roundEvents = ex2.events
	}
	return
}

func c11MContrib(ps []c11P) func(pod int, typ, res string) (int64, bool) {
	return func(pod int, typ, res string) (int64, bool) {
		p := &ps[pod]
		switch typ {
		case c11TypeUsed:
			if res == c11ResPlain {
				if p.Usage < 0 {
					return 0, false
				}
				return p.Usage, true
			}
		case c11TypeReq:
			if res == c11ClassRes(p) {
				return p.Req, true
			}
		}
		return 0, true
	}
}

func c11MJudge(c *c11MCase, o *c11MObs, count c11Counter) []c11Finding {
	run := &c11Run{
		Tasks:   o.tasks,
		Already: c.Already,
		Contrib: c11MContrib(c.Pods),
		Elig: func(task, pod int) string {
			f := c11FeatureOfReason(o.tasks[task].Name)
			return c11Elig(f, c11FeatureTh(f, &c.Cfg), &c.Pods[pod])
		},
		Certain: func(task, pod int) bool {
			f := c11FeatureOfReason(o.tasks[task].Name)
			return c11CertainVictim(f, c11FeatureTh(f, &c.Cfg), &c.Pods[pod])
		},
		MayPrecede: func(task, a, b int) (bool, string) {
			f := c11FeatureOfReason(o.tasks[task].Name)
			ok, level := c11MayPrecede(f, &c.Pods[a], &c.Pods[b])
			if ok {
				return true, ""
			}
			return false, fmt.Sprintf("%s|the published order puts %v after %v (key %s)", level, c.Pods[a], c.Pods[b], level)
		},
		Events:   o.ex.events,
		Returned: o.returned,
	}
	fs := c11Judge(run, count)
	return fs
}

// ---------------------------------------------------------------------------------------------- alphabets

// c11Scaled: usage / request alphabets are written in units of c11Scale (1 byte resp. 125 milli-CPU).
func c11Scaled(v int64) int64 {
	if v < 0 {
		return v
	}
	return v * c11Scale
}

func c11I32(v int32) *int32   { return &v }
func c11Str(s string) *string { return &s }

type c11Alpha struct {
	qos      []string
	prio     []*int32
	enabled  []bool
	policy   []*string
	evp      []*string
	sub      []*string
	usage    []int64
	req      []int64
	inactive []bool
}

func (a *c11Alpha) size() int {
	return len(a.qos) * len(a.prio) * len(a.enabled) * len(a.policy) * len(a.evp) * len(a.sub) * len(a.usage) * len(a.req) * len(a.inactive)
}

func (a *c11Alpha) decode(code int) c11P {
	var p c11P
	pick := func(n int) int { v := code % n; code /= n; return v }
	p.QoS = a.qos[pick(len(a.qos))]
	p.Prio = a.prio[pick(len(a.prio))]
	p.Enabled = a.enabled[pick(len(a.enabled))]
	p.Policy = a.policy[pick(len(a.policy))]
	p.EvP = a.evp[pick(len(a.evp))]
	p.SubPrio = a.sub[pick(len(a.sub))]
	p.Usage = c11Scaled(a.usage[pick(len(a.usage))])
	p.Req = c11Scaled(a.req[pick(len(a.req))])
	p.Inactive = a.inactive[pick(len(a.inactive))]
	return p
}

func (a *c11Alpha) String() string {
	d := func(v []*string) []string {
		var o []string
		for _, s := range v {
			if s == nil {
				o = append(o, "unset")
			} else {
				o = append(o, *s)
			}
		}
		return o
	}
	var pr []string
	for _, p := range a.prio {
		if p == nil {
			pr = append(pr, "nil")
		} else {
			pr = append(pr, strconv.Itoa(int(*p)))
		}
	}
	return fmt.Sprintf("qos%v x priority%v x evict-enabled%v x eviction-policy%v x eviction-priority%v x priority-label%v x usage%v x request%v x inactive%v",
		a.qos, pr, a.enabled, d(a.policy), d(a.evp), d(a.sub), a.usage, a.req, a.inactive)
}

func c11PolicyAlpha(feature string, full bool) []*string {
	out := []*string{nil, c11Str(`["` + feature + `"]`), c11Str(`["SomeOtherPolicy"]`)}
	if full {
		out = append(out, c11Str(`[`), c11Str(`[]`), c11Str(`["SomeOtherPolicy","`+feature+`"]`))
	}
	return out
}

// ---------------------------------------------------------------------------------------------- builder parts

type c11BCase struct {
	Pods    []c11P `json:"pods"`
	Feature string `json:"feature"`
	PrioTh  int32  `json:"prioTh"`
}

func c11BuilderCheck(res *mc.Result, rep *c11Reporter, l *mc.Local, ds *mc.DistinctSet, part string, bc *c11BCase) {
	l.Evals++
	cfg := c11BuilderCfg(bc.PrioTh)
	var list []int
	ps := mc.Guard(func() {
		w := c11NewWorld(bc.Pods, &cfg)
		list = c11Indices(w.list(bc.Feature))
	})
	key := "C11|" + part + "|" + bc.Feature + "|"
	if ps != "" {
		rep.Report(res, l, key+"panic", func() (string, any) { return ps, *bc })
		return
	}
	th := c11FeatureTh(bc.Feature, &cfg)
	seen := map[int]bool{}
	for i, p := range list {
		l.Count("listed_pods_judged", 1)
		if p < 0 || p >= len(bc.Pods) || seen[p] {
			rep.Report(res, l, key+"ineligible|not-a-pod-or-listed-twice", func() (string, any) {
				return fmt.Sprintf("victim list %v of %v", list, bc.Pods), *bc
			})
			return
		}
		seen[p] = true
		if why := c11Elig(bc.Feature, th, &bc.Pods[p]); why != "" {
			p := p
			rep.Report(res, l, key+"ineligible", func() (string, any) {
				return fmt.Sprintf("victim list %v of feature %s (threshold %v) contains pod %d %v: %s", list, bc.Feature, bc.PrioTh, p, bc.Pods[p], why), *bc
			})
		}
		if i > 0 {
			a, b := list[i-1], p
			ok, level := c11MayPrecede(bc.Feature, &bc.Pods[a], &bc.Pods[b])
			if level != "" {
				l.Count("order_pairs_decided_by_"+level, 1)
			} else {
				l.Count("order_pairs_incomparable", 1)
			}
			if !ok {
				rep.Report(res, l, key+"order|"+level, func() (string, any) {
					return fmt.Sprintf("victim list %v of feature %s puts pod %d %v before pod %d %v although the published order (key %s) says otherwise; pods %v", list, bc.Feature, a, bc.Pods[a], b, bc.Pods[b], level, bc.Pods), *bc
				})
			}
			if bc.Feature == c11FBE {
				// not judged: the eviction-priority annotation on the best-effort strategy
				ea, oka := int64(0), true
				eb, okb := int64(0), true
				if bc.Pods[a].EvP != nil {
					ea, oka = c11ParseInt(bc.Pods[a].EvP, 32)
				}
				if bc.Pods[b].EvP != nil {
					eb, okb = c11ParseInt(bc.Pods[b].EvP, 32)
				}
				if oka && okb && ea > eb {
					l.Count("diag_be_list_ignores_eviction_priority_annotation", 1)
				}
			}
		}
	}
	for p := range bc.Pods {
		if !seen[p] && c11Elig(bc.Feature, th, &bc.Pods[p]) == "" {
			l.Count("diag_allowed_pod_not_listed", 1)
		}
	}
	if len(list) > 0 {
		l.Count("nonempty_lists", 1)
		h := fnv.New64a()
		fmt.Fprint(h, bc.Feature, bc.PrioTh, list)
		for i := range bc.Pods {
			fmt.Fprint(h, bc.Pods[i].String())
		}
		ds.AddHash(h.Sum64())
	}
	if len(list) < len(bc.Pods) {
		l.Count("lists_with_filtered_pods", 1)
	}
}

type c11BPart struct {
	name  string
	n     int
	alpha func(feature string) *c11Alpha
	ths   []int32
}

func c11BuilderParts(env *mc.Env) []c11BPart {
	batch, batch2, mid, prod := c11I32(5500), c11I32(5600), c11I32(7500), c11I32(9500)
	un := []*string{nil}
	eligFull := func(f string) *c11Alpha {
		return &c11Alpha{qos: []string{"BE", "LS"}, prio: []*int32{batch, mid, prod, nil}, enabled: []bool{true, false}, policy: c11PolicyAlpha(f, true),
			evp: un, sub: un, usage: []int64{2, -1}, req: []int64{1}, inactive: []bool{false, true}}
	}
	eligSmall := func(f string) *c11Alpha {
		return &c11Alpha{qos: []string{"BE", "LS"}, prio: []*int32{batch, mid, prod, nil}, enabled: []bool{true, false}, policy: c11PolicyAlpha(f, false),
			evp: un, sub: un, usage: []int64{2}, req: []int64{1}, inactive: []bool{false}}
	}
	orderFull := func(f string) *c11Alpha {
		return &c11Alpha{qos: []string{"BE"}, prio: []*int32{batch, batch2, mid, nil}, enabled: []bool{true}, policy: un,
			evp: []*string{nil, c11Str("-1"), c11Str("5"), c11Str("x")}, sub: []*string{nil, c11Str("1"), c11Str("9")},
			usage: []int64{-1, 0, 1, 3}, req: []int64{0, 1, 2}, inactive: []bool{false}}
	}
	orderMid := func(f string) *c11Alpha {
		return &c11Alpha{qos: []string{"BE"}, prio: []*int32{batch, mid, nil}, enabled: []bool{true}, policy: un,
			evp: []*string{nil, c11Str("-1"), c11Str("5")}, sub: []*string{nil, c11Str("9")},
			usage: []int64{0, 1, 3}, req: []int64{1, 2}, inactive: []bool{false}}
	}
	orderSmall := func(f string) *c11Alpha {
		return &c11Alpha{qos: []string{"BE"}, prio: []*int32{batch, mid}, enabled: []bool{true}, policy: un,
			evp: []*string{nil, c11Str("-1")}, sub: []*string{nil, c11Str("9")},
			usage: []int64{1, 3}, req: []int64{1, 2}, inactive: []bool{false}}
	}
	orderTiny := func(f string) *c11Alpha {
		return &c11Alpha{qos: []string{"BE"}, prio: []*int32{batch, nil}, enabled: []bool{true}, policy: un,
			evp: []*string{nil, c11Str("-1")}, sub: un,
			usage: []int64{0, 1, 3}, req: []int64{1}, inactive: []bool{false}}
	}
	orderQuick := func(f string) *c11Alpha {
		return &c11Alpha{qos: []string{"BE"}, prio: []*int32{batch, batch2, mid, nil}, enabled: []bool{true}, policy: un,
			evp: []*string{nil, c11Str("-1"), c11Str("x")}, sub: []*string{nil, c11Str("1"), c11Str("9")},
			usage: []int64{-1, 0, 3}, req: []int64{0, 2}, inactive: []bool{false}}
	}
	// values at the ends of the int32 range: differences between two keys do not fit into 32 bits
	orderExtreme := func(f string) *c11Alpha {
		return &c11Alpha{qos: []string{"BE"}, prio: []*int32{batch, c11I32(-2000000000), c11I32(1000000000)}, enabled: []bool{true}, policy: un,
			evp: []*string{nil, c11Str("2147483647"), c11Str("-2147483648"), c11Str("-100")}, sub: un,
			usage: []int64{1, 3}, req: []int64{1}, inactive: []bool{false}}
	}
	ths := []int32{5999, 7999, 9999}
	parts := []c11BPart{
		{"order-extreme-n2", 2, orderExtreme, []int32{2147483647}},
		{"elig-n1", 1, eligFull, ths},
		{"order-n2", 2, orderQuick, []int32{7999}},
		{"elig-n2", 2, eligSmall, ths},
		{"order-n3", 3, orderSmall, []int32{7999}},
		{"order-nilprio-n3", 3, orderTiny, []int32{7999}},
	}
	if env.Thorough() {
		parts = append(parts,
			c11BPart{"elig-n2-full", 2, eligFull, ths},
			c11BPart{"order-n2-full", 2, orderFull, []int32{7999}},
			c11BPart{"order-n3-mid", 3, orderMid, []int32{7999}},
			c11BPart{"elig-n3", 3, eligSmall, []int32{7999}},
			c11BPart{"order-n4", 4, orderSmall, []int32{7999}},
			c11BPart{"order-nilprio-n4", 4, orderTiny, []int32{7999}},
		)
	}
	return parts
}

var c11Features = []string{c11FBE, c11FUsed, c11FAlloc}

func c11RunBuilderParts(env *mc.Env, unit string) (emitted []*mc.Result) {
	bparts := c11BuilderParts(env)
	for bi, bp := range bparts {
		bp := bp
		// the builder parts together may take a third of the unit's budget
		penv := c11PartEnv(env, len(bparts)-bi)
		if lim := env.Budget/3 - env.Elapsed(); penv.Budget > lim {
			penv.Budget = lim
		}
		cpu0 := c11CPUms()
		res := mc.NewResult("C11", unit+"-builders-"+bp.name, "enumeration")
		rep := &c11Reporter{}
		ds := mc.NewDistinctSet()
		var total int64
		complete := true
		var rule []string
		for _, f := range c11Features {
			f := f
			a := bp.alpha(f)
			dims := []int{}
			for i := 0; i < bp.n; i++ {
				dims = append(dims, a.size())
			}
			dims = append(dims, len(bp.ths))
			rx := mc.Radix{Dims: dims}
			total += rx.Size()
			_, ok := penv.ParallelRangeL(res, rx.Size(), func(l *mc.Local, idx int64) {
				d := rx.Decode(idx, make([]int, 0, 8))
				bc := c11BCase{Feature: f, PrioTh: bp.ths[d[bp.n]]}
				for i := 0; i < bp.n; i++ {
					bc.Pods = append(bc.Pods, a.decode(d[i]))
				}
				if f == c11FBE && d[bp.n] > 0 {
					return // the best-effort strategy has no priority threshold
				}
				c11BuilderCheck(res, rep, l, ds, unit+"-builders", &bc)
				if idx%100003 == 0 {
					res.Sample(fmt.Sprintf("%s %v", f, bc.Pods))
				}
			})
			complete = complete && ok
			rule = append(rule, fmt.Sprintf("%s: %s", f, a.String()))
		}
		res.Count("cpu_ms", c11CPUms()-cpu0)
		res.Traces = res.Evaluations
		res.Distinct = ds.Len()
		res.Exhaustive = complete
		if !complete {
			res.Capped = fmt.Sprintf("time budget hit (%d of %d tuples evaluated)", res.Evaluations, total)
		}
		res.Rule = fmt.Sprintf("every ordered tuple of %d pods over the per-pod alphabet {%s} x priority threshold %v, handed to the real victim-list builder of each feature; judged: every listed pod is allowed by the statement's policy, consecutive listed pods respect the published order (non-strict; undefined keys = incomparable); non-trivial = non-empty list; distinct = distinct (input, list)", bp.n, strings.Join(rule, " || "), bp.ths)
		res.Bounds = map[string]any{"pods": bp.n, "tuples": total}
		if n := res.Counters["diag_be_list_ignores_eviction_priority_annotation"]; n > 0 {
			res.Diag(fmt.Sprintf("%d consecutive pairs of the best-effort victim list are against the eviction-priority annotation (not judged: the annotation is published for the priority strategies)", n))
		}
		if n := res.Counters["diag_allowed_pod_not_listed"]; n > 0 {
			res.Diag(fmt.Sprintf("%d pods allowed by the statement's policy were not listed (no metric, inactive, BE pod not evict-enabled under a priority strategy ...): not a violation, the statement is one-directional", n))
		}
		env.Emit(res)
		emitted = append(emitted, res)
	}
	return emitted
}

// ---------------------------------------------------------------------------------------------- whole-round parts

type c11EPart struct {
	name     string
	n        int
	features []string
	kinds    []c11P // base pods (eligibility class); crossed with evp x usage x req
	evp      []*string
	usage    []int64
	req      []int64
	rich     bool // more node situations (both priority thresholds per feature)
}

func c11Kinds() map[string]c11P {
	batch, mid, prod, none := c11I32(5500), c11I32(7500), c11I32(9500), c11I32(6500)
	return map[string]c11P{
		"be":            {QoS: "BE", Prio: batch, Enabled: true},
		"be-noevict":    {QoS: "BE", Prio: batch},
		"mid":           {QoS: "LS", Prio: mid, Enabled: true},
		"mid-noevict":   {QoS: "LS", Prio: mid},
		"prod":          {QoS: "LS", Prio: prod, Enabled: true},
		"none":          {QoS: "LS", Prio: none, Enabled: true},
		"be-only-alloc": {QoS: "BE", Prio: batch, Enabled: true, Policy: c11Str(`["` + c11FAlloc + `"]`)},
		"be-only-be":    {QoS: "BE", Prio: batch, Enabled: true, Policy: c11Str(`["` + c11FBE + `"]`)},
		// a threshold-eligible pod that opts out of every policy but the allocatable one: two threshold tasks of one round
		// must each apply THEIR policy name to it (seed C11-8 cached the first task's verdict per pod)
		"mid-only-alloc": {QoS: "LS", Prio: mid, Enabled: true, Policy: c11Str(`["` + c11FAlloc + `"]`)},
		"be-nilprio":    {QoS: "BE", Enabled: true},
		// spec.priority 0 is what the Priority admission plugin writes for a pod without a PriorityClass; koordinator then
		// takes the default of the class the QoS implies (LS: koord-prod)
		"ls-prio0":   {QoS: "LS", Prio: c11I32(0), Enabled: true},
		"ls-nilprio": {QoS: "LS", Enabled: true},
	}
}

func c11Has(fs []string, f string) bool {
	for _, x := range fs {
		if x == f {
			return true
		}
	}
	return false
}

func c11Dedupe(v []int64) []int64 {
	var out []int64
	for _, x := range v {
		dup := x < 0
		for _, o := range out {
			if o == x {
				dup = true
			}
		}
		if !dup {
			out = append(out, x)
		}
	}
	return out
}

func c11EParts(env *mc.Env) []c11EPart {
	k := c11Kinds()
	pick := func(names ...string) []c11P {
		var out []c11P
		for _, n := range names {
			out = append(out, k[n])
		}
		return out
	}
	un := []*string{nil}
	evp2 := []*string{nil, c11Str("-1")}
	evp3 := []*string{nil, c11Str("-1"), c11Str("5")}
	all := pick("be", "be-noevict", "mid", "mid-noevict", "prod", "none", "be-only-alloc", "be-only-be", "be-nilprio", "ls-prio0", "ls-nilprio", "mid-only-alloc")
	core := pick("be", "be-noevict", "mid", "prod", "none", "be-only-alloc", "ls-prio0", "mid-only-alloc")
	small := pick("be", "mid", "none")
	tiny := pick("be", "mid")
	var parts []c11EPart
	add := func(suffix string, n int, fs []string, kinds []c11P, evp []*string, usage, req []int64, rich bool) {
		// a key that no enabled feature reads is not varied (c11NeedsUsage / c11NeedsReq are package hooks)
		if !c11NeedsUsage(fs) {
			usage = []int64{1}
		}
		if !c11NeedsReq(fs) {
			req = []int64{2}
		}
		if len(fs) == 1 && fs[0] == c11FBE {
			evp = un // the best-effort strategy does not read the annotation
		}
		parts = append(parts, c11EPart{"round-" + strings.Join(fs, "+") + suffix, n, fs, kinds, evp, usage, req, rich})
	}
	U2, U3, U4, R2 := []int64{0, 3}, []int64{0, 1, 3}, []int64{-1, 0, 1, 3}, []int64{0, 2}
	singles := [][]string{{c11FBE}, {c11FUsed}, {c11FAlloc}}
	pairs := [][]string{{c11FBE, c11FUsed}, {c11FBE, c11FAlloc}, {c11FAlloc, c11FUsed}}
	triple := []string{c11FBE, c11FAlloc, c11FUsed}
	for _, fs := range singles {
		add("-n1", 1, fs, all, evp3, U4, R2, true)
		add("-n2", 2, fs, core, evp2, U3, R2, true)
		add("-n3", 3, fs, small, un, U3, R2, false)
	}
	for _, fs := range pairs {
		add("-n1", 1, fs, all, evp3, U4, R2, true)
		add("-n2", 2, fs, core, un, U3, R2, false)
	}
	add("-n1", 1, triple, all, evp3, U4, R2, false)
	// three pods under two simultaneous features: the two pairs whose tasks compete for the same amounts
	add("-n3", 3, pairs[0], tiny, un, U2, R2, false)
	add("-n3", 3, pairs[1], tiny, un, U2, R2, false)
	if env.Thorough() {
		for _, fs := range singles {
			add("-n2-all", 2, fs, all, evp2, U4, R2, true)
			add("-n3-core", 3, fs, core, evp2, U3, R2, false)
			add("-n4", 4, fs, tiny, un, U2, R2, false)
		}
		for _, fs := range pairs {
			add("-n2-rich", 2, fs, core, evp2, U3, R2, true)
			add("-n3-small", 3, fs, small, un, U3, R2, false)
		}
		add("-n2", 2, triple, core, un, U3, R2, false)
		add("-n3", 3, triple, tiny, un, U2, R2, false)
	}
	sort.SliceStable(parts, func(i, j int) bool { return parts[i].n < parts[j].n })
	return parts
}

func c11RunRoundParts(env *mc.Env, unit string) (emitted []*mc.Result) {
	eparts := c11EParts(env)
	for ei, ep := range eparts {
		ep := ep
		penv := c11PartEnv(env, len(eparts)-ei)
		cpu0 := c11CPUms()
		res := mc.NewResult("C11", unit+"-"+ep.name, "faults")
		rep := &c11Reporter{}
		ds := mc.NewDistinctSet()
		per := len(ep.kinds) * len(ep.evp) * len(ep.usage) * len(ep.req)
		dims := []int{}
		for i := 0; i < ep.n; i++ {
			dims = append(dims, per)
		}
		dims = append(dims, 1<<uint(ep.n))
		rx := mc.Radix{Dims: dims}
		rich := ep.rich
		c11SetGates(ep.features)
		done, complete := penv.ParallelRangeL(res, rx.Size(), func(l *mc.Local, idx int64) {
			d := rx.Decode(idx, make([]int, 0, 8))
			c := c11MCase{Features: ep.features, Already: make([]bool, ep.n)}
			for i := 0; i < ep.n; i++ {
				code := d[i]
				p := ep.kinds[code%len(ep.kinds)]
				code /= len(ep.kinds)
				p.EvP = ep.evp[code%len(ep.evp)]
				code /= len(ep.evp)
				p.Usage = c11Scaled(ep.usage[code%len(ep.usage)])
				code /= len(ep.usage)
				p.Req = c11Scaled(ep.req[code%len(ep.req)])
				c.Pods = append(c.Pods, p)
			}
			for i := 0; i < ep.n; i++ {
				c.Already[i] = d[ep.n]&(1<<uint(i)) != 0
			}
			for _, cfg := range c11ECfgs(c.Pods, ep.features, rich) {
				c.Cfg = cfg
				l.Count("input_cases", 1)
				c11ExploreFailures(func(fails []bool) int {
					cc := c
					cc.Fails = append([]bool{}, fails...)
					l.Evals++
					o := c11MRun(&cc)
					key := "C11|" + unit + "-round|"
					if o.panicS != "" {
						rep.Report(res, l, key+"panic", func() (string, any) { return o.panicS + " case " + cc.String(), cc })
						return o.ex.calls
					}
					l.Count("tasks_built", int64(len(o.tasks)))
					if o.buildErr > 0 {
						l.Count("task_build_errors", int64(o.buildErr))
					}
					for _, f := range c11MJudge(&cc, &o, l.Count) {
						f := f
						// the class of a finding includes the feature whose task made the call, when known
						feat := ""
						if f.Task >= 0 {
							feat = c11FeatureOfReason(o.tasks[f.Task].Name) + "|"
						}
						rep.Report(res, l, key+feat+f.Clause, func() (string, any) {
							return fmt.Sprintf("%s; case %v; tasks %+v; calls %v; returned %v", f.What, cc, o.tasks, c11EvictsOnly(o.ex.events), o.returned), cc
						})
					}
					if c11ViaRound {
						l.Count("round_function_runs", 1)
						if o.roundPanic != "" {
							rep.Report(res, l, key+"round-function-panics", func() (string, any) { return o.roundPanic + " case " + cc.String(), cc })
						} else if a, b := fmt.Sprint(c11EvictsOnly(o.ex.events)), fmt.Sprint(c11EvictsOnly(o.roundEvents)); a != b {
							rep.Report(res, l, key+"round-function-differs-from-its-task-loop", func() (string, any) {
								return fmt.Sprintf("the strategy's round function issues the Evict calls %s, building the same tasks one by one and handing them to KillAndEvictPods issues %s; case %v; tasks %+v", b, a, cc, o.tasks), cc
							})
						}
					}
					if o.ex.calls > 0 {
						h := fnv.New64a()
						fmt.Fprint(h, cc.String(), o.ex.events)
						ds.AddHash(h.Sum64())
					}
					if len(fails) > 0 {
						l.Count("runs_with_failing_calls", 1)
					}
					if idx%200003 == 0 && len(fails) == 0 && o.ex.calls > 0 {
						res.Sample(fmt.Sprintf("%v -> tasks %+v calls %v", cc, o.tasks, c11EvictsOnly(o.ex.events)))
					}
					return o.ex.calls
				})
			}
		})
		res.Count("cpu_ms", c11CPUms()-cpu0)
		res.Traces = res.Evaluations
		res.Distinct = ds.Len()
		res.Exhaustive = complete
		if !complete {
			res.Capped = fmt.Sprintf("time budget hit after %d of %d input codes", done, rx.Size())
		}
		var kinds []string
		for _, kd := range ep.kinds {
			kinds = append(kinds, kd.String())
		}
		res.Rule = fmt.Sprintf("every ordered tuple of %d pods over kinds %v x eviction-priority x usage %v x request %v; features %v enabled together; node situations per pod set: %s; every subset of pods already evicted; every pattern of individual Evict calls failing. One evaluation = buildEvictTask per feature + KillAndEvictPods on the real code; non-trivial = at least one Evict call; distinct = distinct (input, call log); usage and request values are in units of %d", ep.n, kinds, ep.usage, ep.req, ep.features, c11SituationsText, c11Scale)
		res.Bounds = map[string]any{"pods": ep.n, "features": len(ep.features), "input_codes": rx.Size()}
		res.Assumptions = []string{"an Evict call on a pod that IsPodEvicted reports as evicted answers true (behaviour of Evictor.EvictPodIfNotEvicted)",
			"the round is driven like the strategy's periodic function does (tasks built per enabled feature in its fixed order, then KillAndEvictPods); feature gates and the cooling interval are outside the harness",
			"a pod's true contribution is its usage metric (used targets) resp. the request of its class resource in its spec (request targets); the release target is taken as computed by the code"}
		if n := res.Counters["diag_stopped_early_with_useful_candidate"]; n > 0 {
			res.Diag(fmt.Sprintf("%d task runs ended with the target not covered (by the pods' true contributions) although an untried listed candidate would free something of it (not a violation: the statement bounds eviction from above only)", n))
		}
		env.Emit(res)
		emitted = append(emitted, res)
	}
	return emitted
}

// c11RunUnit runs the builder parts, the whole-round parts and the vacuity summary of one package.
func c11RunUnit(env *mc.Env) {
	parts := c11RunBuilderParts(env, c11Unit)
	parts = append(parts, c11RunRoundParts(env, c11Unit)...)
	c11Vacuity(env, c11Unit, parts, append([]string{"listed_pods_judged", "lists_with_filtered_pods", "order_pairs_decided_by_eviction-priority",
		"order_pairs_decided_by_priority", "order_pairs_decided_by_priority-label", "order_pairs_decided_by_request", "order_pairs_decided_by_" + c11BEKeyName,
		"order_pairs_incomparable"}, c11RoundVacuity...))
}

// c11Replay re-executes the case of a replay file (VERIF_REPLAY) and prints what happened. Every unit receives
// the replay file; only the unit that produced it re-executes the case.
func c11Replay(env *mc.Env) bool {
	var raw map[string]json.RawMessage
	part, ok := env.ReplayData(&raw)
	if !ok {
		return false
	}
	res := mc.NewResult("C11", c11Unit+"-replay", "faults")
	res.Exhaustive = true
	defer env.Emit(res)
	if !strings.HasPrefix(part, c11Unit+"-") {
		return true
	}
	res.Evaluations = 1
	if _, isB := raw["feature"]; isB {
		var bc c11BCase
		env.ReplayData(&bc)
		rep := &c11Reporter{}
		ds := mc.NewDistinctSet()
		cfg := c11BuilderCfg(bc.PrioTh)
		w := c11NewWorld(bc.Pods, &cfg)
		fmt.Printf("REPLAY builder %s th=%d pods=%v -> list %v\n", bc.Feature, bc.PrioTh, bc.Pods, c11Indices(w.list(bc.Feature)))
		penv := c11PartEnv(env, 1)
		penv.Workers = 1
		penv.ParallelRangeL(res, 1, func(l *mc.Local, _ int64) { c11BuilderCheck(res, rep, l, ds, c11Unit+"-builders", &bc) })
		return true
	}
	var c c11MCase
	env.ReplayData(&c)
	o := c11MRun(&c)
	fmt.Printf("REPLAY case=%v\n tasks=%+v\n calls=%v\n returned=%v panic=%q\n", c, o.tasks, c11EvictsOnly(o.ex.events), o.returned, o.panicS)
	for _, f := range c11MJudge(&c, &o, func(string, int64) {}) {
		fmt.Printf(" FINDING %s: %s\n", f.Clause, f.What)
		feat := ""
		if f.Task >= 0 {
			feat = c11FeatureOfReason(o.tasks[f.Task].Name) + "|"
		}
		res.Violate(mc.Violation{Key: "C11|" + c11Unit + "-round|" + feat + f.Clause, What: f.What + "; case " + c.String(), Replay: c})
	}
	return true
}
