package cpuevict

// C11 common judge. This file is the master copy (package util); gen.sh derives judge_mem_test.go / judge_cpu_test.go
// (package memoryevict / cpuevict) from it by rewriting the package clause only.
//
// The judge looks at ONE eviction round: the inputs the harness chose (pods with their true contributions, tasks
// with their targets, which pods are already evicted, which Evict calls fail) and the log of calls the code made on
// the EvictionExecutor. It never calls into the code under check and it does not predict the victim list; every
// clause is a restatement of the property:
//
//	ineligible   every Evict(p) has p allowed by the policy (harness-supplied predicate from the statement)
//	order        consecutive Evict calls of one task respect the published order, non-strictly (ties either way)
//	twice        no Evict(p) after a successful Evict(p) in this round, none for a pod already evicted earlier
//	after-target-met   at the moment of Evict(p) something of the task's target is still missing, where
//	             missing = target - contributions of successfully evicted pods - contributions of pods the code has
//	             already been told are evicted-but-present (IsPodEvicted answered true)
//	frees-nothing      p contributes > 0 to a dimension that is still missing
//	...|pending-release-later-in-list   the same two clauses when ALL already-evicted pods of the task's own list
//	             are counted (the statement counts "pods already evicted but still terminating" without saying when)
//	account-exceeds-victims   the returned ReleaseList never claims more than successful + pending victims free
//
// Under-eviction (stopping although something is still missing and candidates remain) is NOT a violation: the
// statement only bounds eviction from above. It is counted as a diagnostic.

import (
	"fmt"
	"sort"
	"strconv"
	"strings"
	"sync"
	"syscall"
	"time"

	corev1 "k8s.io/api/core/v1"

	"github.com/koordinator-sh/koordinator/pkg/zzverif/mc"
)

type c11Task struct {
	Name   string           `json:"name"`
	Type   string           `json:"type"`
	Target map[string]int64 `json:"target"`
	List   []int            `json:"list"` // published victim order (pod indices) handed to / built by the code
}

type c11Event struct {
	Evict bool `json:"evict"` // false: IsPodEvicted query
	Pod   int  `json:"pod"`
	Task  int  `json:"task"` // -1: not attributable
	OK    bool `json:"ok"`
}

type c11Run struct {
	Tasks   []c11Task
	Already []bool
	// Contrib is the TRUE amount of resource res (accounted under release-target type typ) that evicting pod frees,
	// from the harness inputs; known=false: the inputs do not determine it (no metric) - never used against the code.
	Contrib func(pod int, typ, res string) (v int64, known bool)
	// Elig returns "" when the statement's policy allows task to evict pod, else the reason.
	Elig func(task, pod int) string
	// Certain (optional) tells whether pod certainly belongs to the documented victim set of task whether or not the
	// task's list contains it: an already-evicted, still terminating pod of that set counts as pending release.
	Certain func(task, pod int) bool
	// MayPrecede tells whether a may be taken before b under the published order of task (key(a) <= key(b)).
	MayPrecede func(task, a, b int) (bool, string)
	Events     []c11Event
	Returned   map[string]map[string]int64 // nil: not observed
}

type c11Finding struct {
	Clause string
	What   string
	Task   int // index of the task whose call is judged, -1: none
}

type c11Counter func(name string, n int64)

func c11InList(t *c11Task, pod int) bool {
	for _, p := range t.List {
		if p == pod {
			return true
		}
	}
	return false
}

func c11SortedKeys(m map[string]int64) []string {
	ks := make([]string, 0, len(m))
	for k := range m {
		ks = append(ks, k)
	}
	sort.Strings(ks)
	return ks
}

// c11NeedVerdict judges one Evict(p) of task t against a "missing" vector.
func c11NeedVerdict(r *c11Run, t *c11Task, miss map[string]int64, p int, count c11Counter) (clause, what string) {
	var short []string
	for _, res := range c11SortedKeys(t.Target) {
		if t.Target[res] > 0 && miss[res] > 0 {
			short = append(short, res)
		}
	}
	if len(short) == 0 {
		return "after-target-met", fmt.Sprintf("nothing of target %v is missing any more (missing=%v)", t.Target, miss)
	}
	unknown := false
	for _, res := range short {
		v, known := r.Contrib(p, t.Type, res)
		if !known {
			unknown = true
			continue
		}
		if v > 0 {
			return "", ""
		}
	}
	if unknown {
		if count != nil {
			count("contribution_unknown_not_judged", 1)
		}
		return "", ""
	}
	for _, res := range c11SortedKeys(t.Target) {
		if v, known := r.Contrib(p, t.Type, res); t.Target[res] > 0 && known && v > 0 {
			return "frees-nothing|only-covered-dimension", fmt.Sprintf("still missing %v (of %v) but the pod only frees %s=%d which is already covered", c11Pick(miss, short), t.Target, res, v)
		}
	}
	return "frees-nothing|zero-contribution", fmt.Sprintf("still missing %v (of %v) and the pod frees none of it", c11Pick(miss, short), t.Target)
}

func c11Pick(m map[string]int64, keys []string) map[string]int64 {
	out := map[string]int64{}
	for _, k := range keys {
		out[k] = m[k]
	}
	return out
}

// c11Judge returns the findings of one round (at most one per Evict call plus the account clause).
func c11Judge(r *c11Run, count c11Counter) []c11Finding {
	var out []c11Finding
	n := len(r.Already)
	succ := make([]bool, n)
	told := make([]bool, n) // IsPodEvicted answered true so far
	failedBefore := make([]bool, n)
	attempted := make([][]bool, len(r.Tasks))
	for k := range attempted {
		attempted[k] = make([]bool, n)
	}
	last := make([]int, len(r.Tasks))
	for k := range last {
		last[k] = -1
	}
	// missing vector of task k at this moment; strict additionally counts the not-yet-told already-evicted pods that are
	// in the task's list or that certainly belong to the task's documented victim set (a terminating victim of an
	// earlier round releases its resources whether or not the list builder kept it: seed C11-5)
	missing := func(k int, strict bool) (map[string]int64, bool) {
		t := &r.Tasks[k]
		m := map[string]int64{}
		released := false
		for res, tv := range t.Target {
			m[res] = tv
			for p := 0; p < n; p++ {
				cnt := succ[p] || told[p] || (strict && r.Already[p] && (c11InList(t, p) || (r.Certain != nil && r.Certain(k, p))))
				if !cnt {
					continue
				}
				if v, known := r.Contrib(p, t.Type, res); known && v > 0 {
					m[res] -= v
					released = true
				}
			}
		}
		return m, released
	}
	judgeFor := func(k int, ev c11Event) *c11Finding {
		t := &r.Tasks[k]
		p := ev.Pod
		if why := r.Elig(k, p); why != "" {
			return &c11Finding{"ineligible", fmt.Sprintf("task %s evicts pod %d: %s", t.Name, p, why), k}
		}
		if last[k] >= 0 && last[k] != p {
			count("order_pairs_judged", 1)
			if ok, why := r.MayPrecede(k, last[k], p); !ok {
				clause := "order"
				// "<key level>|<text>": the violated key level becomes part of the class
				if i := strings.Index(why, "|"); i > 0 {
					clause, why = "order|"+why[:i], why[i+1:]
				}
				return &c11Finding{clause, fmt.Sprintf("task %s evicts pod %d before pod %d: %s", t.Name, last[k], p, why), k}
			}
		}
		if succ[p] {
			return &c11Finding{"twice|same-round", fmt.Sprintf("task %s evicts pod %d which was already evicted successfully in this round", t.Name, p), k}
		}
		if r.Already[p] {
			return &c11Finding{"twice|already-evicted-earlier", fmt.Sprintf("task %s evicts pod %d which is already evicted and still terminating", t.Name, p), k}
		}
		if failedBefore[p] {
			count("retry_after_failed_eviction", 1)
		}
		lazy, released := missing(k, false)
		if cl, what := c11NeedVerdict(r, t, lazy, p, count); cl != "" {
			return &c11Finding{cl, fmt.Sprintf("task %s evicts pod %d: %s", t.Name, p, what), k}
		}
		if released {
			count("needed_judged_after_partial_release", 1)
		}
		strict, _ := missing(k, true)
		if cl, what := c11NeedVerdict(r, t, strict, p, nil); cl != "" {
			return &c11Finding{cl + "|pending-release-later-in-list", fmt.Sprintf("task %s evicts pod %d although pods of its victim set that are already evicted and still terminating were not counted yet: %s", t.Name, p, what), k}
		}
		return nil
	}
	for _, ev := range r.Events {
		if !ev.Evict {
			if ev.OK && ev.Pod >= 0 && ev.Pod < n {
				if !told[ev.Pod] {
					count("pending_release_told", 1)
				}
				told[ev.Pod] = true
			}
			continue
		}
		count("evict_calls_judged", 1)
		if ev.Pod < 0 || ev.Pod >= n {
			out = append(out, c11Finding{"ineligible", "Evict called for a pod that is not among the node's pods", -1})
			continue
		}
		cands := []int{ev.Task}
		if ev.Task < 0 || ev.Task >= len(r.Tasks) {
			// not attributable to a task: the call is fine when SOME task justifies it
			count("evict_calls_unattributed", 1)
			cands = cands[:0]
			for k := range r.Tasks {
				cands = append(cands, k)
			}
		}
		var first *c11Finding
		chosen := -1
		for _, k := range cands {
			f := judgeFor(k, ev)
			if f == nil {
				chosen, first = k, nil
				break
			}
			if first == nil {
				first, chosen = f, k
			}
		}
		if first != nil {
			out = append(out, *first)
		}
		if chosen >= 0 {
			last[chosen] = ev.Pod
			attempted[chosen][ev.Pod] = true
		}
		if ev.OK {
			succ[ev.Pod] = true
			count("evict_calls_succeeded", 1)
		} else {
			failedBefore[ev.Pod] = true
			count("evict_calls_failed", 1)
		}
	}
	// vacuity of the stop clauses and the under-eviction diagnostic
	for k := range r.Tasks {
		t := &r.Tasks[k]
		lazy, _ := missing(k, false)
		shortLeft := false
		positive := false
		for res, tv := range t.Target {
			if tv > 0 {
				positive = true
				if lazy[res] > 0 {
					shortLeft = true
				}
			}
		}
		if !positive {
			count("tasks_with_nothing_to_release", 1)
			continue
		}
		remaining, skippedOther := 0, 0
		useful := false
		for _, p := range t.List {
			if attempted[k][p] || r.Already[p] {
				continue
			}
			if succ[p] {
				skippedOther++
				continue
			}
			remaining++
			for res, tv := range t.Target {
				if v, known := r.Contrib(p, t.Type, res); tv > 0 && lazy[res] > 0 && known && v > 0 {
					useful = true
				}
			}
		}
		if skippedOther > 0 {
			count("victim_of_other_task_not_evicted_again", int64(skippedOther))
		}
		if !shortLeft {
			count("tasks_target_met", 1)
			if remaining > 0 {
				count("tasks_stopped_with_candidates_left", 1)
			}
		} else {
			count("tasks_target_not_met", 1)
			if useful {
				count("diag_stopped_early_with_useful_candidate", 1)
			}
		}
	}
	// account clause
	if r.Returned != nil {
		seen := map[string]bool{}
		for k := range r.Tasks {
			t := &r.Tasks[k]
			for _, res := range c11SortedKeys(t.Target) {
				if t.Target[res] <= 0 || seen[t.Type+"|"+res] {
					continue
				}
				seen[t.Type+"|"+res] = true
				var bound int64
				allKnown := true
				for p := 0; p < n; p++ {
					inAny := false
					for j := range r.Tasks {
						if c11InList(&r.Tasks[j], p) {
							inAny = true
						}
					}
					if !(succ[p] || (r.Already[p] && inAny)) {
						continue
					}
					v, known := r.Contrib(p, t.Type, res)
					if !known {
						allKnown = false
						break
					}
					bound += v
				}
				if !allKnown {
					count("account_not_judged_unknown_contribution", 1)
					continue
				}
				got := r.Returned[t.Type][res]
				count("account_dimensions_judged", 1)
				if got > 0 {
					count("account_dimensions_judged_nonzero", 1)
				}
				if got > bound {
					out = append(out, c11Finding{"account-exceeds-victims|" + t.Type + "/" + res, fmt.Sprintf("returned release of %s/%s is %d but the successfully evicted and the already-evicted pods free only %d", t.Type, res, got, bound), -1})
				}
			}
		}
	}
	return out
}

// c11TaskOfMessage attributes an Evict call to a task through the release reason the code puts in front of the
// message ("<reason>, kill pod: <name>"). When the format is not recognised the call is not attributed (-1) and the
// judge accepts it if ANY task justifies it.
func c11TaskOfMessage(tasks []c11Task, message string) int {
	for k := range tasks {
		if strings.HasPrefix(message, tasks[k].Name+",") {
			return k
		}
	}
	found := -1
	for k := range tasks {
		if strings.Contains(message, tasks[k].Name) {
			if found >= 0 {
				return -1
			}
			found = k
		}
	}
	return found
}

// c11ExploreFailures runs f for every pattern of individual Evict calls failing. f receives the decisions for the
// first calls (true = that call fails; calls beyond the slice succeed) and returns how many Evict calls happened.
// Every reachable pattern is visited exactly once (a decision tree over the calls actually made).
func c11ExploreFailures(f func(fails []bool) int) (runs int) {
	var rec func(prefix []bool)
	rec = func(prefix []bool) {
		calls := f(prefix)
		runs++
		for i := len(prefix); i < calls && i < 16; i++ {
			next := make([]bool, i+1)
			copy(next, prefix)
			next[i] = true
			rec(next)
		}
	}
	rec(nil)
	return runs
}

// c11Exec is the recording / failing EvictionExecutor. Pods are named "p<index>".
type c11Exec struct {
	tasks   []c11Task
	already []bool
	fails   []bool
	calls   int
	events  []c11Event
}

func c11PodIndex(pod *corev1.Pod) int {
	if pod == nil || len(pod.Name) < 2 {
		return -1
	}
	i, err := strconv.Atoi(pod.Name[1:])
	if err != nil {
		return -1
	}
	return i
}

func (e *c11Exec) Evict(pod *corev1.Pod, node *corev1.Node, releaseReason string, message string) bool {
	i := c11PodIndex(pod)
	fail := e.calls < len(e.fails) && e.fails[e.calls]
	e.calls++
	ok := !fail
	if i >= 0 && i < len(e.already) && e.already[i] {
		ok = true // like Evictor.EvictPodIfNotEvicted: an already evicted pod reports success
	}
	e.events = append(e.events, c11Event{Evict: true, Pod: i, Task: c11TaskOfMessage(e.tasks, message), OK: ok})
	return ok
}

func (e *c11Exec) IsPodEvicted(pod *corev1.Pod) bool {
	i := c11PodIndex(pod)
	ok := i >= 0 && i < len(e.already) && e.already[i]
	e.events = append(e.events, c11Event{Evict: false, Pod: i, Task: -1, OK: ok})
	return ok
}

func c11EvictsOnly(ev []c11Event) []string {
	var out []string
	for _, e := range ev {
		if e.Evict {
			r := "ok"
			if !e.OK {
				r = "FAILED"
			}
			out = append(out, fmt.Sprintf("Evict(p%d)@task%d:%s", e.Pod, e.Task, r))
		} else if e.OK {
			out = append(out, fmt.Sprintf("IsPodEvicted(p%d)=true", e.Pod))
		}
	}
	return out
}

// c11Reporter stores the first witnesses of every violation class and only counts the rest (formatting a witness
// is far more expensive than executing a case).
type c11Reporter struct {
	mu   sync.Mutex
	seen map[string]int
}

func (r *c11Reporter) Report(res *mc.Result, l *mc.Local, key string, mk func() (what string, replay any)) {
	r.mu.Lock()
	if r.seen == nil {
		r.seen = map[string]int{}
	}
	r.seen[key]++
	n := r.seen[key]
	r.mu.Unlock()
	l.Count("violations["+key+"]", 1)
	if n <= 3 {
		what, replay := mk()
		res.Violate(mc.Violation{Key: key, What: what, Replay: replay})
	}
}

// c11CPUms: CPU time consumed by this process so far (the machine is shared, wall time says little).
func c11CPUms() int64 {
	var ru syscall.Rusage
	if err := syscall.Getrusage(syscall.RUSAGE_SELF, &ru); err != nil {
		return 0
	}
	return (int64(ru.Utime.Sec)+int64(ru.Stime.Sec))*1000 + (int64(ru.Utime.Usec)+int64(ru.Stime.Usec))/1000
}

// c11PartEnv hands one part its share of what is left of the unit's time budget (at most twice the fair share, so
// that small parts leave their time to the large ones and a large part cannot starve the rest). The returned Env
// is only used to drive the enumeration; parts are emitted through the unit's Env.
func c11PartEnv(env *mc.Env, remainingParts int) *mc.Env {
	p := mc.LoadEnv()
	left := env.Budget - env.Elapsed()
	if left < 0 {
		left = 0
	}
	share := left
	if remainingParts > 1 {
		share = left * 2 / time.Duration(remainingParts)
	}
	p.Budget = share
	return p
}

// c11Vacuity emits a summary part with the unit's vacuity counters: every oracle clause must have been exercised
// non-trivially somewhere in the unit, otherwise the part says so (exhaustive=false plus a VACUOUS diagnostic).
func c11Vacuity(env *mc.Env, unit string, parts []*mc.Result, required []string) {
	res := mc.NewResult("C11", unit+"-vacuity", "enumeration")
	sum := map[string]int64{}
	for _, p := range parts {
		for k, v := range p.Counters {
			sum[k] += v
		}
	}
	res.Exhaustive = true
	var zero []string
	for _, r := range required {
		res.Counters[r] = sum[r]
		if sum[r] == 0 {
			zero = append(zero, r)
		}
	}
	if len(zero) > 0 {
		res.Exhaustive = false
		res.Capped = fmt.Sprintf("VACUOUS: never exercised in this run: %v", zero)
		res.Diag(res.Capped)
	}
	res.Rule = "sums of the vacuity counters over the parts of the unit (how often each oracle clause was exercised non-trivially)"
	env.Emit(res)
}

var c11RoundVacuity = []string{"evict_calls_judged", "evict_calls_failed", "retry_after_failed_eviction", "order_pairs_judged",
	"needed_judged_after_partial_release", "pending_release_told", "victim_of_other_task_not_evicted_again",
	"tasks_stopped_with_candidates_left", "tasks_target_met", "tasks_target_not_met", "account_dimensions_judged_nonzero"}
