package batchresource

// C14: batch pod cgroup limits match the declared amounts; the pod is never tighter than one of its containers.
//
// Bounded-exhaustive product enumeration on the real code (see /verif/DESIGN.md §4 C14):
//
//	pod (1-3 containers x batch-cpu request x batch-cpu limit x batch-memory limit x way of marking the QoS class)
//	  -> the real mutating webhook (PodMutatingHandler.Handle, CREATE) writes the extended-resource-spec annotation
//	  -> protocol.PodContext / ContainerContext are filled by the real FromProxy (annotation codec in the loop) or
//	     FromReconciler (pod spec + annotation)
//	  -> plugin.SetPodResources / SetContainerResources (resp. the six reconcile functions) under every rule
//	     configuration (CFS quota enabled/disabled x CPU normalization ratio), rules installed through the real
//	     parseRuleForNodeSLO / parseRuleForNodeMeta
//	  -> Response.Resources is judged by an oracle written from the property statement with the kubelet conversion
//	     formulas re-implemented here (constants are read from the sysutil package).
//
// The oracle never calls the code under check.

import (
	"context"
	"encoding/json"
	"fmt"
	"math/big"
	"os"
	"regexp"
	"sort"
	"strings"
	"sync/atomic"
	"testing"
	"time"

	jsonpatch "github.com/evanphx/json-patch"
	jsonpatchv2 "gomodules.xyz/jsonpatch/v2"
	admissionv1 "k8s.io/api/admission/v1"
	corev1 "k8s.io/api/core/v1"
	"k8s.io/apimachinery/pkg/api/resource"
	metav1 "k8s.io/apimachinery/pkg/apis/meta/v1"
	"k8s.io/apimachinery/pkg/runtime"
	"k8s.io/apimachinery/pkg/types"
	clientgoscheme "k8s.io/client-go/kubernetes/scheme"
	"sigs.k8s.io/controller-runtime/pkg/client/fake"
	"sigs.k8s.io/controller-runtime/pkg/webhook/admission"

	configv1alpha1 "github.com/koordinator-sh/koordinator/apis/config/v1alpha1"
	apiext "github.com/koordinator-sh/koordinator/apis/extension"
	quotav1alpha1 "github.com/koordinator-sh/koordinator/apis/quota/v1alpha1"
	runtimeapi "github.com/koordinator-sh/koordinator/apis/runtime/v1alpha1"
	schedulingv1alpha1 "github.com/koordinator-sh/koordinator/apis/scheduling/v1alpha1"
	slov1alpha1 "github.com/koordinator-sh/koordinator/apis/slo/v1alpha1"
	"github.com/koordinator-sh/koordinator/pkg/koordlet/runtimehooks/protocol"
	"github.com/koordinator-sh/koordinator/pkg/koordlet/statesinformer"
	sysutil "github.com/koordinator-sh/koordinator/pkg/koordlet/util/system"
	"github.com/koordinator-sh/koordinator/pkg/webhook/pod/mutating"
	"github.com/koordinator-sh/koordinator/pkg/zzverif/mc"
)

// ---------------------------------------------------------------------------------------------------------------
// cases

const c14Absent int64 = -1 // "the container does not declare this amount"

// c14Ctr is what one container declares: batch-cpu request / limit in milli-cores, batch-memory limit in bytes.
type c14Ctr struct {
	Req int64 `json:"req"`
	Lim int64 `json:"lim"`
	Mem int64 `json:"mem"`
}

func (c c14Ctr) declaresNothing() bool { return c.Req == c14Absent && c.Lim == c14Absent && c.Mem == c14Absent }

const (
	c14MarkLabelBE = "label-BE"      // koordinator.sh/qosClass=BE in the labels (the API of this tree)
	c14MarkAnnoBE  = "annotation-BE" // the same key only in the annotations ("old format")
	c14MarkLabelLS = "label-LS"      // another QoS class
	c14MarkNone    = "none"          // no QoS class at all
	c14PathProxy   = "proxy"         // contexts from FromProxy, hooks SetPodResources / SetContainerResources
	c14PathRecon   = "reconciler"    // contexts from FromReconciler, the six registered reconcile functions
)

type c14Case struct {
	Ctrs []c14Ctr `json:"ctrs"`
	Mark string   `json:"mark"`
	Rule string   `json:"rule"`
	Path string   `json:"path"`
}

func (c c14Case) String() string {
	var sb strings.Builder
	f := func(v int64) string {
		if v == c14Absent {
			return "-"
		}
		return fmt.Sprint(v)
	}
	for i, ct := range c.Ctrs {
		fmt.Fprintf(&sb, "c%d{req:%s lim:%s mem:%s} ", i, f(ct.Req), f(ct.Lim), f(ct.Mem))
	}
	return fmt.Sprintf("%smark=%s rule=%s path=%s", sb.String(), c.Mark, c.Rule, c.Path)
}

// ---------------------------------------------------------------------------------------------------------------
// rule configurations (installed through the real parse functions of rule.go)

type c14Rule struct {
	Name         string
	p            *plugin
	QuotaEnabled bool  // what the configuration means (independent of the code): CFS quota of batch pods in use
	Num, Den     int64 // the configured normalization ratio as an exact fraction; Num == 0: none configured
}

// divides tells whether the statement asks for a division ("when one above 1 is configured").
func (r *c14Rule) divides() bool { return r.Num > 0 && r.Num > r.Den }

func c14BuildRules(t *testing.T) []*c14Rule {
	type cfg struct {
		name   string
		slo    string // "" = NodeSLO never parsed; cpuset / cfsQuota = BE suppress strategy enabled with that policy
		node   bool   // node metadata parsed
		ratio  string // value of the node's cpu-normalization-ratio annotation ("" = annotation missing)
		enable bool
		// an earlier configuration the same plugin object went through before (rule updates within one agent lifetime):
		// prevSLO / prevRatio are parsed first ("-" = no earlier event of that kind)
		prevSLO, prevRatio string
		// nodeFirst: the node metadata of the final configuration is parsed BEFORE the final NodeSLO (the ratio is set /
		// changed / removed while an earlier NodeSLO had the CFS quota switched off: seed C14-8)
		nodeFirst bool
	}
	cfgs := []cfg{
		{"fresh", "", false, "", true, "-", "-", false},
		{"quota-on,ratio-missing", "cpuset", true, "", true, "-", "-", false},
		{"quota-on,ratio-0.50", "cpuset", true, "0.50", true, "-", "-", false},
		{"quota-on,ratio-1.00", "cpuset", true, "1.00", true, "-", "-", false},
		{"quota-on,ratio-1.20", "cpuset", true, "1.20", true, "-", "-", false},
		{"quota-on,ratio-1.50", "cpuset", true, "1.50", true, "-", "-", false},
		{"quota-on,ratio-2.00", "cpuset", true, "2.00", true, "-", "-", false},
		// two-digit ratios whose product by 100 is not an integer in float64 (1.15*100 = 114.99999999999999, 2.30*100 =
		// 229.99999999999997): a division carried out on truncated integer percents divides by a ratio 0.01 too small (seed C14-7)
		{"quota-on,ratio-1.15", "cpuset", true, "1.15", true, "-", "-", false},
		{"quota-on,ratio-2.30", "cpuset", true, "2.30", true, "-", "-", false},
		{"quota-off,ratio-missing", "cfsQuota", true, "", false, "-", "-", false},
		{"quota-off,ratio-2.00", "cfsQuota", true, "2.00", false, "-", "-", false},
		// the configuration changed while the agent ran: what counts is the configuration now
		{"quota-on,ratio-missing,was-1.50", "cpuset", true, "", true, "-", "1.50", false},
		{"quota-on,ratio-1.00,was-2.00", "cpuset", true, "1.00", true, "-", "2.00", false},
		{"quota-on,ratio-1.20,was-2.00", "cpuset", true, "1.20", true, "-", "2.00", false},
		{"quota-on,ratio-2.00,was-missing,was-quota-off", "cpuset", true, "2.00", true, "cfsQuota", "", false},
		{"quota-off,ratio-1.50,was-quota-on", "cfsQuota", true, "1.50", false, "cpuset", "-", false},
		// the two rule sources in the other order
		{"quota-on,ratio-2.00-set-while-quota-was-off", "cpuset", true, "2.00", true, "cfsQuota", "-", true},
		{"quota-on,ratio-2.00-changed-from-1.50-while-quota-was-off", "cpuset", true, "2.00", true, "cfsQuota", "1.50", true},
		{"quota-on,ratio-removed-while-quota-was-off,was-2.00", "cpuset", true, "", true, "cfsQuota", "2.00", true},
	}
	parseSLO := func(p *plugin, name, slo string) {
		pol := slov1alpha1.CPUSetPolicy
		if slo == "cfsQuota" {
			pol = slov1alpha1.CPUCfsQuotaPolicy
		}
		on := true
		spec := &slov1alpha1.NodeSLOSpec{ResourceUsedThresholdWithBE: &slov1alpha1.ResourceThresholdStrategy{Enable: &on, CPUSuppressPolicy: pol}}
		if _, err := p.parseRuleForNodeSLO(spec); err != nil {
			t.Fatalf("parseRuleForNodeSLO(%s): %v", name, err)
		}
	}
	parseNode := func(p *plugin, name, ratio string) {
		node := &corev1.Node{ObjectMeta: metav1.ObjectMeta{Name: "n"}}
		if ratio != "" {
			node.Annotations = map[string]string{apiext.AnnotationCPUNormalizationRatio: ratio}
		}
		if _, err := p.parseRuleForNodeMeta(node); err != nil {
			t.Fatalf("parseRuleForNodeMeta(%s): %v", name, err)
		}
	}
	var out []*c14Rule
	for _, c := range cfgs {
		p := newPlugin()
		if c.prevSLO != "-" {
			parseSLO(p, c.name, c.prevSLO)
		}
		if c.prevRatio != "-" {
			parseNode(p, c.name, c.prevRatio)
		}
		if c.slo != "" && !c.nodeFirst {
			parseSLO(p, c.name, c.slo)
		}
		r := &c14Rule{Name: c.name, p: p, QuotaEnabled: c.enable}
		if c.node {
			node := &corev1.Node{ObjectMeta: metav1.ObjectMeta{Name: "n"}}
			if c.ratio != "" {
				node.Annotations = map[string]string{apiext.AnnotationCPUNormalizationRatio: c.ratio}
				rat, ok := new(big.Rat).SetString(c.ratio)
				if !ok || !rat.Num().IsInt64() || !rat.Denom().IsInt64() {
					t.Fatalf("bad ratio %q", c.ratio)
				}
				r.Num, r.Den = rat.Num().Int64(), rat.Denom().Int64()
			}
			if _, err := p.parseRuleForNodeMeta(node); err != nil {
				t.Fatalf("parseRuleForNodeMeta(%s): %v", c.name, err)
			}
		}
		if c.slo != "" && c.nodeFirst {
			parseSLO(p, c.name, c.slo)
		}
		out = append(out, r)
	}
	return out
}

// ---------------------------------------------------------------------------------------------------------------
// the pod and its way through the webhook

func c14Pod(ctrs []c14Ctr, mark string) *corev1.Pod {
	pod := &corev1.Pod{
		TypeMeta:   metav1.TypeMeta{Kind: "Pod", APIVersion: "v1"},
		ObjectMeta: metav1.ObjectMeta{Name: "p", Namespace: "default", UID: types.UID("uid-p")},
	}
	switch mark {
	case c14MarkLabelBE:
		pod.Labels = map[string]string{apiext.LabelPodQoS: string(apiext.QoSBE)}
	case c14MarkLabelLS:
		pod.Labels = map[string]string{apiext.LabelPodQoS: string(apiext.QoSLS)}
	case c14MarkAnnoBE:
		pod.Labels = map[string]string{"app": "x"}
		pod.Annotations = map[string]string{apiext.LabelPodQoS: string(apiext.QoSBE)}
	case c14MarkNone:
		pod.Labels = map[string]string{"app": "x"}
	}
	for i, ct := range ctrs {
		name := fmt.Sprintf("c%d", i)
		c := corev1.Container{Name: name, Image: "img"}
		if ct.Req != c14Absent {
			c.Resources.Requests = corev1.ResourceList{apiext.BatchCPU: *resource.NewQuantity(ct.Req, resource.DecimalSI)}
		}
		if ct.Lim != c14Absent || ct.Mem != c14Absent {
			c.Resources.Limits = corev1.ResourceList{}
			if ct.Lim != c14Absent {
				c.Resources.Limits[apiext.BatchCPU] = *resource.NewQuantity(ct.Lim, resource.DecimalSI)
			}
			if ct.Mem != c14Absent {
				c.Resources.Limits[apiext.BatchMemory] = *resource.NewQuantity(ct.Mem, resource.BinarySI)
			}
		}
		pod.Spec.Containers = append(pod.Spec.Containers, c)
		pod.Status.ContainerStatuses = append(pod.Status.ContainerStatuses,
			corev1.ContainerStatus{Name: name, ContainerID: "containerd://" + strings.Repeat("a", 62) + fmt.Sprintf("%02d", i)})
	}
	return pod
}

type c14Webhook struct{ h *mutating.PodMutatingHandler }

func c14NewWebhook() *c14Webhook {
	// a private scheme (the global client-go scheme is not touched): core types + the webhook's profile CRDs;
	// the cluster holds no ClusterColocationProfile
	sch := runtime.NewScheme()
	_ = clientgoscheme.AddToScheme(sch)
	_ = configv1alpha1.AddToScheme(sch)
	_ = quotav1alpha1.AddToScheme(sch)
	_ = schedulingv1alpha1.AddToScheme(sch)
	return &c14Webhook{h: &mutating.PodMutatingHandler{
		Client:  fake.NewClientBuilder().WithScheme(sch).Build(),
		Decoder: admission.NewDecoder(sch),
	}}
}

// admit sends the pod as a CREATE admission request through the complete real Handle and applies the returned JSON
// patch, i.e. returns the pod the API server would store.
func (w *c14Webhook) admit(pod *corev1.Pod, fast bool) (*corev1.Pod, error) {
	raw, err := json.Marshal(pod)
	if err != nil {
		return nil, err
	}
	resp := w.h.Handle(context.TODO(), admission.Request{AdmissionRequest: admissionv1.AdmissionRequest{
		Resource:  metav1.GroupVersionResource{Group: "", Version: "v1", Resource: "pods"},
		Operation: admissionv1.Create, Namespace: pod.Namespace, Name: pod.Name,
		Object: runtime.RawExtension{Raw: raw},
	}})
	if !resp.Allowed {
		msg := ""
		if resp.Result != nil {
			msg = resp.Result.Message
		}
		return nil, fmt.Errorf("webhook did not allow the pod: %s", msg)
	}
	if len(resp.Patches) == 0 {
		return pod, nil
	}
	if fast {
		if out := c14ApplyAnnotationPatch(pod, resp.Patches); out != nil {
			return out, nil
		}
	}
	pb, err := json.Marshal(resp.Patches)
	if err != nil {
		return nil, err
	}
	patch, err := jsonpatch.DecodePatch(pb)
	if err != nil {
		return nil, err
	}
	final, err := patch.Apply(raw)
	if err != nil {
		return nil, fmt.Errorf("apply patch %s: %v", pb, err)
	}
	out := &corev1.Pod{}
	if err := json.Unmarshal(final, out); err != nil {
		return nil, err
	}
	return out, nil
}

// c14ApplyAnnotationPatch applies a JSON patch that consists only of add/replace operations on metadata.annotations
// (the whole map or one key) to a copy of the pod. It returns nil when the patch contains anything else; the caller
// then takes the generic route.
func c14ApplyAnnotationPatch(pod *corev1.Pod, ops []jsonpatchv2.JsonPatchOperation) *corev1.Pod {
	out := pod.DeepCopy()
	const base = "/metadata/annotations"
	for _, op := range ops {
		if op.Operation != "add" && op.Operation != "replace" {
			return nil
		}
		switch {
		case op.Path == base:
			m, ok := op.Value.(map[string]interface{})
			if !ok {
				return nil
			}
			out.Annotations = map[string]string{}
			for k, v := range m {
				sv, ok := v.(string)
				if !ok {
					return nil
				}
				out.Annotations[k] = sv
			}
		case strings.HasPrefix(op.Path, base+"/") && !strings.Contains(op.Path[len(base)+1:], "/"):
			sv, ok := op.Value.(string)
			if !ok || out.Annotations == nil {
				return nil
			}
			key := strings.ReplaceAll(strings.ReplaceAll(op.Path[len(base)+1:], "~1", "/"), "~0", "~")
			out.Annotations[key] = sv
		default:
			return nil
		}
	}
	return out
}

// ---------------------------------------------------------------------------------------------------------------
// contexts and observation

type c14Obs struct {
	Shares, Quota, Mem *int64
	Other              bool // some other field of the response was set
}

func (o c14Obs) untouched() bool { return o.Shares == nil && o.Quota == nil && o.Mem == nil && !o.Other }

func c14P(v *int64) string {
	if v == nil {
		return "nil"
	}
	return fmt.Sprint(*v)
}

func (o c14Obs) String() string {
	s := fmt.Sprintf("{shares:%s quota:%s mem:%s", c14P(o.Shares), c14P(o.Quota), c14P(o.Mem))
	if o.Other {
		s += " +other"
	}
	return s + "}"
}

func c14ObsOf(r *protocol.Resources) c14Obs {
	return c14Obs{Shares: r.CPUShares, Quota: r.CFSQuota, Mem: r.MemoryLimit,
		Other: r.CPUSet != nil || r.NetClsClassId != nil || r.CPUBvt != nil || r.CPUIdle != nil || r.Resctrl != nil}
}

const c14CgroupParent = "kubepods/besteffort/poduid-p"

// c14Ctxs holds the contexts built once from one admitted pod; every rule configuration gets copies with an empty
// response (the hooks only read the request).
type c14Ctxs struct {
	pod  protocol.PodContext
	ctrs []protocol.ContainerContext
}

func c14BuildCtxs(pod *corev1.Pod, path string) *c14Ctxs {
	out := &c14Ctxs{ctrs: make([]protocol.ContainerContext, len(pod.Spec.Containers))}
	switch path {
	case c14PathProxy:
		meta := &runtimeapi.PodSandboxMetadata{Name: pod.Name, Namespace: pod.Namespace, Uid: string(pod.UID)}
		out.pod.FromProxy(&runtimeapi.PodSandboxHookRequest{PodMeta: meta, Labels: pod.Labels, Annotations: pod.Annotations,
			CgroupParent: c14CgroupParent})
		for i := range pod.Spec.Containers {
			out.ctrs[i].FromProxy(&runtimeapi.ContainerResourceHookRequest{PodMeta: meta,
				ContainerMeta: &runtimeapi.ContainerMetadata{Name: pod.Spec.Containers[i].Name, Id: pod.Status.ContainerStatuses[i].ContainerID},
				PodLabels:     pod.Labels, PodAnnotations: pod.Annotations, PodCgroupParent: c14CgroupParent})
		}
	case c14PathRecon:
		pm := &statesinformer.PodMeta{Pod: pod, CgroupDir: c14CgroupParent}
		out.pod.FromReconciler(pm)
		for i := range pod.Spec.Containers {
			out.ctrs[i].FromReconciler(pm, pod.Spec.Containers[i].Name, false)
		}
	}
	return out
}

// c14RunHooks executes the real hooks of one rule configuration on fresh copies of the contexts.
func c14RunHooks(r *c14Rule, cx *c14Ctxs, path string) (pod c14Obs, ctrs []c14Obs, errs []string) {
	pc := cx.pod
	pc.Response = protocol.PodResponse{}
	if path == c14PathProxy {
		if err := r.p.SetPodResources(&pc); err != nil {
			errs = append(errs, "SetPodResources: "+err.Error())
		}
	} else {
		for _, f := range []func(protocol.HooksProtocol) error{r.p.SetPodCPUShares, r.p.SetPodCFSQuota, r.p.SetPodMemoryLimit} {
			if err := f(&pc); err != nil {
				errs = append(errs, "pod reconcile function: "+err.Error())
			}
		}
	}
	pod = c14ObsOf(&pc.Response.Resources)
	ctrs = make([]c14Obs, len(cx.ctrs))
	for i := range cx.ctrs {
		cc := cx.ctrs[i]
		cc.Response = protocol.ContainerResponse{}
		if path == c14PathProxy {
			if err := r.p.SetContainerResources(&cc); err != nil {
				errs = append(errs, "SetContainerResources: "+err.Error())
			}
		} else {
			for _, f := range []func(protocol.HooksProtocol) error{r.p.SetContainerCPUShares, r.p.SetContainerCFSQuota, r.p.SetContainerMemoryLimit} {
				if err := f(&cc); err != nil {
					errs = append(errs, "container reconcile function: "+err.Error())
				}
			}
		}
		ctrs[i] = c14ObsOf(&cc.Response.Resources)
		if cc.Response.AddContainerEnvs != nil || cc.Response.AddContainerMounts != nil || cc.Response.AddContainerDevices != nil {
			ctrs[i].Other = true
		}
	}
	return pod, ctrs, errs
}

// ---------------------------------------------------------------------------------------------------------------
// oracle (from the statement; standard kubelet conversions re-implemented, constants read from the package)

type c14Consts struct{ minShares, maxShares, sharesPerCPU, period, minQuota int64 }

func c14ReadConsts() c14Consts {
	return c14Consts{minShares: sysutil.CPUSharesMinValue, maxShares: sysutil.CPUSharesMaxValue,
		sharesPerCPU: sysutil.CPUShareUnitValue, period: sysutil.CFSBasePeriodValue, minQuota: sysutil.CFSQuotaMinValue}
}

// stdShares is kubelet's MilliCPUToShares: 0 -> MinShares, else milli*SharesPerCPU/1000 clamped to [Min, Max].
func (k c14Consts) stdShares(milli int64) int64 {
	if milli <= 0 {
		return k.minShares
	}
	s := milli * k.sharesPerCPU / 1000
	if s < k.minShares {
		s = k.minShares
	}
	if s > k.maxShares {
		s = k.maxShares
	}
	return s
}

// quotaTarget is the standard conversion of `milli` milli-cores (> 0) divided by the rule's ratio when that is
// above 1, as the exact fraction N/D microseconds per period, already raised to the kernel minimum.
func (k c14Consts) quotaTarget(milli int64, r *c14Rule) (N, D int64, lifted bool) {
	N, D = milli*k.period, 1000
	if r.divides() {
		N, D = N*r.Den, D*r.Num
	}
	if N < k.minQuota*D {
		return k.minQuota * D, D, true
	}
	return N, D, false
}

// roundingUnit is the rounding granularity accepted where a division is involved: the quota of one milli-CPU
// (period/1000 microseconds; the declared amounts are whole milli-CPUs), at least one microsecond.
func (k c14Consts) roundingUnit() int64 {
	if u := k.period / 1000; u > 1 {
		return u
	}
	return 1
}

// quotaOK judges an observed limited quota v against the target. Without a division the kubelet formula is exact
// (floor of milli*period/1000, minimum clamp). With a division the statement fixes neither the rounding direction
// nor whether the quotient is rounded as milli-CPUs or as microseconds: the closed band of one rounding unit around
// the exact quotient is accepted, never below the kernel minimum.
func (k c14Consts) quotaOK(v, milli int64, r *c14Rule) (ok bool, want string) {
	N, D, _ := k.quotaTarget(milli, r)
	if !r.divides() {
		exp := N / D
		return v == exp, fmt.Sprint(exp)
	}
	u := k.roundingUnit()
	want = fmt.Sprintf("%d/%d (=%.3f) +-%d, >= %d", N, D, float64(N)/float64(D), u, k.minQuota)
	if v < k.minQuota || v > 1<<50 {
		return false, want
	}
	d := v*D - N
	if d < 0 {
		d = -d
	}
	return d <= D*u, want
}

func c14Pos(v int64) int64 { // a non-declared or non-positive amount counts as nothing
	if v > 0 {
		return v
	}
	return 0
}

// counters (flushed once per container list)
const (
	kJudged = iota
	kNotBE
	kNotBETouchedNever
	kAnnoAsBE
	kAnnoAsNotBE
	kBEWithoutBatch
	kCtrDeclared
	kCtrDeclaresNothing
	kCtrQuotaLimited
	kCtrQuotaUnlimitedUndeclared
	kCtrQuotaRatioDivided
	kCtrQuotaMinClamp
	kCtrSharesMinClamp
	kCtrSharesMaxClamp
	kCtrSharesPlain
	kCtrMemLimited
	kCtrMemUnlimited
	kQuotaDisabled
	kPodQuotaLimited
	kPodQuotaUnlimitedByOneCtr
	kPodQuotaRatioDivided
	kPodQuotaMinClamp
	kPodMemLimited
	kPodMemUnlimitedByOneCtr
	kPodSharesMaxClamp
	kRelQuotaGE
	kRelMemGE
	kRelSharesGE
	kRelQuotaSum
	kRelQuotaSumWithClamp
	kRelQuotaSumInexact
	kRelMemSum
	kRelSharesSum
	kRelSharesSumInexact
	kHookError
	kNumCounters
)

var c14CounterNames = [kNumCounters]string{
	"judged_runs", "not_be_runs", "not_be_left_untouched", "annotation_marking_treated_as_be", "annotation_marking_treated_as_not_be",
	"be_without_batch_resources", "containers_declared", "containers_declaring_nothing",
	"ctr_quota_limited", "ctr_quota_unlimited_because_undeclared_or_nonpositive", "ctr_quota_ratio_divided", "ctr_quota_min_clamp",
	"ctr_shares_min_clamp", "ctr_shares_max_clamp", "ctr_shares_plain", "ctr_memory_limited", "ctr_memory_unlimited",
	"cfs_quota_disabled_runs", "pod_quota_limited", "pod_quota_unlimited_by_one_container", "pod_quota_ratio_divided", "pod_quota_min_clamp",
	"pod_memory_limited", "pod_memory_unlimited_by_one_container", "pod_shares_max_clamp",
	"rel_pod_quota_ge_container_checked", "rel_pod_memory_ge_container_checked", "rel_pod_shares_ge_container_checked",
	"rel_pod_quota_vs_sum_checked", "rel_pod_quota_vs_sum_with_clamp", "rel_pod_quota_vs_sum_inexact",
	"rel_pod_memory_eq_sum_checked", "rel_pod_shares_vs_sum_checked", "rel_pod_shares_vs_sum_inexact", "hook_returned_error",
}

type c14Judge struct {
	k    c14Consts
	res  *mc.Result
	cnt  *[kNumCounters]int64
	c    c14Case
	nv   int
	pod  c14Obs
	ctrs []c14Obs
}

func (j *c14Judge) violate(key, what string) {
	j.nv++
	j.res.Violate(mc.Violation{Key: "C14|" + key, What: fmt.Sprintf("%s; case %s; observed pod=%v containers=%v", what, j.c, j.pod, j.ctrs), Replay: j.c})
}

const c14Unl int64 = -1

// c14Mix folds values into an FNV-1a style digest.
func c14Mix(h uint64, vs ...int64) uint64 {
	for _, v := range vs {
		for b := 0; b < 8; b++ {
			h ^= uint64(byte(v >> (8 * b)))
			h *= 1099511628211
		}
	}
	return h
}

func c14MixS(h uint64, s string) uint64 {
	for i := 0; i < len(s); i++ {
		h ^= uint64(s[i])
		h *= 1099511628211
	}
	return h
}

func c14V(p *int64) int64 {
	if p == nil {
		return -7
	}
	return *p
}

// judge applies the oracle to one executed (pod, marking, rule, path). It returns the digest of the outcome class.
func (j *c14Judge) judge(r *c14Rule) (class uint64, nontrivial bool) {
	k, c := j.k, j.c
	j.cnt[kJudged]++
	n := len(c.Ctrs)
	allUntouched := j.pod.untouched()
	for _, o := range j.ctrs {
		allUntouched = allUntouched && o.untouched()
	}
	// --- pods that are not best-effort are left untouched
	be := c.Mark == c14MarkLabelBE
	if c.Mark == c14MarkAnnoBE {
		// The tree defines no annotation that marks a pod BE (extension.GetQoSClassByAttrs documents the annotations
		// argument as "old format adaption" and ignores it). Whether such a pod is a best-effort pod is therefore not
		// decided here: it is judged as whatever the code consistently treats it as.
		if allUntouched {
			j.cnt[kAnnoAsNotBE]++
		} else {
			j.cnt[kAnnoAsBE]++
			be = true
		}
	}
	if !be {
		j.cnt[kNotBE]++
		if !j.pod.untouched() {
			j.violate("not-be|touched|pod", "a pod that is not best-effort got pod-level values injected")
		}
		for i, o := range j.ctrs {
			if !o.untouched() {
				j.violate("not-be|touched|container", fmt.Sprintf("container c%d of a pod that is not best-effort got values injected", i))
				break
			}
		}
		if j.nv == 0 {
			j.cnt[kNotBETouchedNever]++
		}
		return 0, false
	}
	usesBatch := false
	for _, ct := range c.Ctrs {
		usesBatch = usesBatch || !ct.declaresNothing()
	}
	if !usesBatch {
		// a BE pod that uses no reclaimed resource: the statement makes no claim
		j.cnt[kBEWithoutBatch]++
		return 0, false
	}
	cls := c14MixS(c14MixS(c14MixS(14695981039346656037, c.Mark), c.Path), r.Name)
	if j.pod.Other {
		j.violate("pod|other-field-set", "a field other than cpu shares / cfs quota / memory limit was set in the pod response")
	}
	if !r.QuotaEnabled {
		j.cnt[kQuotaDisabled]++
	}

	// --- container level: shares = std(request), quota = std(limit [/ratio]), memory = limit, undeclared => unlimited
	effQuota := make([]int64, n) // effective values; for a container that declares nothing and was left as the
	effMem := make([]int64, n)   // kubelet made it, that is the best-effort default: min shares, no quota, no limit
	effShares := make([]int64, n)
	ctrCls := make([]uint64, n)
	primaryQuotaBad, primaryMemBad, primarySharesBad := false, false, false
	for i, ct := range c.Ctrs {
		o := j.ctrs[i]
		expShares := k.stdShares(c14Pos(ct.Req))
		quotaUnl := !r.QuotaEnabled || ct.Lim <= 0
		memUnl := ct.Mem <= 0
		if o.Other {
			j.violate("container|other-field-set", fmt.Sprintf("c%d: a field other than cpu shares / cfs quota / memory limit was set", i))
		}
		if ct.declaresNothing() {
			j.cnt[kCtrDeclaresNothing]++
		} else {
			j.cnt[kCtrDeclared]++
			if o.Shares == nil || o.Quota == nil || o.Mem == nil {
				j.violate("container|not-injected", fmt.Sprintf("c%d declares batch resources but not all three values were injected", i))
			}
		}
		// shares
		nv0 := j.nv
		effShares[i] = expShares
		if o.Shares != nil {
			effShares[i] = *o.Shares
			if *o.Shares != expShares {
				j.violate("container|shares|value", fmt.Sprintf("c%d: cpu shares %d, standard conversion of the declared request is %d", i, *o.Shares, expShares))
			}
		}
		switch {
		case expShares == k.minShares && c14Pos(ct.Req)*k.sharesPerCPU < k.minShares*1000:
			j.cnt[kCtrSharesMinClamp]++
		case expShares == k.maxShares && c14Pos(ct.Req)*k.sharesPerCPU/1000 > k.maxShares:
			j.cnt[kCtrSharesMaxClamp]++
		default:
			j.cnt[kCtrSharesPlain]++
		}
		primarySharesBad = primarySharesBad || j.nv != nv0
		// quota
		nv0 = j.nv
		effQuota[i] = c14Unl
		qc := int64(0) // quota class bits: 1 limited, 2 ratio-divided, 4 raised to the minimum
		if o.Quota != nil {
			effQuota[i] = *o.Quota
		}
		if quotaUnl {
			if r.QuotaEnabled {
				j.cnt[kCtrQuotaUnlimitedUndeclared]++
			}
			if o.Quota != nil && *o.Quota != c14Unl {
				if !r.QuotaEnabled {
					j.violate("container|quota|set-although-cfs-quota-disabled", fmt.Sprintf("c%d: cfs quota %d although the CFS quota of batch pods is disabled", i, *o.Quota))
				} else {
					j.violate("container|quota|limited-although-undeclared", fmt.Sprintf("c%d: cfs quota %d although no positive batch-cpu limit is declared (must be unlimited, -1)", i, *o.Quota))
				}
			}
		} else if o.Quota != nil {
			j.cnt[kCtrQuotaLimited]++
			qc = 1
			_, _, lifted := k.quotaTarget(ct.Lim, r)
			if r.divides() {
				j.cnt[kCtrQuotaRatioDivided]++
				qc |= 2
			}
			if lifted {
				j.cnt[kCtrQuotaMinClamp]++
				qc |= 4
			}
			v := *o.Quota
			if ok, want := k.quotaOK(v, ct.Lim, r); !ok {
				switch {
				case v == c14Unl:
					j.violate("container|quota|unlimited-although-declared", fmt.Sprintf("c%d: cfs quota unlimited although a batch-cpu limit of %d milli is declared (want %s)", i, ct.Lim, want))
				case v > 0 && v < k.minQuota && r.divides():
					j.violate("container|quota|below-kernel-minimum-after-ratio", fmt.Sprintf("c%d: cfs quota %d is below the kernel minimum %d (limit %d milli, ratio %d/%d; want %s): the kernel rejects the value", i, v, k.minQuota, ct.Lim, r.Num, r.Den, want))
				case v > 0 && v < k.minQuota:
					j.violate("container|quota|below-kernel-minimum", fmt.Sprintf("c%d: cfs quota %d is below the kernel minimum %d (limit %d milli; want %s)", i, v, k.minQuota, ct.Lim, want))
				default:
					j.violate("container|quota|value", fmt.Sprintf("c%d: cfs quota %d, standard conversion of the declared limit %d milli (ratio %d/%d) is %s", i, v, ct.Lim, r.Num, r.Den, want))
				}
			}
		}
		primaryQuotaBad = primaryQuotaBad || j.nv != nv0
		// memory
		nv0 = j.nv
		effMem[i] = c14Unl
		mcl := int64(0)
		if o.Mem != nil {
			effMem[i] = *o.Mem
		}
		if memUnl {
			j.cnt[kCtrMemUnlimited]++
			if o.Mem != nil && *o.Mem != c14Unl {
				j.violate("container|memory|limited-although-undeclared", fmt.Sprintf("c%d: memory limit %d although no positive batch-memory limit is declared (must be unlimited, -1)", i, *o.Mem))
			}
		} else if o.Mem != nil {
			j.cnt[kCtrMemLimited]++
			mcl = 1
			if *o.Mem != ct.Mem {
				if *o.Mem == c14Unl {
					j.violate("container|memory|unlimited-although-declared", fmt.Sprintf("c%d: memory unlimited although a limit of %d bytes is declared", i, ct.Mem))
				} else {
					j.violate("container|memory|value", fmt.Sprintf("c%d: memory limit %d, declared %d", i, *o.Mem, ct.Mem))
				}
			}
		}
		primaryMemBad = primaryMemBad || j.nv != nv0
		dn := int64(0)
		if ct.declaresNothing() {
			dn = 1
		}
		ctrCls[i] = c14Mix(14695981039346656037, effShares[i], qc, mcl, dn)
	}

	// --- pod level: the same conversions on the sums; unlimited as soon as one container is unlimited
	if j.pod.Shares == nil || j.pod.Quota == nil || j.pod.Mem == nil {
		j.violate("pod|not-injected", "a best-effort pod with batch resources did not get all three pod-level values")
	}
	var sumReq, sumLim, sumMem int64
	quotaUnlBy, memUnlBy := -1, -1 // first container that makes the pod unlimited
	for i, ct := range c.Ctrs {
		sumReq += c14Pos(ct.Req)
		if ct.Lim <= 0 {
			if quotaUnlBy < 0 || (c.Ctrs[quotaUnlBy].declaresNothing() && !ct.declaresNothing()) {
				quotaUnlBy = i // prefer a declared container as the witness: that class is independent of the webhook's container selection
			}
		} else {
			sumLim += ct.Lim
		}
		if ct.Mem <= 0 {
			if memUnlBy < 0 || (c.Ctrs[memUnlBy].declaresNothing() && !ct.declaresNothing()) {
				memUnlBy = i
			}
		} else {
			sumMem += ct.Mem
		}
	}
	if j.pod.Shares != nil {
		exp := k.stdShares(sumReq)
		if exp == k.maxShares && sumReq*k.sharesPerCPU/1000 > k.maxShares {
			j.cnt[kPodSharesMaxClamp]++
		}
		if *j.pod.Shares != exp {
			primarySharesBad = true
			j.violate("pod|shares|value", fmt.Sprintf("pod cpu shares %d, standard conversion of the summed requests (%d milli) is %d", *j.pod.Shares, sumReq, exp))
		}
	}
	pq := int64(0)
	if j.pod.Quota != nil {
		v := *j.pod.Quota
		switch {
		case !r.QuotaEnabled:
			if v != c14Unl {
				primaryQuotaBad = true
				j.violate("pod|quota|set-although-cfs-quota-disabled", fmt.Sprintf("pod cfs quota %d although the CFS quota of batch pods is disabled", v))
			}
		case quotaUnlBy >= 0:
			j.cnt[kPodQuotaUnlimitedByOneCtr]++
			if v != c14Unl {
				primaryQuotaBad = true
				if c.Ctrs[quotaUnlBy].declaresNothing() {
					j.violate("pod|quota|limited-although-a-container-declares-nothing", fmt.Sprintf("pod cfs quota %d although container c%d declares no batch resource at all (undeclared limit = unlimited, so the pod must be unlimited)", v, quotaUnlBy))
				} else {
					j.violate("pod|quota|limited-although-a-container-is-unlimited", fmt.Sprintf("pod cfs quota %d although container c%d has no positive batch-cpu limit (the pod must be unlimited)", v, quotaUnlBy))
				}
			}
		default:
			j.cnt[kPodQuotaLimited]++
			pq = 1
			_, _, lifted := k.quotaTarget(sumLim, r)
			if r.divides() {
				j.cnt[kPodQuotaRatioDivided]++
				pq |= 2
			}
			if lifted {
				j.cnt[kPodQuotaMinClamp]++
				pq |= 4
			}
			if ok, want := k.quotaOK(v, sumLim, r); !ok {
				primaryQuotaBad = true
				switch {
				case v == c14Unl:
					j.violate("pod|quota|unlimited-although-all-containers-limited", fmt.Sprintf("pod cfs quota unlimited although every container declares a positive limit (sum %d milli, want %s)", sumLim, want))
				case v > 0 && v < k.minQuota && r.divides():
					j.violate("pod|quota|below-kernel-minimum-after-ratio", fmt.Sprintf("pod cfs quota %d is below the kernel minimum %d (sum of limits %d milli, ratio %d/%d; want %s)", v, k.minQuota, sumLim, r.Num, r.Den, want))
				case v > 0 && v < k.minQuota:
					j.violate("pod|quota|below-kernel-minimum", fmt.Sprintf("pod cfs quota %d is below the kernel minimum %d (sum of limits %d milli; want %s)", v, k.minQuota, sumLim, want))
				default:
					j.violate("pod|quota|value", fmt.Sprintf("pod cfs quota %d, standard conversion of the summed limits %d milli (ratio %d/%d) is %s", v, sumLim, r.Num, r.Den, want))
				}
			}
		}
	}
	pm := int64(0)
	if j.pod.Mem != nil {
		v := *j.pod.Mem
		if memUnlBy >= 0 {
			j.cnt[kPodMemUnlimitedByOneCtr]++
			if v != c14Unl {
				primaryMemBad = true
				if c.Ctrs[memUnlBy].declaresNothing() {
					j.violate("pod|memory|limited-although-a-container-declares-nothing", fmt.Sprintf("pod memory limit %d although container c%d declares no batch resource at all (undeclared limit = unlimited, so the pod must be unlimited)", v, memUnlBy))
				} else {
					j.violate("pod|memory|limited-although-a-container-is-unlimited", fmt.Sprintf("pod memory limit %d although container c%d has no positive batch-memory limit (the pod must be unlimited)", v, memUnlBy))
				}
			}
		} else {
			j.cnt[kPodMemLimited]++
			pm = 1
			if v != sumMem {
				primaryMemBad = true
				if v == c14Unl {
					j.violate("pod|memory|unlimited-although-all-containers-limited", fmt.Sprintf("pod memory unlimited although every container declares a positive limit (sum %d)", sumMem))
				} else {
					j.violate("pod|memory|value", fmt.Sprintf("pod memory limit %d, the declared container limits sum up to %d", v, sumMem))
				}
			}
		}
	}

	// --- consequences named by the statement, judged on the observed values only ("hence"): the pod is never tighter
	// than one of its containers and equals their sum up to the conversion's rounding and clamps. They are corollaries
	// of the clauses above, so they are only reported when no primary clause of that resource (pod or container level)
	// fired already on this run.
	if j.pod.Quota != nil {
		pv := *j.pod.Quota
		if pv != c14Unl {
			for i := range c.Ctrs {
				j.cnt[kRelQuotaGE]++
				if (effQuota[i] == c14Unl || effQuota[i] > pv) && !primaryQuotaBad {
					j.violate("rel|pod-quota-tighter-than-container", fmt.Sprintf("pod cfs quota %d is tighter than container c%d's %d", pv, i, effQuota[i]))
					break
				}
			}
			allLim, sum, lifts, inexact := true, int64(0), int64(0), false
			for i, ct := range c.Ctrs {
				if effQuota[i] == c14Unl || ct.Lim <= 0 {
					allLim = false
					break
				}
				sum += effQuota[i]
				N, D, lifted := k.quotaTarget(ct.Lim, r)
				if lifted { // how far the minimum clamp raised this container above its exact quotient n0/d0 (rounded up)
					n0, d0 := ct.Lim*k.period, int64(1000)
					if r.divides() {
						n0, d0 = n0*r.Den, d0*r.Num
					}
					lifts += (k.minQuota*d0 - n0 + d0 - 1) / d0
				}
				if r.divides() && N%D != 0 {
					inexact = true
				}
			}
			if allLim && r.QuotaEnabled {
				j.cnt[kRelQuotaSum]++
				if lifts > 0 {
					j.cnt[kRelQuotaSumWithClamp]++
				}
				if inexact {
					j.cnt[kRelQuotaSumInexact]++
				}
				// band: every value is within one rounding unit of its exact target (n containers + the pod itself),
				// and the minimum clamp can only have raised containers:
				//   sum - lifts - (n+1)*unit <= pod <= sum + (n+1)*unit
				band := int64(n+1) * k.roundingUnit()
				if !r.divides() {
					band = 0 // milli*period/1000 is exact when the period is a multiple of 1000
					if k.period%1000 != 0 {
						band = int64(n + 1)
					}
				}
				if (pv < sum-lifts-band || pv > sum+band) && !primaryQuotaBad {
					j.violate("rel|pod-quota-vs-sum", fmt.Sprintf("pod cfs quota %d is not the sum of the container quotas %d within the band [-%d-%d, +%d] (rounding units + minimum clamps)", pv, sum, lifts, band, band))
				}
			}
		}
	}
	if j.pod.Mem != nil {
		pv := *j.pod.Mem
		if pv != c14Unl {
			sum, allLim := int64(0), true
			for i := range c.Ctrs {
				j.cnt[kRelMemGE]++
				if (effMem[i] == c14Unl || effMem[i] > pv) && !primaryMemBad {
					j.violate("rel|pod-memory-tighter-than-container", fmt.Sprintf("pod memory limit %d is tighter than container c%d's %d", pv, i, effMem[i]))
					allLim = false
					break
				}
				if effMem[i] == c14Unl {
					allLim = false
				}
				sum += effMem[i]
			}
			if allLim {
				j.cnt[kRelMemSum]++
				if pv != sum && !primaryMemBad {
					j.violate("rel|pod-memory-vs-sum", fmt.Sprintf("pod memory limit %d differs from the sum of the container limits %d", pv, sum))
				}
			}
		}
	}
	if j.pod.Shares != nil {
		pv := *j.pod.Shares
		var sum, lifts int64
		inexact := false
		for i, ct := range c.Ctrs {
			j.cnt[kRelSharesGE]++
			if effShares[i] > pv && !primarySharesBad {
				j.violate("rel|pod-shares-below-container", fmt.Sprintf("pod cpu shares %d are below container c%d's %d", pv, i, effShares[i]))
				break
			}
			sum += effShares[i]
			x1000 := c14Pos(ct.Req) * k.sharesPerCPU // exact shares * 1000
			if x1000 < k.minShares*1000 && effShares[i] == k.minShares {
				lifts += (k.minShares*1000 - x1000 + 999) / 1000
			}
			if x1000%1000 != 0 {
				inexact = true
			}
		}
		j.cnt[kRelSharesSum]++
		if inexact {
			j.cnt[kRelSharesSumInexact]++
		}
		lo := sum - lifts - int64(n)
		if lo > k.maxShares {
			lo = k.maxShares
		}
		hi := sum + int64(n)
		if hi < k.minShares {
			hi = k.minShares
		}
		if (pv < lo || pv > hi) && !primarySharesBad {
			j.violate("rel|pod-shares-vs-sum", fmt.Sprintf("pod cpu shares %d are not the sum of the container shares %d within [%d, %d] (rounding units + clamps)", pv, sum, lo, hi))
		}
	}
	sort.Slice(ctrCls, func(a, b int) bool { return ctrCls[a] < ctrCls[b] })
	cls = c14Mix(cls, int64(n), c14V(j.pod.Shares), pq, pm)
	for _, cc := range ctrCls {
		cls = c14Mix(cls, int64(cc))
	}
	return cls, true
}

// ---------------------------------------------------------------------------------------------------------------
// enumeration

type c14Alpha struct {
	req, lim, mem []int64
}

func (a c14Alpha) per() int { return len(a.req) * len(a.lim) * len(a.mem) }

func (a c14Alpha) decode(code int) c14Ctr {
	var c c14Ctr
	c.Req = a.req[code%len(a.req)]
	code /= len(a.req)
	c.Lim = a.lim[code%len(a.lim)]
	code /= len(a.lim)
	c.Mem = a.mem[code%len(a.mem)]
	return c
}

type c14Part struct {
	name  string
	n     int
	alpha c14Alpha
	marks []string
	paths []string
	// freshCtx: contexts are rebuilt (annotation decoded again) for every rule configuration instead of once per pod
	freshCtx bool
	// multiset: only lists with non-decreasing container codes are executed, i.e. every list modulo the order of
	// its containers (the containers of a pod reach the hooks as a map keyed by the container name)
	multiset bool
	// fastPatch: the webhook's JSON patch is applied directly when it only touches metadata.annotations (what the
	// extended-resource-spec step produces) instead of through the generic JSON patch library + a pod decode
	fastPatch bool
	// until: fraction of the unit's time budget after which this part stops (reported as a cap), so that on a slow
	// machine the later parts still get their share; 0 = no own deadline
	until float64
}

type c14Worker struct {
	wh *c14Webhook
}

// c14RunList executes and judges one container list under every marking, path and rule of the part.
func c14RunList(res *mc.Result, l *mc.Local, ds *mc.DistinctSet, k c14Consts, w *c14Worker, rules []*c14Rule, part *c14Part, ctrs []c14Ctr) {
	var cnt [kNumCounters]int64
	defer func() {
		for i, v := range cnt {
			if v != 0 {
				l.Count(c14CounterNames[i], v)
			}
		}
	}()
	for _, mark := range part.marks {
		base := c14Case{Ctrs: ctrs, Mark: mark}
		var admitted *corev1.Pod
		var err error
		if ps := mc.Guard(func() { admitted, err = w.wh.admit(c14Pod(ctrs, mark), part.fastPatch) }); ps != "" || err != nil {
			// the webhook is outside the anchored mechanism; a failure here is a broken harness assumption
			res.Violate(mc.Violation{Key: "C14|harness|webhook-failed", What: fmt.Sprintf("the mutating webhook failed on %s: %v %s", base, err, ps), Replay: base})
			continue
		}
		l.Count("webhook_admissions", 1)
		if _, ok := admitted.Annotations[apiext.AnnotationExtendedResourceSpec]; ok {
			l.Count("webhook_wrote_annotation", 1)
		}
		for _, path := range part.paths {
			var cx *c14Ctxs
			for _, r := range rules {
				c := base
				c.Rule, c.Path = r.Name, path
				j := &c14Judge{k: k, res: res, cnt: &cnt, c: c}
				ps := mc.Guard(func() {
					if cx == nil || part.freshCtx {
						cx = c14BuildCtxs(admitted, path)
					}
					var errs []string
					j.pod, j.ctrs, errs = c14RunHooks(r, cx, path)
					if len(errs) > 0 {
						cnt[kHookError]++
						res.Diag(fmt.Sprintf("hook returned an error on %s: %v", c, errs))
					}
				})
				l.Evals++
				if ps != "" {
					res.Violate(mc.Violation{Key: "C14|panic", What: fmt.Sprintf("case %s: %s", c, ps), Replay: c})
					continue
				}
				cls, nontrivial := j.judge(r)
				if nontrivial && j.nv == 0 {
					ds.AddHash(cls)
					if l.Evals%4099 == 1 {
						res.Sample(fmt.Sprintf("case %s -> pod=%v containers=%v", c, j.pod, j.ctrs))
					}
				}
			}
		}
	}
}

func c14Replay(t *testing.T, k c14Consts, rules []*c14Rule, c c14Case) {
	res := mc.NewResult("C14", "replay", "enumeration")
	var cnt [kNumCounters]int64
	wh := c14NewWebhook()
	admitted, err := wh.admit(c14Pod(c.Ctrs, c.Mark), false)
	if err != nil {
		t.Fatalf("webhook: %v", err)
	}
	fmt.Printf("REPLAY case=%s\n  labels=%v\n  annotations=%v\n", c, admitted.Labels, admitted.Annotations)
	for _, r := range rules {
		if r.Name != c.Rule {
			continue
		}
		cx := c14BuildCtxs(admitted, c.Path)
		j := &c14Judge{k: k, res: res, cnt: &cnt, c: c}
		j.pod, j.ctrs, _ = c14RunHooks(r, cx, c.Path)
		j.judge(r)
		fmt.Printf("  observed pod=%v containers=%v\n", j.pod, j.ctrs)
		for _, v := range res.Violations {
			fmt.Printf("  VIOLATED %s: %s\n", v.Key, v.What)
		}
		if len(res.Violations) == 0 {
			fmt.Printf("  no clause violated\n")
		}
	}
}

func TestVerifC14Batch(t *testing.T) {
	env := mc.LoadEnv()
	k := c14ReadConsts()
	rules := c14BuildRules(t)
	{
		var c c14Case
		if _, ok := env.ReplayData(&c); ok {
			c14Replay(t, k, rules, c)
			return
		}
	}
	A := c14Absent
	// the alphabets of DESIGN.md §4 C14
	design := c14Alpha{
		req: []int64{A, 0, 1, 500, 1000, 64000, 10000000},
		lim: []int64{A, 0, 1, 500, 1000, 64000, 10000000},
		mem: []int64{A, 0, 1, 4096, 1 << 30, 1 << 40},
	}
	// more values around the conversions' clamps (2 shares = 1.95 milli; 1000us = 10 milli; 262144 shares = 256 CPUs)
	ext := c14Alpha{
		req: []int64{A, 0, 1, 2, 3, 500, 1000, 64000, 256000, 257000, 10000000},
		lim: []int64{A, 0, 1, 9, 10, 11, 15, 19, 20, 500, 1000, 64000, 10000000},
		mem: []int64{A, 0, 1, 4096, 1 << 30, 1 << 40},
	}
	mid := c14Alpha{
		req: []int64{A, 0, 1, 500, 1000, 64000, 10000000},
		lim: []int64{A, 0, 1, 15, 500, 1000, 64000, 10000000},
		mem: []int64{A, 0, 1, 4096, 1 << 30, 1 << 40},
	}
	small := c14Alpha{
		req: []int64{A, 0, 3, 10000000},
		lim: []int64{A, 0, 1, 15, 1000},
		mem: []int64{A, 0, 4096},
	}
	allMarks := []string{c14MarkLabelBE, c14MarkAnnoBE, c14MarkLabelLS, c14MarkNone}
	bothPaths := []string{c14PathProxy, c14PathRecon}
	// small parts first: under a time budget the later (larger) parts are the ones that get capped
	parts := []*c14Part{
		{name: "n1", n: 1, alpha: ext, marks: allMarks, paths: bothPaths, freshCtx: true},
		{name: "n2-small", n: 2, alpha: small, marks: allMarks, paths: bothPaths},
	}
	if env.Thorough() {
		parts = append(parts,
			&c14Part{name: "n3-small", n: 3, alpha: small, marks: allMarks, paths: bothPaths, until: 0.25},
			&c14Part{name: "n2", n: 2, alpha: mid, marks: allMarks, paths: bothPaths, until: 0.4},
			&c14Part{name: "n3-multiset", n: 3, alpha: design, marks: []string{c14MarkLabelBE}, paths: []string{c14PathProxy}, multiset: true, fastPatch: true})
	} else {
		parts = append(parts,
			&c14Part{name: "n3-small", n: 3, alpha: small, marks: []string{c14MarkLabelBE, c14MarkNone}, paths: bothPaths, until: 0.55},
			&c14Part{name: "n2", n: 2, alpha: mid, marks: allMarks, paths: bothPaths})
	}
	// `bin/check C14 --only <regex>` restricts the run to the parts whose name matches (when any does)
	if only := os.Getenv("VERIF_ONLY"); only != "" {
		if re, err := regexp.Compile(only); err == nil {
			var sel []*c14Part
			for _, p := range parts {
				if re.MatchString(p.name) {
					sel = append(sel, p)
				}
			}
			if len(sel) > 0 {
				parts = sel
			}
		}
	}
	workers := make([]*c14Worker, env.Workers)
	for i := range workers {
		workers[i] = &c14Worker{wh: c14NewWebhook()}
	}
	for _, part := range parts {
		part := part
		res := mc.NewResult("C14", part.name, "enumeration")
		ds := mc.NewDistinctSet()
		dims := make([]int, part.n)
		for i := range dims {
			dims[i] = part.alpha.per()
		}
		rx := mc.Radix{Dims: dims}
		var skipped atomic.Int64
		done, complete := env.ParallelRangeL(res, rx.Size(), func(l *mc.Local, i int64) {
			if part.until > 0 && env.Elapsed() > time.Duration(part.until*float64(env.Budget)) {
				skipped.Add(1)
				return
			}
			d := rx.Decode(i, make([]int, 0, 4))
			if part.multiset {
				for x := 1; x < len(d); x++ {
					if d[x] < d[x-1] {
						return
					}
				}
				l.Count("container_multisets", 1)
			}
			ctrs := make([]c14Ctr, part.n)
			for x := range d {
				ctrs[x] = part.alpha.decode(d[x])
			}
			c14RunList(res, l, ds, k, workers[l.Worker], rules, part, ctrs)
		})
		res.Traces = res.Evaluations
		res.Distinct = ds.Len()
		res.Exhaustive = complete && skipped.Load() == 0
		if !res.Exhaustive {
			res.Capped = fmt.Sprintf("time budget hit after %d of %d container lists", done-skipped.Load(), rx.Size())
		}
		var rn []string
		for _, r := range rules {
			rn = append(rn, r.Name)
		}
		lists := "every ordered list"
		if part.multiset {
			lists = "every list modulo the order of its containers (non-decreasing codes)"
		}
		res.Rule = fmt.Sprintf(lists+" of %d containers over batch-cpu request%v x batch-cpu limit%v x batch-memory limit%v (-1 = not declared), "+
			"x QoS marking %v x context path %v x rule %v; each pod goes through the real mutating webhook (CREATE) before the contexts are built; "+
			"one evaluation = one (pod, marking, path, rule) executed on the hooks and judged; non-trivial = best-effort pod with at least one declared batch amount; "+
			"distinct = distinct outcome classes (marking, path, rule, pod shares value and quota/memory class, sorted per-container shares value and quota/memory class) among the non-trivial runs without violation",
			part.n, part.alpha.req, part.alpha.lim, part.alpha.mem, part.marks, part.paths, rn)
		res.Bounds = map[string]any{"containers": part.n, "container_lists": rx.Size(), "rules": len(rules), "markings": len(part.marks), "paths": len(part.paths),
			"constants_read": fmt.Sprintf("minShares=%d maxShares=%d sharesPerCPU=%d period=%d minQuota=%d", k.minShares, k.maxShares, k.sharesPerCPU, k.period, k.minQuota)}
		res.Assumptions = []string{
			"the pod carries its batch amounts as kubernetes.io/batch-cpu / batch-memory entries of the container spec (the state after the colocation-profile translation of C13); no ClusterColocationProfile exists in the webhook's client",
			"request > limit combinations are enumerated although the API server would reject them",
			"a container that declares no batch amount and gets nothing injected stays at the kubelet's best-effort defaults (minimum shares, no quota, no memory limit)",
			"init containers and pod overhead are outside the statement (the code marks them TODO)",
		}
		if part.name == "n1" {
			res.Diag("the tree defines no annotation that marks a pod BE: extension.GetQoSClassByAttrs ignores its annotations argument; pods marked only by annotation are judged as whatever the code consistently treats them as (see counters annotation_marking_treated_as_*)")
		}
		env.Emit(res)
	}
}
