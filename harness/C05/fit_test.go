package reservation

// C05 fit part: exhaustive product over (what a restricted reservation reserved, what it reports as allocated, which
// dimensions its restricted options reserve, the amount reserved inside the reservation) x pod request x preemptible
// amount, on the real fitsReservation / fitsNodeAndReservation.
//
// Oracle (one-directional, from the statement): "for a restricted reservation a pod is let in only if that sum plus
// the pod's request stays within what the reservation reserved": whenever the code reports no insufficient resource,
// then in every reserved dimension d the pod requests:  max(0, allocated_d - preemptible_d) + request_d <= reserved_d.
// (preemptible_d is the part of the allocated sum that belongs to assigned pods the preemption would remove, so the
// "sum over the pods currently assigned" after the preemption is allocated_d - preemptible_d, never below zero.)
// The converse (a rejected pod would have fitted) is only counted. See /verif/DESIGN.md §4 C05.

import (
	"fmt"
	"math/big"
	"testing"

	corev1 "k8s.io/api/core/v1"
	"k8s.io/apimachinery/pkg/api/resource"
	metav1 "k8s.io/apimachinery/pkg/apis/meta/v1"
	"k8s.io/apimachinery/pkg/types"
	"k8s.io/apimachinery/pkg/util/sets"

	apiext "github.com/koordinator-sh/koordinator/apis/extension"
	schedulingv1alpha1 "github.com/koordinator-sh/koordinator/apis/scheduling/v1alpha1"
	"github.com/koordinator-sh/koordinator/pkg/scheduler/frameworkext"
	"github.com/koordinator-sh/koordinator/pkg/zzverif/mc"
)

const c05Ext = corev1.ResourceName("example.com/widget")

// one unit of every dimension, chosen so that milli-values and binary suffixes are exercised
func c05Unit(name corev1.ResourceName, n int64) resource.Quantity {
	switch name {
	case corev1.ResourceCPU:
		return *resource.NewMilliQuantity(n*500, resource.DecimalSI) // 500m steps
	case corev1.ResourceMemory:
		return *resource.NewQuantity(n*(1<<30), resource.BinarySI) // 1Gi steps
	default:
		return *resource.NewQuantity(n, resource.DecimalSI)
	}
}

// c05FitVals: -1 = the key is absent from the list, otherwise that many units
var c05FitVals = []int64{-1, 0, 1, 2, 3, 5}

type c05FitDim struct {
	Name                                 corev1.ResourceName
	Alloc, Used, Req, Preempt, InnerResv int64 // units, -1 = absent
	InOptions                            bool  // the restricted options name this dimension
}

type c05FitCase struct {
	Dims       []c05FitDim
	MaxPods    int64 // -1 = the reservation does not reserve "pods"
	Assigned   int   // pods currently assigned
	PreemptPod int64 // -1 absent
	PodsInOpts bool
}

func (c c05FitCase) String() string { type plain c05FitCase; return fmt.Sprintf("%+v", plain(c)) }

// c05FitTemplates caches, per worker, the ReservationInfo the real constructor derives for one shape (which keys the
// reservation reserves, which of them the restricted options name): ResourceNames depends only on that shape, the
// amounts are filled in per case. Building it through NewReservationInfo for every case is 10x slower.
type c05FitTemplates map[string]*frameworkext.ReservationInfo

func c05BuildFit(cache c05FitTemplates, c c05FitCase) (rInfo *frameworkext.ReservationInfo, req, preempt corev1.ResourceList) {
	allocatable, allocated, inner := corev1.ResourceList{}, corev1.ResourceList{}, corev1.ResourceList{}
	req, preempt = corev1.ResourceList{}, corev1.ResourceList{}
	var opts []corev1.ResourceName
	shape := make([]byte, 0, 32)
	for _, d := range c.Dims {
		shape = append(shape, d.Name[0])
		if d.Alloc >= 0 {
			allocatable[d.Name] = c05Unit(d.Name, d.Alloc)
			shape = append(shape, 'A')
		}
		if d.Used >= 0 {
			allocated[d.Name] = c05Unit(d.Name, d.Used)
		}
		if d.Req >= 0 {
			req[d.Name] = c05Unit(d.Name, d.Req)
		}
		if d.Preempt >= 0 {
			preempt[d.Name] = c05Unit(d.Name, d.Preempt)
		}
		if d.InnerResv > 0 {
			inner[d.Name] = c05Unit(d.Name, d.InnerResv)
		}
		if d.InOptions {
			opts = append(opts, d.Name)
			shape = append(shape, 'O')
		}
	}
	if c.MaxPods >= 0 {
		allocatable[corev1.ResourcePods] = *resource.NewQuantity(c.MaxPods, resource.DecimalSI)
		shape = append(shape, 'P')
		if c.PodsInOpts {
			opts = append(opts, corev1.ResourcePods)
			shape = append(shape, 'O')
		}
	}
	if c.PreemptPod >= 0 {
		preempt[corev1.ResourcePods] = *resource.NewQuantity(c.PreemptPod, resource.DecimalSI)
	}
	tmpl := cache[string(shape)]
	if tmpl == nil {
		r := &schedulingv1alpha1.Reservation{
			ObjectMeta: metav1.ObjectMeta{Name: "rfit", UID: "uid-rfit"},
			Spec: schedulingv1alpha1.ReservationSpec{
				AllocatePolicy: schedulingv1alpha1.ReservationAllocatePolicyRestricted,
				Template:       &corev1.PodTemplateSpec{},
				Owners:         []schedulingv1alpha1.ReservationOwner{{LabelSelector: &metav1.LabelSelector{}}},
			},
			Status: schedulingv1alpha1.ReservationStatus{Phase: schedulingv1alpha1.ReservationAvailable, NodeName: "n1", Allocatable: allocatable.DeepCopy()},
		}
		if len(opts) > 0 {
			_ = apiext.SetReservationRestrictedOptions(r, &apiext.ReservationRestrictedOptions{Resources: opts})
		}
		// the real constructor derives ResourceNames from the reserved keys and the restricted options
		tmpl = frameworkext.NewReservationInfo(r)
		cache[string(shape)] = tmpl
	}
	// the ledger fields are set to the enumerated state (exported fields; states with allocated > reserved are
	// reachable through informer facts)
	ri := *tmpl
	ri.Allocatable = allocatable
	ri.Allocated = allocated
	ri.Reserved = nil
	if len(inner) > 0 {
		ri.Reserved = inner
	}
	ri.AssignedPods = make(map[types.UID]*frameworkext.PodRequirement, c.Assigned)
	for i := 0; i < c.Assigned; i++ {
		uid := types.UID(fmt.Sprintf("uid-a%d", i))
		ri.AssignedPods[uid] = &frameworkext.PodRequirement{Namespace: "default", Name: string(uid), UID: uid}
	}
	return &ri, req, preempt
}

// c05FitRef is the reference predicate written from the statement in exact integer arithmetic (units). It returns
// the first reserved dimension in which the pod would exceed what the reservation reserved ("" = stays within).
func c05FitRef(c c05FitCase) (exceeds string, constrained bool) {
	// reserved dimensions: what the restricted options name among what the reservation reserves; all when the
	// options name nothing the reservation reserves (API doc of ReservationRestrictedOptions)
	anyOpt := false
	for _, d := range c.Dims {
		if d.InOptions && d.Alloc >= 0 {
			anyOpt = true
		}
	}
	if c.PodsInOpts && c.MaxPods >= 0 {
		anyOpt = true
	}
	z := func(v int64) *big.Int {
		if v < 0 {
			v = 0
		}
		return big.NewInt(v)
	}
	for _, d := range c.Dims {
		if d.Alloc < 0 || (anyOpt && !d.InOptions) {
			continue // not a reserved dimension
		}
		if d.Req <= 0 {
			continue // the pod does not request it
		}
		constrained = true
		remainingSum := new(big.Int).Sub(z(d.Used), z(d.Preempt))
		if remainingSum.Sign() < 0 {
			remainingSum.SetInt64(0)
		}
		if new(big.Int).Add(remainingSum, z(d.Req)).Cmp(z(d.Alloc)) > 0 {
			return string(d.Name), true
		}
	}
	if c.MaxPods >= 0 && (!anyOpt || c.PodsInOpts) {
		constrained = true
		remaining := int64(c.Assigned)
		if c.PreemptPod > 0 {
			remaining -= c.PreemptPod
		}
		if remaining < 0 {
			remaining = 0
		}
		if remaining+1 > c.MaxPods {
			return "pods", true
		}
	}
	return "", constrained
}

// c05FitInnerRef: the stricter bound that also keeps the amount reserved inside the reservation free (diagnostic).
func c05FitInnerExceeds(c c05FitCase) bool {
	for _, d := range c.Dims {
		if d.Alloc < 0 || d.Req <= 0 {
			continue
		}
		used := d.Used
		if used < 0 {
			used = 0
		}
		if d.Preempt > 0 {
			used -= d.Preempt
		}
		if used < 0 {
			used = 0
		}
		inner := d.InnerResv
		if inner < 0 {
			inner = 0
		}
		if used+d.Req > d.Alloc-inner {
			return true
		}
	}
	return false
}

func c05JudgeFit(res *mc.Result, l *mc.Local, ds *mc.DistinctSet, caches []c05FitTemplates, part string, id int64, c c05FitCase) {
	l.Evals++
	rInfo, req, preempt := c05BuildFit(caches[l.Worker], c)
	exceeds, constrained := c05FitRef(c)
	var empty sets.Set[string]
	type verdict struct {
		how   string
		letIn bool
	}
	var vs []verdict
	if ps := mc.Guard(func() {
		vs = append(vs, verdict{"fitsReservation(detailed=false)", len(fitsReservation(req, rInfo, preempt, false, empty, empty)) == 0})
		vs = append(vs, verdict{"fitsReservation(detailed=true)", len(fitsReservation(req, rInfo, preempt, true, empty, empty)) == 0})
		byNode, byRsv := fitsNodeAndReservation(nil, nil, nil, nil, nil, req, preempt, nil, rInfo, nil, 1, false, true, empty, empty)
		vs = append(vs, verdict{"fitsNodeAndReservation(node check skipped)", len(byNode) == 0 && len(byRsv) == 0})
	}); ps != "" {
		res.Violate(mc.Violation{Key: "C05|" + part + "|panic", What: ps, Replay: c})
		return
	}
	for _, v := range vs {
		if v.letIn {
			l.Count("let_in", 1)
			if constrained {
				l.Count("let_in_with_a_reserved_dimension_requested", 1)
			}
			if exceeds != "" {
				res.Violate(mc.Violation{Key: "C05|" + part + "|let-in-beyond-reserved|" + exceeds,
					What: fmt.Sprintf("%s lets the pod in although in reserved dimension %q the assigned sum (minus preemptible) plus the request exceeds what the reservation reserved; case %v; Allocatable=%v Allocated=%v ResourceNames=%v request=%v preemptible=%v",
						v.how, exceeds, c, rInfo.Allocatable, rInfo.Allocated, rInfo.ResourceNames, req, preempt), Replay: c})
			}
		} else {
			l.Count("rejected", 1)
			if exceeds == "" {
				if c05FitInnerExceeds(c) {
					l.Count("diag_rejected_only_because_of_amount_reserved_inside", 1)
				} else {
					l.Count("diag_rejected_although_within_reserved", 1)
				}
			} else {
				l.Count("rejected_and_would_exceed", 1)
			}
		}
	}
	if vs[0].letIn != vs[1].letIn || vs[0].letIn != vs[2].letIn {
		l.Count("diag_entry_points_disagree", 1)
	}
	if constrained {
		ds.AddHash(uint64(id)*2654435761 + uint64(len(part)))
	}
}

// TestVerifC05Func is the entry point of the "func" unit: one Env (one output file) for the owner part and the
// fit parts; the cheap owner part runs first.
func TestVerifC05Func(t *testing.T) {
	env := mc.LoadEnv()
	if env.Replay != "" {
		// replay files only exist for the history part; emit an empty part so that the driver sees a live process
		res := mc.NewResult("C05", "func-skipped-in-replay", "enumeration")
		res.Exhaustive = true
		env.Emit(res)
		return
	}
	c05RunOwners(env)
	c05RunFit(env)
}

func c05RunFit(env *mc.Env) {
	names := []corev1.ResourceName{corev1.ResourceCPU, corev1.ResourceMemory, c05Ext}
	caches := make([]c05FitTemplates, env.Workers)
	for i := range caches {
		caches[i] = c05FitTemplates{}
	}
	nv := len(c05FitVals)
	// per dimension: alloc x used x req x preempt x inOptions x innerReserved{0,1}
	perDim := []int{nv, nv, nv, nv, 2, 2}
	decodeDim := func(name corev1.ResourceName, d []int) c05FitDim {
		return c05FitDim{Name: name, Alloc: c05FitVals[d[0]], Used: c05FitVals[d[1]], Req: c05FitVals[d[2]], Preempt: c05FitVals[d[3]],
			InOptions: d[4] == 1, InnerResv: int64(d[5])}
	}

	// part 1: every single dimension alone, every value
	{
		res := mc.NewResult("C05", "fit-single", "enumeration")
		res.Rule = "per resource dimension (cpu in 500m steps, memory in Gi, one extended resource): every (reserved, allocated, request, preemptible) in {absent,0,1,2,3,5}^4 x named-by-restricted-options x amount reserved inside {0,1}; non-trivial = the pod requests a reserved dimension"
		ds := mc.NewDistinctSet()
		rx := mc.Radix{Dims: append([]int{len(names)}, perDim...)}
		done, complete := env.ParallelRangeL(res, rx.Size(), func(l *mc.Local, i int64) {
			d := rx.Decode(i, make([]int, 0, 8))
			c05JudgeFit(res, l, ds, caches, "fit-single", i, c05FitCase{Dims: []c05FitDim{decodeDim(names[d[0]], d[1:])}, MaxPods: -1, PreemptPod: -1})
		})
		res.Distinct, res.Traces, res.Exhaustive = ds.Len(), res.Evaluations, complete
		if !complete {
			res.Capped = fmt.Sprintf("time budget hit after %d of %d", done, rx.Size())
		}
		env.Emit(res)
	}

	// part 2: the "pods" dimension (every assigned pod counts one) together with cpu
	{
		res := mc.NewResult("C05", "fit-pods", "enumeration")
		res.Rule = "reserved pods in {absent,0,1,2,3} x assigned pods 0..3 x preemptible pods {absent,0..assigned} x pods named by the options x one cpu dimension with every value"
		ds := mc.NewDistinctSet()
		maxPods := []int64{-1, 0, 1, 2, 3}
		rx := mc.Radix{Dims: append([]int{len(maxPods), 4, 5, 2}, perDim...)}
		done, complete := env.ParallelRangeL(res, rx.Size(), func(l *mc.Local, i int64) {
			d := rx.Decode(i, make([]int, 0, 12))
			assigned := d[1]
			pre := int64(d[2]) - 1 // -1 absent, 0..3
			if pre > int64(assigned) {
				l.Count("skipped_preemptible_pods_exceed_assigned", 1)
				return // victims are assigned pods: more preemptible pods than assigned pods cannot be presented
			}
			c05JudgeFit(res, l, ds, caches, "fit-pods", i, c05FitCase{Dims: []c05FitDim{decodeDim(corev1.ResourceCPU, d[4:])}, MaxPods: maxPods[d[0]],
				Assigned: assigned, PreemptPod: pre, PodsInOpts: d[3] == 1})
		})
		res.Distinct, res.Traces, res.Exhaustive = ds.Len(), res.Evaluations, complete
		if !complete {
			res.Capped = fmt.Sprintf("time budget hit after %d of %d", done, rx.Size())
		}
		env.Emit(res)
	}
	// part 3: every pair of dimensions jointly (the verdict must hold in every requested reserved dimension at once;
	// the restricted options may name one, both or none)
	{
		res := mc.NewResult("C05", "fit-pairs", "enumeration")
		vals := c05FitVals
		if !env.Thorough() {
			vals = []int64{-1, 0, 1, 3} // quick: reduced value alphabet for the joint product
		}
		res.Rule = fmt.Sprintf("every unordered pair of {cpu, memory, extended}: joint product of (reserved, allocated, request, preemptible) in %v^4 x named-by-options per dimension (amount reserved inside: 0 and 1 on the first dimension)", vals)
		res.Bounds = map[string]any{"values": vals}
		ds := mc.NewDistinctSet()
		n := len(vals)
		pairs := [][2]int{{0, 1}, {0, 2}, {1, 2}}
		rx := mc.Radix{Dims: []int{len(pairs), n, n, n, n, 2, 2, n, n, n, n, 2}}
		done, complete := env.ParallelRangeL(res, rx.Size(), func(l *mc.Local, i int64) {
			d := rx.Decode(i, make([]int, 0, 12))
			p := pairs[d[0]]
			a := c05FitDim{Name: names[p[0]], Alloc: vals[d[1]], Used: vals[d[2]], Req: vals[d[3]], Preempt: vals[d[4]], InOptions: d[5] == 1, InnerResv: int64(d[6])}
			b := c05FitDim{Name: names[p[1]], Alloc: vals[d[7]], Used: vals[d[8]], Req: vals[d[9]], Preempt: vals[d[10]], InOptions: d[11] == 1}
			c05JudgeFit(res, l, ds, caches, "fit-pairs", i, c05FitCase{Dims: []c05FitDim{a, b}, MaxPods: -1, PreemptPod: -1})
		})
		res.Distinct, res.Traces, res.Exhaustive = ds.Len(), res.Evaluations, complete
		if !complete {
			res.Capped = fmt.Sprintf("time budget hit after %d of %d", done, rx.Size())
		}
		env.Emit(res)
	}

}
