package reservation

// C05 history part: explicit-state BFS over informer / scheduler event histories on the real reservationCache, the
// plugin's reservation and pod event handlers and the real Plugin (Reserve / Unreserve / BeforePreFilter / Filter /
// NominateReservation / FilterNominateReservation), with an independent reference of what the events established.
// See /verif/DESIGN.md §4 C05 and the assumptions in spec.json.
//
// Actors:
//   H1  the plugin's reservationEventHandler (OnAdd/OnUpdate/OnDelete), applied when the informer event happens;
//   H2  the global reservation handler of frameworkext/eventhandlers, represented by its only effect on the
//       reservation cache: DeleteReservation(old object) after available->terminated or after the delete of a placed
//       reservation; it is a separate informer listener, so it may lag (op "h2.deliver");
//   the scheduler: Reserve/Unreserve of reserve pods (assume/forget reservation) and of owner pods (assume/forget pod);
//   the pod informer: bound / moved / unchanged / terminated / deleted pods carrying the reservation-allocated annotation.

import (
	"context"
	"fmt"
	"sort"
	"strings"
	"sync/atomic"
	"testing"
	"time"

	corev1 "k8s.io/api/core/v1"
	apierrors "k8s.io/apimachinery/pkg/api/errors"
	"k8s.io/apimachinery/pkg/api/resource"
	metav1 "k8s.io/apimachinery/pkg/apis/meta/v1"
	"k8s.io/apimachinery/pkg/labels"
	"k8s.io/apimachinery/pkg/types"
	"k8s.io/client-go/tools/cache"
	"k8s.io/client-go/util/workqueue"
	fwktype "k8s.io/kube-scheduler/framework"
	"k8s.io/kubernetes/pkg/scheduler/framework"
	"k8s.io/utils/ptr"

	apiext "github.com/koordinator-sh/koordinator/apis/extension"
	schedulingv1alpha1 "github.com/koordinator-sh/koordinator/apis/scheduling/v1alpha1"
	"github.com/koordinator-sh/koordinator/pkg/scheduler/apis/config"
	"github.com/koordinator-sh/koordinator/pkg/scheduler/frameworkext"
	reservationutil "github.com/koordinator-sh/koordinator/pkg/util/reservation"
	"github.com/koordinator-sh/koordinator/pkg/zzverif/mc"
)

// ---- the scheduling framework around the plugin, as far as the seam uses it (trusted base) ----

type c05Serial struct{}

func (c05Serial) Until(ctx context.Context, pieces int, doWorkPiece workqueue.DoWorkPieceFunc, operation string) {
	for i := 0; i < pieces; i++ {
		doWorkPiece(i)
	}
}

// c05Handle implements only what the seam calls; anything else panics (nil embedded interface) = "the seam grew".
// The extender's Run*Reservation* fan-outs call the plugin's own hooks, as frameworkExtenderImpl does for every
// registered ReservationFilterPlugin / ReservationScorePlugin.
type c05Handle struct {
	frameworkext.FrameworkExtender
	pl       *Plugin
	snapshot fwktype.SharedLister
	sched    frameworkext.Scheduler
}

func (h *c05Handle) SnapshotSharedLister() fwktype.SharedLister { return h.snapshot }
func (h *c05Handle) Parallelizer() fwktype.Parallelizer         { return c05Serial{} }
func (h *c05Handle) Scheduler() frameworkext.Scheduler          { return h.sched }
func (h *c05Handle) GetReservationNominator() frameworkext.ReservationNominator {
	return h.pl
}
func (h *c05Handle) RunReservationExtensionPreRestoreReservation(ctx context.Context, cycleState fwktype.CycleState, pod *corev1.Pod) *fwktype.Status {
	return nil
}
func (h *c05Handle) RunReservationExtensionRestoreReservation(ctx context.Context, cycleState fwktype.CycleState, podToSchedule *corev1.Pod, matched []*frameworkext.ReservationInfo, unmatched []*frameworkext.ReservationInfo, nodeInfo fwktype.NodeInfo) (frameworkext.PluginToReservationRestoreStates, *fwktype.Status) {
	return nil, nil
}
func (h *c05Handle) RunReservationFilterPlugins(ctx context.Context, cycleState fwktype.CycleState, pod *corev1.Pod, reservationInfo *frameworkext.ReservationInfo, nodeInfo fwktype.NodeInfo) *fwktype.Status {
	return h.pl.FilterReservation(ctx, cycleState, pod, reservationInfo, nodeInfo)
}
func (h *c05Handle) RunNominateReservationFilterPlugins(ctx context.Context, cycleState fwktype.CycleState, pod *corev1.Pod, reservationInfo *frameworkext.ReservationInfo, nodeName string) *fwktype.Status {
	return h.pl.FilterNominateReservation(ctx, cycleState, pod, reservationInfo, nodeName)
}
func (h *c05Handle) RunReservationScorePlugins(ctx context.Context, cycleState fwktype.CycleState, pod *corev1.Pod, reservationInfos []*frameworkext.ReservationInfo, nodeName string) (frameworkext.PluginToReservationScores, *fwktype.Status) {
	list := make(frameworkext.ReservationScoreList, len(reservationInfos))
	for i, rInfo := range reservationInfos {
		sc, st := h.pl.ScoreReservation(ctx, cycleState, pod, rInfo, nodeName)
		if !st.IsSuccess() {
			return nil, st
		}
		list[i] = frameworkext.ReservationScore{Name: rInfo.GetName(), Namespace: rInfo.GetNamespace(), UID: rInfo.UID(), Score: sc}
	}
	return frameworkext.PluginToReservationScores{Name: list}, nil
}

// c05Lister is the reservation informer's store as the plugin sees it through its lister.
type c05Lister struct{ s *c05Sys }

func (l c05Lister) List(selector labels.Selector) ([]*schedulingv1alpha1.Reservation, error) {
	var out []*schedulingv1alpha1.Reservation
	for _, r := range l.s.rsvs {
		if r.obj != nil {
			out = append(out, r.obj)
		}
	}
	return out, nil
}

func (l c05Lister) Get(name string) (*schedulingv1alpha1.Reservation, error) {
	for _, r := range l.s.rsvs {
		if r.def.name == name && r.obj != nil {
			return r.obj, nil
		}
	}
	return nil, apierrors.NewNotFound(schedulingv1alpha1.Resource("reservation"), name)
}

// ---- configuration ----

const (
	c05OwnerLabel = "verif/owner"
	c05RsvLabel   = "verif/rsv"
	c05TierLabel  = "tier.verif/class" // second label of every reservation: tracked by the index's PREFIX white-list, c05RsvLabel by its exact-key white-list
)

type c05RsvDef struct {
	name          string
	uid           types.UID
	policy        schedulingv1alpha1.ReservationAllocatePolicy
	allocOnce     *bool // nil = the API default (true)
	home          string
	assumeNodes   []string
	opts          [][]corev1.ResourceName // restricted-options variants; index 0 is the initial one; nil = no annotation
	optsJSON      []string
	allocatedJSON string
	order         string // label scheduling.koordinator.sh/reservation-order ("" = none)
}

func (d *c05RsvDef) isAllocOnce() bool { return d.allocOnce == nil || *d.allocOnce }

type c05PodDef struct {
	name     string
	uid      types.UID
	cpu, mem int64 // units: cores, Gi
	owner    bool  // carries the owner label of the reservations
	affinity bool  // carries a reservation affinity (reservationSelector matching every reservation)
	tomb     bool  // its delete is delivered as DeletedFinalStateUnknown
}

var c05Nodes = []string{"n1", "n2"}

// c05Defs returns the (immutable, shared) definitions.
func c05Defs() ([]*c05RsvDef, []*c05PodDef) { return c05RsvDefs, c05PodDefs }

var c05RsvDefs, c05PodDefs = c05MakeDefs()

// annotation values rendered once (JSON marshalling per object dominated the replay cost otherwise)
var c05AffinityJSON = func() string {
	o := &corev1.Pod{}
	_ = apiext.SetReservationAffinity(o, &apiext.ReservationAffinity{ReservationSelector: map[string]string{c05RsvLabel: "yes"}})
	return o.Annotations[apiext.AnnotationReservationAffinity]
}()

func c05OptionsJSON(names []corev1.ResourceName) string {
	o := &schedulingv1alpha1.Reservation{}
	_ = apiext.SetReservationRestrictedOptions(o, &apiext.ReservationRestrictedOptions{Resources: names})
	return o.Annotations[apiext.AnnotationReservationRestrictedOptions]
}

func c05AllocatedJSON(name string, uid types.UID) string {
	o := &corev1.Pod{}
	apiext.SetReservationAllocated(o, &metav1.ObjectMeta{Name: name, UID: uid})
	return o.Annotations[apiext.AnnotationReservationAllocated]
}

// c05MakeOrderDefs: the definitions of the parts hist-order-*: THREE reservations on one node that carry reservation-order
// labels (the nominator prefers the smallest order among the candidates that passed the nominate filter; with fewer
// than two survivors it never looks at the labels: seed C05-5), and three owner pods of which two fill r1 exactly.
// first names the reservation that carries the smallest order.
func c05MakeOrderDefs(first string) ([]*c05RsvDef, []*c05PodDef) {
	ord := map[string]string{"r1": "2", "r2": "3", "r4": "4"}
	ord[first] = "1"
	rs := []*c05RsvDef{
		{name: "r1", uid: "uid-r1", policy: schedulingv1alpha1.ReservationAllocatePolicyRestricted, allocOnce: ptr.To(false), home: "n1",
			assumeNodes: []string{"n1"}, opts: [][]corev1.ResourceName{nil}, order: ord["r1"]},
		{name: "r2", uid: "uid-r2", policy: schedulingv1alpha1.ReservationAllocatePolicyDefault, allocOnce: nil, home: "n1",
			assumeNodes: []string{"n1"}, opts: [][]corev1.ResourceName{nil}, order: ord["r2"]},
		{name: "r4", uid: "uid-r4", policy: schedulingv1alpha1.ReservationAllocatePolicyAligned, allocOnce: ptr.To(false), home: "n1",
			assumeNodes: []string{"n1"}, opts: [][]corev1.ResourceName{nil}, order: ord["r4"]},
	}
	ps := []*c05PodDef{
		{name: "q1", uid: "uid-q1", cpu: 2, mem: 1, owner: true},
		{name: "q2", uid: "uid-q2", cpu: 2, mem: 0, owner: true},
		{name: "q5", uid: "uid-q5", cpu: 1, mem: 1, owner: true},
	}
	for _, d := range rs {
		d.allocatedJSON = c05AllocatedJSON(d.name, d.uid)
		d.optsJSON = []string{""}
	}
	return rs, ps
}

// c05OrderKinds: the event kinds of the parts hist-order-* (the ones that decide who is assigned to what and whether the
// matchable index was refreshed since).
var c05OrderKinds = map[string]bool{"rsv.add-available": true, "rsv.upd-unschedulable": true, "rsv.delete": true, "sched.assume-pod": true,
	"sched.forget-pod": true, "inf.bound": true, "inf.deleted": true, "inf.unchanged": true}

func c05MakeDefs() ([]*c05RsvDef, []*c05PodDef) {
	cpu, mem := corev1.ResourceCPU, corev1.ResourceMemory
	rs := []*c05RsvDef{
		{name: "r1", uid: "uid-r1", policy: schedulingv1alpha1.ReservationAllocatePolicyRestricted, allocOnce: ptr.To(false), home: "n1",
			assumeNodes: []string{"n1", "n2"}, opts: [][]corev1.ResourceName{nil, {cpu}}},
		{name: "r2", uid: "uid-r2", policy: schedulingv1alpha1.ReservationAllocatePolicyDefault, allocOnce: nil, home: "n1",
			assumeNodes: []string{"n1"}, opts: [][]corev1.ResourceName{nil}},
		{name: "r3", uid: "uid-r3", policy: schedulingv1alpha1.ReservationAllocatePolicyRestricted, allocOnce: ptr.To(false), home: "n2",
			assumeNodes: []string{"n2"}, opts: [][]corev1.ResourceName{{cpu}, {cpu, mem}}},
	}
	ps := []*c05PodDef{
		{name: "q1", uid: "uid-q1", cpu: 1, mem: 1, owner: true},
		{name: "q2", uid: "uid-q2", cpu: 2, mem: 0, owner: true, affinity: true},
		{name: "q3", uid: "uid-q3", cpu: 3, mem: 3, owner: false, tomb: true},
	}
	for _, d := range rs {
		d.allocatedJSON = c05AllocatedJSON(d.name, d.uid)
		for _, names := range d.opts {
			if names == nil {
				d.optsJSON = append(d.optsJSON, "")
			} else {
				d.optsJSON = append(d.optsJSON, c05OptionsJSON(names))
			}
		}
	}
	return rs, ps
}

const c05RsvUnits = 4 // every reservation reserves 4 cores and 4Gi

func c05RL(cpu, mem int64) corev1.ResourceList {
	rl := corev1.ResourceList{}
	if cpu > 0 {
		rl[corev1.ResourceCPU] = *resource.NewQuantity(cpu, resource.DecimalSI)
	}
	if mem > 0 {
		rl[corev1.ResourceMemory] = *resource.NewQuantity(mem<<30, resource.BinarySI)
	}
	return rl
}

// ---- reference state ----

type c05Rsv struct {
	def     *c05RsvDef
	phase   string // absent | pending | available | succeeded | failed | deleted   (the informer's view, as seen by H1)
	node    string // status.nodeName in the informer's view
	unsched bool
	badOwners bool // the owner specification currently does not parse (an invalid selector operator): the reservation matches nobody and is not matchable until it is repaired
	opt     int
	obj     *schedulingv1alpha1.Reservation // the informer store's object (nil when absent / deleted)

	assumedNode string // assumed by the scheduler, neither confirmed by the informer nor forgotten
	assumeCS    fwktype.CycleState
	reservePod  *corev1.Pod

	h2 []*schedulingv1alpha1.Reservation // DeleteReservation calls the global handler still has to deliver

	placed string // the node the events placed it on (assumed node or informer node); kept after termination
	// classification of known witness classes (only used for Violation.Key):
	dimsGrewWhileAssigned   bool // the reserved dimensions grew while pods were assigned, not all of them left since
	refreshedWhileExhausted bool // H1 refreshed the indexes while it was an exhausted allocate-once reservation, none since
}

type c05Pod struct {
	def   *c05PodDef
	phase string // pending | assumed | bound | terminated | deleted
	rsv   string // reservation (name) it is assigned to: assumed on it, or named by the annotation of the bound pod
	node  string
	obj   *corev1.Pod
	cs    fwktype.CycleState
	bump  int64 // cores added to the request by an in-place resize of the bound pod (0 or 1)
}

func (p *c05Pod) cpu() int64 { return p.def.cpu + p.bump }

type c05Op struct {
	name    string
	kind    string
	enabled func(s *c05Sys) bool
	apply   func(s *c05Sys)
}

type c05Sys struct {
	ops   []c05Op
	cache *reservationCache
	nm    *nominator
	h1    *reservationEventHandler
	ph    *podEventHandler
	pl    *Plugin
	hd    *c05Handle
	rsvs  []*c05Rsv
	pods  []*c05Pod
	byUID map[types.UID]*c05Rsv
	last  string // kind of the last op
	res   *mc.Result
	// evalCycles: run the scheduling-cycle oracle in every state that has a matchable reservation (not only where an
	// exhausted allocate-once reservation exists)
	evalAllCycles bool
	ids           []string        // identities of the violations judge() returned (parallel to its result)
	pre           map[string]bool // identities present before the last event
	quiet         bool            // pre-state evaluation: no vacuity counting
}

func c05NewSys(res *mc.Result, ops []c05Op, evalAll bool) *c05Sys {
	rdefs, pdefs := c05Defs()
	s := &c05Sys{ops: ops, res: res, byUID: map[types.UID]*c05Rsv{}, evalAllCycles: evalAll}
	lister := c05Lister{s}
	s.cache = newReservationCache(lister)
	// the reservationSelector white-list index (node level) is switched on for the label key the reservations carry
	// (both white-list forms: the exact key verif/rsv lands in nodesByExactKV, the prefix tier.verif/ in nodesByPrefix)
	s.cache.setReservationSelectorIndexConfig(&config.ReservationSelectorIndexArgs{Enabled: true, KeyPrefixes: []string{"tier.verif/"}, Keys: []string{c05RsvLabel}})
	s.nm = newNominator(nil, lister)
	s.h1 = &reservationEventHandler{cache: s.cache, rrNominator: s.nm}
	s.ph = &podEventHandler{cache: s.cache, nominator: s.nm}
	s.hd = &c05Handle{}
	s.pl = &Plugin{handle: s.hd, args: &config.ReservationArgs{}, rLister: lister, reservationCache: s.cache, nominator: s.nm}
	s.hd.pl = s.pl
	for _, d := range rdefs {
		r := &c05Rsv{def: d, phase: "absent"}
		s.rsvs = append(s.rsvs, r)
		s.byUID[d.uid] = r
	}
	for _, d := range pdefs {
		p := &c05Pod{def: d, phase: "pending"}
		p.obj = s.podObj(p, "", "", corev1.PodPending)
		s.pods = append(s.pods, p)
	}
	return s
}

func (s *c05Sys) rsv(name string) *c05Rsv {
	for _, r := range s.rsvs {
		if r.def.name == name {
			return r
		}
	}
	panic("no reservation " + name)
}

// rsvObj renders the informer object of r in its current reference state (a fresh object per event, as informers do).
func (s *c05Sys) rsvObj(r *c05Rsv) *schedulingv1alpha1.Reservation {
	d := r.def
	o := &schedulingv1alpha1.Reservation{
		ObjectMeta: metav1.ObjectMeta{Name: d.name, UID: d.uid, Labels: map[string]string{c05RsvLabel: "yes", c05TierLabel: "x"},
			CreationTimestamp: metav1.NewTime(time.Unix(1700000000, 0))},
		Spec: schedulingv1alpha1.ReservationSpec{
			Template: &corev1.PodTemplateSpec{
				ObjectMeta: metav1.ObjectMeta{Namespace: "default"},
				Spec: corev1.PodSpec{Containers: []corev1.Container{{Name: "main",
					Resources: corev1.ResourceRequirements{Requests: c05RL(c05RsvUnits, c05RsvUnits)}}}},
			},
			Owners: func() []schedulingv1alpha1.ReservationOwner {
				if r.badOwners {
					return []schedulingv1alpha1.ReservationOwner{{LabelSelector: &metav1.LabelSelector{MatchExpressions: []metav1.LabelSelectorRequirement{{Key: c05OwnerLabel, Operator: "NoSuchOperator", Values: []string{"yes"}}}}}}
				}
				return []schedulingv1alpha1.ReservationOwner{{LabelSelector: &metav1.LabelSelector{MatchLabels: map[string]string{c05OwnerLabel: "yes"}}}}
			}(),
			TTL:            &metav1.Duration{Duration: 0},
			AllocateOnce:   d.allocOnce,
			AllocatePolicy: d.policy,
			Unschedulable:  r.unsched,
		},
	}
	if d.opts[r.opt] != nil {
		o.Annotations = map[string]string{apiext.AnnotationReservationRestrictedOptions: d.optsJSON[r.opt]}
	}
	if d.order != "" {
		o.Labels[apiext.LabelReservationOrder] = d.order
	}
	switch r.phase {
	case "pending":
		o.Status.Phase = schedulingv1alpha1.ReservationPending
	case "available":
		o.Status.Phase = schedulingv1alpha1.ReservationAvailable
	case "succeeded":
		o.Status.Phase = schedulingv1alpha1.ReservationSucceeded
	case "failed":
		o.Status.Phase = schedulingv1alpha1.ReservationFailed
	}
	o.Status.NodeName = r.node
	if r.node != "" {
		o.Status.Allocatable = c05RL(c05RsvUnits, c05RsvUnits)
	}
	return o
}

func (s *c05Sys) podObj(p *c05Pod, node, rsvName string, phase corev1.PodPhase) *corev1.Pod {
	d := p.def
	o := &corev1.Pod{
		ObjectMeta: metav1.ObjectMeta{Name: d.name, Namespace: "default", UID: d.uid, Labels: map[string]string{}, Annotations: map[string]string{}},
		Spec: corev1.PodSpec{NodeName: node, Containers: []corev1.Container{{Name: "main",
			Resources: corev1.ResourceRequirements{Requests: c05RL(p.cpu(), d.mem)}}}},
		Status: corev1.PodStatus{Phase: phase},
	}
	if d.owner {
		o.Labels[c05OwnerLabel] = "yes"
	}
	if d.affinity {
		o.Annotations[apiext.AnnotationReservationAffinity] = c05AffinityJSON
	}
	if rsvName != "" {
		o.Annotations[apiext.AnnotationReservationAllocated] = s.rsv(rsvName).def.allocatedJSON
	}
	return o
}

// ---- reference predicates (written from the statement / the API documentation) ----

// refNames: the reserved dimensions of r: what the restricted options name among what it reserves, everything it
// reserves when the policy is not Restricted or the options name nothing.
func (r *c05Rsv) refNames() map[corev1.ResourceName]bool {
	all := map[corev1.ResourceName]bool{corev1.ResourceCPU: true, corev1.ResourceMemory: true}
	if r.def.policy != schedulingv1alpha1.ReservationAllocatePolicyRestricted {
		return all
	}
	names := r.def.opts[r.opt]
	if len(names) == 0 {
		return all
	}
	out := map[corev1.ResourceName]bool{}
	for _, n := range names {
		if all[n] {
			out[n] = true
		}
	}
	return out
}

func (s *c05Sys) assigned(r *c05Rsv) []*c05Pod {
	var out []*c05Pod
	for _, p := range s.pods {
		if p.rsv == r.def.name && (p.phase == "assumed" || p.phase == "bound") {
			out = append(out, p)
		}
	}
	return out
}

// refAllocated: sum over the pods currently assigned to r of their requests masked to the reserved dimensions
// (milli-units for cpu, bytes for memory).
func (s *c05Sys) refAllocated(r *c05Rsv) map[corev1.ResourceName]int64 {
	names := r.refNames()
	sum := map[corev1.ResourceName]int64{}
	for _, p := range s.assigned(r) {
		if names[corev1.ResourceCPU] {
			sum[corev1.ResourceCPU] += p.cpu() * 1000
		}
		if names[corev1.ResourceMemory] {
			sum[corev1.ResourceMemory] += p.def.mem << 30
		}
	}
	return sum
}

func (r *c05Rsv) live() bool {
	return r.phase == "available" || (r.phase == "pending" && r.assumedNode != "")
}

func (s *c05Sys) refMatchable(r *c05Rsv) bool {
	return r.phase == "available" && !r.badOwners && !(r.def.isAllocOnce() && len(s.assigned(r)) > 0)
}

// refFits: would a correct scheduler let p into r (used only to decide whether the scheduler can produce the assume)
func (s *c05Sys) refFits(r *c05Rsv, p *c05Pod) bool {
	if r.def.policy != schedulingv1alpha1.ReservationAllocatePolicyRestricted {
		return true
	}
	names, sum := r.refNames(), s.refAllocated(r)
	if names[corev1.ResourceCPU] && p.cpu() > 0 && sum[corev1.ResourceCPU]+p.cpu()*1000 > c05RsvUnits*1000 {
		return false
	}
	if names[corev1.ResourceMemory] && p.def.mem > 0 && sum[corev1.ResourceMemory]+p.def.mem<<30 > c05RsvUnits<<30 {
		return false
	}
	return true
}

// ---- events ----

// h1Refreshed is called after an H1 event that re-evaluates the index membership of r (updateReservation /
// updateReservationIfExists with a placed object).
func (s *c05Sys) h1Refreshed(r *c05Rsv) {
	r.refreshedWhileExhausted = r.def.isAllocOnce() && len(s.assigned(r)) > 0
}

func (s *c05Sys) podLeft(rsvName string) {
	if rsvName == "" {
		return
	}
	r := s.rsv(rsvName)
	if len(s.assigned(r)) == 0 {
		r.dimsGrewWhileAssigned = false
	}
}

func (s *c05Sys) rsvUpdate(r *c05Rsv, mutate func()) {
	old := r.obj
	wasAvailable := r.phase == "available"
	mutate()
	r.obj = s.rsvObj(r)
	s.h1.OnUpdate(old, r.obj)
	if r.node != "" {
		s.h1Refreshed(r)
	}
	// the global handler: available -> terminated removes the reservation from every reservation cache (old object)
	if wasAvailable && (r.phase == "succeeded" || r.phase == "failed") {
		r.h2 = append(r.h2, old)
	}
}

func c05BuildOps() []c05Op {
	rdefs, pdefs := c05Defs()
	var ops []c05Op
	add := func(o c05Op) { ops = append(ops, o) }
	for _, d := range rdefs {
		rn := d.name
		add(c05Op{name: "rsv.add-pending(" + rn + ")", kind: "rsv.add-pending",
			enabled: func(s *c05Sys) bool { return s.rsv(rn).phase == "absent" },
			apply: func(s *c05Sys) {
				r := s.rsv(rn)
				r.phase = "pending"
				r.obj = s.rsvObj(r)
				s.h1.OnAdd(r.obj, false)
			}})
		add(c05Op{name: "rsv.add-available(" + rn + ")", kind: "rsv.add-available", // initial list / scheduled by another instance
			enabled: func(s *c05Sys) bool { return s.rsv(rn).phase == "absent" },
			apply: func(s *c05Sys) {
				r := s.rsv(rn)
				r.phase, r.node, r.placed = "available", r.def.home, r.def.home
				r.obj = s.rsvObj(r)
				s.h1.OnAdd(r.obj, false)
				s.h1Refreshed(r)
			}})
		add(c05Op{name: "rsv.upd-available(" + rn + ")", kind: "rsv.upd-available", // the bind of the reservation became visible
			enabled: func(s *c05Sys) bool { return s.rsv(rn).phase == "pending" },
			apply: func(s *c05Sys) {
				r := s.rsv(rn)
				s.rsvUpdate(r, func() {
					r.phase = "available"
					if r.assumedNode != "" {
						r.node = r.assumedNode // this scheduler bound it
					} else {
						r.node = r.def.home // bound by another scheduler instance / profile
					}
					r.placed, r.assumedNode, r.assumeCS, r.reservePod = r.node, "", nil, nil
				})
			}})
		for _, ph := range []string{"succeeded", "failed"} {
			ph := ph
			add(c05Op{name: "rsv.upd-" + ph + "(" + rn + ")", kind: "rsv.upd-" + ph,
				enabled: func(s *c05Sys) bool {
					r := s.rsv(rn)
					return r.phase == "available" || (ph == "failed" && r.phase == "pending")
				},
				apply: func(s *c05Sys) {
					r := s.rsv(rn)
					s.rsvUpdate(r, func() { r.phase = ph })
				}})
		}
		add(c05Op{name: "rsv.upd-unschedulable(" + rn + ")", kind: "rsv.upd-unschedulable",
			enabled: func(s *c05Sys) bool { r := s.rsv(rn); return r.phase == "pending" || r.phase == "available" },
			apply: func(s *c05Sys) {
				r := s.rsv(rn)
				s.rsvUpdate(r, func() { r.unsched = !r.unsched })
			}})
		if !d.isAllocOnce() && d.order == "" {
			// the owner specification is broken by an update (it no longer parses) and repaired by the next one: a reservation
			// that holds pods becomes unmatchable and matchable again (seed C05-8)
			add(c05Op{name: "rsv.upd-owners-broken/repaired(" + rn + ")", kind: "rsv.upd-owners",
				enabled: func(s *c05Sys) bool { return s.rsv(rn).phase == "available" },
				apply: func(s *c05Sys) {
					r := s.rsv(rn)
					s.rsvUpdate(r, func() { r.badOwners = !r.badOwners })
					s.h1Refreshed(r)
				}})
		}
		if len(d.opts) > 1 {
			add(c05Op{name: "rsv.upd-options(" + rn + ")", kind: "rsv.upd-options",
				enabled: func(s *c05Sys) bool { r := s.rsv(rn); return r.phase == "pending" || r.phase == "available" },
				apply: func(s *c05Sys) {
					r := s.rsv(rn)
					before := r.refNames()
					s.rsvUpdate(r, func() { r.opt = (r.opt + 1) % len(r.def.opts) })
					grew := false
					for n := range r.refNames() {
						if !before[n] {
							grew = true
						}
					}
					if grew && len(s.assigned(r)) > 0 {
						r.dimsGrewWhileAssigned = true
					}
				}})
		}
		add(c05Op{name: "rsv.delete(" + rn + ")", kind: "rsv.delete",
			enabled: func(s *c05Sys) bool { r := s.rsv(rn); return r.phase != "absent" && r.phase != "deleted" },
			apply: func(s *c05Sys) {
				r := s.rsv(rn)
				obj := r.obj
				r.phase, r.obj = "deleted", nil
				if rn == "r3" { // delivered as a tombstone (the object is the store's last known state)
					s.h1.OnDelete(cache.DeletedFinalStateUnknown{Key: rn, Obj: obj})
				} else {
					s.h1.OnDelete(obj)
				}
				if obj.Status.NodeName != "" {
					s.h1Refreshed(r)
					r.h2 = append(r.h2, obj) // the global handler deletes a placed reservation from the reservation caches
				}
			}})
		add(c05Op{name: "h2.deliver(" + rn + ")", kind: "h2.deliver",
			enabled: func(s *c05Sys) bool { return len(s.rsv(rn).h2) > 0 },
			apply: func(s *c05Sys) {
				r := s.rsv(rn)
				obj := r.h2[0]
				r.h2 = r.h2[1:]
				s.pl.DeleteReservation(obj) // what deleteReservationFromSchedulerCache does for every profile's cache
			}})
		for _, n := range d.assumeNodes {
			n := n
			add(c05Op{name: "sched.assume-rsv(" + rn + "," + n + ")", kind: "sched.assume-rsv",
				enabled: func(s *c05Sys) bool { r := s.rsv(rn); return r.phase == "pending" && r.assumedNode == "" },
				apply: func(s *c05Sys) {
					r := s.rsv(rn)
					r.reservePod = reservationutil.NewReservePod(r.obj)
					r.assumeCS = framework.NewCycleState()
					r.assumeCS.Write(stateKey, &stateData{})
					st := s.pl.Reserve(context.TODO(), r.assumeCS, r.reservePod, n)
					if !st.IsSuccess() {
						panic("Reserve of a reserve pod failed: " + st.Message())
					}
					s.pl.DeleteNominatedReservePodOrReservation(r.reservePod) // frameworkExtenderImpl.RunReservePluginsReserve
					r.assumedNode, r.placed = n, n
				}})
		}
		add(c05Op{name: "sched.forget-rsv(" + rn + ")", kind: "sched.forget-rsv", // the bind of the reservation failed
			enabled: func(s *c05Sys) bool { return s.rsv(rn).assumedNode != "" },
			apply: func(s *c05Sys) {
				r := s.rsv(rn)
				s.pl.Unreserve(context.TODO(), r.assumeCS, r.reservePod, r.assumedNode)
				r.assumedNode, r.assumeCS, r.reservePod, r.placed = "", nil, nil, ""
			}})
	}
	for _, pd := range pdefs {
		pn := pd.name
		pod := func(s *c05Sys) *c05Pod {
			for _, p := range s.pods {
				if p.def.name == pn {
					return p
				}
			}
			panic("no pod")
		}
		for _, d := range rdefs {
			rn := d.name
			if pd.owner {
				add(c05Op{name: "sched.assume-pod(" + pn + "," + rn + ")", kind: "sched.assume-pod",
					// the scheduler reserves p on r: only where a correct scheduler nominates r for p (available,
					// schedulable, owner, not an exhausted allocate-once reservation, fits when restricted)
					enabled: func(s *c05Sys) bool {
						p, r := pod(s), s.rsv(rn)
						return p.phase == "pending" && r.phase == "available" && !r.unsched && s.refMatchable(r) && s.refFits(r, p)
					},
					apply: func(s *c05Sys) {
						p, r := pod(s), s.rsv(rn)
						p.cs = framework.NewCycleState()
						st := &stateData{}
						p.cs.Write(stateKey, st)
						if rInfo := s.cache.getReservationInfoByUID(r.def.uid); rInfo != nil {
							s.pl.AddNominatedReservation(p.obj, r.node, rInfo) // PreScore nominated it
						}
						status := s.pl.Reserve(context.TODO(), p.cs, p.obj, r.node)
						s.pl.DeleteNominatedReservePodOrReservation(p.obj) // frameworkExtenderImpl.RunReservePluginsReserve
						if !status.IsSuccess() || st.assumed == nil || st.assumed.UID() != r.def.uid {
							// the cache does not hold the reservation the events established: completeness alarms on its own
							c05Count("diag_reserve_did_not_assume", 1)
							p.cs = nil
							return
						}
						p.phase, p.rsv, p.node = "assumed", rn, r.node
					}})
			}
			add(c05Op{name: "inf.bound-by-other(" + pn + "," + rn + ")", kind: "inf.bound-by-other",
				// the informer shows p bound to r's node with the reservation-allocated annotation (another scheduler
				// instance / profile allocated it)
				enabled: func(s *c05Sys) bool { p, r := pod(s), s.rsv(rn); return p.phase == "pending" && r.phase == "available" },
				apply: func(s *c05Sys) {
					p, r := pod(s), s.rsv(rn)
					old := p.obj
					p.obj = s.podObj(p, r.node, rn, corev1.PodRunning)
					s.ph.OnUpdate(old, p.obj)
					p.phase, p.rsv, p.node = "bound", rn, r.node
				}})
		}
		if pd.owner {
			add(c05Op{name: "sched.forget-pod(" + pn + ")", kind: "sched.forget-pod", // permit / bind failed
				enabled: func(s *c05Sys) bool { return pod(s).phase == "assumed" },
				apply: func(s *c05Sys) {
					p := pod(s)
					s.pl.Unreserve(context.TODO(), p.cs, p.obj, p.node)
					was := p.rsv
					p.phase, p.rsv, p.node, p.cs = "pending", "", "", nil
					s.podLeft(was)
				}})
			add(c05Op{name: "inf.bound(" + pn + ")", kind: "inf.bound", // the bind of the assumed pod became visible
				enabled: func(s *c05Sys) bool { return pod(s).phase == "assumed" },
				apply: func(s *c05Sys) {
					p := pod(s)
					// PreBind patched the annotation first (that event is ignored: the pod is not assigned yet), then the
					// binding set the node name; for q2 the informer delivers both changes merged into one update (the old
					// object carries no annotation)
					old := s.podObj(p, "", p.rsv, corev1.PodPending)
					if p.def.affinity {
						old = p.obj
					}
					p.obj = s.podObj(p, p.node, p.rsv, corev1.PodRunning)
					s.ph.OnUpdate(old, p.obj)
					p.phase, p.cs = "bound", nil
				}})
		}
		add(c05Op{name: "inf.moved(" + pn + ")", kind: "inf.moved", // the annotation now names another reservation of the same node
			enabled: func(s *c05Sys) bool { p := pod(s); return p.phase == "bound" && s.moveTarget(p) != nil },
			apply: func(s *c05Sys) {
				p := pod(s)
				t := s.moveTarget(p)
				old, was := p.obj, p.rsv
				p.obj = s.podObj(p, p.node, t.def.name, corev1.PodRunning)
				s.ph.OnUpdate(old, p.obj)
				p.rsv = t.def.name
				s.podLeft(was)
			}})
		add(c05Op{name: "inf.unchanged(" + pn + ")", kind: "inf.unchanged", // an update that changes nothing the cache reads
			enabled: func(s *c05Sys) bool { return pod(s).phase == "bound" },
			apply: func(s *c05Sys) {
				p := pod(s)
				old := p.obj
				p.obj = s.podObj(p, p.node, p.rsv, corev1.PodRunning)
				s.ph.OnUpdate(old, p.obj)
				// the real code re-adds the pod (remove + add), which re-masks its request to the current dimensions;
				// the reference does not depend on it
			}})
		add(c05Op{name: "inf.resized(" + pn + ")", kind: "inf.resized", // in-place resize: the bound pod now requests one core more
			enabled: func(s *c05Sys) bool { p := pod(s); return p.phase == "bound" && p.bump == 0 },
			apply: func(s *c05Sys) {
				p := pod(s)
				old := p.obj
				p.bump = 1
				p.obj = s.podObj(p, p.node, p.rsv, corev1.PodRunning)
				s.ph.OnUpdate(old, p.obj)
			}})
		add(c05Op{name: "inf.terminated(" + pn + ")", kind: "inf.terminated",
			enabled: func(s *c05Sys) bool { return pod(s).phase == "bound" },
			apply: func(s *c05Sys) {
				p := pod(s)
				old, was := p.obj, p.rsv
				p.obj = s.podObj(p, p.node, p.rsv, corev1.PodSucceeded)
				s.ph.OnUpdate(old, p.obj)
				p.phase = "terminated"
				s.podLeft(was)
			}})
		add(c05Op{name: "inf.deleted(" + pn + ")", kind: "inf.deleted",
			enabled: func(s *c05Sys) bool { ph := pod(s).phase; return ph == "bound" || ph == "terminated" },
			apply: func(s *c05Sys) {
				p := pod(s)
				was := p.rsv
				if p.def.tomb {
					s.ph.OnDelete(cache.DeletedFinalStateUnknown{Key: "default/" + pn, Obj: p.obj})
				} else {
					s.ph.OnDelete(p.obj)
				}
				p.phase = "deleted"
				s.podLeft(was)
			}})
	}
	return ops
}

// moveTarget: the next reservation (cyclic order after the current one) that is available on the pod's node.
func (s *c05Sys) moveTarget(p *c05Pod) *c05Rsv {
	if p.rsv == "" {
		return nil
	}
	idx := 0
	for i, r := range s.rsvs {
		if r.def.name == p.rsv {
			idx = i
		}
	}
	for k := 1; k < len(s.rsvs); k++ {
		t := s.rsvs[(idx+k)%len(s.rsvs)]
		if t.phase == "available" && t.node == p.node {
			return t
		}
	}
	return nil
}

func (s *c05Sys) Apply(op int, check bool) (bool, []mc.Violation) {
	o := s.ops[op]
	if !o.enabled(s) {
		return false, nil
	}
	if check {
		// the last event of the history: remember which violations the predecessor state already had
		s.ids, s.quiet = nil, true
		s.judge()
		s.quiet = false
		s.pre = make(map[string]bool, len(s.ids))
		for _, id := range s.ids {
			s.pre[id] = true
		}
	}
	o.apply(s)
	s.last = o.kind
	return true, nil
}

// ---- vacuity counters (lock-free: the oracle runs on every worker for every transition) ----

var c05CounterNames = []string{
	"ledger_checked_with_assigned_pods", "ledger_checked_with_several_pods", "ledger_checked_with_a_masked_dimension",
	"diag_assigned_set_size_differs", "index_entries_checked", "listing_results_checked", "get_by_pod_hits",
	"live_reservations_checked", "matchable_reservations_checked", "allocated_matchable_reservations_checked", "diag_matchable_index_lists_unmatchable",
	"allocate_once_nominate_filter_asked", "allocate_once_nominate_filter_skipped_no_cycle_state", "diag_before_prefilter_failed",
	"scheduling_cycles_run", "scheduling_cycles_run_for_a_non_owner_pod", "restore_path_matched", "cycle_nothing_nominated", "cycle_nominated", "states_with_exhausted_allocate_once", "selector_index_entries_checked", "selector_index_exact_key_entries_checked", "selector_index_live_matchable_checked",
	"diag_reserve_did_not_assume",
}
var c05CounterIdx = func() map[string]int {
	m := map[string]int{}
	for i, n := range c05CounterNames {
		m[n] = i
	}
	return m
}()
var c05CounterVals = make([]int64, len(c05CounterNames))

func (s *c05Sys) count(name string, n int64) {
	if s.quiet {
		return
	}
	c05Count(name, n)
}

func c05Count(name string, n int64) {
	i, ok := c05CounterIdx[name]
	if !ok {
		panic("unregistered counter " + name)
	}
	atomic.AddInt64(&c05CounterVals[i], n)
}

func c05FlushCounters(res *mc.Result) {
	for i, n := range c05CounterNames {
		if v := atomic.SwapInt64(&c05CounterVals[i], 0); v != 0 { // (reset: the next part counts from zero)
			res.Count(n, v)
		}
	}
}

// ---- oracle ----

// v builds a violation. Its identity (clause without the "|after:<event>" suffix + the object it is about) decides
// whether the same violation was already present before the last event: inherited violations are not reported again
// (the predecessor state reported them; every prefix of a BFS history is itself an explored transition), so a key
// "...|after:<event>" names the event that introduced the violation.
func (s *c05Sys) v(clause, obj, what string) mc.Violation {
	id := clause
	if i := strings.Index(clause, "|after:"); i >= 0 {
		id = clause[:i]
	}
	s.ids = append(s.ids, id+"#"+obj)
	return mc.Violation{Key: "C05|hist|" + clause, What: what + "\nstate: " + s.describe()}
}

func c05Milli(rl corev1.ResourceList, n corev1.ResourceName) int64 {
	q, ok := rl[n]
	if !ok {
		return 0
	}
	if n == corev1.ResourceCPU {
		return q.MilliValue()
	}
	return q.Value()
}

// Invariants reports the violations of the current state that were not already present before the last event.
func (s *c05Sys) Invariants() []mc.Violation {
	s.ids = nil
	all := s.judge()
	var out []mc.Violation
	for i, v := range all {
		if !s.pre[s.ids[i]] {
			out = append(out, v)
		}
	}
	return out
}

// judge evaluates every state-level oracle clause; s.ids[i] is the identity of the i-th returned violation.
func (s *c05Sys) judge() []mc.Violation {
	var viol []mc.Violation
	c := s.cache
	after := "|after:" + s.last

	// (1) ledger: Allocated(r) = sum over the pods currently assigned to r of their requests masked to the reserved dimensions
	for uid, ri := range c.reservationInfos {
		r := s.byUID[uid]
		if r == nil || ri == nil {
			viol = append(viol, s.v("primary-map|unknown-or-nil"+after, string(uid), fmt.Sprintf("primary map entry %q is nil or was never added by an event", uid)))
			continue
		}
		want := s.refAllocated(r)
		names := map[corev1.ResourceName]bool{}
		for n := range want {
			names[n] = true
		}
		for n := range ri.Allocated {
			names[n] = true
		}
		var diffs []string
		for n := range names {
			if got := c05Milli(ri.Allocated, n); got != want[n] {
				dir := "under"
				if got > want[n] {
					dir = "over"
				}
				diffs = append(diffs, fmt.Sprintf("%s:%s", n, dir))
			}
		}
		nonzero := false
		for _, v := range want {
			if v != 0 {
				nonzero = true
			}
		}
		if nonzero {
			s.count("ledger_checked_with_assigned_pods", 1)
			if len(s.assigned(r)) > 1 {
				s.count("ledger_checked_with_several_pods", 1)
			}
			if len(r.refNames()) < 2 {
				s.count("ledger_checked_with_a_masked_dimension", 1)
			}
		}
		if len(diffs) > 0 {
			sort.Strings(diffs)
			class := "ledger|" + strings.Join(diffs, ",") + after
			if r.dimsGrewWhileAssigned {
				// witness class: the reserved dimensions grew (restricted options changed) while pods were assigned
				class = "ledger|reserved-dimensions-grew-while-pods-assigned"
			}
			viol = append(viol, s.v(class, r.def.name+strings.Join(diffs, ","), fmt.Sprintf("reservation %s reports Allocated=%s but the pods currently assigned to it %v request %v in its reserved dimensions %v",
				r.def.name, c05QL(ri.Allocated), c05PodNames(s.assigned(r)), want, c05Names(r.refNames()))))
		}
		// diagnostic: the code's own assigned set
		if len(ri.AssignedPods) != len(s.assigned(r)) {
			s.count("diag_assigned_set_size_differs", 1)
		}
	}

	// (2a) index soundness on the maps: no UID absent from the primary map, no nil info, no wrong node
	idx := []struct {
		name string
		m    map[string]map[types.UID]struct{}
	}{{"reservationsOnNode", c.reservationsOnNode}, {"matchableOnNode", c.matchableOnNode}, {"allocatedOnNode", c.allocatedOnNode}}
	for _, ix := range idx {
		for node, set := range ix.m {
			for uid := range set {
				s.count("index_entries_checked", 1)
				ri, ok := c.reservationInfos[uid]
				r := s.byUID[uid]
				switch {
				case !ok || ri == nil:
					viol = append(viol, s.v("index-references-missing-reservation|"+ix.name+after, node+string(uid), fmt.Sprintf("%s[%s] lists %s which is not in the primary map", ix.name, node, uid)))
				case r == nil || r.placed != node:
					viol = append(viol, s.v("index-lists-under-wrong-node|"+ix.name+after, node+string(uid), fmt.Sprintf("%s[%s] lists %s which the events placed on %q", ix.name, node, uid, func() string {
						if r == nil {
							return "?"
						}
						return r.placed
					}())))
				}
			}
		}
	}

	// (2b) the listings
	checkListed := func(how, node string, ri *frameworkext.ReservationInfo) {
		s.count("listing_results_checked", 1)
		if ri == nil {
			viol = append(viol, s.v("listing-yields-nil|"+how+after, node, fmt.Sprintf("%s(%s) yields a nil reservation info", how, node)))
			return
		}
		r := s.byUID[ri.UID()]
		if _, ok := c.reservationInfos[ri.UID()]; !ok || r == nil {
			viol = append(viol, s.v("listing-yields-missing-reservation|"+how+after, node+string(ri.UID()), fmt.Sprintf("%s(%s) yields %s which is not in the primary map", how, node, ri.UID())))
			return
		}
		if r.placed != node {
			viol = append(viol, s.v("listing-yields-wrong-node|"+how+after, node+r.def.name, fmt.Sprintf("%s(%s) yields %s which the events placed on %q", how, node, r.def.name, r.placed)))
		}
	}
	guard := func(how string, f func()) {
		if ps := mc.Guard(f); ps != "" {
			viol = append(viol, s.v("listing-panics|"+how+after, "", how+" panics: "+strings.SplitN(ps, "\n", 2)[0]))
		}
	}
	matchableListed := map[string]map[types.UID]bool{}
	allListed := map[string]map[types.UID]bool{}
	var nodesTrue, nodesFalse []string
	guard("ListAllNodes", func() { nodesTrue, nodesFalse = c.ListAllNodes(true), c.ListAllNodes(false) })
	for _, n := range append(append([]string{}, nodesTrue...), nodesFalse...) {
		if n != "n1" && n != "n2" {
			viol = append(viol, s.v("listing-yields-unknown-node|ListAllNodes"+after, n, "ListAllNodes yields "+n))
		}
	}
	for _, n := range c05Nodes {
		n := n
		matchableListed[n], allListed[n] = map[types.UID]bool{}, map[types.UID]bool{}
		guard("ForEachMatchableReservationOnNode", func() {
			c.ForEachMatchableReservationOnNode(n, func(ri *frameworkext.ReservationInfo) (bool, *fwktype.Status) {
				checkListed("ForEachMatchableReservationOnNode", n, ri)
				if ri != nil {
					matchableListed[n][ri.UID()] = true
				}
				return true, nil
			})
		})
		guard("ListAvailableReservationInfosOnNode(matchable)", func() {
			for _, ri := range c.ListAvailableReservationInfosOnNode(n, false) {
				checkListed("ListAvailableReservationInfosOnNode(matchable)", n, ri)
			}
		})
		guard("ListAvailableReservationInfosOnNode(all)", func() {
			for _, ri := range c.ListAvailableReservationInfosOnNode(n, true) {
				checkListed("ListAvailableReservationInfosOnNode(all)", n, ri)
				if ri != nil {
					allListed[n][ri.UID()] = true
				}
			}
		})
		for _, p := range s.pods {
			p := p
			guard("GetReservationInfoByPod", func() {
				if ri := c.GetReservationInfoByPod(p.obj, n); ri != nil {
					checkListed("GetReservationInfoByPod", n, ri)
					s.count("get_by_pod_hits", 1)
				}
			})
		}
	}

	// (2d) the reservationSelector existence index: no entry for a missing reservation / under a wrong node; the node
	// of every live matchable reservation is among the candidate nodes of a selector on the indexed key
	for prefix, byNode := range c.nodesByPrefix {
		for node, uids := range byNode {
			for uid := range uids {
				s.count("selector_index_entries_checked", 1)
				r := s.byUID[uid]
				if ri, ok := c.reservationInfos[uid]; !ok || ri == nil {
					viol = append(viol, s.v("index-references-missing-reservation|nodesByPrefix"+after, node+string(uid), fmt.Sprintf("nodesByPrefix[%s][%s] lists %s which is not in the primary map", prefix, node, uid)))
				} else if r == nil || r.placed != node {
					viol = append(viol, s.v("index-lists-under-wrong-node|nodesByPrefix"+after, node+string(uid), fmt.Sprintf("nodesByPrefix[%s][%s] lists %s which the events placed elsewhere", prefix, node, uid)))
				}
			}
		}
	}
	for key, byValue := range c.nodesByExactKV {
		for val, byNode := range byValue {
			for node, uids := range byNode {
				for uid := range uids {
					s.count("selector_index_entries_checked", 1)
					s.count("selector_index_exact_key_entries_checked", 1)
					r := s.byUID[uid]
					if ri, ok := c.reservationInfos[uid]; !ok || ri == nil {
						viol = append(viol, s.v("index-references-missing-reservation|nodesByExactKV"+after, node+string(uid), fmt.Sprintf("nodesByExactKV[%s][%s][%s] lists %s which is not in the primary map", key, val, node, uid)))
					} else if r == nil || r.placed != node {
						viol = append(viol, s.v("index-lists-under-wrong-node|nodesByExactKV"+after, node+string(uid), fmt.Sprintf("nodesByExactKV[%s][%s][%s] lists %s which the events placed elsewhere", key, val, node, uid)))
					}
				}
			}
		}
	}
	for _, sel := range []map[string]string{{c05RsvLabel: "yes"}, {c05TierLabel: "x"}, {c05RsvLabel: "yes", c05TierLabel: "x"}} {
		var selNodes []string
		selHit := false
		form := "exact-key"
		if _, ok := sel[c05TierLabel]; ok {
			form = "prefix"
			if len(sel) == 2 {
				form = "both"
			}
		}
		guard("FilterByReservationSelector", func() { selNodes, selHit = c.FilterByReservationSelector(sel) })
		for _, n := range selNodes {
			if n != "n1" && n != "n2" {
				viol = append(viol, s.v("listing-yields-unknown-node|FilterByReservationSelector|"+form+after, n, "FilterByReservationSelector yields "+n))
			}
		}
		for _, r := range s.rsvs {
			if !r.live() || !s.refMatchable(r) {
				continue
			}
			s.count("selector_index_live_matchable_checked", 1)
			found := false
			for _, n := range selNodes {
				if n == r.placed {
					found = true
				}
			}
			if !selHit || !found {
				viol = append(viol, s.v("matchable-reservation-unreachable|FilterByReservationSelector|"+form+after, r.def.name, fmt.Sprintf("reservation %s is live and matchable on %s and carries the indexed labels, but FilterByReservationSelector(%v) yields %v (index hit %v)", r.def.name, r.placed, sel, selNodes, selHit)))
			}
		}
	}

	// (2c) completeness: every live reservation placed on n is listed by the all-reservations index of n; every live,
	// currently matchable one is reachable through the matchable listing
	for _, r := range s.rsvs {
		if !r.live() {
			continue
		}
		s.count("live_reservations_checked", 1)
		n := r.placed
		if _, ok := c.reservationInfos[r.def.uid]; !ok {
			viol = append(viol, s.v("live-reservation-missing-from-primary-map"+after, r.def.name, fmt.Sprintf("reservation %s is live on %s but not in the primary map", r.def.name, n)))
			continue
		}
		if !allListed[n][r.def.uid] {
			viol = append(viol, s.v("live-reservation-not-listed-on-its-node"+after, r.def.name, fmt.Sprintf("reservation %s is live on %s but ListAvailableReservationInfosOnNode(%s, all) does not list it", r.def.name, n, n)))
		}
		if s.refMatchable(r) {
			s.count("matchable_reservations_checked", 1)
			inNodes := false
			for _, x := range nodesTrue {
				if x == n {
					inNodes = true
				}
			}
			if !matchableListed[n][r.def.uid] || !inNodes {
				class := "matchable-reservation-unreachable" + after
				if r.refreshedWhileExhausted {
					// witness class: the indexes were last refreshed while the allocate-once reservation was exhausted and
					// its pod left afterwards (forget / delete / terminated / moved)
					class = "matchable-reservation-unreachable|allocate-once-freed-after-refresh-while-exhausted"
				}
				viol = append(viol, s.v(class, r.def.name, fmt.Sprintf("reservation %s is live, available and has %d assigned pods, but it is not reachable through the matchable listing of %s (ListAllNodes(true)=%v)", r.def.name, len(s.assigned(r)), n, nodesTrue)))
			}
			// ... and, when it holds pods, its node is among the nodes with allocated reservations (ListAllNodes(false)):
			// the index of "allocated available reservations" lists every live matchable reservation that has assigned pods,
			// whichever of the two - becoming matchable, getting a pod - happened last (seed C05-8)
			if len(s.assigned(r)) > 0 {
				s.count("allocated_matchable_reservations_checked", 1)
				inFalse := false
				for _, x := range nodesFalse {
					if x == n {
						inFalse = true
					}
				}
				if _, ok := c.allocatedOnNode[n][r.def.uid]; !ok || !inFalse {
					viol = append(viol, s.v("allocated-reservation-missing-from-allocated-index"+after, r.def.name, fmt.Sprintf("reservation %s is live and matchable on %s and has %d assigned pods, but the allocated index does not list it (ListAllNodes(false)=%v)", r.def.name, n, len(s.assigned(r)), nodesFalse)))
				}
			}
		}
	}
	for n, set := range c.matchableOnNode {
		for uid := range set {
			if r := s.byUID[uid]; r != nil && !s.refMatchable(r) {
				s.count("diag_matchable_index_lists_unmatchable", 1)
				_ = n
			}
		}
	}

	// (3) allocate-once: an allocate-once reservation with an assigned pod is never nominated for another pod;
	// (4) a pod is only matched to a reservation whose owner specification it satisfies
	exhausted := false
	for _, r := range s.rsvs {
		if r.def.isAllocOnce() && len(s.assigned(r)) > 0 {
			if _, ok := c.reservationInfos[r.def.uid]; ok {
				exhausted = true
			}
		}
	}
	if exhausted || (s.evalAllCycles && len(c.matchableOnNode) > 0) {
		viol = append(viol, s.checkCycles(exhausted)...)
	}
	return viol
}

// checkCycles runs, for every pod the scheduler could pick next, the real scheduling path of the plugin
// (BeforePreFilter = restore path, Filter, NominateReservation) and FilterNominateReservation.
func (s *c05Sys) checkCycles(exhausted bool) []mc.Violation {
	var viol []mc.Violation
	ctx := context.TODO()
	after := "|after:" + s.last
	for _, p := range s.pods {
		if p.phase != "pending" {
			continue
		}
		// (3b)/(4) the scheduling cycle
		s.hd.snapshot, s.hd.sched = s.snapshot(), frameworkext.NewFakeScheduler()
		cs := framework.NewCycleState()
		var st *fwktype.Status
		if ps := mc.Guard(func() { _, _, st = s.pl.BeforePreFilter(ctx, cs, p.obj) }); ps != "" {
			viol = append(viol, s.v("scheduling-path-panics|BeforePreFilter"+after, p.def.name, ps))
			continue
		}
		if !st.IsSuccess() {
			s.count("diag_before_prefilter_failed", 1)
			s.res.Diag("BeforePreFilter failed: " + st.Message())
			continue
		}
		s.count("scheduling_cycles_run", 1)
		if !p.def.owner {
			s.count("scheduling_cycles_run_for_a_non_owner_pod", 1)
		}
		state := getStateData(cs)
		for _, node := range c05Nodes {
			nrs := state.nodeReservationStates[node]
			if nrs == nil {
				continue
			}
			for _, m := range nrs.matchedOrIgnored {
				s.count("restore_path_matched", 1)
				if !p.def.owner {
					viol = append(viol, s.v("matched-non-owner|restore-path", p.def.name+m.GetName(), fmt.Sprintf("the restore path matches pod %s (no owner label) to reservation %s", p.def.name, m.GetName())))
				}
			}
			ni, _ := s.hd.snapshot.NodeInfos().Get(node)
			var fst *fwktype.Status
			var nominated *frameworkext.ReservationInfo
			if ps := mc.Guard(func() {
				fst = s.pl.Filter(ctx, cs, p.obj, ni)
				if fst.IsSuccess() {
					nominated, fst = s.pl.NominateReservation(ctx, cs, p.obj, node)
				}
			}); ps != "" {
				viol = append(viol, s.v("scheduling-path-panics|Filter-Nominate"+after, p.def.name+node, ps))
				continue
			}
			if nominated == nil {
				s.count("cycle_nothing_nominated", 1)
				continue
			}
			s.count("cycle_nominated", 1)
			r := s.byUID[nominated.UID()]
			if r == nil {
				viol = append(viol, s.v("nominated-unknown-reservation", p.def.name+node, "NominateReservation returns an unknown reservation "+string(nominated.UID())))
				continue
			}
			if !p.def.owner {
				viol = append(viol, s.v("matched-non-owner|nominated", p.def.name+r.def.name, fmt.Sprintf("pod %s (no owner label) is nominated to reservation %s", p.def.name, r.def.name)))
			}
			if !s.refFits(r, p) {
				viol = append(viol, s.v("restricted-nominated-without-fit|NominateReservation", p.def.name+r.def.name, fmt.Sprintf("BeforePreFilter -> Filter(%s) -> NominateReservation nominates restricted reservation %s for pod %s (cpu %d, mem %dGi) although %v are assigned to it and the sum would exceed what it reserves (matched=%d)",
					node, r.def.name, p.def.name, p.cpu(), p.def.mem, c05PodNames(s.assigned(r)), len(nrs.matchedOrIgnored))))
			}
			if r.def.isAllocOnce() && len(s.assigned(r)) > 0 {
				via := "filtered-candidates"
				if p.def.affinity && len(nrs.matchedOrIgnored) == 1 {
					via = "single-candidate-of-a-pod-with-reservation-affinity"
				}
				// witness classes: the matchable listing was not refreshed since the pod was assigned (only reservation
				// events refresh it) / it still lists the reservation although it was refreshed while exhausted
				if r.refreshedWhileExhausted {
					via += "|although-indexes-refreshed-while-exhausted"
				} else {
					via += "|indexes-not-refreshed-since-the-pod-was-assigned"
				}
				viol = append(viol, s.v("allocate-once-nominated|NominateReservation|"+via, p.def.name+r.def.name, fmt.Sprintf("BeforePreFilter -> Filter(%s) -> NominateReservation nominates allocate-once reservation %s for pod %s although %v is already assigned to it (the matchable listing still yields it: matched=%d)",
					node, r.def.name, p.def.name, c05PodNames(s.assigned(r)), len(nrs.matchedOrIgnored))))
			}
		}
		// (3a) the nomination filter, asked directly (as the nominator does, inside the cycle) for every exhausted
		// allocate-once reservation of a node the cycle has a state for
		for _, r := range s.rsvs {
			if !(r.def.isAllocOnce() && len(s.assigned(r)) > 0) {
				continue
			}
			rInfo := s.cache.getReservationInfoByUID(r.def.uid)
			if rInfo == nil || r.placed == "" {
				continue
			}
			if state.nodeReservationStates[r.placed] == nil {
				s.count("allocate_once_nominate_filter_skipped_no_cycle_state", 1)
				continue
			}
			var nst *fwktype.Status
			if ps := mc.Guard(func() { nst = s.pl.FilterNominateReservation(ctx, cs, p.obj, rInfo, r.placed) }); ps != "" {
				viol = append(viol, s.v("scheduling-path-panics|FilterNominateReservation"+after, p.def.name+r.def.name, ps))
				continue
			}
			s.count("allocate_once_nominate_filter_asked", 1)
			if nst.IsSuccess() {
				viol = append(viol, s.v("allocate-once-nominated|FilterNominateReservation", p.def.name+r.def.name, fmt.Sprintf("FilterNominateReservation(%s, %s) succeeds although %s is allocate-once and %v is assigned to it", p.def.name, r.def.name, r.def.name, c05PodNames(s.assigned(r)))))
			}
		}
	}
	if exhausted {
		s.count("states_with_exhausted_allocate_once", 1)
	}
	return viol
}

// snapshot builds the scheduler's node snapshot: two large nodes holding the reserve pods of the reservations the
// reservation cache indexes on them (the restore path removes the reserve pod of every matched reservation from the
// NodeInfo, so it has to be there; this is a fixture, not an oracle).
func (s *c05Sys) snapshot() fwktype.SharedLister {
	var nodes []*corev1.Node
	for _, n := range c05Nodes {
		nodes = append(nodes, &corev1.Node{ObjectMeta: metav1.ObjectMeta{Name: n},
			Status: corev1.NodeStatus{Allocatable: corev1.ResourceList{corev1.ResourceCPU: resource.MustParse("64"), corev1.ResourceMemory: resource.MustParse("256Gi"), corev1.ResourcePods: resource.MustParse("110")}}})
	}
	var pods []*corev1.Pod
	seen := map[types.UID]bool{}
	for _, m := range []map[string]map[types.UID]struct{}{s.cache.reservationsOnNode, s.cache.matchableOnNode, s.cache.allocatedOnNode} {
		for node, set := range m {
			for uid := range set {
				ri := s.cache.reservationInfos[uid]
				if ri == nil || ri.Pod == nil || seen[uid] {
					continue
				}
				seen[uid] = true
				rp := ri.Pod.DeepCopy()
				rp.Spec.NodeName = node
				pods = append(pods, rp)
			}
		}
	}
	return newFakeSharedLister(pods, nodes, false)
}

// ---- canonical state ----

func c05QL(rl corev1.ResourceList) string {
	ks := make([]string, 0, len(rl))
	for k := range rl {
		ks = append(ks, string(k))
	}
	sort.Strings(ks)
	var sb strings.Builder
	sb.WriteString("{")
	for _, k := range ks {
		q := rl[corev1.ResourceName(k)]
		fmt.Fprintf(&sb, "%s=%d ", k, q.MilliValue())
	}
	sb.WriteString("}")
	return sb.String()
}

func c05Names(m map[corev1.ResourceName]bool) []string {
	var out []string
	for n := range m {
		out = append(out, string(n))
	}
	sort.Strings(out)
	return out
}

func c05PodNames(ps []*c05Pod) []string {
	var out []string
	for _, p := range ps {
		out = append(out, p.def.name)
	}
	return out
}

func c05Index(m map[string]map[types.UID]struct{}) string {
	var ns []string
	for n := range m {
		ns = append(ns, n)
	}
	sort.Strings(ns)
	var sb strings.Builder
	for _, n := range ns {
		var us []string
		for u := range m[n] {
			us = append(us, string(u))
		}
		sort.Strings(us)
		fmt.Fprintf(&sb, "%s:%v;", n, us)
	}
	return sb.String()
}

// cacheString renders everything of the real cache that can influence future behaviour the property can observe.
func (s *c05Sys) cacheString() string {
	c := s.cache
	var uids []string
	for u := range c.reservationInfos {
		uids = append(uids, string(u))
	}
	sort.Strings(uids)
	var sb strings.Builder
	for _, u := range uids {
		ri := c.reservationInfos[types.UID(u)]
		if ri == nil {
			fmt.Fprintf(&sb, "[%s nil]", u)
			continue
		}
		fmt.Fprintf(&sb, "[%s", u)
		if r := ri.Reservation; r != nil {
			fmt.Fprintf(&sb, " phase=%s node=%s unsched=%v opts=%s del=%v", r.Status.Phase, r.Status.NodeName, r.Spec.Unschedulable,
				r.Annotations[apiext.AnnotationReservationRestrictedOptions], r.DeletionTimestamp != nil)
		}
		fmt.Fprintf(&sb, " names=%v allocatable=%s allocated=%s reserved=%s perr=%v", ri.ResourceNames, c05QL(ri.Allocatable), c05QL(ri.Allocated), c05QL(ri.Reserved), ri.ParseError != nil)
		if ri.Available != nil {
			fmt.Fprintf(&sb, " avail=%d/%d", ri.Available.MilliCPU, ri.Available.Memory)
		}
		var ps []string
		for pu, req := range ri.AssignedPods {
			ps = append(ps, fmt.Sprintf("%s%s", pu, c05QL(req.Requests)))
		}
		sort.Strings(ps)
		fmt.Fprintf(&sb, " pods=%v]", ps)
	}
	fmt.Fprintf(&sb, " all{%s} matchable{%s} allocated{%s}", c05Index(c.reservationsOnNode), c05Index(c.matchableOnNode), c05Index(c.allocatedOnNode))
	var sel []string
	for prefix, byNode := range c.nodesByPrefix {
		for node, uids := range byNode {
			for uid := range uids {
				sel = append(sel, prefix+"@"+node+"="+string(uid))
			}
		}
	}
	for key, byValue := range c.nodesByExactKV {
		for val, byNode := range byValue {
			for node, uids := range byNode {
				for uid := range uids {
					sel = append(sel, key+"="+val+"@"+node+"="+string(uid))
				}
			}
		}
	}
	for uid, e := range c.indexEntryByUID {
		if e != nil {
			sel = append(sel, "entry:"+string(uid)+"@"+e.node)
		}
	}
	sort.Strings(sel)
	fmt.Fprintf(&sb, " selector%v", sel)
	fmt.Fprintf(&sb, " nominated=%d/%d", len(s.nm.nominatedPodToNode), len(s.nm.nominatedReservePod))
	return sb.String()
}

func (s *c05Sys) refString() string {
	var sb strings.Builder
	for _, r := range s.rsvs {
		fmt.Fprintf(&sb, "%s:%s@%s u=%v o=%d as=%s pl=%s h2=[", r.def.name, r.phase, r.node, fmt.Sprint(r.unsched, r.badOwners), r.opt, r.assumedNode, r.placed)
		for _, o := range r.h2 {
			fmt.Fprintf(&sb, "%s@%s,", o.Status.Phase, o.Status.NodeName)
		}
		fmt.Fprintf(&sb, "] g=%v x=%v; ", r.dimsGrewWhileAssigned, r.refreshedWhileExhausted)
	}
	for _, p := range s.pods {
		fmt.Fprintf(&sb, "%s:%s->%s@%s+%d; ", p.def.name, p.phase, p.rsv, p.node, p.bump)
	}
	return sb.String()
}

func (s *c05Sys) describe() string { return "cache " + s.cacheString() + " || events " + s.refString() }

func (s *c05Sys) Key() string { return s.cacheString() + "||" + s.refString() }

func TestVerifC05Hist(t *testing.T) {
	env := mc.LoadEnv()
	ops := c05BuildOps()
	res := mc.NewResult("C05", "hist", "bfs")
	res.Rule = fmt.Sprintf("BFS over all sequences of the %d-event alphabet on the real reservationCache + event handlers + Plugin: reservations r1 (Restricted, cpu+memory, allocate-once off, options none<->[cpu]), r2 (default policy, allocate-once), r3 (Restricted, options [cpu]<->[cpu,memory]) on nodes n1/n2: informer add (pending / available), update (->Available, ->Succeeded, ->Failed, unschedulable toggle, restricted-options change), delete (plain / tombstone), lagging DeleteReservation of the global handler, scheduler Reserve/Unreserve of the reserve pod; pods q1 (1,1), q2 (2,0, reservation affinity), q3 (3,3, no owner label): scheduler Reserve/Unreserve on a reservation, informer bound / bound-by-another-scheduler / annotation moved / unchanged update / in-place resize (+1 core) / terminated / deleted; a state = canonical cache contents + what the events established", len(ops))
	res.Assumptions = []string{
		"reservation informer events in order per object; terminal phases and deletes final per UID; the node of a scheduled reservation never changes",
		"the global reservation handler is represented by DeleteReservation(old object) after available->terminated / delete of a placed reservation; it may lag behind the plugin's handler but not overtake it",
		"pod events carrying the reservation-allocated annotation arrive only while the plugin's handler has seen that reservation Available",
		"the scheduler reserves a pod on a reservation only where a correct scheduler nominates it (available, schedulable, owner matches, not an exhausted allocate-once reservation, fits when restricted); no Unreserve after the informer confirmed a binding",
		"framework around the plugin (trusted base): sequential parallelizer, a snapshot of two large nodes holding the reserve pods, the extender's reservation filter / nominate-filter / score fan-outs call the plugin's own hooks, nominations are dropped after Reserve as frameworkExtenderImpl.RunReservePluginsReserve does",
	}
	evalAll := env.Thorough()
	b := &mc.BFS{Res: res, Env: env, New: func() mc.System { return c05NewSys(res, ops, evalAll) }, NumOps: len(ops),
		OpName: func(i int) string { return ops[i].name }, MaxDepth: env.Pick(6, 9), Repeats: 0}
	res.Bounds = map[string]any{}
	b.Run()
	res.Bounds["scheduling_cycle_oracle"] = map[bool]string{true: "every state with a matchable reservation", false: "every state with an exhausted allocate-once reservation"}[evalAll]
	c05FlushCounters(res)
	env.Emit(res)

	// parts hist-order-*: three order-labelled reservations on one node, the scheduling-cycle oracle in every state
	saveR, saveP := c05RsvDefs, c05PodDefs
	defer func() { c05RsvDefs, c05PodDefs = saveR, saveP }()
	for _, first := range []string{"r2", "r1"} {
		c05RsvDefs, c05PodDefs = c05MakeOrderDefs(first)
		var oops []c05Op
		for _, o := range c05BuildOps() {
			if c05OrderKinds[o.kind] {
				oops = append(oops, o)
			}
		}
		ores := mc.NewResult("C05", "hist-order-"+first+"-first", "bfs")
		ores.Rule = fmt.Sprintf("BFS over all sequences of a %d-event alphabet on the real reservationCache + event handlers + Plugin: reservations r1 (Restricted), r2 (default policy, allocate-once), r4 (Aligned) ALL on node n1 with reservation-order labels (%s carries the smallest): informer add-available / unschedulable toggle / delete; pods q1 (2,1), q2 (2,0), q5 (1,1), all owners: scheduler Reserve/Unreserve on a reservation, informer bound / unchanged update / deleted; the real BeforePreFilter -> Filter -> NominateReservation path is run for every pending pod in EVERY state: an exhausted allocate-once reservation or a restricted reservation the pod does not fit into is never nominated, whatever the order labels prefer", len(oops), first)
		ores.Assumptions = res.Assumptions
		ob := &mc.BFS{Res: ores, Env: env, New: func() mc.System { return c05NewSys(ores, oops, true) }, NumOps: len(oops),
			OpName: func(i int) string { return oops[i].name }, MaxDepth: env.Pick(7, 10), Repeats: 0}
		ores.Bounds = map[string]any{"scheduling_cycle_oracle": "every state with a matchable reservation"}
		ob.Run()
		c05FlushCounters(ores)
		env.Emit(ores)
	}
}
