package reservation

// C05 owner part: product over owner specifications (object reference, controller reference, label selector,
// namespace mismatch, malformed selector; single terms and ORed pairs) x pod shapes on the real
// ReservationInfo.MatchOwners (constructor route and UpdateReservation route) and checkReservationMatchedOrIgnored.
//
// Oracle (one-directional, from the statement "a pod is only ever matched to a reservation whose owner specification
// it satisfies"): matched => the reference predicate written from the API documentation of ReservationOwner holds
// (owners are ORed, the fields of one owner are ANDed, every non-empty field of a reference must equal the pod's).
// The converse (satisfied but not matched) is only counted. See /verif/DESIGN.md §4 C05.

import (
	"fmt"

	corev1 "k8s.io/api/core/v1"
	metav1 "k8s.io/apimachinery/pkg/apis/meta/v1"
	"k8s.io/apimachinery/pkg/types"
	"k8s.io/utils/ptr"

	schedulingv1alpha1 "github.com/koordinator-sh/koordinator/apis/scheduling/v1alpha1"
	"github.com/koordinator-sh/koordinator/pkg/scheduler/frameworkext"
	"github.com/koordinator-sh/koordinator/pkg/zzverif/mc"
)

type c05OwnerTerm struct {
	Name string
	O    schedulingv1alpha1.ReservationOwner
	// Diagnostic marks terms whose reading is debatable (an object reference naming another kind): only counted
	Diagnostic bool
}

func c05ObjectRefs() []*corev1.ObjectReference {
	return []*corev1.ObjectReference{
		nil,
		{},
		{Name: "p"},
		{Name: "other"},
		{Namespace: "ns1", Name: "p"},
		{Namespace: "ns2"},
		{UID: "uid-p"},
		{UID: "uid-x", Name: "p"},
		{Kind: "Pod", Name: "p"},
		{Kind: "Pod", APIVersion: "v1", Namespace: "ns1"},
	}
}

func c05ControllerRefs() []*schedulingv1alpha1.ReservationControllerReference {
	mk := func(o metav1.OwnerReference, ns string) *schedulingv1alpha1.ReservationControllerReference {
		return &schedulingv1alpha1.ReservationControllerReference{OwnerReference: o, Namespace: ns}
	}
	return []*schedulingv1alpha1.ReservationControllerReference{
		nil,
		mk(metav1.OwnerReference{}, ""),
		mk(metav1.OwnerReference{Kind: "ReplicaSet", Name: "rs1"}, ""),
		mk(metav1.OwnerReference{Name: "rs2"}, ""),
		mk(metav1.OwnerReference{UID: "uid-rs1"}, ""),
		mk(metav1.OwnerReference{Name: "rs1", Controller: ptr.To(true)}, ""),
		mk(metav1.OwnerReference{Name: "rs1", Controller: ptr.To(false)}, ""),
		mk(metav1.OwnerReference{Name: "rs1"}, "ns2"),
		mk(metav1.OwnerReference{APIVersion: "apps/v1", Kind: "ReplicaSet"}, "ns1"),
		mk(metav1.OwnerReference{APIVersion: "batch/v1", Kind: "Job", Name: "rs1"}, ""),
	}
}

func c05Selectors() []*metav1.LabelSelector {
	ex := func(k string, op metav1.LabelSelectorOperator, v ...string) *metav1.LabelSelector {
		return &metav1.LabelSelector{MatchExpressions: []metav1.LabelSelectorRequirement{{Key: k, Operator: op, Values: v}}}
	}
	return []*metav1.LabelSelector{
		nil,
		{},
		{MatchLabels: map[string]string{"app": "a"}},
		{MatchLabels: map[string]string{"app": "b"}},
		{MatchLabels: map[string]string{"app": "a", "tier": "x"}},
		ex("app", metav1.LabelSelectorOpIn, "a", "c"),
		ex("app", metav1.LabelSelectorOpNotIn, "a"),
		ex("tier", metav1.LabelSelectorOpExists),
		ex("tier", metav1.LabelSelectorOpDoesNotExist),
		{MatchLabels: map[string]string{"app": "a"}, MatchExpressions: []metav1.LabelSelectorRequirement{{Key: "tier", Operator: metav1.LabelSelectorOpDoesNotExist}}},
		ex("app", metav1.LabelSelectorOperator("Bad"), "a"), // malformed: unknown operator
		ex("app", metav1.LabelSelectorOpIn),                 // malformed: In without values
		ex("app", metav1.LabelSelectorOpExists, "a"),        // malformed: Exists with values
	}
}

type c05PodShape struct {
	NS, Name string
	UID      types.UID
	Labels   map[string]string
	Owners   []metav1.OwnerReference
}

func c05PodShapes() []c05PodShape {
	labelSets := []map[string]string{nil, {"app": "a"}, {"app": "b"}, {"app": "a", "tier": "x"}, {"app": "c", "tier": "y"}}
	rs1 := metav1.OwnerReference{APIVersion: "apps/v1", Kind: "ReplicaSet", Name: "rs1", UID: "uid-rs1", Controller: ptr.To(true)}
	rs1NoCtl := metav1.OwnerReference{APIVersion: "apps/v1", Kind: "ReplicaSet", Name: "rs1", UID: "uid-rs1"}
	rs2 := metav1.OwnerReference{APIVersion: "apps/v1", Kind: "ReplicaSet", Name: "rs2", UID: "uid-rs2", Controller: ptr.To(true)}
	job := metav1.OwnerReference{APIVersion: "batch/v1", Kind: "Job", Name: "rs1", UID: "uid-job", Controller: ptr.To(false)}
	ownerSets := [][]metav1.OwnerReference{nil, {rs1}, {rs1NoCtl}, {rs2}, {job, rs2}}
	var out []c05PodShape
	for _, ns := range []string{"ns1", "ns2"} {
		for _, name := range []string{"p", "other"} {
			for _, uid := range []types.UID{"uid-p", "uid-y"} {
				for _, ls := range labelSets {
					for _, os := range ownerSets {
						out = append(out, c05PodShape{NS: ns, Name: name, UID: uid, Labels: ls, Owners: os})
					}
				}
			}
		}
	}
	return out
}

func (p c05PodShape) pod() *corev1.Pod {
	return &corev1.Pod{ObjectMeta: metav1.ObjectMeta{Namespace: p.NS, Name: p.Name, UID: p.UID, Labels: p.Labels, OwnerReferences: p.Owners}}
}

// ---- reference predicate, written from the API documentation (reservation_types.go, LabelSelector docs) ----

// c05RefSelector: nil = the field is not set (no constraint); returns (satisfied, wellFormed).
func c05RefSelector(sel *metav1.LabelSelector, lbls map[string]string) (bool, bool) {
	if sel == nil {
		return true, true
	}
	ok := true
	for k, v := range sel.MatchLabels { // "matchLabels is a map of {key,value} pairs ... the requirements are ANDed"
		if got, has := lbls[k]; !has || got != v {
			ok = false
		}
	}
	for _, e := range sel.MatchExpressions {
		got, has := lbls[e.Key]
		in := false
		for _, v := range e.Values {
			if has && v == got {
				in = true
			}
		}
		switch e.Operator {
		case metav1.LabelSelectorOpIn: // "If the operator is In or NotIn, the values array must be non-empty"
			if len(e.Values) == 0 {
				return false, false
			}
			if !in {
				ok = false
			}
		case metav1.LabelSelectorOpNotIn:
			if len(e.Values) == 0 {
				return false, false
			}
			if in {
				ok = false
			}
		case metav1.LabelSelectorOpExists: // "If the operator is Exists or DoesNotExist, the values array must be empty"
			if len(e.Values) != 0 {
				return false, false
			}
			if !has {
				ok = false
			}
		case metav1.LabelSelectorOpDoesNotExist:
			if len(e.Values) != 0 {
				return false, false
			}
			if has {
				ok = false
			}
		default:
			return false, false
		}
	}
	return ok, true
}

func c05RefTerm(o schedulingv1alpha1.ReservationOwner, p c05PodShape) bool {
	// "Multiple field selectors are ANDed."
	if ref := o.Object; ref != nil {
		if ref.Namespace != "" && ref.Namespace != p.NS {
			return false
		}
		if ref.Name != "" && ref.Name != p.Name {
			return false
		}
		if ref.UID != "" && ref.UID != p.UID {
			return false
		}
		if ref.Kind != "" && ref.Kind != "Pod" {
			return false
		}
		if ref.APIVersion != "" && ref.APIVersion != "v1" {
			return false
		}
	}
	if c := o.Controller; c != nil {
		// "Extend with a `namespace` field for reference different namespaces."
		if c.Namespace != "" && c.Namespace != p.NS {
			return false
		}
		found := false
		for _, or := range p.Owners {
			if c.APIVersion != "" && c.APIVersion != or.APIVersion {
				continue
			}
			if c.Kind != "" && c.Kind != or.Kind {
				continue
			}
			if c.Name != "" && c.Name != or.Name {
				continue
			}
			if c.UID != "" && c.UID != or.UID {
				continue
			}
			// "If true, this reference points to the managing controller": an unset flag reads as false
			if c.Controller != nil && *c.Controller != (or.Controller != nil && *or.Controller) {
				continue
			}
			found = true
		}
		if !found {
			return false
		}
	}
	sat, wellFormed := c05RefSelector(o.LabelSelector, p.Labels)
	return sat && wellFormed
}

// c05RefOwners: "Specify the owners who can allocate the reserved resources. Multiple owner selectors [are] ORed."
func c05RefOwners(owners []schedulingv1alpha1.ReservationOwner, p c05PodShape) bool {
	for _, o := range owners {
		if c05RefTerm(o, p) {
			return true
		}
	}
	return false
}

func c05OwnerReservation(owners []schedulingv1alpha1.ReservationOwner) *schedulingv1alpha1.Reservation {
	return &schedulingv1alpha1.Reservation{
		ObjectMeta: metav1.ObjectMeta{Name: "rown", UID: "uid-rown"},
		Spec: schedulingv1alpha1.ReservationSpec{Template: &corev1.PodTemplateSpec{}, Owners: owners,
			TTL: &metav1.Duration{}},
		Status: schedulingv1alpha1.ReservationStatus{Phase: schedulingv1alpha1.ReservationAvailable, NodeName: "n1"},
	}
}

func c05RunOwners(env *mc.Env) {
	res := mc.NewResult("C05", "owners", "enumeration")
	objs, ctls, sels := c05ObjectRefs(), c05ControllerRefs(), c05Selectors()
	var specs [][]c05OwnerTerm
	specs = append(specs, nil) // no owner at all
	var singles []c05OwnerTerm
	for oi, o := range objs {
		for ci, c := range ctls {
			for si, s := range sels {
				singles = append(singles, c05OwnerTerm{Name: fmt.Sprintf("obj%d+ctl%d+sel%d", oi, ci, si),
					O: schedulingv1alpha1.ReservationOwner{Object: o, Controller: c, LabelSelector: s}})
			}
		}
	}
	// debatable reading (only counted): an object reference that names another kind / group but the pod's name
	singles = append(singles,
		c05OwnerTerm{Name: "obj-kind-deployment", Diagnostic: true, O: schedulingv1alpha1.ReservationOwner{Object: &corev1.ObjectReference{Kind: "Deployment", Name: "p"}}},
		c05OwnerTerm{Name: "obj-apiversion-apps", Diagnostic: true, O: schedulingv1alpha1.ReservationOwner{Object: &corev1.ObjectReference{APIVersion: "apps/v1", Kind: "Deployment", Name: "p"}}})
	for _, s := range singles {
		specs = append(specs, []c05OwnerTerm{s})
	}
	// ORed pairs over representative terms (incl. a malformed one poisoning / not poisoning a valid one)
	repIdx := []int{}
	for i, s := range singles {
		if s.Diagnostic {
			continue
		}
		// one term per "kind": only-object, only-controller, only-selector, mismatching namespace, malformed, mixed
		switch s.Name {
		case "obj2+ctl0+sel0", "obj5+ctl0+sel0", "obj0+ctl2+sel0", "obj0+ctl7+sel0", "obj0+ctl0+sel2", "obj0+ctl0+sel3",
			"obj0+ctl0+sel10", "obj0+ctl0+sel11", "obj4+ctl5+sel2", "obj0+ctl0+sel0", "obj6+ctl0+sel8":
			repIdx = append(repIdx, i)
		}
	}
	for _, a := range repIdx {
		for _, b := range repIdx {
			specs = append(specs, []c05OwnerTerm{singles[a], singles[b]})
		}
	}
	pods := c05PodShapes()
	res.Rule = fmt.Sprintf("owner specifications: none, %d single terms = %d object refs x %d controller refs x %d label selectors (incl. namespace mismatch, empty, 3 malformed), %d ORed pairs of representative terms; x %d pod shapes (2 namespaces x 2 names x 2 uids x 5 label sets x 5 owner-reference sets); each judged through NewReservationInfo, through UpdateReservation from a match-everything spec, and through checkReservationMatchedOrIgnored",
		len(singles), len(objs), len(ctls), len(sels), len(repIdx)*len(repIdx), len(pods))
	res.Bounds = map[string]any{"owner_specs": len(specs), "pod_shapes": len(pods)}
	ds := mc.NewDistinctSet()
	node := &corev1.Node{ObjectMeta: metav1.ObjectMeta{Name: "n1"}}
	done, complete := env.ParallelRangeL(res, int64(len(specs)), func(l *mc.Local, i int64) {
		spec := specs[i]
		var owners []schedulingv1alpha1.ReservationOwner
		diagnostic := false
		name := ""
		for _, tm := range spec {
			owners = append(owners, tm.O)
			diagnostic = diagnostic || tm.Diagnostic
			name += tm.Name + "|"
		}
		var viaNew, viaUpdate *frameworkext.ReservationInfo
		if ps := mc.Guard(func() {
			viaNew = frameworkext.NewReservationInfo(c05OwnerReservation(owners))
			viaUpdate = frameworkext.NewReservationInfo(c05OwnerReservation([]schedulingv1alpha1.ReservationOwner{{}}))
			viaUpdate.UpdateReservation(c05OwnerReservation(owners))
		}); ps != "" {
			res.Violate(mc.Violation{Key: "C05|owners|panic|construct", What: ps, Replay: name})
			return
		}
		if viaNew.ParseError != nil {
			l.Count("specs_with_parse_error", 1)
		}
		for pi, shape := range pods {
			l.Evals++
			pod := shape.pod()
			want := c05RefOwners(owners, shape)
			routes := []struct {
				how string
				f   func() bool
			}{
				{"NewReservationInfo.MatchOwners", func() bool { return viaNew.MatchOwners(pod) }},
				{"UpdateReservation.MatchOwners", func() bool { return viaUpdate.MatchOwners(pod) }},
				{"checkReservationMatchedOrIgnored", func() bool {
					return checkReservationMatchedOrIgnored(pod, viaNew, &nodeDiagnosisState{taintsUnmatchedReasons: map[string]int{}}, node, nil, nil, nil, "", false)
				}},
			}
			for _, rt := range routes {
				var got bool
				if ps := mc.Guard(func() { got = rt.f() }); ps != "" {
					res.Violate(mc.Violation{Key: "C05|owners|panic|" + rt.how, What: ps, Replay: map[string]any{"owners": name, "pod": shape}})
					continue
				}
				switch {
				case got && want:
					l.Count("matched_and_satisfied", 1)
				case !got && !want:
					l.Count("unmatched_and_unsatisfied", 1)
				case !got && want:
					l.Count("diag_satisfied_but_not_matched", 1)
					if viaNew.ParseError != nil {
						l.Count("diag_satisfied_but_not_matched_because_another_term_is_malformed", 1)
					}
				case got && !want:
					if diagnostic {
						l.Count("diag_matched_object_reference_of_another_kind", 1)
						continue
					}
					res.Violate(mc.Violation{Key: "C05|owners|matched-without-satisfying|" + rt.how,
						What:   fmt.Sprintf("%s matches pod %+v to a reservation with owners [%s] = %s although the pod does not satisfy the owner specification", rt.how, shape, name, mc.DumpDefault(owners)),
						Replay: map[string]any{"owners": name, "pod_index": pi}})
				}
			}
			if want {
				ds.Add(fmt.Sprintf("%d|%d", i, pi))
			}
		}
	})
	res.Distinct, res.Traces, res.Exhaustive = ds.Len(), res.Evaluations, complete
	if !complete {
		res.Capped = fmt.Sprintf("time budget hit after %d of %d owner specifications", done, len(specs))
	}
	env.Emit(res)
}
