package validating

// C13 unit (a): admitted pods obey the QoS/priority protocol.
//
// Exhaustive product over QoS label x priority value (edges of the four class ranges, +-1) x priority-class label
// x resource shapes x operation (create; update with old QoS / old priority from the same sets), executed on the
// real clusterColocationProfileValidatingPod (and, for a reduced product, through the complete
// PodValidatingHandler.Handle with a JSON admission request).
//
// The statement is "admitted only if ...", so the ONLY alarm is: a rule listed in the statement is violated AND the
// pod is admitted. "Denied although no listed rule is violated" is counted as a diagnostic and never alarms.
//
// The reference predicate is written from the statement with exact rationals (math/big); it never calls the
// extension helpers under check. The four priority ranges are read from the package variables the property refers
// to by role (extension.Priority*Value{Min,Max}).

import (
	"context"
	"encoding/json"
	"fmt"
	"math/big"
	"runtime/debug"
	"sort"
	"strings"
	"testing"

	admissionv1 "k8s.io/api/admission/v1"
	corev1 "k8s.io/api/core/v1"
	"k8s.io/apimachinery/pkg/api/resource"
	metav1 "k8s.io/apimachinery/pkg/apis/meta/v1"
	"k8s.io/apimachinery/pkg/runtime"
	clientgoscheme "k8s.io/client-go/kubernetes/scheme"
	"sigs.k8s.io/controller-runtime/pkg/client/fake"
	"sigs.k8s.io/controller-runtime/pkg/webhook/admission"

	"github.com/koordinator-sh/koordinator/apis/extension"
	"github.com/koordinator-sh/koordinator/pkg/zzverif/mc"
)

const c13Absent = "<absent>"

// c13Amount is one alphabet entry of a quantity: the text handed to the real code and its exact value.
type c13Amount struct {
	S string
	R *big.Rat
}

func c13R(a, b int64) *big.Rat { return big.NewRat(a, b) }

// CPU alphabet of the validating unit: missing, zero, fractional (milli and sub-milli), whole.
var c13CPU = map[string]*big.Rat{
	"":         nil, // no CPU request at all
	"0":        c13R(0, 1),
	"1m":       c13R(1, 1000),
	"500u":     c13R(1, 2000),
	"500m":     c13R(1, 2),
	"999500u":  c13R(9995, 10000),
	"1":        c13R(1, 1),
	"1000500u": c13R(10005, 10000),
	"1500m":    c13R(3, 2),
	"2":        c13R(2, 1),
	"3":        c13R(3, 1),
}

// c13Shape is one resource shape of the pod: CPU requests of the app containers (1-2), optional init container
// and pod overhead (thorough tier only).
type c13Shape struct {
	CPU      []string `json:"cpu"`
	InitCPU  string   `json:"init_cpu,omitempty"`
	Overhead string   `json:"overhead_cpu,omitempty"`
}

// c13VCase is one admission request of the validating unit (also the replay payload).
type c13VCase struct {
	Op        string   `json:"op"` // CREATE | UPDATE
	QoS       string   `json:"qos"`
	Prio      *int32   `json:"priority"`
	PrioLabel string   `json:"priority_class_label"`
	Shape     c13Shape `json:"shape"`
	Batch     string   `json:"batch"`
	OldQoS    string   `json:"old_qos,omitempty"`
	OldPrio   *int32   `json:"old_priority,omitempty"`
	OldLabel  string   `json:"old_priority_class_label,omitempty"`
}

func (c c13VCase) String() string {
	b, _ := json.Marshal(c)
	return string(b)
}

// ---------------------------------------------------------------------------------------------------------------
// reference model (from the statement)

func c13QoSClass(label string) string {
	switch label {
	case "LSE", "LSR", "LS", "BE", "SYSTEM":
		return label
	}
	return "" // absent or unknown: no koordinator QoS class
}

// c13PrioClass: the priority class of a pod is the koordinator priority-class label when present (API doc of
// LabelPodPriorityClass: it revises the class of pods whose spec.priority is set otherwise), else the class whose
// value range contains spec.priority, else none.
func c13PrioClass(label string, prio *int32) string {
	if label != c13Absent {
		switch label {
		case "koord-prod", "koord-mid", "koord-batch", "koord-free":
			return label
		}
		return ""
	}
	if prio == nil {
		return ""
	}
	p := *prio
	switch {
	case p >= extension.PriorityProdValueMin && p <= extension.PriorityProdValueMax:
		return "koord-prod"
	case p >= extension.PriorityMidValueMin && p <= extension.PriorityMidValueMax:
		return "koord-mid"
	case p >= extension.PriorityBatchValueMin && p <= extension.PriorityBatchValueMax:
		return "koord-batch"
	case p >= extension.PriorityFreeValueMin && p <= extension.PriorityFreeValueMax:
		return "koord-free"
	}
	return ""
}

// c13CPURequests returns the pod's CPU request under the two readings of "the pod requests": (A) the sum over the
// app containers, (B) the Kubernetes effective request max(sum app, max init) + overhead. Without init container
// and overhead both coincide.
func c13CPURequests(s c13Shape) (a, b *big.Rat) {
	a = new(big.Rat)
	for _, c := range s.CPU {
		if r := c13CPU[c]; r != nil {
			a.Add(a, r)
		}
	}
	b = new(big.Rat).Set(a)
	if r := c13CPU[s.InitCPU]; r != nil && r.Cmp(b) > 0 {
		b.Set(r)
	}
	if r := c13CPU[s.Overhead]; r != nil {
		b.Add(b, r)
	}
	return a, b
}

func c13PositiveWhole(r *big.Rat) bool { return r.Sign() > 0 && r.IsInt() }

// batch shapes: where a reclaimed (batch) resource is declared.
//   none        no batch resource anywhere
//   cpu         batch-cpu 1000 in requests+limits of the first app container
//   mem         batch-memory 1Gi in requests+limits of the first app container
//   last        batch-cpu 1000 + batch-memory 1Gi in the last app container
//   zero        batch-cpu 0 and batch-memory 0 (declared, amount zero: nothing is requested)
//   limit-only  batch-cpu 1000 only in limits (not producible behind the API server's defaulting; diagnostic only)
//   init        batch-cpu 1000 in requests+limits of an init container only
func c13BatchRequested(b string) bool {
	switch b {
	case "cpu", "mem", "last", "init":
		return true
	}
	return false
}

// c13Judge lists the rules of the statement the request violates.
func c13Judge(c c13VCase) (rules []string) {
	qos := c13QoSClass(c.QoS)
	pc := c13PrioClass(c.PrioLabel, c.Prio)
	if qos == "BE" && (pc == "koord-prod" || pc == "") {
		if pc == "" {
			rules = append(rules, "be-with-no-priority")
		} else {
			rules = append(rules, "be-with-prod")
		}
	}
	if qos == "LSR" && pc != "koord-prod" {
		rules = append(rules, "lsr-without-prod")
	}
	if qos == "LSR" || qos == "LSE" {
		a, b := c13CPURequests(c.Shape)
		// alarm only when the request is not a positive whole number under both readings (they coincide unless
		// an init container / overhead is present)
		if !c13PositiveWhole(a) && !c13PositiveWhole(b) {
			kind := "fractional"
			if a.Sign() == 0 && b.Sign() == 0 {
				kind = "missing"
			} else {
				// sub-milli: the fraction disappears when the amount is rounded up to whole milli-cores
				m := new(big.Rat).Mul(b, c13R(1000, 1))
				if !m.IsInt() {
					kind = "sub-milli"
				}
			}
			rules = append(rules, "whole-cpu|"+kind)
		}
	}
	if c13BatchRequested(c.Batch) && qos != "BE" {
		rules = append(rules, "batch-by-non-be")
	}
	if c.Op == "UPDATE" {
		if c13QoSClass(c.OldQoS) != qos {
			rules = append(rules, "qos-changed")
		}
		if c13PrioClass(c.OldLabel, c.OldPrio) != pc {
			rules = append(rules, "priority-class-changed")
		}
	}
	return rules
}

// ---------------------------------------------------------------------------------------------------------------
// real objects

func c13Pod(qos string, prio *int32, label string, s c13Shape, batch string) *corev1.Pod {
	pod := &corev1.Pod{ObjectMeta: metav1.ObjectMeta{Namespace: "default", Name: "p"}}
	lbl := map[string]string{}
	if qos != c13Absent {
		lbl[extension.LabelPodQoS] = qos
	}
	if label != c13Absent {
		lbl[extension.LabelPodPriorityClass] = label
	}
	if len(lbl) > 0 {
		pod.Labels = lbl
	}
	if prio != nil {
		v := *prio
		pod.Spec.Priority = &v
	}
	mk := func(name, cpu string) corev1.Container {
		c := corev1.Container{Name: name, Image: "img"}
		c.Resources.Requests = corev1.ResourceList{corev1.ResourceMemory: resource.MustParse("1Gi")}
		c.Resources.Limits = corev1.ResourceList{corev1.ResourceMemory: resource.MustParse("1Gi")}
		if cpu != "" {
			c.Resources.Requests[corev1.ResourceCPU] = resource.MustParse(cpu)
			c.Resources.Limits[corev1.ResourceCPU] = resource.MustParse(cpu)
		}
		return c
	}
	for i, cpu := range s.CPU {
		pod.Spec.Containers = append(pod.Spec.Containers, mk(fmt.Sprintf("c%d", i), cpu))
	}
	if s.InitCPU != "" || batch == "init" {
		pod.Spec.InitContainers = append(pod.Spec.InitContainers, mk("init0", s.InitCPU))
	}
	if s.Overhead != "" {
		pod.Spec.Overhead = corev1.ResourceList{corev1.ResourceCPU: resource.MustParse(s.Overhead)}
	}
	set := func(c *corev1.Container, name corev1.ResourceName, q string, req bool) {
		if req {
			c.Resources.Requests[name] = resource.MustParse(q)
		}
		c.Resources.Limits[name] = resource.MustParse(q)
	}
	first, last := &pod.Spec.Containers[0], &pod.Spec.Containers[len(pod.Spec.Containers)-1]
	switch batch {
	case "cpu":
		set(first, extension.BatchCPU, "1000", true)
	case "mem":
		set(first, extension.BatchMemory, "1Gi", true)
	case "last":
		set(last, extension.BatchCPU, "1000", true)
		set(last, extension.BatchMemory, "1Gi", true)
	case "zero":
		set(first, extension.BatchCPU, "0", true)
		set(first, extension.BatchMemory, "0", true)
	case "limit-only":
		set(first, extension.BatchCPU, "1000", false)
	case "init":
		set(&pod.Spec.InitContainers[0], extension.BatchCPU, "1000", true)
	}
	return pod
}

func c13Request(op admissionv1.Operation, newPod, oldPod *corev1.Pod) admission.Request {
	req := admissionv1.AdmissionRequest{
		Resource:  metav1.GroupVersionResource{Group: "", Version: "v1", Resource: "pods"},
		Operation: op, Namespace: "default", Name: "p",
	}
	enc := func(p *corev1.Pod) runtime.RawExtension {
		p = p.DeepCopy()
		p.TypeMeta = metav1.TypeMeta{APIVersion: "v1", Kind: "Pod"}
		b, err := json.Marshal(p)
		if err != nil {
			panic(err)
		}
		return runtime.RawExtension{Raw: b}
	}
	if newPod != nil {
		req.Object = enc(newPod)
	}
	if oldPod != nil {
		req.OldObject = enc(oldPod)
	}
	return admission.Request{AdmissionRequest: req}
}

func c13Handler() *PodValidatingHandler {
	return &PodValidatingHandler{
		Client:  fake.NewClientBuilder().WithScheme(clientgoscheme.Scheme).Build(),
		Decoder: admission.NewDecoder(clientgoscheme.Scheme),
	}
}

// c13RunDirect executes the case on the real sub-handler and returns whether the pod is admitted.
func c13RunDirect(h *PodValidatingHandler, c c13VCase) (admitted bool, reason string) {
	newPod := c13Pod(c.QoS, c.Prio, c.PrioLabel, c.Shape, c.Batch)
	var oldPod *corev1.Pod
	op := admissionv1.Create
	if c.Op == "UPDATE" {
		op = admissionv1.Update
		oldPod = c13Pod(c.OldQoS, c.OldPrio, c.OldLabel, c.Shape, c.Batch)
	}
	req := admission.Request{AdmissionRequest: admissionv1.AdmissionRequest{
		Resource:  metav1.GroupVersionResource{Group: "", Version: "v1", Resource: "pods"},
		Operation: op, Namespace: "default", Name: "p"}}
	allowed, reason, err := h.clusterColocationProfileValidatingPod(context.TODO(), req, newPod, oldPod)
	// the caller (validatingPodFn) denies exactly when err != nil; `allowed` is what the sub-handler itself says.
	// The pod passes this stage only if both agree on "ok".
	return allowed && err == nil, reason
}

// c13RunHandle executes the case through the complete webhook handler (JSON in, admission response out).
func c13RunHandle(h *PodValidatingHandler, c c13VCase) (admitted bool, reason string) {
	newPod := c13Pod(c.QoS, c.Prio, c.PrioLabel, c.Shape, c.Batch)
	var oldPod *corev1.Pod
	op := admissionv1.Create
	if c.Op == "UPDATE" {
		op = admissionv1.Update
		oldPod = c13Pod(c.OldQoS, c.OldPrio, c.OldLabel, c.Shape, c.Batch)
	}
	resp := h.Handle(context.TODO(), c13Request(op, newPod, oldPod))
	msg := ""
	if resp.Result != nil {
		msg = resp.Result.Message
	}
	return resp.Allowed, msg
}

// ---------------------------------------------------------------------------------------------------------------
// alphabets

func c13PrioValues() []*int32 {
	vals := []int32{0}
	for _, r := range [][2]int32{
		{extension.PriorityProdValueMin, extension.PriorityProdValueMax},
		{extension.PriorityMidValueMin, extension.PriorityMidValueMax},
		{extension.PriorityBatchValueMin, extension.PriorityBatchValueMax},
		{extension.PriorityFreeValueMin, extension.PriorityFreeValueMax},
	} {
		vals = append(vals, r[0]-1, r[0], r[1], r[1]+1)
	}
	seen := map[int32]bool{}
	out := []*int32{nil}
	sort.Slice(vals, func(i, j int) bool { return vals[i] < vals[j] })
	for _, v := range vals {
		if !seen[v] {
			seen[v] = true
			x := v
			out = append(out, &x)
		}
	}
	return out
}

var (
	c13QoSLabels  = []string{c13Absent, "LSE", "LSR", "LS", "BE", "SYSTEM", "junk"}
	c13PrioLabels = []string{c13Absent, "koord-prod", "koord-mid", "koord-batch", "koord-free", "junk", ""}
)

func c13Shapes(thorough bool) []c13Shape {
	var out []c13Shape
	for _, c := range []string{"", "0", "1m", "500u", "500m", "999500u", "1", "1000500u", "1500m", "2"} {
		out = append(out, c13Shape{CPU: []string{c}})
	}
	for _, p := range [][2]string{{"500m", "500m"}, {"1", "500m"}, {"1", "1"}, {"", "1"}, {"999500u", "500u"}, {"", ""}, {"1m", "999500u"}} {
		out = append(out, c13Shape{CPU: []string{p[0], p[1]}})
	}
	if thorough {
		for _, cpu := range [][]string{{"1"}, {"500m"}, {"1", "1"}, {""}} {
			for _, init := range []string{"", "1500m", "3"} {
				for _, ov := range []string{"", "500m", "1"} {
					if init == "" && ov == "" {
						continue
					}
					out = append(out, c13Shape{CPU: cpu, InitCPU: init, Overhead: ov})
				}
			}
		}
	}
	return out
}

type c13PrioPair struct {
	V *int32
	L string
}

func c13PrioStr(p *int32) string {
	if p == nil {
		return "nil"
	}
	return fmt.Sprint(*p)
}

// c13Eval runs one case, judges it and accounts for it. run is the observation (direct sub-handler or Handle).
func c13Eval(res *mc.Result, l *mc.Local, c c13VCase, via string, run func(c13VCase) (bool, string)) {
	l.Evals++
	var admitted bool
	var reason string
	if ps := mc.Guard(func() { admitted, reason = run(c) }); ps != "" {
		res.Violate(mc.Violation{Key: "C13|validating|panic|" + via, What: ps + " case " + c.String(), Replay: c})
		return
	}
	rules := c13Judge(c)
	if admitted {
		l.Count("admitted", 1)
	} else {
		l.Count("denied", 1)
	}
	if len(rules) == 0 {
		if admitted {
			l.Count("no_rule_violated_and_admitted", 1)
		} else {
			// converse direction: never an alarm (the handler is free to have further rules)
			l.Count("diag_denied_without_listed_rule", 1)
			qa, qb := c13CPURequests(c.Shape)
			if q := c13QoSClass(c.QoS); (q == "LSR" || q == "LSE") && c13PositiveWhole(qa) != c13PositiveWhole(qb) {
				// init container / overhead: whole under one reading of "the pod requests", not under the other
				l.Count("diag_denied_whole_cpu_readings_disagree", 1)
			} else if c.Batch == "limit-only" {
				l.Count("diag_denied_batch_in_limits_only", 1)
			} else {
				l.Count("diag_denied_other", 1)
				res.Diag(fmt.Sprintf("denied although no listed rule is violated: %s reason=%q", c.String(), reason))
			}
		}
		return
	}
	l.Count("nontrivial_some_rule_violated", 1)
	for _, r := range rules {
		name := r
		if i := strings.Index(r, "|"); i >= 0 {
			name = r[:i]
		}
		l.Count("oracle_demands_denial_by_"+name, 1) // depends on the alphabet only
		if admitted {
			res.Violate(mc.Violation{
				Key:    "C13|validating|admitted|" + r,
				What:   fmt.Sprintf("pod admitted (observed at %s) although rule %q of the statement is violated (all violated rules: %v); request %s", via, r, rules, c.String()),
				Replay: c,
			})
		} else {
			l.Count("rule_"+name+"_violated_and_denied", 1)
			if len(rules) == 1 {
				// the rule on its own makes the handler deny: the clause is exercised in isolation
				l.Count("rule_"+name+"_alone_denied", 1)
			}
		}
	}
}

// c13Vacuity: oracle-side counters depend on the alphabet only; a zero there is a harness bug (the test fails, which
// the driver reports as machinery failure, never as a pass). Code-side counters at zero are reported as warnings.
func c13Vacuity(t *testing.T, res *mc.Result, complete bool, oracleSide, codeSide []string) {
	if !complete {
		return
	}
	for _, n := range oracleSide {
		if res.Counters[n] == 0 {
			t.Errorf("C13 %s: vacuous oracle clause, counter %s is 0", res.Part, n)
		}
	}
	for _, n := range codeSide {
		if res.Counters[n] == 0 {
			res.Diag("VACUITY WARNING: counter " + n + " is 0 in part " + res.Part)
		}
	}
}

func TestVerifC13Validating(t *testing.T) {
	env := mc.LoadEnv()
	debug.SetGCPercent(400)
	h := c13Handler()
	direct := func(c c13VCase) (bool, string) { return c13RunDirect(h, c) }
	handle := func(c c13VCase) (bool, string) { return c13RunHandle(h, c) }

	var rc c13VCase
	if part, ok := env.ReplayData(&rc); ok {
		if !strings.HasPrefix(part, "validating") {
			fmt.Printf("REPLAY: part %q belongs to the other C13 unit\n", part)
			return
		}
		a1, r1 := direct(rc)
		a2, r2 := handle(rc)
		fmt.Printf("REPLAY case=%s\n violated rules=%v\n sub-handler admitted=%v reason=%q\n Handle admitted=%v reason=%q\n",
			rc.String(), c13Judge(rc), a1, r1, a2, r2)
		return
	}

	prios := c13PrioValues()
	shapes := c13Shapes(env.Thorough())
	batches := []string{"none", "cpu", "mem", "last", "zero", "limit-only", "init"} // "init" in both tiers since seed C13-4
	assumptions := []string{
		"the priority class of a pod is the koordinator priority-class label when present, else the class whose range contains spec.priority (ranges read from extension.Priority*Value{Min,Max})",
		"'requests a batch resource' = a positive batch-cpu/batch-memory amount in some container's requests; an entry only in limits is not producible behind the API server's defaulting and is judged as diagnostic only",
		"on update old and new pod carry the same resources (pod resources are immutable in Kubernetes); only labels and priority differ",
		"with an init container or pod overhead the whole-CPU rule alarms only if the request is not a positive whole number both as sum of app containers and as Kubernetes effective request",
		"default feature gates",
	}

	// ---- part 1: CREATE, complete product ----------------------------------------------------------------
	{
		res := mc.NewResult("C13", "validating-create", "enumeration")
		ds := mc.NewDistinctSet()
		rx := mc.Radix{Dims: []int{len(c13QoSLabels), len(prios), len(c13PrioLabels), len(shapes), len(batches)}}
		done, complete := env.ParallelRangeL(res, rx.Size(), func(l *mc.Local, i int64) {
			d := rx.Decode(i, make([]int, 0, 8))
			c := c13VCase{Op: "CREATE", QoS: c13QoSLabels[d[0]], Prio: prios[d[1]], PrioLabel: c13PrioLabels[d[2]], Shape: shapes[d[3]], Batch: batches[d[4]]}
			c13Eval(res, l, c, "sub-handler", direct)
			if len(c13Judge(c)) > 0 {
				ds.Add(c.String())
			}
			if i%40009 == 7 {
				a, _ := direct(c)
				res.Sample(fmt.Sprintf("%s -> admitted=%v violated=%v", c.String(), a, c13Judge(c)))
			}
		})
		res.Traces, res.Distinct, res.Exhaustive = res.Evaluations, ds.Len(), complete
		if !complete {
			res.Capped = fmt.Sprintf("time budget hit after %d of %d cases", done, rx.Size())
		}
		res.Rule = fmt.Sprintf("CREATE of every pod in QoS label %v x spec.priority {nil,0, min-1,min,max,max+1 of the four class ranges} (%d values) x priority-class label %v x %d CPU shapes (1-2 containers, missing/zero/milli-fraction/sub-milli fraction/whole%s) x batch shapes %v; non-trivial = at least one rule of the statement is violated (the oracle demands a denial); distinct = distinct such requests",
			c13QoSLabels, len(prios), c13PrioLabels, len(shapes), map[bool]string{true: ", init container, overhead", false: ""}[env.Thorough()], batches)
		res.Bounds = map[string]any{"qos_labels": len(c13QoSLabels), "priority_values": len(prios), "priority_class_labels": len(c13PrioLabels), "cpu_shapes": len(shapes), "batch_shapes": len(batches), "cases": rx.Size()}
		res.Assumptions = assumptions
		c13Vacuity(t, res, complete,
			[]string{"oracle_demands_denial_by_be-with-no-priority", "oracle_demands_denial_by_be-with-prod", "oracle_demands_denial_by_lsr-without-prod", "oracle_demands_denial_by_whole-cpu", "oracle_demands_denial_by_batch-by-non-be"},
			[]string{"admitted", "denied", "no_rule_violated_and_admitted", "rule_be-with-no-priority_alone_denied", "rule_be-with-prod_alone_denied", "rule_lsr-without-prod_alone_denied", "rule_whole-cpu_alone_denied", "rule_batch-by-non-be_alone_denied"})
		env.Emit(res)
	}

	// ---- part 2: UPDATE, (old QoS, old priority) x (new QoS, new priority) x shapes ------------------------
	{
		res := mc.NewResult("C13", "validating-update", "enumeration")
		ds := mc.NewDistinctSet()
		var pairs []c13PrioPair
		if env.Thorough() {
			for _, v := range prios {
				for _, lb := range c13PrioLabels {
					pairs = append(pairs, c13PrioPair{v, lb})
				}
			}
		} else {
			// quick: value-only and label-only plus the label-overrides-value conflicts
			for _, v := range prios {
				pairs = append(pairs, c13PrioPair{v, c13Absent})
			}
			for _, lb := range c13PrioLabels[1:] {
				pairs = append(pairs, c13PrioPair{nil, lb})
			}
			pmax, bmin := extension.PriorityProdValueMax, extension.PriorityBatchValueMin
			pairs = append(pairs, c13PrioPair{&pmax, "koord-batch"}, c13PrioPair{&bmin, "koord-prod"}, c13PrioPair{&bmin, "junk"})
		}
		// the resource shape is independent of immutability; a reduced set keeps the product finite and still mixes
		// immutability with every other rule
		ushapes := []c13Shape{{CPU: []string{"1"}}, {CPU: []string{"500m"}}, {CPU: []string{""}}}
		ubatches := []string{"none", "cpu"}
		if env.Thorough() {
			ushapes = append(ushapes, c13Shape{CPU: []string{"999500u"}}, c13Shape{CPU: []string{"1", "1"}})
		}
		rx := mc.Radix{Dims: []int{len(c13QoSLabels), len(pairs), len(c13QoSLabels), len(pairs), len(ushapes), len(ubatches)}}
		done, complete := env.ParallelRangeL(res, rx.Size(), func(l *mc.Local, i int64) {
			d := rx.Decode(i, make([]int, 0, 8))
			c := c13VCase{Op: "UPDATE", QoS: c13QoSLabels[d[0]], Prio: pairs[d[1]].V, PrioLabel: pairs[d[1]].L,
				OldQoS: c13QoSLabels[d[2]], OldPrio: pairs[d[3]].V, OldLabel: pairs[d[3]].L, Shape: ushapes[d[4]], Batch: ubatches[d[5]]}
			c13Eval(res, l, c, "sub-handler", direct)
			rules := c13Judge(c)
			for _, r := range rules {
				if r == "qos-changed" || r == "priority-class-changed" {
					ds.Add(c.String())
					break
				}
			}
			// value changes inside one class are legal: count how often that is seen admitted (vacuity of the
			// "class, not value" reading)
			if len(rules) == 0 && c.PrioLabel == c13Absent && c.OldLabel == c13Absent && c13PrioStr(c.Prio) != c13PrioStr(c.OldPrio) {
				l.Count("update_value_changed_within_class_no_rule", 1)
			}
			if i%400009 == 11 {
				a, _ := direct(c)
				res.Sample(fmt.Sprintf("%s -> admitted=%v violated=%v", c.String(), a, rules))
			}
		})
		res.Traces, res.Distinct, res.Exhaustive = res.Evaluations, ds.Len(), complete
		if !complete {
			res.Capped = fmt.Sprintf("time budget hit after %d of %d cases", done, rx.Size())
		}
		res.Rule = fmt.Sprintf("UPDATE for every (new QoS label, new priority) x (old QoS label, old priority) with QoS labels %v and %d priority settings (value x priority-class label%s) x %d CPU shapes x batch %v; non-trivial/distinct = requests in which the QoS class or the priority class differs between old and new pod",
			c13QoSLabels, len(pairs), map[bool]string{true: ", full product", false: "; quick: value-only, label-only and three label-overrides-value conflicts"}[env.Thorough()], len(ushapes), ubatches)
		res.Bounds = map[string]any{"qos_labels": len(c13QoSLabels), "priority_settings": len(pairs), "cpu_shapes": len(ushapes), "batch_shapes": len(ubatches), "cases": rx.Size()}
		res.Assumptions = assumptions
		c13Vacuity(t, res, complete,
			[]string{"oracle_demands_denial_by_qos-changed", "oracle_demands_denial_by_priority-class-changed"},
			[]string{"admitted", "denied", "rule_qos-changed_alone_denied", "rule_priority-class-changed_alone_denied", "update_value_changed_within_class_no_rule"})
		env.Emit(res)
	}

	// ---- part 3: the complete handler (JSON request -> Handle -> response), reduced product, serial --------
	{
		res := mc.NewResult("C13", "validating-handle", "enumeration")
		ds := mc.NewDistinctSet()
		hq := []string{c13Absent, "LSE", "LSR", "LS", "BE", "junk"}
		var hp []c13PrioPair
		for _, v := range prios {
			hp = append(hp, c13PrioPair{v, c13Absent})
		}
		hp = append(hp, c13PrioPair{nil, "koord-prod"}, c13PrioPair{nil, "koord-batch"}, c13PrioPair{nil, "junk"})
		hs := []c13Shape{{CPU: []string{"1"}}, {CPU: []string{"500m"}}, {CPU: []string{""}}, {CPU: []string{"999500u"}}, {CPU: []string{"500m", "500m"}}}
		hb := []string{"none", "cpu", "zero"}
		var cases []c13VCase
		for _, q := range hq {
			for _, p := range hp {
				for _, s := range hs {
					for _, b := range hb {
						cases = append(cases, c13VCase{Op: "CREATE", QoS: q, Prio: p.V, PrioLabel: p.L, Shape: s, Batch: b})
					}
				}
				// updates: same resources, every old QoS x a reduced old-priority set
				for _, oq := range hq {
					for _, op := range hp {
						if !env.Thorough() && op.V != nil && op.L == c13Absent && c13PrioClass(op.L, op.V) == "" {
							continue // quick: old values inside a class range only (plus nil and the labels)
						}
						cases = append(cases, c13VCase{Op: "UPDATE", QoS: q, Prio: p.V, PrioLabel: p.L, OldQoS: oq, OldPrio: op.V, OldLabel: op.L, Shape: hs[0], Batch: "none"})
					}
				}
			}
		}
		// serial: the handler chain touches package-level singletons (elasticquota plugin)
		workers := env.Workers
		env.Workers = 1
		done, complete := env.ParallelRangeL(res, int64(len(cases)), func(l *mc.Local, i int64) {
			c := cases[i]
			c13Eval(res, l, c, "Handle", handle)
			if len(c13Judge(c)) > 0 {
				ds.Add(c.String())
			}
		})
		env.Workers = workers
		res.Traces, res.Distinct, res.Exhaustive = res.Evaluations, ds.Len(), complete
		if !complete {
			res.Capped = fmt.Sprintf("time budget hit after %d of %d cases", done, len(cases))
		}
		res.Rule = "reduced product (QoS labels x priority values/labels x 5 CPU shapes x batch {none,cpu,zero} for CREATE; x old QoS x old priority for UPDATE) sent as JSON AdmissionRequest through the complete PodValidatingHandler.Handle (decode, all sub-validators, response); same one-directional oracle on the response's Allowed flag; serial because the handler chain touches package-level singletons"
		res.Bounds = map[string]any{"cases": len(cases)}
		res.Assumptions = assumptions
		c13Vacuity(t, res, complete,
			[]string{"oracle_demands_denial_by_be-with-no-priority", "oracle_demands_denial_by_lsr-without-prod", "oracle_demands_denial_by_whole-cpu", "oracle_demands_denial_by_batch-by-non-be", "oracle_demands_denial_by_qos-changed", "oracle_demands_denial_by_priority-class-changed"},
			[]string{"admitted", "denied"})
		env.Emit(res)
	}
}
