package mutating

// C13 unit (b): the mutating webhook's mid/batch translation keeps the declared amounts.
//
// Exhaustive product over containers (1-2, + init container, overhead, pre-existing tier entries, stale summary
// annotation in the thorough tier) x request/limit quantities per resource x scenarios (sets of matching colocation
// profiles and the pod's own priority), executed on the real PodMutatingHandler.handleCreate (decoded from the JSON
// admission request like Handle does) and, for a reduced product, through Handle + JSON patch.
//
// Oracle (from the statement, exact rationals): when the pod is translated to a tier, for every container and for
// request and limit: the tier amount equals the native amount (CPU counted in milli-cores, closed rounding band
// [floor, ceil] for sub-milli inputs; memory exact), the native cpu/memory entries are gone; the per-container
// summary annotation equals the batch entries of the final spec; admitting the result again changes nothing.
// Anything the statement does not say (request defaulted from limit, overhead, pods that are not translated) is
// counted as a diagnostic only.

import (
	"context"
	"encoding/json"
	"fmt"
	"math/big"
	"runtime/debug"
	"sort"
	"strings"
	"testing"

	jsonpatch "github.com/evanphx/json-patch"
	admissionv1 "k8s.io/api/admission/v1"
	corev1 "k8s.io/api/core/v1"
	schedulingv1 "k8s.io/api/scheduling/v1"
	"k8s.io/apimachinery/pkg/api/resource"
	metav1 "k8s.io/apimachinery/pkg/apis/meta/v1"
	"k8s.io/apimachinery/pkg/util/intstr"
	"k8s.io/apimachinery/pkg/runtime"
	clientgoscheme "k8s.io/client-go/kubernetes/scheme"
	"sigs.k8s.io/controller-runtime/pkg/client"
	"sigs.k8s.io/controller-runtime/pkg/client/fake"
	"sigs.k8s.io/controller-runtime/pkg/webhook/admission"

	configv1alpha1 "github.com/koordinator-sh/koordinator/apis/config/v1alpha1"
	"github.com/koordinator-sh/koordinator/apis/extension"
	"github.com/koordinator-sh/koordinator/pkg/zzverif/mc"
)

func init() {
	_ = configv1alpha1.AddToScheme(clientgoscheme.Scheme)
}

const c13Absent = "<absent>"

func c13R(a, b int64) *big.Rat { return big.NewRat(a, b) }

// exact values of the quantity alphabet ("" = entry absent)
var c13Val = map[string]*big.Rat{
	"":         nil,
	"0":        c13R(0, 1),
	"1m":       c13R(1, 1000),
	"500u":     c13R(1, 2000), // 0.0005
	"250m":     c13R(1, 4),
	"500m":     c13R(1, 2),
	"1":        c13R(1, 1),
	"1000500u": c13R(10005, 10000),
	"1500m":    c13R(3, 2),
	"2":        c13R(2, 1),
	"7":        c13R(7, 1),
	"1000":     c13R(1000, 1),
	"1Ki":      c13R(1024, 1),
	"1048577":  c13R(1048577, 1), // 1Mi+1
	"1Mi":      c13R(1048576, 1),
	"1G":       c13R(1000000000, 1),
}

// c13Res: the native entries of one container.
type c13Res struct {
	CPUReq string `json:"cpu_req"`
	CPULim string `json:"cpu_lim"`
	MemReq string `json:"mem_req"`
	MemLim string `json:"mem_lim"`
}

// c13MCase is one admission request of the mutating unit (also the replay payload).
type c13MCase struct {
	Scenario   string   `json:"scenario"`
	Containers []c13Res `json:"containers"`
	Init       *c13Res  `json:"init,omitempty"`
	Overhead   bool     `json:"overhead,omitempty"`  // spec.overhead {cpu: 250m, memory: 1Mi}
	PreTier    bool     `json:"pre_tier,omitempty"`  // container c0 already carries <tier>-cpu 1000 / <tier>-memory 1000 in requests and limits
	StaleAnno  bool     `json:"stale_anno,omitempty"` // the pod arrives with a summary annotation that does not match its spec
}

func (c c13MCase) String() string {
	b, _ := json.Marshal(c)
	return string(b)
}

// ---------------------------------------------------------------------------------------------------------------
// scenarios: cluster content (profiles, priority classes) and pod identity

type c13Scenario struct {
	Name     string
	Profiles []*configv1alpha1.ClusterColocationProfile
	PodLabel bool   // the pod carries the label the profiles select on
	PodPrio  *int32 // the pod's own spec.priority
	PodPCL   string // the pod's own priority-class label
	// harness knowledge about the environment it built (not derived from the code):
	Matched bool   // at least one profile selects the pod
	Skip    bool   // a selecting profile carries the skip-update-resources annotation
	Tier    string // nominal tier, used only to place pre-existing tier entries ("batch"|"mid")

	// one handler (fake client) per worker: the fake client serialises all readers on one lock
	hs []*PodMutatingHandler
}

func (sc *c13Scenario) handler(worker int) *PodMutatingHandler { return sc.hs[worker%len(sc.hs)] }

func c13I32(v int32) *int32 { return &v }

func c13Profile(name string, mut func(p *configv1alpha1.ClusterColocationProfile)) *configv1alpha1.ClusterColocationProfile {
	p := &configv1alpha1.ClusterColocationProfile{
		ObjectMeta: metav1.ObjectMeta{Name: name},
		Spec: configv1alpha1.ClusterColocationProfileSpec{
			Selector: &metav1.LabelSelector{MatchLabels: map[string]string{"c13/colocation": "y"}},
		},
	}
	mut(p)
	return p
}

func c13Scenarios(workers int) []*c13Scenario {
	batch := func(pc string) func(p *configv1alpha1.ClusterColocationProfile) {
		return func(p *configv1alpha1.ClusterColocationProfile) {
			p.Spec.QoSClass = "BE"
			p.Spec.PriorityClassName = pc
			p.Spec.SchedulerName = "koord-scheduler"
		}
	}
	mid := func(pc string) func(p *configv1alpha1.ClusterColocationProfile) {
		return func(p *configv1alpha1.ClusterColocationProfile) {
			p.Spec.QoSClass = "LS"
			p.Spec.PriorityClassName = pc
		}
	}
	labelsOnly := func(p *configv1alpha1.ClusterColocationProfile) {
		p.Spec.Labels = map[string]string{"c13/managed": "true"}
		p.Spec.KoordinatorPriority = c13I32(1111)
	}
	skipAnno := func(f func(p *configv1alpha1.ClusterColocationProfile)) func(p *configv1alpha1.ClusterColocationProfile) {
		return func(p *configv1alpha1.ClusterColocationProfile) {
			f(p)
			p.Annotations = map[string]string{extension.AnnotationSkipUpdateResource: "true"}
		}
	}
	P := func(ps ...*configv1alpha1.ClusterColocationProfile) []*configv1alpha1.ClusterColocationProfile {
		return ps
	}
	scs := []*c13Scenario{
		{Name: "no-profiles/pod-batch", PodLabel: true, PodPrio: c13I32(extension.PriorityBatchValueMin), Tier: "batch"},
		{Name: "profile-not-matching", Profiles: P(c13Profile("a", batch("pc-batch-max"))), PodLabel: false, Tier: "batch"},
		{Name: "one-batch-max", Profiles: P(c13Profile("a", batch("pc-batch-max"))), PodLabel: true, Matched: true, Tier: "batch"},
		{Name: "one-batch-min", Profiles: P(c13Profile("a", batch("pc-batch-min"))), PodLabel: true, Matched: true, Tier: "batch"},
		{Name: "one-mid-min", Profiles: P(c13Profile("a", mid("pc-mid-min"))), PodLabel: true, Matched: true, Tier: "mid"},
		{Name: "one-mid-max", Profiles: P(c13Profile("a", mid("pc-mid-max"))), PodLabel: true, Matched: true, Tier: "mid"},
		{Name: "two-batch+labels", Profiles: P(c13Profile("a", batch("pc-batch-min")), c13Profile("b", labelsOnly)), PodLabel: true, Matched: true, Tier: "batch"},
		{Name: "two-mid-then-batch", Profiles: P(c13Profile("a", mid("pc-mid-max")), c13Profile("b", batch("pc-batch-max"))), PodLabel: true, Matched: true, Tier: "batch"},
		{Name: "two-batch-then-mid", Profiles: P(c13Profile("a", batch("pc-batch-max")), c13Profile("b", mid("pc-mid-min"))), PodLabel: true, Matched: true, Tier: "mid"},
		{Name: "one-batch-nsselector", Profiles: P(c13Profile("a", func(p *configv1alpha1.ClusterColocationProfile) {
			batch("pc-batch-max")(p)
			p.Spec.NamespaceSelector = &metav1.LabelSelector{MatchLabels: map[string]string{"c13/ns": "y"}}
		})), PodLabel: true, Matched: true, Tier: "batch"},
		{Name: "pod-batch+labels-profile", Profiles: P(c13Profile("a", labelsOnly)), PodLabel: true, PodPrio: c13I32(extension.PriorityBatchValueMax), Matched: true, Tier: "batch"},
		{Name: "pod-label-mid+labels-profile", Profiles: P(c13Profile("a", labelsOnly)), PodLabel: true, PodPCL: "koord-mid", Matched: true, Tier: "mid"},
		// the only selecting profile is skipped by its probability (0%): nothing of the profile is applied, the pod keeps its
		// own mid / batch priority and its resources are still translated - and that translation is then the ONLY mutation
		// of the request (seed C13-7: its "mutated" result did not reach the patch)
		{Name: "pod-label-mid+labels-profile-probability-0", Profiles: P(c13Profile("a", func(p *configv1alpha1.ClusterColocationProfile) {
			labelsOnly(p)
			zero := intstr.FromString("0%")
			p.Spec.Probability = &zero
		})), PodLabel: true, PodPCL: "koord-mid", Matched: true, Tier: "mid"},
		{Name: "pod-batch+labels-profile-probability-0", Profiles: P(c13Profile("a", func(p *configv1alpha1.ClusterColocationProfile) {
			labelsOnly(p)
			zero := intstr.FromString("0%")
			p.Spec.Probability = &zero
		})), PodLabel: true, PodPrio: c13I32(extension.PriorityBatchValueMax), Matched: true, Tier: "batch"},
		{Name: "skip-annotation", Profiles: P(c13Profile("a", skipAnno(batch("pc-batch-max")))), PodLabel: true, Matched: true, Skip: true, Tier: "batch"},
		{Name: "two-batch+skip-labels", Profiles: P(c13Profile("a", batch("pc-batch-max")), c13Profile("b", skipAnno(labelsOnly))), PodLabel: true, Matched: true, Skip: true, Tier: "batch"},
		{Name: "one-prod", Profiles: P(c13Profile("a", func(p *configv1alpha1.ClusterColocationProfile) {
			p.Spec.QoSClass = "LS"
			p.Spec.PriorityClassName = "pc-prod"
		})), PodLabel: true, Matched: true, Tier: "batch"},
		{Name: "one-free", Profiles: P(c13Profile("a", func(p *configv1alpha1.ClusterColocationProfile) {
			p.Spec.QoSClass = "BE"
			p.Spec.PriorityClassName = "pc-free"
		})), PodLabel: true, Matched: true, Tier: "batch"},
		{Name: "be-without-priority", Profiles: P(c13Profile("a", func(p *configv1alpha1.ClusterColocationProfile) {
			p.Spec.QoSClass = "BE"
		})), PodLabel: true, Matched: true, Tier: "batch"},
	}
	for _, sc := range scs {
		if sc.PodPCL == "" {
			sc.PodPCL = c13Absent
		}
		objs := []client.Object{
			&corev1.Namespace{ObjectMeta: metav1.ObjectMeta{Name: "default", Labels: map[string]string{"c13/ns": "y"}}},
		}
		for name, v := range map[string]int32{
			"pc-batch-min": extension.PriorityBatchValueMin, "pc-batch-max": extension.PriorityBatchValueMax,
			"pc-mid-min": extension.PriorityMidValueMin, "pc-mid-max": extension.PriorityMidValueMax,
			"pc-prod": extension.PriorityProdValueMin, "pc-free": extension.PriorityFreeValueMax,
		} {
			objs = append(objs, &schedulingv1.PriorityClass{ObjectMeta: metav1.ObjectMeta{Name: name}, Value: v})
		}
		for _, p := range sc.Profiles {
			objs = append(objs, p.DeepCopy())
		}
		for w := 0; w < workers; w++ {
			var cp []client.Object
			for _, o := range objs {
				cp = append(cp, o.DeepCopyObject().(client.Object))
			}
			sc.hs = append(sc.hs, &PodMutatingHandler{
				Client:  fake.NewClientBuilder().WithScheme(clientgoscheme.Scheme).WithObjects(cp...).Build(),
				Decoder: admission.NewDecoder(clientgoscheme.Scheme),
			})
		}
	}
	return scs
}

// ---------------------------------------------------------------------------------------------------------------
// reference model

func c13PrioClass(label string, prio *int32) string {
	if label != c13Absent {
		switch label {
		case "koord-prod", "koord-mid", "koord-batch", "koord-free":
			return label
		}
		return ""
	}
	if prio == nil {
		return ""
	}
	p := *prio
	switch {
	case p >= extension.PriorityProdValueMin && p <= extension.PriorityProdValueMax:
		return "koord-prod"
	case p >= extension.PriorityMidValueMin && p <= extension.PriorityMidValueMax:
		return "koord-mid"
	case p >= extension.PriorityBatchValueMin && p <= extension.PriorityBatchValueMax:
		return "koord-batch"
	case p >= extension.PriorityFreeValueMin && p <= extension.PriorityFreeValueMax:
		return "koord-free"
	}
	return ""
}

type c13Tier struct {
	Name     string
	CPU, Mem corev1.ResourceName
}

var (
	c13Batch = c13Tier{"batch", extension.BatchCPU, extension.BatchMemory}
	c13Mid   = c13Tier{"mid", extension.MidCPU, extension.MidMemory}
)

func c13TierByName(n string) c13Tier {
	if n == "mid" {
		return c13Mid
	}
	return c13Batch
}

// c13Rat converts a quantity to its exact value.
func c13Rat(q resource.Quantity) *big.Rat {
	d := q.AsDec() // q is a copy
	r := new(big.Rat).SetInt(d.UnscaledBig())
	sc := int64(d.Scale())
	if sc > 0 {
		r.Quo(r, new(big.Rat).SetInt(new(big.Int).Exp(big.NewInt(10), big.NewInt(sc), nil)))
	} else if sc < 0 {
		r.Mul(r, new(big.Rat).SetInt(new(big.Int).Exp(big.NewInt(10), big.NewInt(-sc), nil)))
	}
	return r
}

func c13Get(l corev1.ResourceList, n corev1.ResourceName) *big.Rat {
	q, ok := l[n]
	if !ok {
		return nil
	}
	return c13Rat(q)
}

func c13Eq(a, b *big.Rat) bool {
	if a == nil || b == nil {
		return a == nil && b == nil
	}
	return a.Cmp(b) == 0
}

func c13S(r *big.Rat) string {
	if r == nil {
		return "absent"
	}
	return r.RatString()
}

// ---------------------------------------------------------------------------------------------------------------
// real objects

func c13Container(name string, r c13Res) corev1.Container {
	c := corev1.Container{Name: name, Image: "img"}
	put := func(l *corev1.ResourceList, n corev1.ResourceName, s string) {
		if s == "" {
			return
		}
		if *l == nil {
			*l = corev1.ResourceList{}
		}
		(*l)[n] = resource.MustParse(s)
	}
	put(&c.Resources.Requests, corev1.ResourceCPU, r.CPUReq)
	put(&c.Resources.Limits, corev1.ResourceCPU, r.CPULim)
	put(&c.Resources.Requests, corev1.ResourceMemory, r.MemReq)
	put(&c.Resources.Limits, corev1.ResourceMemory, r.MemLim)
	return c
}

const c13StaleAnnotation = `{"containers":{"c0":{"limits":{"kubernetes.io/batch-cpu":"7"},"requests":{"kubernetes.io/batch-cpu":"7","kubernetes.io/batch-memory":"7"}},"ghost":{"requests":{"kubernetes.io/batch-cpu":"7"}}}}`

func c13InputPod(sc *c13Scenario, c c13MCase) *corev1.Pod {
	pod := &corev1.Pod{
		TypeMeta:   metav1.TypeMeta{APIVersion: "v1", Kind: "Pod"},
		ObjectMeta: metav1.ObjectMeta{Namespace: "default", Name: "p", Labels: map[string]string{"app": "x"}},
	}
	if sc.PodLabel {
		pod.Labels["c13/colocation"] = "y"
	}
	if sc.PodPCL != c13Absent {
		pod.Labels[extension.LabelPodPriorityClass] = sc.PodPCL
	}
	if sc.PodPrio != nil {
		pod.Spec.Priority = c13I32(*sc.PodPrio)
	}
	for i, r := range c.Containers {
		pod.Spec.Containers = append(pod.Spec.Containers, c13Container(fmt.Sprintf("c%d", i), r))
	}
	if c.Init != nil {
		pod.Spec.InitContainers = append(pod.Spec.InitContainers, c13Container("init0", *c.Init))
	}
	if c.Overhead {
		pod.Spec.Overhead = corev1.ResourceList{corev1.ResourceCPU: resource.MustParse("250m"), corev1.ResourceMemory: resource.MustParse("1Mi")}
	}
	if c.PreTier {
		t := c13TierByName(sc.Tier)
		c0 := &pod.Spec.Containers[0]
		if c0.Resources.Requests == nil {
			c0.Resources.Requests = corev1.ResourceList{}
		}
		if c0.Resources.Limits == nil {
			c0.Resources.Limits = corev1.ResourceList{}
		}
		for _, l := range []corev1.ResourceList{c0.Resources.Requests, c0.Resources.Limits} {
			l[t.CPU] = resource.MustParse("1000")
			l[t.Mem] = resource.MustParse("1000")
		}
	}
	if c.StaleAnno {
		pod.Annotations = map[string]string{extension.AnnotationExtendedResourceSpec: c13StaleAnnotation}
	}
	return pod
}

func c13AdmissionRequest(op admissionv1.Operation, raw []byte) admission.Request {
	return admission.Request{AdmissionRequest: admissionv1.AdmissionRequest{
		Resource:  metav1.GroupVersionResource{Group: "", Version: "v1", Resource: "pods"},
		Operation: op, Namespace: "default", Name: "p",
		Object: runtime.RawExtension{Raw: raw},
	}}
}

// c13Admit runs one admission of the raw pod on the real code: decode like Handle, then the create/update chain.
func c13Admit(h *PodMutatingHandler, op admissionv1.Operation, raw []byte) (out *corev1.Pod, mutated bool, err error) {
	req := c13AdmissionRequest(op, raw)
	obj := &corev1.Pod{}
	if err := h.Decoder.Decode(req, obj); err != nil {
		return nil, false, fmt.Errorf("decode: %v", err)
	}
	if op == admissionv1.Update {
		mutated, err = h.handleUpdate(context.TODO(), req, obj)
	} else {
		mutated, err = h.handleCreate(context.TODO(), req, obj)
	}
	return obj, mutated, err
}

// c13AdmitViaHandle runs the complete Handle and applies the returned JSON patch to the request object.
func c13AdmitViaHandle(h *PodMutatingHandler, op admissionv1.Operation, raw []byte) (out *corev1.Pod, mutated bool, err error) {
	resp := h.Handle(context.TODO(), c13AdmissionRequest(op, raw))
	if !resp.Allowed {
		msg := ""
		if resp.Result != nil {
			msg = resp.Result.Message
		}
		return nil, false, fmt.Errorf("not allowed: %s", msg)
	}
	final := raw
	if len(resp.Patches) > 0 {
		pb, err := json.Marshal(resp.Patches)
		if err != nil {
			return nil, false, err
		}
		patch, err := jsonpatch.DecodePatch(pb)
		if err != nil {
			return nil, false, err
		}
		if final, err = patch.Apply(raw); err != nil {
			return nil, false, fmt.Errorf("apply patch %s: %v", pb, err)
		}
	}
	obj := &corev1.Pod{}
	if err := json.Unmarshal(final, obj); err != nil {
		return nil, false, err
	}
	return obj, len(resp.Patches) > 0, nil
}

// ---------------------------------------------------------------------------------------------------------------
// judging

type c13Acc struct {
	res   *mc.Result
	l     *mc.Local
	c     c13MCase
	via   string
	viols int
	// diagOnly: the pod was not translated; the statement's clauses are scoped to translated pods, so a mismatch
	// is recorded as a diagnostic and never alarms
	diagOnly bool
}

func (a *c13Acc) violate(key, what string) {
	if a.diagOnly {
		if i := strings.Index(key, "|"); i > 0 {
			key = key[:i]
		}
		a.l.Count("diag_untranslated_pod_"+key, 1)
		a.res.Diag(fmt.Sprintf("untranslated pod (diagnostic only): %s; case %s", what, a.c.String()))
		return
	}
	a.viols++
	a.res.Violate(mc.Violation{Key: "C13|mutating|" + key, What: fmt.Sprintf("%s; observed at %s; case %s", what, a.via, a.c.String()), Replay: a.c})
}

type c13ContainerIO struct {
	name string
	in   c13Res
	pre  bool // pre-existing tier entries (1000) in requests and limits
	out  *corev1.Container
}

// c13JudgeTranslation checks the amount / native-removal clauses for one container under tier t.
func (a *c13Acc) judgeContainer(t c13Tier, k c13ContainerIO) {
	type entry struct {
		list     string
		res      string
		in       string
		native   corev1.ResourceName
		tier     corev1.ResourceName
		outList  corev1.ResourceList
		milli    bool
		otherLim corev1.ResourceList
	}
	entries := []entry{
		{"requests", "cpu", k.in.CPUReq, corev1.ResourceCPU, t.CPU, k.out.Resources.Requests, true, k.out.Resources.Limits},
		{"limits", "cpu", k.in.CPULim, corev1.ResourceCPU, t.CPU, k.out.Resources.Limits, true, nil},
		{"requests", "memory", k.in.MemReq, corev1.ResourceMemory, t.Mem, k.out.Resources.Requests, false, k.out.Resources.Limits},
		{"limits", "memory", k.in.MemLim, corev1.ResourceMemory, t.Mem, k.out.Resources.Limits, false, nil},
	}
	for _, e := range entries {
		in := c13Val[e.in]
		nat := c13Get(e.outList, e.native)
		got := c13Get(e.outList, e.tier)
		var pre *big.Rat
		if k.pre {
			pre = c13R(1000, 1)
		}
		// clause: native entries are removed
		if nat != nil {
			a.violate("native-entry-kept|"+e.list+"|"+e.res,
				fmt.Sprintf("container %s of a pod translated to tier %s still has the native %s entry %s in %s", k.name, t.Name, e.res, c13S(nat), e.list))
		} else if in != nil {
			a.l.Count("clause_native_removed_"+e.list+"_"+e.res, 1)
		}
		// clause: amounts are kept
		switch {
		case in != nil:
			if got == nil {
				a.violate("amount-lost|"+e.list+"|"+e.res,
					fmt.Sprintf("container %s: native %s %s=%s has no %s-tier counterpart after translation", k.name, e.list, e.res, c13S(in), t.Name))
				continue
			}
			want := new(big.Rat).Set(in)
			ok := false
			if e.milli {
				// CPU is counted in milli-cores; a sub-milli input cannot be represented, the closed band
				// [floor, ceil] of the exact milli value is accepted
				want.Mul(want, c13R(1000, 1))
				if want.IsInt() {
					ok = got.Cmp(want) == 0
				} else {
					fl := new(big.Int).Quo(want.Num(), want.Denom()) // positive: Quo truncates = floor
					lo := new(big.Rat).SetInt(fl)
					hi := new(big.Rat).SetInt(new(big.Int).Add(fl, big.NewInt(1)))
					ok = got.Cmp(lo) == 0 || got.Cmp(hi) == 0
					if ok {
						if got.Cmp(hi) == 0 {
							a.l.Count("diag_sub_milli_cpu_rounded_up", 1)
						} else {
							a.l.Count("diag_sub_milli_cpu_rounded_down", 1)
						}
					}
				}
			} else {
				ok = got.Cmp(want) == 0
			}
			if !ok && pre != nil && got.Cmp(pre) == 0 {
				// both a native and a pre-existing tier entry: the statement does not say which one wins
				a.l.Count("diag_pre_existing_tier_entry_won_over_native", 1)
				ok = true
			}
			if !ok {
				unit := "bytes"
				if e.milli {
					unit = "milli-cores"
				}
				a.violate("amount-changed|"+e.list+"|"+e.res,
					fmt.Sprintf("container %s: %s %s was %s, the %s-tier entry is %s but must be %s %s", k.name, e.list, e.res, e.in, t.Name, c13S(got), c13S(want), unit))
			} else {
				a.l.Count("clause_amount_kept_"+e.list+"_"+e.res, 1)
			}
		case pre != nil:
			// no native entry, the tier entry the pod came with must keep its amount
			if !c13Eq(got, pre) {
				a.violate("amount-changed|"+e.list+"|"+e.res+"|pre-existing",
					fmt.Sprintf("container %s: pre-existing %s-tier %s %s=1000 became %s", k.name, t.Name, e.list, e.res, c13S(got)))
			} else {
				a.l.Count("clause_pre_existing_tier_amount_kept", 1)
			}
		default:
			// neither native nor tier entry on input: nothing may be invented. A request equal to the (translated)
			// limit is what Kubernetes' own defaulting means by a missing request, so it is accepted and counted.
			if got == nil {
				a.l.Count("clause_absent_stays_absent_"+e.list, 1)
				continue
			}
			if e.otherLim != nil {
				if lim := c13Get(e.otherLim, e.tier); lim != nil && lim.Cmp(got) == 0 {
					a.l.Count("diag_missing_request_defaulted_from_limit", 1)
					continue
				}
			}
			a.violate("amount-invented|"+e.list+"|"+e.res,
				fmt.Sprintf("container %s: no %s %s was declared but the %s-tier entry is %s", k.name, e.list, e.res, t.Name, c13S(got)))
		}
	}
}

type c13AnnoSpec struct {
	Containers map[string]struct {
		Limits   map[string]string `json:"limits"`
		Requests map[string]string `json:"requests"`
	} `json:"containers"`
}

// judgeAnnotation: the per-container summary annotation equals the batch entries of the final spec.
func (a *c13Acc) judgeAnnotation(p *corev1.Pod) {
	var spec c13AnnoSpec
	raw, has := p.Annotations[extension.AnnotationExtendedResourceSpec]
	if has {
		if err := json.Unmarshal([]byte(raw), &spec); err != nil {
			a.violate("annotation|unparsable", fmt.Sprintf("summary annotation %q does not parse: %v", raw, err))
			return
		}
	}
	names := []corev1.ResourceName{extension.BatchCPU, extension.BatchMemory}
	final := map[string]*corev1.Container{}
	for i := range p.Spec.InitContainers {
		final[p.Spec.InitContainers[i].Name] = &p.Spec.InitContainers[i]
	}
	for i := range p.Spec.Containers {
		final[p.Spec.Containers[i].Name] = &p.Spec.Containers[i]
	}
	cmp := func(cname, list string, fin corev1.ResourceList, ann map[string]string) {
		for _, n := range names {
			want := c13Get(fin, n)
			var got *big.Rat
			if s, ok := ann[string(n)]; ok {
				q, err := resource.ParseQuantity(s)
				if err != nil {
					a.violate("annotation|unparsable", fmt.Sprintf("summary annotation quantity %q: %v", s, err))
					return
				}
				got = c13Rat(q)
			}
			if !c13Eq(want, got) {
				a.violate("annotation|mismatch|"+list,
					fmt.Sprintf("container %s: final spec has %s[%s]=%s but the summary annotation says %s (annotation %s)", cname, list, n, c13S(want), c13S(got), raw))
			} else if want != nil && !a.diagOnly {
				a.l.Count("clause_annotation_entry_matches", 1)
			}
		}
		for n := range ann {
			if n != string(extension.BatchCPU) && n != string(extension.BatchMemory) {
				// other resources in the summary: must still agree with the spec
				want := c13Get(fin, corev1.ResourceName(n))
				q, err := resource.ParseQuantity(ann[n])
				if err != nil || !c13Eq(want, c13Rat(q)) {
					a.violate("annotation|mismatch|"+list, fmt.Sprintf("container %s: summary annotation has %s[%s]=%s, final spec has %s", cname, list, n, ann[n], c13S(want)))
				}
			}
		}
	}
	// every app container with batch entries is summarised correctly
	for i := range p.Spec.Containers {
		c := &p.Spec.Containers[i]
		e := spec.Containers[c.Name]
		cmp(c.Name, "requests", c.Resources.Requests, e.Requests)
		cmp(c.Name, "limits", c.Resources.Limits, e.Limits)
	}
	// every summarised container exists and agrees (a summary that also covers init containers is fine)
	for name, e := range spec.Containers {
		c := final[name]
		if c == nil {
			a.violate("annotation|unknown-container", fmt.Sprintf("summary annotation describes container %q which is not in the final spec (annotation %s)", name, raw))
			continue
		}
		isApp := false
		for i := range p.Spec.Containers {
			if p.Spec.Containers[i].Name == name {
				isApp = true
			}
		}
		if !isApp {
			cmp(name, "requests", c.Resources.Requests, e.Requests)
			cmp(name, "limits", c.Resources.Limits, e.Limits)
		}
	}
	switch {
	case a.diagOnly:
		a.l.Count("untranslated_annotation_judged_as_diagnostic", 1)
	case len(spec.Containers) > 0:
		a.l.Count("clause_annotation_nonempty_checked", 1)
	default:
		a.l.Count("annotation_empty_or_absent_on_translated_pod", 1)
	}
}

func c13HasTier(l corev1.ResourceList, t c13Tier) bool {
	_, a := l[t.CPU]
	_, b := l[t.Mem]
	return a || b
}

type c13Admitter func(h *PodMutatingHandler, op admissionv1.Operation, raw []byte) (*corev1.Pod, bool, error)

// c13Eval runs one case on the real code and judges it. It returns whether the pod was translated.
func c13Eval(res *mc.Result, l *mc.Local, ds *mc.DistinctSet, sc *c13Scenario, c c13MCase, via string, admit c13Admitter) {
	l.Evals++
	a := &c13Acc{res: res, l: l, c: c, via: via}
	h := sc.handler(l.Worker)
	in := c13InputPod(sc, c)
	raw, err := json.Marshal(in)
	if err != nil {
		panic(err)
	}
	var p1 *corev1.Pod
	var m1 bool
	if ps := mc.Guard(func() { p1, m1, err = admit(h, admissionv1.Create, raw) }); ps != "" {
		a.violate("panic", ps)
		return
	}
	if err != nil {
		// an error rejects the pod: nothing is admitted, the statement is silent. Diagnostic.
		l.Count("diag_admission_error", 1)
		res.Diag(fmt.Sprintf("admission error %v for %s", err, c.String()))
		return
	}
	if m1 {
		l.Count("first_pass_reported_mutated", 1)
	}

	// ---- which tier, if any, was the pod translated to -------------------------------------------------------
	pcl := c13Absent
	if v, ok := p1.Labels[extension.LabelPodPriorityClass]; ok {
		pcl = v
	}
	class := c13PrioClass(pcl, p1.Spec.Priority)
	var tier *c13Tier
	expected := sc.Matched && !sc.Skip && (class == "koord-batch" || class == "koord-mid")
	if expected {
		t := c13Batch
		if class == "koord-mid" {
			t = c13Mid
		}
		tier = &t
		l.Count("translation_expected_"+t.Name, 1)
	} else {
		// not a mid/batch pod by its own priority (or resources are to be skipped): if the webhook translated
		// anyway (e.g. BE pods without priority default to batch), the same clauses apply to what it did.
		// Observed = some container has a tier entry it did not come with.
		had := func(name string, t c13Tier) bool { return c.PreTier && name == "c0" && sc.Tier == t.Name }
		inOf := func(name string) (c13Res, bool) {
			if name == "init0" && c.Init != nil {
				return *c.Init, true
			}
			for i := range c.Containers {
				if name == fmt.Sprintf("c%d", i) {
					return c.Containers[i], true
				}
			}
			return c13Res{}, false
		}
		for _, t := range []c13Tier{c13Batch, c13Mid} {
			for _, lists := range [][]corev1.Container{p1.Spec.Containers, p1.Spec.InitContainers} {
				for i := range lists {
					k := &lists[i]
					gained := false
					if !had(k.Name, t) {
						gained = c13HasTier(k.Resources.Requests, t) || c13HasTier(k.Resources.Limits, t)
					} else if r, ok := inOf(k.Name); ok {
						// the container came with tier entries: translated iff a native entry it came with is gone
						_, a1 := k.Resources.Requests[corev1.ResourceCPU]
						_, a2 := k.Resources.Limits[corev1.ResourceCPU]
						_, a3 := k.Resources.Requests[corev1.ResourceMemory]
						_, a4 := k.Resources.Limits[corev1.ResourceMemory]
						gained = (r.CPUReq != "" && !a1) || (r.CPULim != "" && !a2) || (r.MemReq != "" && !a3) || (r.MemLim != "" && !a4)
					}
					if gained && tier == nil {
						tt := t
						tier = &tt
					}
				}
			}
		}
		if tier != nil {
			l.Count("translation_observed_without_mid_batch_priority", 1)
		}
	}

	ios := []c13ContainerIO{}
	for i := range p1.Spec.Containers {
		if i < len(c.Containers) {
			ios = append(ios, c13ContainerIO{name: p1.Spec.Containers[i].Name, in: c.Containers[i], pre: c.PreTier && i == 0, out: &p1.Spec.Containers[i]})
		}
	}
	if c.Init != nil && len(p1.Spec.InitContainers) == 1 {
		ios = append(ios, c13ContainerIO{name: "init0", in: *c.Init, out: &p1.Spec.InitContainers[0]})
	}
	if len(p1.Spec.Containers) != len(c.Containers) {
		a.violate("containers-changed", fmt.Sprintf("the pod had %d containers, after admission %d", len(c.Containers), len(p1.Spec.Containers)))
		return
	}

	if tier != nil {
		for _, k := range ios {
			if c.PreTier && k.pre && sc.Tier != tier.Name {
				k.pre = false // the pre-existing entries belong to the other tier; not judged
			}
			a.judgeContainer(*tier, k)
		}
		if c.Overhead {
			if _, ok := p1.Spec.Overhead[corev1.ResourceCPU]; ok {
				l.Count("diag_overhead_native_cpu_kept", 1)
			} else {
				l.Count("diag_overhead_translated", 1)
			}
		}
	} else {
		l.Count("not_translated", 1)
		// diagnostic only: a pod that is not translated should keep its native entries
		changed := false
		for _, k := range ios {
			if !c13Eq(c13Val[k.in.CPUReq], c13Get(k.out.Resources.Requests, corev1.ResourceCPU)) ||
				!c13Eq(c13Val[k.in.CPULim], c13Get(k.out.Resources.Limits, corev1.ResourceCPU)) ||
				!c13Eq(c13Val[k.in.MemReq], c13Get(k.out.Resources.Requests, corev1.ResourceMemory)) ||
				!c13Eq(c13Val[k.in.MemLim], c13Get(k.out.Resources.Limits, corev1.ResourceMemory)) {
				changed = true
			}
		}
		if changed {
			l.Count("diag_untranslated_pod_native_entries_changed", 1)
			res.Diag("native entries of an untranslated pod changed: " + c.String())
		}
	}

	// ---- summary annotation ------------------------------------------------------------------------------------
	a.diagOnly = tier == nil
	a.judgeAnnotation(p1)

	// ---- admitting the result again changes nothing ---------------------------------------------------------------
	raw1, err := json.Marshal(p1)
	if err != nil {
		panic(err)
	}
	for _, op := range []admissionv1.Operation{admissionv1.Create, admissionv1.Update} {
		var p2 *corev1.Pod
		var m2 bool
		if ps := mc.Guard(func() { p2, m2, err = admit(h, op, raw1) }); ps != "" {
			a.diagOnly = false
			a.violate("panic|second-pass", ps)
			return
		}
		if err != nil {
			a.violate("not-idempotent|error|"+strings.ToLower(string(op)), fmt.Sprintf("admitting the admitted pod again (%s) fails: %v", op, err))
			continue
		}
		raw2, err := json.Marshal(p2)
		if err != nil {
			panic(err)
		}
		if string(raw1) != string(raw2) {
			a.violate("not-idempotent|"+strings.ToLower(string(op)), fmt.Sprintf("admitting the admitted pod again (%s) changes it:\n first: %s\nsecond: %s", op, raw1, raw2))
		} else {
			if tier != nil {
				l.Count("clause_idempotent_"+strings.ToLower(string(op)), 1)
			} else {
				l.Count("untranslated_idempotent_"+strings.ToLower(string(op)), 1)
			}
			if m2 {
				l.Count("diag_second_pass_reported_mutated_without_change", 1)
			}
		}
	}

	if tier != nil && a.viols == 0 {
		ds.Add(c.String())
	}
}

// ---------------------------------------------------------------------------------------------------------------
// enumeration

func c13ResOf(cpu, mem []string, d []int) c13Res {
	return c13Res{CPUReq: cpu[d[0]], CPULim: cpu[d[1]], MemReq: mem[d[2]], MemLim: mem[d[3]]}
}

func TestVerifC13Mutating(t *testing.T) {
	env := mc.LoadEnv()
	debug.SetGCPercent(400) // the JSON round trips allocate a lot; fewer collections, same results
	scs := c13Scenarios(env.Workers)
	byName := map[string]*c13Scenario{}
	var names []string
	for _, sc := range scs {
		byName[sc.Name] = sc
		names = append(names, sc.Name)
	}
	sort.Strings(names)

	var rc c13MCase
	if part, ok := env.ReplayData(&rc); ok {
		sc := byName[rc.Scenario]
		if !strings.HasPrefix(part, "mutating") || sc == nil {
			fmt.Printf("REPLAY: part %q belongs to the other C13 unit\n", part)
			return
		}
		res := mc.NewResult("C13", "replay", "enumeration")
		env.Workers = 1
		env.ParallelRangeL(res, 1, func(l *mc.Local, _ int64) {
			c13Eval(res, l, mc.NewDistinctSet(), sc, rc, "handleCreate", c13Admit)
		})
		in := c13InputPod(sc, rc)
		raw, _ := json.Marshal(in)
		p1, m, err := c13Admit(sc.handler(0), admissionv1.Create, raw)
		out, _ := json.Marshal(p1)
		fmt.Printf("REPLAY case=%s\n input:  %s\n output: %s\n mutated=%v err=%v\n", rc.String(), raw, out, m, err)
		for _, v := range res.Violations {
			fmt.Printf(" VIOLATED %s: %s\n", v.Key, v.What)
		}
		return
	}

	assumptions := []string{
		"a pod is a mid/batch pod when its priority class after the profiles were applied (priority-class label, else spec.priority in the class range) is koord-mid/koord-batch; it is expected to be translated when at least one profile selects it and no selecting profile carries the skip-update-resources annotation (default feature gates)",
		"CPU in milli-cores: an input that is not a whole number of milli-cores may be rounded either way to the adjacent whole milli-core; everything else must be exact",
		"a request that was missing and comes out equal to the translated limit is accepted (Kubernetes' meaning of a missing request) and counted as diagnostic",
		"the summary annotation is judged on batch-cpu/batch-memory of every app container (it may additionally cover init containers); mid-tier entries are not part of the summary",
		"profiles with a probability other than unset / 0%, patch, label/annotation key mappings are outside the alphabet",
	}
	cpuFull := []string{"", "0", "1m", "500u", "500m", "1", "1000500u", "1500m", "2"}
	memFull := []string{"", "0", "1", "1Ki", "1048577", "1G"}

	emit := func(res *mc.Result, ds *mc.DistinctSet, done, size int64, complete bool) {
		res.Traces, res.Distinct, res.Exhaustive = res.Evaluations, ds.Len(), complete
		if !complete {
			res.Capped = fmt.Sprintf("time budget hit after %d of %d cases", done, size)
		}
		res.Assumptions = assumptions
		if complete {
			for _, n := range []string{"translation_expected_batch", "translation_expected_mid", "clause_amount_kept_requests_cpu", "clause_amount_kept_limits_cpu",
				"clause_amount_kept_requests_memory", "clause_amount_kept_limits_memory", "clause_native_removed_requests_cpu", "clause_native_removed_limits_memory",
				"clause_annotation_nonempty_checked", "clause_idempotent_create", "diag_sub_milli_cpu_rounded_up"} {
				if res.Counters[n] == 0 {
					res.Diag("VACUITY WARNING: counter " + n + " is 0 in part " + res.Part)
				}
			}
		}
		env.Emit(res)
	}

	// ---- part 1: one container, complete quantity product, every scenario (+ extras in thorough) -----------------
	{
		res := mc.NewResult("C13", "mutating-1c", "enumeration")
		ds := mc.NewDistinctSet()
		type extra struct {
			init      int // 0 none, 1..n index into inits
			overhead  bool
			pre, anno bool
		}
		inits := []c13Res{{CPUReq: "500u", CPULim: "1500m", MemReq: "1Ki", MemLim: "1048577"}, {CPULim: "2", MemLim: "1G"}}
		extras := []extra{{}}
		if env.Thorough() {
			extras = nil
			for init := 0; init <= len(inits); init++ {
				for _, ov := range []bool{false, true} {
					for _, pre := range []bool{false, true} {
						for _, anno := range []bool{false, true} {
							extras = append(extras, extra{init, ov, pre, anno})
						}
					}
				}
			}
		} else {
			extras = append(extras, extra{init: 1}, extra{overhead: true}, extra{pre: true}, extra{anno: true}, extra{init: 2, overhead: true, pre: true, anno: true})
		}
		rx := mc.Radix{Dims: []int{len(cpuFull), len(cpuFull), len(memFull), len(memFull), len(scs), len(extras)}}
		done, complete := env.ParallelRangeL(res, rx.Size(), func(l *mc.Local, i int64) {
			d := rx.Decode(i, make([]int, 0, 8))
			ex := extras[d[5]]
			c := c13MCase{Scenario: scs[d[4]].Name, Containers: []c13Res{c13ResOf(cpuFull, memFull, d)}, Overhead: ex.overhead, PreTier: ex.pre, StaleAnno: ex.anno}
			if ex.init > 0 {
				r := inits[ex.init-1]
				c.Init = &r
			}
			c13Eval(res, l, ds, scs[d[4]], c, "handleCreate", c13Admit)
			if i%50021 == 3 {
				res.Sample(c.String())
			}
		})
		res.Rule = fmt.Sprintf("one app container with every (cpu request, cpu limit) in %v^2 x (memory request, memory limit) in %v^2 x %d scenarios %v x %d extras (init container, overhead, pre-existing tier entries, stale summary annotation); non-trivial/distinct = distinct requests that were translated to a tier and passed every clause", cpuFull, memFull, len(scs), names, len(extras))
		res.Bounds = map[string]any{"cpu_alphabet": len(cpuFull), "memory_alphabet": len(memFull), "scenarios": len(scs), "extras": len(extras), "cases": rx.Size()}
		emit(res, ds, done, rx.Size(), complete)
	}

	// ---- part 2: two containers, reduced quantity alphabets, translating scenarios --------------------------------
	{
		res := mc.NewResult("C13", "mutating-2c", "enumeration")
		ds := mc.NewDistinctSet()
		cpu2 := []string{"", "1m", "500u", "1500m"}
		mem2 := []string{"", "1Ki", "1048577"}
		sel := []*c13Scenario{byName["one-batch-max"], byName["one-mid-min"], byName["two-mid-then-batch"], byName["skip-annotation"]}
		if env.Thorough() {
			cpu2 = []string{"", "0", "1m", "500u", "1500m", "2"}
			mem2 = []string{"", "0", "1Ki", "1048577"}
			sel = []*c13Scenario{byName["one-batch-max"], byName["one-mid-min"], byName["two-mid-then-batch"], byName["pod-batch+labels-profile"],
				byName["be-without-priority"], byName["skip-annotation"]}
		}
		rx := mc.Radix{Dims: []int{len(cpu2), len(cpu2), len(mem2), len(mem2), len(cpu2), len(cpu2), len(mem2), len(mem2), len(sel)}}
		done, complete := env.ParallelRangeL(res, rx.Size(), func(l *mc.Local, i int64) {
			d := rx.Decode(i, make([]int, 0, 12))
			sc := sel[d[8]]
			c := c13MCase{Scenario: sc.Name, Containers: []c13Res{c13ResOf(cpu2, mem2, d[0:4]), c13ResOf(cpu2, mem2, d[4:8])}}
			c13Eval(res, l, ds, sc, c, "handleCreate", c13Admit)
			if i%500009 == 5 {
				res.Sample(c.String())
			}
		})
		var sn []string
		for _, s := range sel {
			sn = append(sn, s.Name)
		}
		res.Rule = fmt.Sprintf("two app containers, each with every (cpu request, cpu limit) in %v^2 x (memory request, memory limit) in %v^2, x scenarios %v; non-trivial/distinct as in mutating-1c", cpu2, mem2, sn)
		res.Bounds = map[string]any{"cpu_alphabet": len(cpu2), "memory_alphabet": len(mem2), "scenarios": len(sel), "cases": rx.Size()}
		emit(res, ds, done, rx.Size(), complete)
	}

	// ---- part 3: the complete Handle (JSON request -> patch -> patched pod), reduced product ------------------------
	{
		res := mc.NewResult("C13", "mutating-handle", "enumeration")
		ds := mc.NewDistinctSet()
		cpu3 := []string{"", "500u", "500m", "2"}
		mem3 := []string{"", "1Ki", "1048577"}
		sel := []*c13Scenario{byName["one-batch-min"], byName["one-mid-max"], byName["two-batch-then-mid"], byName["skip-annotation"], byName["profile-not-matching"],
			byName["pod-label-mid+labels-profile-probability-0"], byName["pod-batch+labels-profile-probability-0"]}
		if env.Thorough() {
			cpu3, mem3, sel = cpuFull, memFull, scs
		}
		rx := mc.Radix{Dims: []int{len(cpu3), len(cpu3), len(mem3), len(mem3), len(sel), 2}}
		done, complete := env.ParallelRangeL(res, rx.Size(), func(l *mc.Local, i int64) {
			d := rx.Decode(i, make([]int, 0, 8))
			sc := sel[d[4]]
			c := c13MCase{Scenario: sc.Name, Containers: []c13Res{c13ResOf(cpu3, mem3, d)}}
			if d[5] == 1 {
				c.Containers = append(c.Containers, c13Res{CPUReq: "1m", CPULim: "1500m", MemLim: "1G"})
				c.StaleAnno = true
			}
			c13Eval(res, l, ds, sc, c, "Handle+patch", c13AdmitViaHandle)
		})
		res.Rule = fmt.Sprintf("one app container over cpu %v^2 x memory %v^2 (optionally a second fixed container and a stale annotation) x %d scenarios, sent as JSON AdmissionRequest through PodMutatingHandler.Handle; the returned JSON patch is applied to the request object and the patched pod is judged by the same clauses", cpu3, mem3, len(sel))
		res.Bounds = map[string]any{"cases": rx.Size()}
		emit(res, ds, done, rx.Size(), complete)
	}
}
