package migration

// C17: "Migration jobs evict only after capacity is secured; finished jobs stay finished".
//
// Explicit-state BFS over histories of {reconcile, reconcile with the k-th API write failing, environment events on
// the job's Reservation / target pod / bound pod, the clock passing the job TTL, controller restart} executed on the
// REAL Reconciler.Reconcile (a Reconciler literal shaped like newTestReconciler()), the REAL reservation interpreter
// (reservation.NewInterpreter over a 10-line manager stub that only hands out the client), REAL v1alpha1.Reservation /
// Pod / PodMigrationJob objects in one controller-runtime fake client, a fake clock, and a recording evictor.
//
// The reference model (c17Model) is a handful of enums that are moved only by the harness' own environment events and
// by *observed* successful Create/Delete calls of the controller on the Reservation; it never asks the code under check
// what state a reservation is in. Every Evict call is stamped with that model at the instant of the call.
//
// See /verif/DESIGN.md section 4 C17 and the property statement in /verif/properties.jsonl.
//
// Violations this check reports on the tree it was written against (triaged as defects of the code, both need one
// failed write; plain reproductions in repro_test.go.txt, candidate fixes validated through the overlay):
//   C17|rf|ttl-abort-leaves-reservation|job-has-reservationRef=false
//       createReservation creates the Reservation, the job Update that records spec.reservationOptions.reservationRef
//       fails, the TTL passes before the retry: abortJobIfTimeout -> deleteReservation returns nil for a nil ref, the
//       job becomes Failed/Timeout and the Reservation it created is never deleted.
//   C17|rf|evict-gate|reservation-on-the-pods-node(pod=replaced)
//       the same-node guard (abortJobIfReserveOnSameNode) runs once, when the ReservationScheduled condition is first
//       set; if that reconcile then fails at/after the Evict call (evictor refuses, status write fails) and the pod is
//       replaced by a same-name pod on the reservation's node, the next reconcile evicts that pod: evictPod compares
//       the pod UID with spec.podRef.uid only when an Eviction condition already exists.

import (
	"context"
	"fmt"
	"strings"
	"sync"
	"testing"
	"time"

	corev1 "k8s.io/api/core/v1"
	apierrors "k8s.io/apimachinery/pkg/api/errors"
	"k8s.io/apimachinery/pkg/api/meta"
	metav1 "k8s.io/apimachinery/pkg/apis/meta/v1"
	"k8s.io/apimachinery/pkg/runtime"
	"k8s.io/apimachinery/pkg/runtime/serializer"
	"k8s.io/apimachinery/pkg/types"
	k8stesting "k8s.io/client-go/testing"
	"k8s.io/utils/clock"
	fakeclock "k8s.io/utils/clock/testing"
	"k8s.io/utils/ptr"
	ctrl "sigs.k8s.io/controller-runtime"
	"sigs.k8s.io/controller-runtime/pkg/client"
	"sigs.k8s.io/controller-runtime/pkg/client/fake"
	"sigs.k8s.io/controller-runtime/pkg/client/interceptor"
	"sigs.k8s.io/controller-runtime/pkg/reconcile"

	sev1alpha1 "github.com/koordinator-sh/koordinator/apis/scheduling/v1alpha1"
	deschedulerconfig "github.com/koordinator-sh/koordinator/pkg/descheduler/apis/config"
	"github.com/koordinator-sh/koordinator/pkg/descheduler/apis/config/v1alpha2"
	"github.com/koordinator-sh/koordinator/pkg/descheduler/controllers/migration/controllerfinder"
	"github.com/koordinator-sh/koordinator/pkg/descheduler/controllers/migration/reservation"
	reservationutil "github.com/koordinator-sh/koordinator/pkg/util/reservation"
	"github.com/koordinator-sh/koordinator/pkg/zzverif/mc"
)

const (
	c17JobName    = "c17-job"
	c17JobUID     = "c17-job-uid"
	c17NS         = "default"
	c17PodName    = "c17-pod"
	c17PodUID1    = "c17-pod-uid-1"
	c17PodUID2    = "c17-pod-uid-2"
	c17NewPodName = "c17-pod-new"
	c17OtherPod   = "c17-pod-other"
	c17UserRsv    = "c17-user-rsv"
	c17NodeA      = "node-a" // the node of the target pod
	c17NodeB      = "node-b" // the other node
	c17TTL        = 5 * time.Minute
)

var c17T0 = time.Date(2024, 1, 1, 0, 0, 0, 0, time.UTC)

// ---- reference model ---------------------------------------------------------------------------------------------

const (
	c17RNone          = iota // the job's reservation was never created
	c17RPending              // created, not scheduled, no verdict
	c17RUnsched              // not scheduled, scheduler reported Unschedulable (phase stays pending, as koord-scheduler does)
	c17RSched                // Available on rsvNode
	c17RExpired              // Failed/Expired (rsvNode kept when it had been scheduled)
	c17RFailedUnsched        // legacy: phase Failed + Scheduled=False/Unschedulable (older schedulers)
	c17RBoundNew             // consumed (Succeeded) by the job's new pod
	c17RBoundOther           // consumed (Succeeded) by another pod
	c17RDeleted              // deleted (by the environment or by the controller)
)

var c17RNames = []string{"never-created", "pending", "unschedulable", "scheduled", "expired", "failed-unschedulable", "bound-new-pod", "bound-other-pod", "deleted"}

const (
	c17POrig = iota
	c17PDeleted
	c17PReplacedB // same name, new UID, on node-b
	c17PReplacedA // same name, new UID, on node-a
)

var c17PNames = []string{"original", "deleted", "replaced-on-node-b", "replaced-on-node-a"}

type c17Model struct {
	rsv         int
	rsvNode     string
	rsvDelByCtl bool // the last deletion of the reservation was a Delete call of the controller
	pod         int
	podGen      int
	newPod      int    // 0 none, 1 bound pod exists and is not ready, 2 ready, 3 the bound pod was deleted
	newPodName  string // which pod the reservation was bound to (for the readiness event)
	afterTTL    bool
	faults      int
	evicts      int // Evict calls issued so far (all of them; on fault-free histories all succeeded)
	phase       sev1alpha1.PodMigrationJobPhase
	reason      string
	userRsvMade bool
	otherMade   bool
	podPending  bool // the original target pod is still unscheduled (pending-pod configuration)
	// the original target pod started unscheduled and has meanwhile been scheduled (to node-b)
	podWasPending bool
}

func (m *c17Model) podNode() string {
	switch m.pod {
	case c17POrig:
		if m.podPending {
			return ""
		}
		if m.podWasPending {
			return c17NodeB
		}
		return c17NodeA
	case c17PReplacedA:
		return c17NodeA
	case c17PReplacedB:
		return c17NodeB
	}
	return ""
}

func c17Terminal(p sev1alpha1.PodMigrationJobPhase) bool {
	return p == sev1alpha1.PodMigrationJobSucceeded || p == sev1alpha1.PodMigrationJobFailed
}

// ---- configuration / alphabet ------------------------------------------------------------------------------------

type c17Cfg struct {
	name      string
	kind      string // key prefix: rf (all ReservationFirst configurations) | direct
	mode      sev1alpha1.PodMigrationJobMode // the mode in force for the job (what the oracle judges by)
	// how the mode comes about: the job names it (default), or leaves spec.mode empty and the controller's defaultJobMode
	// applies (modeFromDefault); ctlDefault is the controller's defaultJobMode ("" = the package default, ReservationFirst).
	// An explicit spec.mode wins over the controller default (seed C17-6).
	modeFromDefault bool
	ctlDefault      sev1alpha1.PodMigrationJobMode
	presetRef bool // the user supplied ReservationRef; the user (environment) creates that reservation
	maxFaults int
	maxK      int // fault events "the k-th write of this reconcile fails" exist for k = 1..maxK (0: 5); checked against the observed maximum
	depth     int
	replaceA  bool // also: pod replaced on its old node
	legacy    bool // also: legacy Failed/Unschedulable reservation state
	pending   bool // the target pod is a Pending, unschedulable pod (migration of a pending pod: nothing to evict)
	// prefix is a fixed, legitimate event sequence executed before the exploration starts (a deeper starting point:
	// the BFS then covers every continuation of that prefix up to depth)
	prefix []string
	ops    []c17Op
	pfx    []int
}

const (
	c17OpReconcile = iota
	c17OpReconcileFault
	c17OpUserCreates
	c17OpUnsched
	c17OpSchedOther
	c17OpSchedSame
	c17OpExpired
	c17OpFailedUnsched
	c17OpRsvDeleted
	c17OpBoundNew
	c17OpBoundOther
	c17OpPodDeleted
	c17OpPodReplacedB
	c17OpPodReplacedA
	c17OpNewPodReady
	c17OpTargetScheduled
	c17OpTick
	c17OpRestart
)

type c17Op struct {
	name string
	code int
	k    int
}

func c17BuildOps(cfg *c17Cfg) []c17Op {
	ops := []c17Op{{"reconcile", c17OpReconcile, 0}}
	if cfg.maxFaults > 0 {
		for k := 1; k <= cfg.maxK; k++ {
			ops = append(ops, c17Op{fmt.Sprintf("reconcile!write%d-fails", k), c17OpReconcileFault, k})
		}
	}
	if cfg.mode != sev1alpha1.PodMigrationJobModeEvictionDirectly {
		if cfg.presetRef {
			ops = append(ops, c17Op{"user-creates-reservation-pending", c17OpUserCreates, 0})
		}
		ops = append(ops,
			c17Op{"rsv-unschedulable", c17OpUnsched, 0},
			c17Op{"rsv-scheduled-other-node", c17OpSchedOther, 0},
			c17Op{"rsv-scheduled-pods-node", c17OpSchedSame, 0},
			c17Op{"rsv-expired", c17OpExpired, 0},
			c17Op{"rsv-deleted", c17OpRsvDeleted, 0},
			c17Op{"rsv-bound-to-new-pod", c17OpBoundNew, 0},
			c17Op{"rsv-bound-to-other-pod", c17OpBoundOther, 0},
			c17Op{"new-pod-ready", c17OpNewPodReady, 0},
		)
		if cfg.legacy {
			ops = append(ops, c17Op{"rsv-failed-unschedulable(legacy)", c17OpFailedUnsched, 0})
		}
	}
	ops = append(ops,
		c17Op{"pod-deleted", c17OpPodDeleted, 0},
		c17Op{"pod-replaced-on-node-b", c17OpPodReplacedB, 0},
	)
	if cfg.replaceA {
		ops = append(ops, c17Op{"pod-replaced-on-node-a", c17OpPodReplacedA, 0})
	}
	if cfg.pending {
		ops = append(ops, c17Op{"pending-target-pod-scheduled", c17OpTargetScheduled, 0})
	}
	ops = append(ops,
		c17Op{"clock-passes-ttl", c17OpTick, 0},
		c17Op{"controller-restart", c17OpRestart, 0},
	)
	return ops
}

// ---- fixtures shared by all systems of the process (read-only after construction) ----------------------------------

var (
	c17Once   sync.Once
	c17Scheme *runtime.Scheme
	c17Mapper meta.RESTMapper
	c17Codec  runtime.Decoder
	c17Args   *deschedulerconfig.MigrationControllerArgs
)

func c17Init() {
	c17Once.Do(func() {
		// The scheme only carries the two groups the controller touches here (newTestReconciler additionally registers
		// the whole client-go scheme and kruise; none of those kinds is read or written by Reconcile). A scheme and a
		// DefaultRESTMapper are read-only after construction, so one instance is shared by all fake clients.
		c17Scheme = runtime.NewScheme()
		_ = sev1alpha1.AddToScheme(c17Scheme)
		_ = corev1.AddToScheme(c17Scheme)
		rm := meta.NewDefaultRESTMapper(nil)
		for gvk := range c17Scheme.AllKnownTypes() {
			rm.Add(gvk, meta.RESTScopeNamespace)
		}
		c17Mapper = rm
		c17Codec = serializer.NewCodecFactory(c17Scheme).UniversalDecoder()
		var v1beta2args v1alpha2.MigrationControllerArgs
		v1alpha2.SetDefaults_MigrationControllerArgs(&v1beta2args)
		var args deschedulerconfig.MigrationControllerArgs
		if err := v1alpha2.Convert_v1alpha2_MigrationControllerArgs_To_config_MigrationControllerArgs(&v1beta2args, &args, nil); err != nil {
			panic(err)
		}
		c17Args = &args
	})
}

// c17Mgr is the part of a controller-runtime Manager the production reservation interpreter uses: GetClient at
// construction and GetAPIReader as the uncached fallback read. Every other method panics (nil embedded interface).
type c17Mgr struct {
	ctrl.Manager
	c client.Client
}

func (m c17Mgr) GetClient() client.Client    { return m.c }
func (m c17Mgr) GetAPIReader() client.Reader { return m.c }

type c17NopRecorder struct{}

func (c17NopRecorder) Eventf(regarding runtime.Object, related runtime.Object, eventtype, reason, action, note string, args ...interface{}) {
}

// ---- the system ---------------------------------------------------------------------------------------------------

type c17EvictRec struct {
	rsv      int
	rsvNode  string
	pod      int
	podNode  string
	argUID   types.UID
	argNode  string
	failed   bool
	uidDiff  bool // the pod handed to Evict is not the pod recorded in job.spec.podRef.uid (diagnostic only)
	gateOK   bool
	gateNote string
}

type c17Sys struct {
	cfg *c17Cfg
	res *mc.Result
	cl  client.WithWatch
	clk *fakeclock.FakeClock
	r   *Reconciler
	m   c17Model

	// per reconcile
	inRec      bool
	writeIdx   int
	failAt     int
	fired      bool
	firedSite  string
	recEvicts  []c17EvictRec
	recCreates int // Create calls for a Reservation issued in this reconcile (attempts)
	recDeletes int // successful Delete calls for a Reservation in this reconcile
	conflicts  int

	viol []mc.Violation
	snap *c17Snap
}

var c17ErrInjected = apierrors.NewInternalError(fmt.Errorf("c17: injected API write failure"))

func (s *c17Sys) rsvName() string {
	if s.cfg.presetRef {
		return c17UserRsv
	}
	return c17JobUID // reservation.CreateOrUpdateReservationOptions names the reservation after the job UID
}

func (s *c17Sys) vkey(parts ...string) string {
	return "C17|" + s.cfg.kind + "|" + strings.Join(parts, "|")
}

func c17Site(verb string, obj client.Object) string {
	switch o := obj.(type) {
	case *sev1alpha1.PodMigrationJob:
		if verb == "status-update" {
			return fmt.Sprintf("status-update:job[phase=%s,status=%s,reason=%s]", o.Status.Phase, o.Status.Status, o.Status.Reason)
		}
		hasRef := o.Spec.ReservationOptions != nil && o.Spec.ReservationOptions.ReservationRef != nil
		return fmt.Sprintf("%s:job[ref=%v]", verb, hasRef)
	case *sev1alpha1.Reservation:
		return verb + ":reservation"
	case nil:
		return verb
	}
	return fmt.Sprintf("%s:%T", verb, obj)
}

// beforeWrite numbers the write calls of the running reconcile and fails the chosen one. Calls made by the harness'
// own environment events (inRec == false) pass through untouched.
func (s *c17Sys) beforeWrite(verb string, obj client.Object) error {
	if !s.inRec {
		return nil
	}
	s.writeIdx++
	if _, ok := obj.(*sev1alpha1.Reservation); ok && verb == "create" {
		s.recCreates++
	}
	if s.failAt == s.writeIdx {
		s.fired = true
		s.firedSite = c17Site(verb, obj)
		return c17ErrInjected
	}
	return nil
}

// afterWrite moves the reference model on *observed successful* controller writes to the Reservation.
func (s *c17Sys) afterWrite(verb string, obj client.Object, err error) {
	if !s.inRec {
		return
	}
	if err != nil {
		if apierrors.IsConflict(err) {
			s.conflicts++
		}
		return
	}
	if _, ok := obj.(*sev1alpha1.Reservation); ok {
		switch verb {
		case "create":
			s.m.rsv, s.m.rsvNode, s.m.rsvDelByCtl = c17RPending, "", false
		case "delete":
			s.m.rsv, s.m.rsvDelByCtl = c17RDeleted, true
			s.recDeletes++
		}
	}
}

func (s *c17Sys) funcs() interceptor.Funcs {
	return interceptor.Funcs{
		Create: func(ctx context.Context, c client.WithWatch, obj client.Object, opts ...client.CreateOption) error {
			if err := s.beforeWrite("create", obj); err != nil {
				return err
			}
			err := c.Create(ctx, obj, opts...)
			s.afterWrite("create", obj, err)
			return err
		},
		Update: func(ctx context.Context, c client.WithWatch, obj client.Object, opts ...client.UpdateOption) error {
			if err := s.beforeWrite("update", obj); err != nil {
				return err
			}
			err := c.Update(ctx, obj, opts...)
			s.afterWrite("update", obj, err)
			return err
		},
		Patch: func(ctx context.Context, c client.WithWatch, obj client.Object, patch client.Patch, opts ...client.PatchOption) error {
			if err := s.beforeWrite("patch", obj); err != nil {
				return err
			}
			err := c.Patch(ctx, obj, patch, opts...)
			s.afterWrite("patch", obj, err)
			return err
		},
		Delete: func(ctx context.Context, c client.WithWatch, obj client.Object, opts ...client.DeleteOption) error {
			if err := s.beforeWrite("delete", obj); err != nil {
				return err
			}
			err := c.Delete(ctx, obj, opts...)
			s.afterWrite("delete", obj, err)
			return err
		},
		DeleteAllOf: func(ctx context.Context, c client.WithWatch, obj client.Object, opts ...client.DeleteAllOfOption) error {
			if err := s.beforeWrite("deleteallof", obj); err != nil {
				return err
			}
			return c.DeleteAllOf(ctx, obj, opts...)
		},
		SubResourceUpdate: func(ctx context.Context, c client.Client, sub string, obj client.Object, opts ...client.SubResourceUpdateOption) error {
			if err := s.beforeWrite(sub+"-update", obj); err != nil {
				return err
			}
			err := c.SubResource(sub).Update(ctx, obj, opts...)
			s.afterWrite(sub+"-update", obj, err)
			return err
		},
		SubResourcePatch: func(ctx context.Context, c client.Client, sub string, obj client.Object, patch client.Patch, opts ...client.SubResourcePatchOption) error {
			if err := s.beforeWrite(sub+"-patch", obj); err != nil {
				return err
			}
			err := c.SubResource(sub).Patch(ctx, obj, patch, opts...)
			s.afterWrite(sub+"-patch", obj, err)
			return err
		},
		SubResourceCreate: func(ctx context.Context, c client.Client, sub string, obj client.Object, subObj client.Object, opts ...client.SubResourceCreateOption) error {
			if err := s.beforeWrite(sub+"-create", obj); err != nil {
				return err
			}
			return c.SubResource(sub).Create(ctx, obj, subObj, opts...)
		},
	}
}

// Evict implements evictor.Interpreter: it records the call, stamped with the reference model at this instant, and
// judges the gate clause of the statement right here. The eviction call is itself an API write (eviction / delete /
// label patch in the real evictors), so it takes part in the write numbering and can be the failed call. Its effect
// on the pod (the pod disappearing) is a separate, later environment event, as with a real graceful eviction.
func (s *c17Sys) Evict(ctx context.Context, job *sev1alpha1.PodMigrationJob, pod *corev1.Pod) error {
	rec := c17EvictRec{rsv: s.m.rsv, rsvNode: s.m.rsvNode, pod: s.m.pod, podNode: s.m.podNode(), argUID: pod.UID, argNode: pod.Spec.NodeName, gateOK: true}
	if s.cfg.mode != sev1alpha1.PodMigrationJobModeEvictionDirectly {
		cls := ""
		switch {
		case s.m.rsv == c17RNone || s.m.rsv == c17RDeleted:
			cls = "reservation-missing(" + c17RNames[s.m.rsv] + ")"
		case s.m.rsv == c17RPending:
			cls = "reservation-pending"
		case s.m.rsv == c17RUnsched || s.m.rsv == c17RFailedUnsched:
			cls = "reservation-" + c17RNames[s.m.rsv]
		case s.m.rsv == c17RExpired:
			cls = "reservation-expired"
		case s.m.rsv == c17RBoundNew || s.m.rsv == c17RBoundOther:
			// before the eviction whoever consumed the reservation is "some other pod": the target pod still runs elsewhere
			cls = "reservation-" + c17RNames[s.m.rsv]
		case s.m.rsv == c17RSched && (s.m.rsvNode == "" || s.m.rsvNode == s.m.podNode()):
			// one class per root cause: the original pod vs. a same-name replacement (either landing node)
			cls = "reservation-on-the-pods-node(pod=" + strings.SplitN(c17PNames[s.m.pod], "-", 2)[0] + ")"
		}
		if cls != "" {
			rec.gateOK = false
			rec.gateNote = cls
			s.viol = append(s.viol, mc.Violation{Key: s.vkey("evict-gate", cls),
				What: fmt.Sprintf("Evict(pod uid=%s on %q) was issued while the job's reservation was %s (node %q) and the target pod %s (node %q); "+
					"the statement allows the eviction only when the reservation exists, is scheduled on a node different from the pod's, and is not pending/unschedulable/expired/missing/bound",
					pod.UID, pod.Spec.NodeName, c17RNames[s.m.rsv], s.m.rsvNode, c17PNames[s.m.pod], s.m.podNode())})
		}
	}
	rec.uidDiff = job.Spec.PodRef != nil && job.Spec.PodRef.UID != "" && job.Spec.PodRef.UID != pod.UID
	err := s.beforeWrite("evict", nil)
	rec.failed = err != nil
	s.recEvicts = append(s.recEvicts, rec)
	return err
}

func (s *c17Sys) newReconciler() *Reconciler {
	arb := &fakeArbitrator{
		filter:            func(pod *corev1.Pod) bool { return true },
		preEvictionFilter: func(pod *corev1.Pod) bool { return true },
	}
	// Same shape as newTestReconciler() in controller_test.go (no object limiters, fake arbitrator), with the fake clock,
	// the production reservation interpreter and the recording evictor plugged into the two nil interpreter fields.
	args := c17Args.DeepCopyObject().(*deschedulerconfig.MigrationControllerArgs)
	if s.cfg.ctlDefault != "" {
		args.DefaultJobMode = string(s.cfg.ctlDefault)
	}
	return &Reconciler{
		Client:                 s.cl,
		args:                   args,
		eventRecorder:          c17NopRecorder{},
		reservationInterpreter: reservation.NewInterpreter(c17Mgr{c: s.cl}),
		evictorInterpreter:     s,
		controllerFinder:       &controllerfinder.ControllerFinder{Client: s.cl},
		assumedCache:           newAssumedCache(),
		clock:                  clock.Clock(s.clk),
		arbitrator:             arb,
	}
}

func c17NewSys(cfg *c17Cfg, res *mc.Result) *c17Sys {
	c17Init()
	s := &c17Sys{cfg: cfg, res: res}
	job := &sev1alpha1.PodMigrationJob{
		ObjectMeta: metav1.ObjectMeta{Name: c17JobName, UID: c17JobUID, CreationTimestamp: metav1.Time{Time: c17T0}},
		Spec: sev1alpha1.PodMigrationJobSpec{
			Mode:   map[bool]sev1alpha1.PodMigrationJobMode{false: cfg.mode, true: ""}[cfg.modeFromDefault],
			TTL:    &metav1.Duration{Duration: c17TTL},
			PodRef: &corev1.ObjectReference{Namespace: c17NS, Name: c17PodName},
		},
	}
	if cfg.presetRef {
		job.Spec.ReservationOptions = &sev1alpha1.PodMigrateReservationOptions{ReservationRef: &corev1.ObjectReference{Name: c17UserRsv}}
	}
	pod := c17Pod(c17PodName, c17PodUID1, c17NodeA)
	if cfg.pending {
		pod.Spec.NodeName = ""
		pod.Status = corev1.PodStatus{Phase: corev1.PodPending, Conditions: []corev1.PodCondition{
			{Type: corev1.PodScheduled, Status: corev1.ConditionFalse, Reason: corev1.PodReasonUnschedulable, Message: "0/2 nodes are available"}}}
		s.m.podPending = true
	}
	// The plain client-go object tracker (what controller-runtime's fake client used before it learned server-side
	// apply) instead of the default field-managed one: building the latter constructs a whole client-go scheme and a
	// REST mapper per client (milliseconds), and managed fields are of no concern to this controller. Resource
	// versions, the status subresource and conflicts are implemented by controller-runtime's own versionedTracker on
	// top of either tracker.
	s.cl = fake.NewClientBuilder().WithScheme(c17Scheme).WithRESTMapper(c17Mapper).
		WithObjectTracker(k8stesting.NewObjectTracker(c17Scheme, c17Codec)).
		WithStatusSubresource(&sev1alpha1.PodMigrationJob{}).
		WithObjects(job, pod).WithInterceptorFuncs(s.funcs()).Build()
	s.clk = fakeclock.NewFakeClock(c17T0.Add(time.Minute))
	s.r = s.newReconciler()
	for _, op := range cfg.pfx {
		if en, _ := s.Apply(op, false); !en {
			panic("c17 harness: prefix event not enabled: " + cfg.ops[op].name)
		}
	}
	return s
}

func c17Pod(name, uid, node string) *corev1.Pod {
	return &corev1.Pod{
		ObjectMeta: metav1.ObjectMeta{Namespace: c17NS, Name: name, UID: types.UID(uid)},
		Spec:       corev1.PodSpec{NodeName: node, SchedulerName: "koord-scheduler"},
		Status:     corev1.PodStatus{Phase: corev1.PodRunning},
	}
}

func (s *c17Sys) must(err error) {
	if err != nil {
		panic(fmt.Sprintf("c17 harness: environment write failed: %v", err))
	}
}

func (s *c17Sys) getRsv() *sev1alpha1.Reservation {
	r := &sev1alpha1.Reservation{}
	if err := s.cl.Get(context.TODO(), types.NamespacedName{Name: s.rsvName()}, r); err != nil {
		if apierrors.IsNotFound(err) {
			return nil
		}
		panic(err)
	}
	return r
}

func (s *c17Sys) getPod(name string) *corev1.Pod {
	p := &corev1.Pod{}
	if err := s.cl.Get(context.TODO(), types.NamespacedName{Namespace: c17NS, Name: name}, p); err != nil {
		if apierrors.IsNotFound(err) {
			return nil
		}
		panic(err)
	}
	return p
}

func (s *c17Sys) getJob() *sev1alpha1.PodMigrationJob {
	j := &sev1alpha1.PodMigrationJob{}
	s.must(s.cl.Get(context.TODO(), types.NamespacedName{Name: c17JobName}, j))
	return j
}

// mutateRsv applies one of the scheduler-side status producers (pkg/util/reservation, the functions koord-scheduler
// itself uses) to the stored object.
func (s *c17Sys) mutateRsv(f func(r *sev1alpha1.Reservation)) {
	r := s.getRsv()
	if r == nil {
		panic("c17 harness: reference model says the reservation exists but the store has none")
	}
	f(r)
	s.must(s.cl.Update(context.TODO(), r))
}

func (s *c17Sys) Apply(op int, check bool) (bool, []mc.Violation) {
	s.snap = nil
	o := s.cfg.ops[op]
	m := &s.m
	switch o.code {
	case c17OpReconcile:
		return s.reconcile(0, check)
	case c17OpReconcileFault:
		if m.faults >= s.cfg.maxFaults {
			return false, nil
		}
		return s.reconcile(o.k, check)
	case c17OpUserCreates:
		if !s.cfg.presetRef || m.rsv != c17RNone || m.userRsvMade {
			return false, nil
		}
		r := &sev1alpha1.Reservation{
			ObjectMeta: metav1.ObjectMeta{Name: c17UserRsv},
			Spec: sev1alpha1.ReservationSpec{
				Template:     &corev1.PodTemplateSpec{Spec: corev1.PodSpec{SchedulerName: "koord-scheduler"}},
				AllocateOnce: ptr.To(true),
				TTL:          &metav1.Duration{Duration: c17TTL},
			},
			Status: sev1alpha1.ReservationStatus{Phase: sev1alpha1.ReservationPending},
		}
		s.must(s.cl.Create(context.TODO(), r))
		m.rsv, m.rsvNode, m.userRsvMade = c17RPending, "", true
	case c17OpUnsched:
		if m.rsv != c17RPending {
			return false, nil
		}
		s.mutateRsv(func(r *sev1alpha1.Reservation) {
			reservationutil.SetReservationUnschedulable(r, "0/2 nodes are available")
		})
		m.rsv = c17RUnsched
	case c17OpSchedOther, c17OpSchedSame:
		if m.rsv != c17RPending && m.rsv != c17RUnsched {
			return false, nil
		}
		node := c17NodeB
		if o.code == c17OpSchedSame {
			node = c17NodeA
		}
		s.mutateRsv(func(r *sev1alpha1.Reservation) { s.must(reservationutil.SetReservationAvailable(r, node)) })
		m.rsv, m.rsvNode = c17RSched, node
	case c17OpExpired:
		if m.rsv != c17RPending && m.rsv != c17RUnsched && m.rsv != c17RSched {
			return false, nil
		}
		s.mutateRsv(func(r *sev1alpha1.Reservation) { reservationutil.SetReservationExpired(r) })
		m.rsv = c17RExpired
	case c17OpFailedUnsched:
		if m.rsv != c17RPending && m.rsv != c17RUnsched {
			return false, nil
		}
		s.mutateRsv(func(r *sev1alpha1.Reservation) {
			reservationutil.SetReservationUnschedulable(r, "0/2 nodes are available")
			r.Status.Phase = sev1alpha1.ReservationFailed
		})
		m.rsv = c17RFailedUnsched
	case c17OpRsvDeleted:
		if m.rsv == c17RNone || m.rsv == c17RDeleted {
			return false, nil
		}
		s.must(s.cl.Delete(context.TODO(), &sev1alpha1.Reservation{ObjectMeta: metav1.ObjectMeta{Name: s.rsvName()}}))
		m.rsv, m.rsvDelByCtl = c17RDeleted, false
	case c17OpBoundNew, c17OpBoundOther:
		if m.rsv != c17RSched {
			return false, nil
		}
		// a pod consumes at most one reservation: each of the two consumers appears at most once per history (only
		// matters when the controller re-created the reservation after a consumed one was deleted)
		if (o.code == c17OpBoundNew && m.newPod != 0) || (o.code == c17OpBoundOther && m.otherMade) {
			return false, nil
		}
		owner := corev1.ObjectReference{Namespace: c17NS}
		if o.code == c17OpBoundOther {
			// another, already running pod of the workload consumed the reservation
			owner.Name, owner.UID = c17OtherPod, "c17-pod-other-uid"
			p := c17Pod(c17OtherPod, "c17-pod-other-uid", m.rsvNode)
			p.Status.Conditions = []corev1.PodCondition{{Type: corev1.PodReady, Status: corev1.ConditionTrue}}
			s.must(s.cl.Create(context.TODO(), p))
			m.rsv, m.otherMade = c17RBoundOther, true
		} else {
			if m.pod == c17POrig && m.podPending {
				// migration of a pending pod: the reservation is owned by, and consumed by, the target pod itself
				owner.Name, owner.UID = c17PodName, c17PodUID1
			} else if (m.pod == c17PReplacedA || m.pod == c17PReplacedB) && m.podNode() == m.rsvNode {
				// StatefulSet-like: the same-name replacement of the target pod is the pod that consumes the reservation
				owner.Name, owner.UID = c17PodName, c17PodUID2
			} else {
				owner.Name, owner.UID = c17NewPodName, "c17-pod-new-uid"
				s.must(s.cl.Create(context.TODO(), c17Pod(c17NewPodName, "c17-pod-new-uid", m.rsvNode)))
			}
			m.rsv, m.newPod, m.newPodName = c17RBoundNew, 1, owner.Name
		}
		s.mutateRsv(func(r *sev1alpha1.Reservation) {
			// what reservation controller.syncStatus writes for an allocate-once reservation
			r.Status.CurrentOwners = []corev1.ObjectReference{owner}
			reservationutil.SetReservationSucceeded(r)
		})
	case c17OpNewPodReady:
		if m.newPod != 1 || (m.newPodName == c17PodName && m.pod == c17POrig && m.podPending) {
			return false, nil // a pod that is not yet scheduled cannot become ready
		}
		if p := s.getPod(m.newPodName); p != nil {
			// pods have a status subresource in the fake client as on a real API server: a plain Update keeps the old status
			p.Status.Conditions = append(p.Status.Conditions, corev1.PodCondition{Type: corev1.PodReady, Status: corev1.ConditionTrue})
			s.must(s.cl.Status().Update(context.TODO(), p))
		}
		m.newPod = 2
	case c17OpTargetScheduled:
		if !s.cfg.pending || m.pod != c17POrig || !m.podPending {
			return false, nil
		}
		p := s.getPod(c17PodName)
		p.Spec.NodeName = c17NodeB
		s.must(s.cl.Update(context.TODO(), p)) // the binding
		for i := range p.Status.Conditions {
			if p.Status.Conditions[i].Type == corev1.PodScheduled {
				p.Status.Conditions[i] = corev1.PodCondition{Type: corev1.PodScheduled, Status: corev1.ConditionTrue}
			}
		}
		s.must(s.cl.Status().Update(context.TODO(), p))
		m.podPending, m.podWasPending = false, true
	case c17OpPodDeleted:
		if m.pod == c17PDeleted {
			return false, nil
		}
		s.must(s.cl.Delete(context.TODO(), &corev1.Pod{ObjectMeta: metav1.ObjectMeta{Namespace: c17NS, Name: c17PodName}}))
		m.pod = c17PDeleted
		if m.newPod != 0 && m.newPodName == c17PodName {
			m.newPod = 3 // the pod that consumed the reservation was this very pod: it is gone for good (a later same-name pod is another pod)
		}
	case c17OpPodReplacedA, c17OpPodReplacedB:
		if m.pod != c17PDeleted || m.podGen > 0 {
			return false, nil
		}
		node, st := c17NodeB, c17PReplacedB
		if o.code == c17OpPodReplacedA {
			node, st = c17NodeA, c17PReplacedA
		}
		s.must(s.cl.Create(context.TODO(), c17Pod(c17PodName, c17PodUID2, node)))
		m.pod, m.podGen = st, 1
	case c17OpTick:
		if m.afterTTL {
			return false, nil
		}
		s.clk.SetTime(c17T0.Add(2 * c17TTL))
		m.afterTTL = true
	case c17OpRestart:
		// a restart of a controller that has not reconciled since the last (re)start is the identity
		s.r.assumedCache.lock.Lock()
		n := len(s.r.assumedCache.items)
		s.r.assumedCache.lock.Unlock()
		if n == 0 {
			return false, nil
		}
		s.r = s.newReconciler()
	}
	if check {
		s.res.Count("env:"+strings.SplitN(o.name, "(", 2)[0], 1)
	}
	return true, nil
}

func (s *c17Sys) reconcile(failAt int, check bool) (bool, []mc.Violation) {
	m := &s.m
	prePhase, preRsv := m.phase, m.rsv
	s.inRec, s.writeIdx, s.failAt, s.fired, s.firedSite = true, 0, failAt, false, ""
	s.recEvicts, s.recCreates, s.recDeletes, s.conflicts = s.recEvicts[:0], 0, 0, 0
	s.viol = nil
	_, rerr := s.r.Reconcile(context.TODO(), reconcile.Request{NamespacedName: types.NamespacedName{Name: c17JobName}})
	s.inRec = false
	if failAt > 0 && !s.fired {
		return false, nil // this reconcile makes fewer than k writes: the fault placement does not exist
	}
	if failAt > 0 {
		m.faults++
	}
	job := s.getJob()
	m.phase, m.reason = job.Status.Phase, job.Status.Reason
	m.evicts += len(s.recEvicts)
	if !check {
		return true, nil
	}
	viol := s.viol
	res := s.res
	res.Count("reconciles", 1)
	res.MaxCounter("max_writes_in_one_reconcile", int64(s.writeIdx))
	if s.conflicts > 0 {
		res.Count("unexpected_conflict_errors", int64(s.conflicts))
	}
	if failAt > 0 {
		res.Count("fault@"+s.firedSite, 1)
		res.Count("reconciles_with_injected_fault", 1)
		if rerr == nil {
			res.Count("reconcile_swallowed_injected_error", 1)
		}
	}
	// clause 1 (gate) was judged inside Evict; here only the counters
	for _, e := range s.recEvicts {
		res.Count("evict_calls", 1)
		if e.failed {
			res.Count("evict_calls_failed_by_fault", 1)
		}
		if e.uidDiff {
			// not a clause of the statement (the job identifies its pod by name): reported, never a violation
			res.Count("diag:evict_of_pod_whose_uid_differs_from_spec.podRef.uid", 1)
		}
		if s.cfg.mode != sev1alpha1.PodMigrationJobModeEvictionDirectly {
			if e.gateOK {
				res.Count("evict_gate_ok(reservation scheduled on other node; pod="+c17PNames[e.pod]+")", 1)
			} else {
				res.Count("evict_gate_VIOLATED("+e.gateNote+")", 1)
			}
		}
	}
	// how often the controller declined to evict in each non-admissible situation (exercise of the gate's negative side)
	if len(s.recEvicts) == 0 && !c17Terminal(prePhase) && s.cfg.mode != sev1alpha1.PodMigrationJobModeEvictionDirectly {
		res.Count("no_evict_while_reservation_"+c17RNames[preRsv], 1)
	}
	// clause 2: finished stays finished, and triggers nothing
	if c17Terminal(prePhase) {
		res.Count("reconcile_of_finished_job("+string(prePhase)+")", 1)
		if job.Status.Phase != prePhase {
			viol = append(viol, mc.Violation{Key: s.vkey("finished-job-changed-phase", string(prePhase)+"->"+string(job.Status.Phase)),
				What: fmt.Sprintf("the job had reached %s and a later reconcile persisted phase %q (reason %q)", prePhase, job.Status.Phase, job.Status.Reason)})
		}
		if len(s.recEvicts) > 0 {
			viol = append(viol, mc.Violation{Key: s.vkey("finished-job-evicts", string(prePhase)),
				What: fmt.Sprintf("the job had reached %s and a later reconcile issued %d Evict call(s)", prePhase, len(s.recEvicts))})
		}
		if s.recCreates > 0 {
			viol = append(viol, mc.Violation{Key: s.vkey("finished-job-creates-reservation", string(prePhase)),
				What: fmt.Sprintf("the job had reached %s and a later reconcile issued %d reservation Create call(s)", prePhase, s.recCreates)})
		}
	} else if c17Terminal(job.Status.Phase) {
		route := string(job.Status.Phase)
		if job.Status.Phase == sev1alpha1.PodMigrationJobFailed {
			route += "/" + job.Status.Reason
		}
		res.Count("finished_by:"+route, 1)
		// clause 3: an expired job deletes its reservation
		if job.Status.Phase == sev1alpha1.PodMigrationJobFailed && job.Status.Reason == sev1alpha1.PodMigrationJobReasonTimeout {
			left := s.getRsv()
			hasRef := job.Spec.ReservationOptions != nil && job.Spec.ReservationOptions.ReservationRef != nil
			switch {
			case left != nil:
				viol = append(viol, mc.Violation{Key: s.vkey("ttl-abort-leaves-reservation", fmt.Sprintf("job-has-reservationRef=%v", hasRef)),
					What: fmt.Sprintf("the job was failed with reason Timeout but its reservation %q (reference model: %s) still exists and this reconcile issued %d successful reservation Delete call(s); job.spec.reservationOptions.reservationRef set: %v",
						s.rsvName(), c17RNames[m.rsv], s.recDeletes, hasRef)})
			case s.recDeletes > 0:
				res.Count("ttl_abort:reservation_deleted_by_this_reconcile", 1)
			case preRsv == c17RNone:
				res.Count("ttl_abort:no_reservation_was_ever_created", 1)
			default:
				res.Count("ttl_abort:reservation_already_gone", 1)
			}
		}
	}
	if m.afterTTL && !c17Terminal(prePhase) && !c17Terminal(job.Status.Phase) {
		res.Count("past_ttl_reconcile_did_not_finish_job(write failed)", 1)
	}
	// clause 4: with no API errors a job evicts its pod at most once
	if m.faults == 0 {
		if m.evicts > 1 {
			viol = append(viol, mc.Violation{Key: s.vkey("evicted-more-than-once-without-api-errors"),
				What: fmt.Sprintf("no API write failed in this history, yet %d Evict calls were issued for the job (the last %d by this reconcile)", m.evicts, len(s.recEvicts))})
		} else if m.evicts == 1 && len(s.recEvicts) == 0 && !c17Terminal(prePhase) {
			res.Count("fault_free_reconcile_after_eviction_did_not_evict_again", 1)
		}
	} else if m.evicts > 1 && len(s.recEvicts) > 0 {
		res.Count("repeated_evict_after_api_failure(allowed)", 1)
	}
	return true, viol
}

// ---- canonical state ------------------------------------------------------------------------------------------------

type c17Snap struct {
	job    *sev1alpha1.PodMigrationJob
	rsv    *sev1alpha1.Reservation
	pod    *corev1.Pod
	newPod *corev1.Pod
}

func (s *c17Sys) snapshot() *c17Snap {
	if s.snap == nil {
		s.snap = &c17Snap{job: s.getJob(), rsv: s.getRsv(), pod: s.getPod(c17PodName), newPod: s.getPod(c17NewPodName)}
	}
	return s.snap
}

// Invariants only checks that the harness' reference model and the store agree about what the environment produced
// (a disagreement is a harness defect and must be loud); the property clauses are transition-level.
func (s *c17Sys) Invariants() []mc.Violation {
	sn := s.snapshot()
	m := &s.m
	var bad []string
	exists := m.rsv != c17RNone && m.rsv != c17RDeleted
	if exists != (sn.rsv != nil) {
		bad = append(bad, fmt.Sprintf("reservation: model %s, store has object: %v", c17RNames[m.rsv], sn.rsv != nil))
	}
	if sn.rsv != nil && sn.rsv.Status.NodeName != m.rsvNode {
		bad = append(bad, fmt.Sprintf("reservation node: model %q store %q", m.rsvNode, sn.rsv.Status.NodeName))
	}
	if (m.pod != c17PDeleted) != (sn.pod != nil) {
		bad = append(bad, fmt.Sprintf("pod: model %s, store has object: %v", c17PNames[m.pod], sn.pod != nil))
	}
	if sn.pod != nil && sn.pod.Spec.NodeName != m.podNode() {
		bad = append(bad, fmt.Sprintf("pod node: model %q store %q", m.podNode(), sn.pod.Spec.NodeName))
	}
	if m.newPod == 1 || m.newPod == 2 {
		if p := s.getPod(m.newPodName); p != nil && c17Ready(p) != (m.newPod == 2) {
			bad = append(bad, fmt.Sprintf("bound pod %s readiness: model %v store %v", m.newPodName, m.newPod == 2, c17Ready(p)))
		}
	}
	if s.cfg.pending && sn.pod != nil && m.pod == c17POrig {
		sched := false
		for _, c := range sn.pod.Status.Conditions {
			if c.Type == corev1.PodScheduled && c.Status == corev1.ConditionTrue {
				sched = true
			}
		}
		if sched == m.podPending {
			bad = append(bad, fmt.Sprintf("pending target pod: model pending=%v, store PodScheduled=%v", m.podPending, sched))
		}
	}
	if len(bad) > 0 {
		return []mc.Violation{{Key: "C17|harness|model-store-mismatch", What: strings.Join(bad, "; ")}}
	}
	return nil
}

// Key: everything that can influence a later reconcile or a later verdict.
//   - the persisted job: the spec fields the controller writes (podRef.uid, reservationOptions/template presence,
//     reservationRef, deleteOptions presence) and the whole status except timestamps;
//   - the stored reservation (phase, node, conditions, owners, presence of the order label), target pod (uid, node),
//     bound pod (readiness);
//   - the reference model (reservation / pod enums, TTL passed, faults used, evictions so far capped at 2);
//   - the only in-memory state of the Reconciler that Reconcile reads: whether the assumed cache holds the job.
//
// Dropped, with reasons:
//   - resourceVersions: monotone counters. They are compared (a) by the fake client for optimistic concurrency - every
//     write of the controller is made on an object it read or wrote earlier in the same reconcile and nothing else
//     writes in between (events are atomic between reconciles), so no conflict can arise (counter
//     unexpected_conflict_errors stays 0), and (b) by assumedCache.isNewOrSameObj, which skips a job only when the
//     freshly read version is OLDER than the remembered one; reads are never stale here, so the comparison is
//     constant. Their absolute value is never used.
//   - condition LastTransitionTime/LastProbeTime, the value of the reservation order label, creationTimestamps of
//     objects other than the job: wall-clock stamps that the controller only copies; util.UpdateCondition compares
//     LastTransitionTime only after copying the old value when the status is unchanged, so equality does not depend
//     on the wall clock. The job's creationTimestamp is a constant; the fake clock is one of two instants (afterTTL).
func (s *c17Sys) Key() string {
	sn := s.snapshot()
	m := &s.m
	var sb strings.Builder
	j := sn.job
	fmt.Fprintf(&sb, "job{uid=%s", j.Spec.PodRef.UID)
	if ro := j.Spec.ReservationOptions; ro != nil {
		fmt.Fprintf(&sb, ",ro{tmpl=%v", ro.Template != nil)
		if ro.ReservationRef != nil {
			fmt.Fprintf(&sb, ",ref=%s/%s/%s", ro.ReservationRef.Namespace, ro.ReservationRef.Name, ro.ReservationRef.UID)
		}
		sb.WriteString("}")
	}
	fmt.Fprintf(&sb, ",do=%v,paused=%v|%s|%s|%s|%s|node=%s", j.Spec.DeleteOptions != nil, j.Spec.Paused, j.Status.Phase, j.Status.Status, j.Status.Reason, j.Status.Message, j.Status.NodeName)
	if j.Status.PodRef != nil {
		fmt.Fprintf(&sb, "|podRef=%s/%s", j.Status.PodRef.Name, j.Status.PodRef.UID)
	}
	for _, c := range j.Status.Conditions {
		fmt.Fprintf(&sb, "|%s=%s,%s,%s", c.Type, c.Status, c.Reason, c.Message)
	}
	fmt.Fprintf(&sb, "|preempted=%d,%d}", len(j.Status.PreemptedPodsRef), len(j.Status.PreemptedPodsReservations))
	if r := sn.rsv; r != nil {
		_, order := r.Labels["scheduling.koordinator.sh/reservation-order"]
		fmt.Fprintf(&sb, " rsv{%s,node=%s,order=%v", r.Status.Phase, r.Status.NodeName, order)
		for _, c := range r.Status.Conditions {
			fmt.Fprintf(&sb, "|%s=%s,%s", c.Type, c.Status, c.Reason)
		}
		for _, o := range r.Status.CurrentOwners {
			fmt.Fprintf(&sb, "|owner=%s/%s", o.Name, o.UID)
		}
		sb.WriteString("}")
	}
	if p := sn.pod; p != nil {
		fmt.Fprintf(&sb, " pod{%s,%s,%s,ready=%v", p.UID, p.Spec.NodeName, p.Status.Phase, c17Ready(p))
		for _, c := range p.Status.Conditions {
			fmt.Fprintf(&sb, ",%s=%s", c.Type, c.Status)
		}
		sb.WriteString("}")
	}
	if p := sn.newPod; p != nil {
		fmt.Fprintf(&sb, " newpod{%s,ready=%v}", p.Spec.NodeName, c17Ready(p))
	}
	ev := m.evicts
	if ev > 2 {
		ev = 2
	}
	s.r.assumedCache.lock.Lock()
	cached := len(s.r.assumedCache.items)
	s.r.assumedCache.lock.Unlock()
	fmt.Fprintf(&sb, " model{rsv=%s@%s,delByCtl=%v,pod=%s,gen=%d,newpod=%d/%s,ttl=%v,faults=%d,evicts=%d,userRsv=%v,other=%v,pending=%v/%v,cache=%d}",
		c17RNames[m.rsv], m.rsvNode, m.rsvDelByCtl, c17PNames[m.pod], m.podGen, m.newPod, m.newPodName, m.afterTTL, m.faults, ev, m.userRsvMade, m.otherMade, m.podPending, m.podWasPending, cached)
	return sb.String()
}

func c17Ready(p *corev1.Pod) bool {
	for _, c := range p.Status.Conditions {
		if c.Type == corev1.PodReady {
			return c.Status == corev1.ConditionTrue
		}
	}
	return false
}

// ---- entry points ---------------------------------------------------------------------------------------------------

var c17Assumptions = []string{
	"reads are never stale: every Get of the controller observes the latest object (the informer-cache lag of a real manager client is outside the alphabet); environment events happen between reconciles, not inside one",
	"an injected API write failure has no effect on the store (the request is rejected, not applied-with-lost-response); reads never fail; the Evict call of the evictor counts as a write call and can be the failing one",
	"the eviction is asynchronous: a successful Evict call does not remove the pod, the pod disappearing is a separate environment event (graceful termination / soft eviction)",
	"reservation status values are produced with koord-scheduler's own setters (pkg/util/reservation: SetReservationUnschedulable/Available/Expired/Succeeded); 'rsv-expired' is also offered for a never-scheduled reservation (older schedulers expire those; the current reservation controller only expires assigned ones)",
	"the target pod is replaced at most once per history (same name, new UID, on node-b - the node the reservation can be scheduled to - or, thorough tier, on its old node); one job, one reservation, two nodes",
	"preemption for a reservation cannot be exercised: the production interpreter returns Preemption()==nil and the package's Reservation wrapper NeedPreemption()==false, so 'or preemption has completed' is unreachable code in this build",
	"the job is user-created (no job-created-by annotation), not paused, TTL 5m, no object limiters (as in newTestReconciler); its mode is explicit, or (mode-origin parts) left empty so that the controller's defaultJobMode applies",
}

// c17Run explores one configuration. cumShare is the fraction of the unit's wall-clock budget that may be used up when
// this part ends (parts of one unit run one after the other in one process; without the split an early part could
// starve the later ones on a loaded machine; time a part does not use is carried over to the next).
func c17Run(t *testing.T, env *mc.Env, cfg *c17Cfg, cumShare float64) {
	penv := mc.LoadEnv()
	penv.Budget = time.Duration(float64(env.Budget)*cumShare) - env.Elapsed()
	if penv.Budget < 0 {
		penv.Budget = 0
	}
	t0 := time.Now()
	if cfg.maxK == 0 {
		cfg.maxK = 5
	}
	cfg.ops = c17BuildOps(cfg)
	for _, n := range cfg.prefix {
		found := false
		for i, o := range cfg.ops {
			if o.name == n {
				cfg.pfx, found = append(cfg.pfx, i), true
			}
		}
		if !found {
			panic("c17 harness: unknown prefix event " + n)
		}
	}
	res := mc.NewResult("C17", cfg.name, "bfs")
	res.Rule = fmt.Sprintf("BFS over all sequences (<= depth %d) of the %d-event alphabet {reconcile; reconcile with the k-th API write (k<=%d, incl. the Evict call) failing, <= %d failures per history; reservation: unschedulable / scheduled on other node / scheduled on the pod's node / expired / deleted / bound to the job's new pod / bound to another pod; target pod deleted / replaced (new UID); bound pod ready; clock passes the job TTL; controller restart} on the real Reconciler.Reconcile + production reservation interpreter over a fake client holding real objects; mode %s; states deduplicated by persisted job + stored objects + reference model",
		cfg.depth, len(cfg.ops), cfg.maxK, cfg.maxFaults, cfg.mode)
	res.Assumptions = c17Assumptions
	if len(cfg.prefix) > 0 {
		res.Rule += fmt.Sprintf("; every history starts with the fixed prefix %v (the fault-free road up to the issued eviction)", cfg.prefix)
	}
	res.Bounds = map[string]any{"prefix": cfg.prefix, "max_faults_per_history": cfg.maxFaults, "fault_positions_per_reconcile": cfg.maxK, "pod_replacements": 1, "nodes": 2}
	b := &mc.BFS{Res: res, Env: penv, New: func() mc.System { return c17NewSys(cfg, res) }, NumOps: len(cfg.ops),
		OpName: func(i int) string { return cfg.ops[i].name }, MaxDepth: cfg.depth,
		// no Go map is iterated on the reconcile path (object limiter maps are nil as in newTestReconciler), so one
		// execution per transition suffices
		Repeats: 0}
	b.Run()
	if env.Replay == "" {
		if mw := res.Counters["max_writes_in_one_reconcile"]; mw > int64(cfg.maxK) {
			res.Exhaustive = false
			res.Capped = strings.TrimPrefix(res.Capped+fmt.Sprintf("; a reconcile made %d writes but fault positions only cover the first %d", mw, cfg.maxK), "; ")
		}
		// vacuity: every clause must have been exercised
		need := []string{"reconciles", "finished_by:Succeeded", "max_writes_in_one_reconcile"}
		if cfg.maxFaults > 0 {
			need = append(need, "reconciles_with_injected_fault")
		}
		need = append(need, "reconcile_of_finished_job(Failed)", "finished_by:Failed/Timeout")
		if !cfg.pending {
			need = append(need, "reconcile_of_finished_job(Succeeded)")
			if len(cfg.prefix) == 0 {
				need = append(need, "evict_calls")
			}
		}
		for _, n := range need {
			if res.Counters[n] == 0 {
				res.Diag("VACUITY WARNING: counter " + n + " is zero")
			}
		}
	}
	res.WallS = time.Since(t0).Seconds()
	env.Emit(res)
	t.Logf("C17 %s: states=%d transitions=%d depth=%d exhaustive=%v violations=%d %s", cfg.name, res.States, res.Transitions, res.MaxDepth, res.Exhaustive, res.NumViolations(), res.Capped)
}

func TestVerifC17RF(t *testing.T) {
	env := mc.LoadEnv()
	c17Run(t, env, &c17Cfg{name: "rf-hist", kind: "rf", mode: sev1alpha1.PodMigrationJobModeReservationFirst,
		maxFaults: env.Pick(1, 2), depth: env.Pick(8, 10), replaceA: env.Thorough(), legacy: true}, 1.0)
}

func TestVerifC17Aux(t *testing.T) {
	env := mc.LoadEnv()
	// cumulative budget shares of the parts: after-eviction, direct, the three mode-origin parts (m0..m2), then the rest
	share := []float64{0.35, 0.45, 1.0}
	mshare := []float64{0.55, 0.65, 0.7}
	if env.Thorough() {
		share = []float64{0.25, 0.33, 0.75, 1.0}
		mshare = []float64{0.4, 0.47, 0.5}
	}
	// second half of the life cycle: everything that can follow an issued eviction (pod gone / replaced, reservation
	// consumed / expired / deleted, TTL, restart, write failures), deep enough to continue after Succeeded
	c17Run(t, env, &c17Cfg{name: "rf-after-eviction-hist", kind: "rf", mode: sev1alpha1.PodMigrationJobModeReservationFirst,
		prefix:    []string{"reconcile", "rsv-scheduled-other-node", "reconcile"},
		maxFaults: env.Pick(1, 2), depth: env.Pick(6, 8), replaceA: env.Thorough()}, share[0])
	c17Run(t, env, &c17Cfg{name: "direct-hist", kind: "direct", mode: sev1alpha1.PodMigrationJobModeEvictionDirectly,
		maxFaults: env.Pick(1, 2), depth: env.Pick(6, 9), replaceA: env.Thorough()}, share[1])
	// where the mode comes from: an explicit ReservationFirst under a controller whose default is EvictDirectly stays
	// reservation-first; an empty spec.mode follows the controller default (both ways)
	c17Run(t, env, &c17Cfg{name: "rf-explicit-under-direct-default-hist", kind: "rf", mode: sev1alpha1.PodMigrationJobModeReservationFirst,
		ctlDefault: sev1alpha1.PodMigrationJobModeEvictionDirectly, maxFaults: 1, depth: env.Pick(5, 7)}, mshare[0])
	c17Run(t, env, &c17Cfg{name: "rf-by-controller-default-hist", kind: "rf", mode: sev1alpha1.PodMigrationJobModeReservationFirst,
		modeFromDefault: true, maxFaults: 1, depth: env.Pick(5, 7)}, mshare[1])
	c17Run(t, env, &c17Cfg{name: "direct-by-controller-default-hist", kind: "direct", mode: sev1alpha1.PodMigrationJobModeEvictionDirectly,
		modeFromDefault: true, ctlDefault: sev1alpha1.PodMigrationJobModeEvictionDirectly, maxFaults: 1, depth: env.Pick(5, 7)}, mshare[2])
	if !env.Thorough() {
		// migration of a Pending pod (see below), shallower in the quick tier
		c17Run(t, env, &c17Cfg{name: "rf-pending-pod-hist", kind: "rf", mode: sev1alpha1.PodMigrationJobModeReservationFirst, pending: true,
			maxFaults: 1, depth: 6}, share[2])
	}
	if env.Thorough() {
		c17Run(t, env, &c17Cfg{name: "rf-preset-ref-hist", kind: "rf", maxK: 7, mode: sev1alpha1.PodMigrationJobModeReservationFirst, presetRef: true,
			maxFaults: 1, depth: 8, legacy: true}, share[2])
		// migration of a Pending pod: the reservation is owned by the pod itself, nothing is to be evicted
		c17Run(t, env, &c17Cfg{name: "rf-pending-pod-hist", kind: "rf", mode: sev1alpha1.PodMigrationJobModeReservationFirst, pending: true,
			maxFaults: 1, depth: 7}, share[3])
	}
}
