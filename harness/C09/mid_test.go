package midresource

// C09, mid-tier part (the property's title covers batch AND mid; its statement spells out batch). For the mid
// amounts only the clauses that carry over verbatim are judged, through midresource.Plugin.Calculate on the real
// code: published >= 0; published <= the configured percentage cap (midCPU/MemoryThresholdPercent) of node
// capacity; raising one consumption input (node usage, system usage, reservations, prod host-app usage, a pod's
// request) by one alphabet step never raises a published amount; stale node metrics => Reset items without
// quantity. The mid formula itself (reclaimable + share of unallocated) is NOT restated.

import (
	"encoding/json"
	"fmt"
	"sort"
	"sync"
	"testing"
	"time"

	corev1 "k8s.io/api/core/v1"
	"k8s.io/apimachinery/pkg/api/resource"
	metav1 "k8s.io/apimachinery/pkg/apis/meta/v1"
	fakeclock "k8s.io/utils/clock/testing"

	"github.com/koordinator-sh/koordinator/apis/configuration"
	"github.com/koordinator-sh/koordinator/apis/extension"
	slov1alpha1 "github.com/koordinator-sh/koordinator/apis/slo/v1alpha1"
	"github.com/koordinator-sh/koordinator/pkg/slo-controller/noderesource/framework"
	"github.com/koordinator-sh/koordinator/pkg/util/sloconfig"
	"github.com/koordinator-sh/koordinator/pkg/zzverif/mc"
)

const (
	c09mCapCPU, c09mCapMem = int64(8000), int64(16 << 30)
	c09mUCPU, c09mUMem     = int64(1000), int64(2 << 30)
)

var c09mNow = time.Date(2026, 1, 2, 3, 4, 5, 0, time.UTC)

type c09mPod struct {
	Prio  string `json:"prio"` // prod|mid|batch|none
	Phase string `json:"phase"`
	Req   int64  `json:"req"`
}

type c09mCase struct {
	NodeUse     int64     `json:"nodeUsage"` // units; -1 = node usage missing in the metric
	Sys         int64     `json:"systemUsage"`
	KRes        int64     `json:"kubeletReserved"`
	ARes        int64     `json:"annotationReserved"`
	HostProd    int64     `json:"hostAppProdUsage"`
	Reclaimable int64     `json:"prodReclaimable"` // units; -1 = metric absent
	Pods        []c09mPod `json:"pods"`
	Thr         int64     `json:"midThresholdPercent"`   // -1 = nil
	Unalloc     int64     `json:"midUnallocatedPercent"` // -1 = nil
	Mode        string    `json:"mode"`                  // dynamic|static
	StaticPct   int64     `json:"midStaticReservedPercent"`
	AgeSec      int64     `json:"metricAgeSeconds"` // -1 = nil update time
	Degrade     int64     `json:"degradeMinutes"`
}

func (c *c09mCase) clone() c09mCase {
	d := *c
	d.Pods = append([]c09mPod(nil), c.Pods...)
	return d
}

func c09mRL(u int64) corev1.ResourceList {
	return corev1.ResourceList{
		corev1.ResourceCPU:    *resource.NewMilliQuantity(u*c09mUCPU, resource.DecimalSI),
		corev1.ResourceMemory: *resource.NewQuantity(u*c09mUMem, resource.BinarySI),
	}
}

func c09mP(v int64) *int64 {
	if v < 0 {
		return nil
	}
	return &v
}

type c09mOut struct {
	panicS, errS string
	has, reset   [2]bool
	resetQ       bool
	v            [2]int64
}

var c09mPrio = map[string]int32{"prod": 9500, "mid": 7500, "batch": 5500}

func c09mRun(c *c09mCase) (o c09mOut) {
	defer func() {
		if r := recover(); r != nil {
			o.panicS = fmt.Sprint(r)
		}
	}()
	st := &configuration.ColocationStrategy{
		DegradeTimeMinutes:             &c.Degrade,
		MidCPUThresholdPercent:         c09mP(c.Thr),
		MidMemoryThresholdPercent:      c09mP(c.Thr),
		MidUnallocatedPercent:          c09mP(c.Unalloc),
		MidStaticCPUReservedPercent:    c09mP(c.StaticPct),
		MidStaticMemoryReservedPercent: c09mP(c.StaticPct),
	}
	if c.Mode == "static" {
		m := configuration.MidReclaimModeStatic
		st.MidReclaimMode = &m
	}
	node := &corev1.Node{ObjectMeta: metav1.ObjectMeta{Name: "c09-mid"}, Status: corev1.NodeStatus{
		Capacity: c09mRL(8), Allocatable: c09mRL(8 - c.KRes)}}
	if c.ARes > 0 {
		node.Annotations = map[string]string{extension.AnnotationNodeReservation: fmt.Sprintf(`{"resources":{"cpu":"%dm","memory":"%d"}}`, c.ARes*c09mUCPU, c.ARes*c09mUMem)}
	}
	nm := &slov1alpha1.NodeMetric{Status: slov1alpha1.NodeMetricStatus{NodeMetric: &slov1alpha1.NodeMetricInfo{
		SystemUsage: slov1alpha1.ResourceMap{ResourceList: c09mRL(c.Sys)}}}}
	if c.NodeUse >= 0 {
		nm.Status.NodeMetric.NodeUsage = slov1alpha1.ResourceMap{ResourceList: c09mRL(c.NodeUse)}
	}
	if c.AgeSec >= 0 {
		nm.Status.UpdateTime = &metav1.Time{Time: c09mNow.Add(-time.Duration(c.AgeSec) * time.Second)}
	}
	if c.Reclaimable >= 0 {
		nm.Status.ProdReclaimableMetric = &slov1alpha1.ReclaimableMetric{Resource: slov1alpha1.ResourceMap{ResourceList: c09mRL(c.Reclaimable)}}
	}
	if c.HostProd > 0 {
		nm.Status.HostApplicationMetric = []*slov1alpha1.HostApplicationMetricInfo{{Name: "h", Priority: extension.PriorityProd,
			Usage: slov1alpha1.ResourceMap{ResourceList: c09mRL(c.HostProd)}}}
	}
	pl := &corev1.PodList{Items: make([]corev1.Pod, len(c.Pods))}
	for i, p := range c.Pods {
		pod := &pl.Items[i]
		pod.Name, pod.Namespace = fmt.Sprintf("p%d", i), "ns"
		pod.Labels = map[string]string{extension.LabelPodQoS: string(extension.QoSLS)}
		if v, ok := c09mPrio[p.Prio]; ok {
			pv := v
			pod.Spec.Priority = &pv
		}
		pod.Spec.Containers = []corev1.Container{{Name: "c"}}
		if p.Req > 0 {
			pod.Spec.Containers[0].Resources.Requests = c09mRL(p.Req)
		}
		pod.Status.Phase = corev1.PodPhase(p.Phase)
	}
	items, err := (&Plugin{}).Calculate(st, node, pl, &framework.ResourceMetrics{NodeMetric: nm})
	if err != nil {
		o.errS = err.Error()
		return
	}
	for _, it := range items {
		x := -1
		switch it.Name {
		case extension.MidCPU:
			x = 0
		case extension.MidMemory:
			x = 1
		default:
			continue
		}
		if it.Reset {
			o.reset[x] = true
			if it.Quantity != nil {
				o.resetQ = true
			}
			continue
		}
		if it.Quantity != nil {
			o.v[x], o.has[x] = it.Quantity.Value(), true // mid-cpu is published as a count of milli-cores
		}
	}
	return
}

type c09mWitness struct {
	count, weight int64
	js, what      string
	replay        any
}

type c09mViols struct {
	mu sync.Mutex
	m  map[string]*c09mWitness
}

func (v *c09mViols) add(key string, weight int64, replay any, what func() string) {
	v.mu.Lock()
	defer v.mu.Unlock()
	w := v.m[key]
	if w == nil {
		w = &c09mWitness{weight: 1 << 62}
		v.m[key] = w
	}
	w.count++
	if weight > w.weight {
		return
	}
	b, _ := json.Marshal(replay)
	if weight == w.weight && string(b) >= w.js {
		return
	}
	w.weight, w.js, w.replay, w.what = weight, string(b), replay, what()
}

func c09mWeight(c *c09mCase) int64 {
	w := c.Sys + c.KRes + c.ARes + c.HostProd + max(c.NodeUse, 0) + max(c.Reclaimable, 0)
	for _, p := range c.Pods {
		w += p.Req + 1
	}
	for _, v := range []int64{c.Thr, c.Unalloc, c.StaticPct} {
		if v >= 0 {
			w++
		}
	}
	return w
}

type c09mDim struct {
	name string
	n    int
	cons bool
	from int
	set  func(c *c09mCase, d int)
	desc string
}

var c09mRes = [2]string{"mid-cpu", "mid-memory"}

func TestVerifC09Mid(t *testing.T) {
	env := mc.LoadEnv()
	old := clk
	clk = fakeclock.NewFakeClock(c09mNow)
	defer func() { clk = old }()
	var rc c09mCase
	if part, ok := env.ReplayData(&rc); ok {
		if part != "mid-calculate" {
			return
		}
		o := c09mRun(&rc)
		fmt.Printf("REPLAY case=%+v -> %+v\n", rc, o)
		return
	}
	defThr := *sloconfig.DefaultColocationStrategy().MidCPUThresholdPercent
	npods := env.Pick(1, 2)
	var dims []c09mDim
	addI := func(name string, vals []int64, cons bool, from int, set func(c *c09mCase, v int64)) {
		dims = append(dims, c09mDim{name: name, n: len(vals), cons: cons, from: from, desc: fmt.Sprint(vals), set: func(c *c09mCase, d int) { set(c, vals[d]) }})
	}
	addS := func(name string, vals []string, set func(c *c09mCase, v string)) {
		dims = append(dims, c09mDim{name: name, n: len(vals), desc: fmt.Sprint(vals), set: func(c *c09mCase, d int) { set(c, vals[d]) }})
	}
	addI("node-usage(-1=missing)", []int64{-1, 0, 2, 5, 10}, true, 1, func(c *c09mCase, v int64) { c.NodeUse = v })
	addI("system-usage", []int64{0, 2}, true, 0, func(c *c09mCase, v int64) { c.Sys = v })
	addI("kubelet-reserved", []int64{0, 1}, true, 0, func(c *c09mCase, v int64) { c.KRes = v })
	addI("annotation-reserved", []int64{0, 3}, true, 0, func(c *c09mCase, v int64) { c.ARes = v })
	addI("host-app-prod-usage", []int64{0, 1}, true, 0, func(c *c09mCase, v int64) { c.HostProd = v })
	addI("prod-reclaimable(-1=absent)", []int64{-1, 0, 2, 6}, false, 0, func(c *c09mCase, v int64) { c.Reclaimable = v })
	for i := 0; i < npods; i++ {
		i := i
		addS("pod.priority", []string{"prod", "mid", "batch", "none"}, func(c *c09mCase, v string) { c.Pods[i].Prio = v })
		addS("pod.phase", []string{"Running", "Succeeded"}, func(c *c09mCase, v string) { c.Pods[i].Phase = v })
		addI("pod.request", []int64{0, 2, 4}, true, 0, func(c *c09mCase, v int64) { c.Pods[i].Req = v })
	}
	if env.Thorough() {
		addI("mid-threshold%(-1=nil)", []int64{-1, 50, 10}, false, 0, func(c *c09mCase, v int64) { c.Thr = v })
		addI("mid-unallocated%(-1=nil)", []int64{-1, 50, 100}, false, 0, func(c *c09mCase, v int64) { c.Unalloc = v })
		dims = append(dims, c09mDim{name: "mode", n: 3, desc: "{dynamic,static reserved% nil,static 80%}", set: func(c *c09mCase, d int) {
			c.Mode, c.StaticPct = []string{"dynamic", "static", "static"}[d], []int64{-1, -1, 80}[d]
		}})
	} else {
		addI("mid-threshold%(-1=nil)", []int64{-1, 50}, false, 0, func(c *c09mCase, v int64) { c.Thr = v })
		addI("mid-unallocated%(-1=nil)", []int64{-1, 50, 100}, false, 0, func(c *c09mCase, v int64) { c.Unalloc = v })
		dims = append(dims, c09mDim{name: "mode", n: 2, desc: "{dynamic,static 80%}", set: func(c *c09mCase, d int) {
			c.Mode, c.StaticPct = []string{"dynamic", "static"}[d], []int64{-1, 80}[d]
		}})
	}
	dims = append(dims, c09mDim{name: "metric-age", n: 4, desc: "{30s,D-1s,D+1s,nil} with D=15min", set: func(c *c09mCase, d int) {
		c.AgeSec = []int64{30, 15*60 - 1, 15*60 + 1, -1}[d]
	}})

	res := mc.NewResult("C09", "mid-calculate", "enumeration")
	var outer, inner []int
	orx, irx := mc.Radix{}, mc.Radix{}
	for i, d := range dims {
		if d.cons {
			inner = append(inner, i)
			irx.Dims = append(irx.Dims, d.n)
		} else {
			outer = append(outer, i)
			orx.Dims = append(orx.Dims, d.n)
		}
	}
	stride := make([]int64, len(inner))
	s := int64(1)
	for k := range inner {
		stride[k] = s
		s *= int64(irx.Dims[k])
	}
	innerSize := irx.Size()
	vs := &c09mViols{m: map[string]*c09mWitness{}}
	ds := mc.NewDistinctSet()
	bufs := make([][]c09mOut, env.Workers)
	setInner := func(c *c09mCase, j int64) {
		for k, d := range irx.Decode(j, make([]int, 0, 12)) {
			dims[inner[k]].set(c, d)
		}
	}
	// one outer tuple per engine chunk (256 indices) so that the blocks spread over all workers
	done, complete := env.ParallelRangeL(res, orx.Size()*256, func(l *mc.Local, i256 int64) {
		if i256%256 != 0 {
			return
		}
		i := i256 / 256
		c := c09mCase{Degrade: 15, Pods: make([]c09mPod, npods)}
		for k, d := range orx.Decode(i, make([]int, 0, 16)) {
			dims[outer[k]].set(&c, d)
		}
		for p := 1; p < npods; p++ { // pods are a multiset: only sorted (priority, phase) tuples are run
			if c.Pods[p-1].Prio+c.Pods[p-1].Phase > c.Pods[p].Prio+c.Pods[p].Phase {
				l.Count("symmetric_tuples_skipped", 1)
				return
			}
		}
		buf := bufs[l.Worker]
		if buf == nil {
			buf = make([]c09mOut, innerSize)
			bufs[l.Worker] = buf
		}
		stale := c.AgeSec < 0 || c.AgeSec > c.Degrade*60
		thr := c.Thr
		if thr < 0 {
			thr = defThr
		}
		for j := int64(0); j < innerSize; j++ {
			setInner(&c, j)
			o := c09mRun(&c)
			l.Evals++
			buf[j] = o
			cc := c.clone()
			w := c09mWeight(&c)
			if o.panicS != "" {
				vs.add("C09|mid|panic", w, cc, func() string { return o.panicS + fmt.Sprintf("; case %+v", cc) })
				continue
			}
			if stale {
				l.Count("stale_cases", 1)
				if o.errS != "" || !o.reset[0] || !o.reset[1] || o.has[0] || o.has[1] || o.resetQ {
					kind := "expired"
					if c.AgeSec < 0 {
						kind = "nil-update-time"
					}
					vs.add("C09|mid|stale-metric-not-withdrawn|"+kind, w, cc, func() string {
						return fmt.Sprintf("stale node metric but result is not a pair of Reset items without quantity: %+v; case %+v", o, cc)
					})
				} else {
					l.Count("stale_cases_withdrawn", 1)
				}
				continue
			}
			if o.errS != "" {
				vs.add("C09|mid|error-on-fresh-input", w, cc, func() string { return o.errS + fmt.Sprintf("; case %+v", cc) })
				continue
			}
			nontrivial := false
			for x := 0; x < 2; x++ {
				x := x
				if o.reset[x] {
					l.Count("fresh_but_reset(diag)", 1)
					continue
				}
				if !o.has[x] {
					vs.add("C09|"+c09mRes[x]+"|missing", w, cc, func() string { return fmt.Sprintf("no quantity and no Reset; case %+v", cc) })
					continue
				}
				capV := []int64{c09mCapCPU, c09mCapMem}[x]
				if o.v[x] < 0 {
					vs.add("C09|"+c09mRes[x]+"|negative", w, cc, func() string { return fmt.Sprintf("published %d < 0; case %+v", o.v[x], cc) })
					continue
				}
				if o.v[x]*100 > capV*thr {
					vs.add("C09|"+c09mRes[x]+"|percentage-cap-exceeded", w, cc, func() string {
						return fmt.Sprintf("published %s=%d exceeds %d%% of capacity %d; case %+v", c09mRes[x], o.v[x], thr, capV, cc)
					})
					continue
				}
				if (o.v[x]+1)*100 > capV*thr {
					l.Count(c09mRes[x]+":percentage_cap_tight", 1)
				}
				if o.v[x] == 0 {
					l.Count(c09mRes[x]+":published_zero", 1)
				} else {
					nontrivial = true
				}
			}
			if nontrivial {
				ds.Add(fmt.Sprint(c.Thr, c.Unalloc, c.Mode, c.StaticPct, c.Reclaimable, c.NodeUse, max(c.Sys+c.HostProd, c.KRes, c.ARes), o.v))
			}
		}
		if stale {
			return
		}
		for j := int64(0); j < innerSize; j++ {
			a := &buf[j]
			for k, di := range inner {
				d := &dims[di]
				digit := int((j / stride[k]) % int64(d.n))
				if digit < d.from || digit+1 >= d.n {
					continue
				}
				b := &buf[j+stride[k]]
				for x := 0; x < 2; x++ {
					if !a.has[x] || !b.has[x] {
						continue
					}
					l.Count("monotonic_comparisons", 1)
					if b.v[x] < a.v[x] {
						l.Count("monotonic_strict_decrease:"+d.name, 1)
					}
					if b.v[x] > a.v[x] {
						lo, hi := c.clone(), c.clone()
						setInner(&lo, j)
						setInner(&hi, j+stride[k])
						x, dn, from, to := x, d.name, a.v[x], b.v[x]
						vs.add("C09|"+c09mRes[x]+"|not-monotone|"+dn, c09mWeight(&lo), map[string]any{"lower": lo, "raised": hi}, func() string {
							return fmt.Sprintf("raising %s by one step raised published %s from %d to %d; lower %+v raised %+v", dn, c09mRes[x], from, to, lo, hi)
						})
					}
				}
			}
		}
	})
	keys := make([]string, 0, len(vs.m))
	for k := range vs.m {
		keys = append(keys, k)
	}
	sort.Strings(keys)
	for _, k := range keys {
		w := vs.m[k]
		res.Violate(mc.Violation{Key: k, What: fmt.Sprintf("%s [%d violating cases/pairs; simplest witness shown]", w.what, w.count), Replay: w.replay})
		res.Count("violating_cases:"+k, w.count)
	}
	res.Traces = res.Evaluations
	res.Distinct = ds.Len()
	res.Exhaustive = complete
	if !complete {
		res.Capped = fmt.Sprintf("time budget hit after %d of %d outer tuples", done/256, orx.Size())
	}
	var rule string
	seen := map[string]bool{}
	for _, d := range dims {
		if !seen[d.name] {
			seen[d.name] = true
			rule += d.name + d.desc + " "
		}
	}
	res.Rule = "every case of the product (8c/16Gi node, unit 1c/2Gi) " + rule + "through midresource.Plugin.Calculate; monotonicity for every neighbouring pair in a consumption dimension; non-trivial = a mid amount > 0 is published"
	res.Bounds = map[string]any{"pods": npods, "outer_tuples": orx.Size(), "cases_per_outer_tuple": innerSize}
	res.Assumptions = []string{"mid-tier: only >= 0, the percentage cap, monotonicity and withdrawal on stale metrics are judged (the statement spells out the capacity bound for batch only)"}
	env.Emit(res)
}
