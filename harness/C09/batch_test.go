package batchresource

// C09 "Reclaimed (batch/mid) capacity is never over-promised" -- batch part.
//
// Technique: exhaustive product enumeration (no sampling) executed on the real code:
//   * unit "node": Plugin.calculateOnNode (and through it util.CalculateBatchResourceByPolicy) for every case of
//     the products below;
//   * unit "calc": Plugin.Calculate end-to-end (degradation on stale metrics, NUMA zones through a
//     controller-runtime fake client holding a NodeResourceTopology object, the package's Clock seam).
//
// The oracle is written from the property STATEMENT in exact int64 arithmetic on milli-CPU / bytes (all amounts
// are scaled by 100, zones by 200, so percentages and the equal zone split stay integral):
//   published >= 0
//   published <= max(0, capacity - margin - max(system usage, reservation) - HP(policy))    (+ rounding band)
//   published <= capacity * batch% / 100                                                     when batch% is set
//   raising one consumption input by one alphabet step never raises the published amount
//   stale node metric => every item is a Reset item without quantity
//   zones: the same bounds per zone
// Rounding band (closed): 1 milli-CPU / 1 byte on the capacity bound, because the code truncates the safety
// margin capacity*(100-reclaim%)/100 to whole milli-CPU / bytes (so it may deduct up to one unit less than the
// exact rational margin). No band on the percentage cap (truncation only lowers it) and none on ">= 0".

import (
	"context"
	"encoding/json"
	"fmt"
	"os"
	"regexp"
	"runtime/debug"
	"sort"
	"strconv"
	"strings"
	"sync"
	"sync/atomic"
	"testing"
	"time"

	topov1alpha1 "github.com/k8stopologyawareschedwg/noderesourcetopology-api/pkg/apis/topology/v1alpha1"
	corev1 "k8s.io/api/core/v1"
	"k8s.io/apimachinery/pkg/api/resource"
	apierrors "k8s.io/apimachinery/pkg/api/errors"
	metav1 "k8s.io/apimachinery/pkg/apis/meta/v1"
	"k8s.io/apimachinery/pkg/runtime"
	"k8s.io/apimachinery/pkg/runtime/schema"
	clientgoscheme "k8s.io/client-go/kubernetes/scheme"
	fakeclock "k8s.io/utils/clock/testing"
	ctrlclient "sigs.k8s.io/controller-runtime/pkg/client"
	"sigs.k8s.io/controller-runtime/pkg/client/fake"

	"github.com/koordinator-sh/koordinator/apis/configuration"
	"github.com/koordinator-sh/koordinator/apis/extension"
	slov1alpha1 "github.com/koordinator-sh/koordinator/apis/slo/v1alpha1"
	"github.com/koordinator-sh/koordinator/pkg/slo-controller/noderesource/framework"
	"github.com/koordinator-sh/koordinator/pkg/util"
	"github.com/koordinator-sh/koordinator/pkg/util/sloconfig"
	"github.com/koordinator-sh/koordinator/pkg/zzverif/mc"
)

// ---------------------------------------------------------------------------------------------------------
// case description (values, not digits, so that a replay file is readable on its own)

type c09CapT struct {
	Name       string
	CPU, Mem   int64 // milli-CPU, bytes
	UCPU, UMem int64 // one alphabet "unit" of CPU / memory on this node
}

var c09Caps = []c09CapT{
	{"8c/16Gi(unit=1c/2Gi)", 8000, 16 << 30, 1000, 2 << 30},
	{"100c/200G(unit=12.5c/25G)", 100000, 200_000_000_000, 12500, 25_000_000_000},
}

type c09Pod struct {
	Prio  string `json:"prio"`  // prod|mid|batch|free|none   (spec.priority in the koordinator bands / unset)
	QoS   string `json:"qos"`   // LSE|LSR|LS|BE|none         (label koordinator.sh/qosClass / unset)
	Phase string `json:"phase"` // Running|Pending|Succeeded
	Numa  int    `json:"numa"`  // -1 = no NUMA allocation, k = bound to zone k
	Req   int64  `json:"req"`   // request in units (cpu and memory)
	Use   int64  `json:"use"`   // reported usage in units; -1 = the pod has no metric yet
}

type c09Case struct {
	Cap       int      `json:"cap"`
	KRes      int64    `json:"kubeletReserved"`    // capacity - allocatable, units
	ARes      int64    `json:"annotationReserved"` // node reservation annotation, units
	Sys       int64    `json:"systemUsage"`
	HostProd  int64    `json:"hostAppProdUsage"`
	HostBatch int64    `json:"hostAppBatchUsage"`
	Dang      string   `json:"danglingMetric"` // ""|batch|prod : metric (usage 2 units) of a pod that is not in the pod list
	Pods      []c09Pod `json:"pods"`
	CPUPol    string   `json:"cpuPolicy"` // ""(nil)|usage|maxUsageRequest
	MemPol    string   `json:"memPolicy"` // ""(nil)|usage|request|maxUsageRequest
	Reclaim   int64    `json:"reclaimPercent"`
	Pct       int64    `json:"batchThresholdPercent"` // -1 = nil
	AgeSec    int64    `json:"metricAgeSeconds"`      // -1 = UpdateTime nil
	Degrade   int64    `json:"degradeMinutes"`
	Zones     int      `json:"zones"` // 0 = no NodeResourceTopology, 2 = two equal zones
	// Layer != nil: the reclaim percentage reaches the plugin the way the controller delivers it, through
	// sloconfig.GetNodeColocationStrategy (cluster strategy <- node annotation <- node label); Reclaim then holds the
	// percentage the documented precedence puts in force (label, if it is a float >= 0, over annotation over cluster)
	Layer *c09Layer `json:"reclaimLayers,omitempty"`
}

// c09Layer: where the node's reclaim percentage (100 - safety margin) comes from.
type c09Layer struct {
	Cluster int64  `json:"cluster"`    // slo-controller-config cluster strategy
	Anno    int64  `json:"annotation"` // node annotation colocation-strategy, -1 = none
	Label   string `json:"label"`      // node labels cpu-/memory-reclaim-ratio, "" = none
}

// effective is the harness' own reading of apis/extension/node_colocation.go: the label "takes precedence to the
// percent in the slo-controller-config and the node annotations", "the value is a float number", "the illegal value
// will be ignored" (a negative ratio is illegal; 0 is a ratio like any other: nothing may be reclaimed).
func (l *c09Layer) effective() int64 {
	if l.Label != "" {
		if v, err := strconv.ParseFloat(l.Label, 64); err == nil && v >= 0 {
			return int64(v * 100)
		}
	}
	if l.Anno >= 0 {
		return l.Anno
	}
	return l.Cluster
}

// c09Layers, ordered by rising safety margin (falling percentage in force); label ratios are binary fractions, so that
// ratio*100 is exact
var c09Layers = []c09Layer{
	{60, -1, "1.0"}, {60, 40, "1"},
	{60, -1, ""}, {60, -1, "-1"}, {60, -1, "abc"},
	{60, 40, "0.5"},
	{60, 40, ""}, {60, 40, "-0.5"},
	{60, -1, "0.25"},
	{60, -1, "0"}, {60, 40, "0.0"},
}

func c09LayerDim(s *c09Space) {
	var names []string
	for _, l := range c09Layers {
		names = append(names, fmt.Sprintf("cluster=%d/anno=%d/label=%q=>%d", l.Cluster, l.Anno, l.Label, l.effective()))
	}
	s.add(c09Dim{name: "margin(reclaim% through cluster<-annotation<-label)", n: len(c09Layers), cons: true, desc: c09Strs(names),
		set: func(c *c09Case, d int) { l := c09Layers[d]; c.Layer, c.Reclaim = &l, l.effective() }})
}

func (c *c09Case) clone() c09Case {
	d := *c
	d.Pods = append([]c09Pod(nil), c.Pods...)
	return d
}

type c09Out struct {
	panicS  string
	errS    string
	has     [2]bool  // a quantity was published for batch-cpu / batch-memory
	v       [2]int64 // published node-level amount: milli-CPU, bytes
	reset   [2]bool  // item carries Reset=true
	resetQ  bool     // a Reset item still carries a quantity
	nz      int
	z       [2][2]int64 // [zone][resource]
	unknown string
}

var (
	c09Now      = time.Date(2026, 1, 2, 3, 4, 5, 0, time.UTC)
	c09ZoneIdx  = map[string]int{util.GenNodeZoneName(0): 0, util.GenNodeZoneName(1): 1}
	c09PrioVal  = map[string]int32{"prod": 9500, "mid": 7500, "batch": 5500, "free": 3500}
	c09ResNames = [2]string{"batch-cpu", "batch-memory"}
)

const c09NumaAnno = `{"numaNodeResources":[{"node":0}]}`

// NUMA ids that are no zone of the (two-zone) node are ignored, "since it cannot be successfully bind on the node either":
// a pod that lists only such an id is shared by all zones like a pod without NUMA allocation, a pod that lists zone 0 and
// such an id is charged to zone 0 entirely (seed C09-8 counted the invalid ids in the divisor)
const (
	c09NumaInvalidOnly = 2 // annotation lists node 3 only
	c09NumaZone0AndBad = 3 // annotation lists nodes 0 and 2
)

var c09NumaAnnos = map[int]string{0: c09NumaAnno, c09NumaInvalidOnly: `{"numaNodeResources":[{"node":3}]}`, c09NumaZone0AndBad: `{"numaNodeResources":[{"node":0},{"node":2}]}`}

// c09NumaEff: the zone the pod's consumption belongs to by that rule (-1: shared by all zones)
func c09NumaEff(n int) int {
	switch n {
	case c09NumaInvalidOnly:
		return -1
	case c09NumaZone0AndBad:
		return 0
	}
	return n
}

var c09PodNames = [...]string{"p0", "p1", "p2", "p3"}

func c09NodeName(c *c09Case) string {
	return [2][3]string{{"c09-cap0-z0", "c09-cap0-z1", "c09-cap0-z2"}, {"c09-cap1-z0", "c09-cap1-z1", "c09-cap1-z2"}}[c.Cap][c.Zones]
}

// c09ResAnno is the node reservation annotation for `ares` units on capacity `ci`.
func c09ResAnno(ci int, ares int64) string {
	k := c09Caps[ci]
	if ci == 0 && ares == 3 {
		// reserved CPUs given as a cpuset (3 CPUs = 3 units on the 8-core node), memory as a quantity
		return fmt.Sprintf(`{"reservedCPUs":"0-2","resources":{"memory":"%d"}}`, ares*k.UMem)
	}
	return fmt.Sprintf(`{"resources":{"cpu":"%dm","memory":"%d"}}`, ares*k.UCPU, ares*k.UMem)
}

var c09ResAnnoTab = func() (t [2][4]string) {
	for ci := range c09Caps {
		for a := int64(1); a < 4; a++ {
			t[ci][a] = c09ResAnno(ci, a)
		}
	}
	return
}()

func c09RL(cpuMilli, memBytes int64) corev1.ResourceList {
	return corev1.ResourceList{
		corev1.ResourceCPU:    *resource.NewMilliQuantity(cpuMilli, resource.DecimalSI),
		corev1.ResourceMemory: *resource.NewQuantity(memBytes, resource.BinarySI),
	}
}

// c09PrioClass is the harness' own reading of the documented priority defaulting (priority band of
// spec.priority; without one the class follows the QoS; without a QoS label the Kubernetes QoS decides:
// no requests = BestEffort = BE = batch, requests without limits = Burstable = LS = prod).
func c09PrioClass(p c09Pod) string {
	if p.Prio != "none" {
		return p.Prio
	}
	switch p.QoS {
	case "LSE", "LSR", "LS":
		return "prod"
	case "BE":
		return "batch"
	}
	if p.Req > 0 {
		return "prod"
	}
	return "batch"
}

func c09IsHP(p c09Pod) bool { k := c09PrioClass(p); return k == "prod" || k == "mid" }

func c09Active(p c09Pod) bool { return p.Phase == "Running" || p.Phase == "Pending" }

func c09Policy(s string) *configuration.CalculatePolicy {
	if s == "" {
		return nil
	}
	p := configuration.CalculatePolicy(s)
	return &p
}

func c09I64(v int64) *int64 { return &v }

// c09Build makes the arguments of Calculate / calculateOnNode by literal.
func c09Build(c *c09Case) (*configuration.ColocationStrategy, *corev1.Node, *corev1.PodList, *framework.ResourceMetrics) {
	k := c09Caps[c.Cap]
	st := &configuration.ColocationStrategy{
		Enable:                        new(bool),
		CPUReclaimThresholdPercent:    c09I64(c.Reclaim),
		MemoryReclaimThresholdPercent: c09I64(c.Reclaim),
		DegradeTimeMinutes:            c09I64(c.Degrade),
		UpdateTimeThresholdSeconds:    c09I64(300),
		ResourceDiffThreshold:         new(float64),
		CPUCalculatePolicy:            c09Policy(c.CPUPol),
		MemoryCalculatePolicy:         c09Policy(c.MemPol),
	}
	*st.Enable = true
	*st.ResourceDiffThreshold = 0.1
	if c.Pct >= 0 {
		st.BatchCPUThresholdPercent = c09I64(c.Pct)
		st.BatchMemoryThresholdPercent = c09I64(c.Pct)
	}
	node := &corev1.Node{
		ObjectMeta: metav1.ObjectMeta{Name: c09NodeName(c)},
		Status: corev1.NodeStatus{
			Capacity:    c09RL(k.CPU, k.Mem),
			Allocatable: c09RL(k.CPU-c.KRes*k.UCPU, k.Mem-c.KRes*k.UMem),
		},
	}
	if c.ARes > 0 {
		node.Annotations = map[string]string{extension.AnnotationNodeReservation: c09ResAnnoTab[c.Cap][c.ARes]}
	}
	if l := c.Layer; l != nil {
		st.CPUReclaimThresholdPercent, st.MemoryReclaimThresholdPercent = c09I64(l.Cluster), c09I64(l.Cluster)
		if l.Anno >= 0 {
			if node.Annotations == nil {
				node.Annotations = map[string]string{}
			}
			node.Annotations[extension.AnnotationNodeColocationStrategy] = fmt.Sprintf(`{"cpuReclaimThresholdPercent":%d,"memoryReclaimThresholdPercent":%d}`, l.Anno, l.Anno)
		}
		if l.Label != "" {
			node.Labels = map[string]string{extension.LabelCPUReclaimRatio: l.Label, extension.LabelMemoryReclaimRatio: l.Label}
		}
		st = sloconfig.GetNodeColocationStrategy(&configuration.ColocationCfg{ColocationStrategy: *st}, node)
	}
	pl := &corev1.PodList{Items: make([]corev1.Pod, len(c.Pods))}
	nm := &slov1alpha1.NodeMetric{
		ObjectMeta: metav1.ObjectMeta{Name: node.Name},
		Status: slov1alpha1.NodeMetricStatus{
			NodeMetric: &slov1alpha1.NodeMetricInfo{
				SystemUsage: slov1alpha1.ResourceMap{ResourceList: c09RL(c.Sys*k.UCPU, c.Sys*k.UMem)},
			},
		},
	}
	if c.AgeSec >= 0 {
		nm.Status.UpdateTime = &metav1.Time{Time: c09Now.Add(-time.Duration(c.AgeSec) * time.Second)}
	}
	total := c.Sys + c.HostProd + c.HostBatch
	for i, p := range c.Pods {
		pod := &pl.Items[i]
		pod.Name = c09PodNames[i]
		pod.Namespace = "ns"
		if p.QoS != "none" {
			pod.Labels = map[string]string{extension.LabelPodQoS: p.QoS}
		}
		if p.Numa >= 0 {
			pod.Annotations = map[string]string{extension.AnnotationResourceStatus: c09NumaAnnos[p.Numa]}
		}
		if v, ok := c09PrioVal[p.Prio]; ok {
			pv := v
			pod.Spec.Priority = &pv
		}
		pod.Spec.NodeName = node.Name
		pod.Spec.Containers = []corev1.Container{{Name: "c"}}
		if p.Req > 0 {
			pod.Spec.Containers[0].Resources.Requests = c09RL(p.Req*k.UCPU, p.Req*k.UMem)
		}
		pod.Status.Phase = corev1.PodPhase(p.Phase)
		if p.Use >= 0 {
			// koordlet reports the pod's priority class (with default) and QoS next to its usage
			nm.Status.PodsMetric = append(nm.Status.PodsMetric, &slov1alpha1.PodMetricInfo{
				Name: pod.Name, Namespace: pod.Namespace,
				PodUsage: slov1alpha1.ResourceMap{ResourceList: c09RL(p.Use*k.UCPU, p.Use*k.UMem)},
				Priority: extension.PriorityClass("koord-" + c09PrioClass(p)),
			})
			total += p.Use
		}
	}
	if c.Dang != "" {
		nm.Status.PodsMetric = append(nm.Status.PodsMetric, &slov1alpha1.PodMetricInfo{
			Name: "ghost", Namespace: "ns",
			PodUsage: slov1alpha1.ResourceMap{ResourceList: c09RL(2*k.UCPU, 2*k.UMem)},
			Priority: extension.PriorityClass("koord-" + c.Dang),
		})
		total += 2
	}
	if c.HostProd > 0 {
		nm.Status.HostApplicationMetric = append(nm.Status.HostApplicationMetric, &slov1alpha1.HostApplicationMetricInfo{
			Name: "host-prod", Priority: extension.PriorityProd, QoS: extension.QoSLS,
			Usage: slov1alpha1.ResourceMap{ResourceList: c09RL(c.HostProd*k.UCPU, c.HostProd*k.UMem)},
		})
	}
	if c.HostBatch > 0 {
		nm.Status.HostApplicationMetric = append(nm.Status.HostApplicationMetric, &slov1alpha1.HostApplicationMetricInfo{
			Name: "host-batch", Priority: extension.PriorityBatch, QoS: extension.QoSBE,
			Usage: slov1alpha1.ResourceMap{ResourceList: c09RL(c.HostBatch*k.UCPU, c.HostBatch*k.UMem)},
		})
	}
	nm.Status.NodeMetric.NodeUsage = slov1alpha1.ResourceMap{ResourceList: c09RL(total*k.UCPU, total*k.UMem)}
	return st, node, pl, &framework.ResourceMetrics{NodeMetric: nm}
}

// ---------------------------------------------------------------------------------------------------------
// running the real code

func c09EvalNode(c *c09Case, o *c09Out) {
	defer func() {
		if r := recover(); r != nil {
			o.panicS = fmt.Sprint(r)
		}
	}()
	st, node, pl, rm := c09Build(c)
	rl, _, _ := (&Plugin{}).calculateOnNode(st, node, pl, rm)
	o.v[0], o.has[0] = rl.Cpu().MilliValue(), true
	o.v[1], o.has[1] = rl.Memory().Value(), true
}

func c09EvalCalc(c *c09Case, o *c09Out) {
	defer func() {
		if r := recover(); r != nil {
			o.panicS = fmt.Sprint(r)
		}
	}()
	st, node, pl, rm := c09Build(c)
	items, err := (&Plugin{}).Calculate(st, node, pl, rm)
	if err != nil {
		o.errS = err.Error()
		return
	}
	for _, it := range items {
		r := -1
		switch it.Name {
		case extension.BatchCPU:
			r = 0
		case extension.BatchMemory:
			r = 1
		default:
			o.unknown = string(it.Name)
			continue
		}
		if it.Reset {
			o.reset[r] = true
			if it.Quantity != nil || len(it.ZoneQuantity) > 0 {
				o.resetQ = true
			}
			continue
		}
		if it.Quantity != nil {
			// batch-cpu is published as a plain count of milli-cores, batch-memory in bytes
			o.v[r], o.has[r] = it.Quantity.Value(), true
		}
		for zn, q := range it.ZoneQuantity {
			zi, ok := c09ZoneIdx[zn]
			if !ok {
				o.unknown = "zone " + zn
				continue
			}
			qq := q
			o.z[zi][r] = qq.Value()
			if zi+1 > o.nz {
				o.nz = zi + 1
			}
		}
	}
}

// ---------------------------------------------------------------------------------------------------------
// reference model (from the statement; never calls the code under check)

const (
	c09PolUsage = iota
	c09PolRequest
	c09PolMaxUR
)

func c09PolIdx(s string) int {
	switch s {
	case "request":
		return c09PolRequest
	case "maxUsageRequest":
		return c09PolMaxUR
	}
	return c09PolUsage // nil / "usage": the documented default
}

var c09PolNames = [3]string{"usage", "request", "maxUsageRequest"}

type c09Ref struct {
	unit     [2]int64
	cap      [2]int64 // base units (milli-CPU, bytes)
	sys, rsv [2]int64 // system usage (incl. prod host applications), reservation = max(kubelet, annotation)
	marginN  [2]int64 // margin * 100
	hp       [2][3]int64
	noMetric [2]int64       // part of hp[*] that is the request of active HP pods without metrics
	zhp      [2][2][3]int64 // [zone][res][policy] * 2  (i.e. in half units)
	stale    bool
	nilTime  bool
}

func c09Max(a, b int64) int64 {
	if a > b {
		return a
	}
	return b
}

func c09Min(a, b int64) int64 {
	if a < b {
		return a
	}
	return b
}

func c09Reference(c *c09Case) c09Ref {
	k := c09Caps[c.Cap]
	var r c09Ref
	r.unit = [2]int64{k.UCPU, k.UMem}
	r.cap = [2]int64{k.CPU, k.Mem}
	r.nilTime = c.AgeSec < 0
	r.stale = r.nilTime || c.AgeSec > c.Degrade*60
	for x := 0; x < 2; x++ {
		u := r.unit[x]
		r.sys[x] = (c.Sys + c.HostProd) * u
		r.rsv[x] = c09Max(c.KRes, c.ARes) * u
		r.marginN[x] = r.cap[x] * (100 - c.Reclaim)
		for _, p := range c.Pods {
			if !c09Active(p) || !c09IsHP(p) {
				continue
			}
			var ch [3]int64
			ch[c09PolRequest] = p.Req
			if p.Use < 0 { // no metric yet: charged at the request under every policy
				ch[c09PolUsage], ch[c09PolMaxUR] = p.Req, p.Req
				r.noMetric[x] += p.Req * u
			} else {
				ch[c09PolUsage] = p.Use
				if x == 0 && p.QoS == "LSE" {
					// an LSE pod owns its CPUs exclusively and cannot use more than it requested; where the
					// alphabet nevertheless reports more, only the request is demanded (assumption, see spec)
					ch[c09PolUsage] = c09Min(p.Use, p.Req)
				}
				ch[c09PolMaxUR] = c09Max(p.Req, p.Use)
			}
			for pi := 0; pi < 3; pi++ {
				r.hp[x][pi] += ch[pi] * u
				if z := c09NumaEff(p.Numa); z < 0 {
					r.zhp[0][x][pi] += ch[pi] * u
					r.zhp[1][x][pi] += ch[pi] * u
				} else {
					r.zhp[z][x][pi] += 2 * ch[pi] * u
				}
			}
		}
		if c.Dang == "prod" { // a high-priority pod that reports usage but is not (yet/any more) in the pod list
			for _, pi := range [2]int{c09PolUsage, c09PolMaxUR} {
				r.hp[x][pi] += 2 * u
				r.zhp[0][x][pi] += 2 * u
				r.zhp[1][x][pi] += 2 * u
			}
		}
	}
	return r
}

// boundN returns the capacity bound * 100 (not clamped).
func (r *c09Ref) boundN(x, pol int) int64 {
	return r.cap[x]*100 - r.marginN[x] - 100*c09Max(r.sys[x], r.rsv[x]) - 100*r.hp[x][pol]
}

// zoneBoundN returns the zone's capacity bound * 200 (zone capacity = capacity/2, node-wide terms split equally).
func (r *c09Ref) zoneBoundN(z, x, pol int) int64 {
	return r.cap[x]*100 - r.marginN[x] - 100*c09Max(r.sys[x], r.rsv[x]) - 100*r.zhp[z][x][pol]
}

func c09CasePol(c *c09Case, x int) int {
	if x == 0 {
		return c09PolIdx(c.CPUPol)
	}
	return c09PolIdx(c.MemPol)
}

// ---------------------------------------------------------------------------------------------------------
// violation collector: per key the total number of violating cases and the simplest witness (deterministic)

type c09Witness struct {
	count  int64
	weight int64
	js     string
	what   string
	replay any
}

type c09Viols struct {
	mu sync.Mutex
	m  map[string]*c09Witness
}

func c09Weight(c *c09Case) int64 {
	w := c.KRes + c.ARes + c.Sys + c.HostProd + c.HostBatch + int64(c.Zones) + int64(c.Cap)*5
	if c.Dang != "" {
		w += 2
	}
	if c.Pct >= 0 {
		w++
	}
	if c.Reclaim != 100 {
		w++
	}
	if c.CPUPol != "usage" {
		w++
	}
	if c.MemPol != "usage" {
		w++
	}
	for _, p := range c.Pods {
		w += p.Req + c09Max(p.Use, -1) + 1
		if p.Numa >= 0 {
			w++
		}
		if p.Prio != "prod" {
			w++
		}
		if p.QoS != "LS" {
			w++
		}
		if p.Phase != "Running" {
			w++
		}
	}
	return w
}

// add records one violating case; what() is only evaluated when the case becomes the kept witness.
func (v *c09Viols) add(key string, weight int64, replay func() any, what func() string) {
	v.mu.Lock()
	defer v.mu.Unlock()
	w := v.m[key]
	if w == nil {
		w = &c09Witness{weight: 1 << 62}
		v.m[key] = w
	}
	w.count++
	if weight > w.weight {
		return
	}
	rp := replay()
	b, _ := json.Marshal(rp)
	if weight == w.weight && string(b) >= w.js {
		return
	}
	w.weight, w.js, w.replay, w.what = weight, string(b), rp, what()
}

func (v *c09Viols) flush(res *mc.Result) {
	keys := make([]string, 0, len(v.m))
	for k := range v.m {
		keys = append(keys, k)
	}
	sort.Strings(keys)
	for _, k := range keys {
		w := v.m[k]
		res.Violate(mc.Violation{Key: k, What: fmt.Sprintf("%s [%d violating cases/pairs in this part; simplest witness shown]", w.what, w.count), Replay: w.replay})
		res.Count("violating_cases:"+k, w.count)
	}
}

// ---------------------------------------------------------------------------------------------------------
// vacuity counters (fixed slots; flushed into the worker-local counters once per block)

const (
	c09CClamped = iota
	c09CBoundTight
	c09CPctTight
	c09CMargin
	c09CSysDom
	c09CRsvDom
	c09CHP      // +policy (3)
	c09CNoMet   = c09CHP + 3 // +policy (3)
	c09CZoneDif = c09CNoMet + 3
	c09CN       = c09CZoneDif + 1
)

var c09CNames = [c09CN]string{"clamped_at_zero", "capacity_bound_tight", "percentage_cap_tight", "published>0_with_margin>0",
	"published>0_system_usage_above_reservation", "published>0_reservation_above_system_usage",
	"published>0_hp_charge>0_usage", "published>0_hp_charge>0_request", "published>0_hp_charge>0_maxUsageRequest",
	"published>0_no_metric_pod_charged_usage", "published>0_no_metric_pod_charged_request", "published>0_no_metric_pod_charged_maxUsageRequest",
	"published>0_zones_charged_differently"}

var c09CPrefix = [4]string{"batch-cpu:", "batch-memory:", "zone-batch-cpu:", "zone-batch-memory:"}

type c09Counts struct {
	a                                         [4][c09CN]int64
	stale, withdrawn, freshReset, mono, zmono int64
	dec                                       []int64 // strict decreases per inner dimension
}

func (n *c09Counts) flush(l *mc.Local, names []string) {
	for p := range n.a {
		for k, v := range n.a[p] {
			if v != 0 {
				l.Count(c09CPrefix[p]+c09CNames[k], v)
			}
		}
	}
	put := func(name string, v int64) {
		if v != 0 {
			l.Count(name, v)
		}
	}
	put("stale_cases", n.stale)
	put("stale_cases_withdrawn", n.withdrawn)
	put("fresh_but_reset(diag)", n.freshReset)
	put("monotonic_comparisons", n.mono)
	put("zone_monotonic_comparisons", n.zmono)
	for k, v := range n.dec {
		put("monotonic_strict_decrease:"+names[k], v)
	}
	d := n.dec
	for k := range d {
		d[k] = 0
	}
	*n = c09Counts{dec: d}
}

func c09Hash(h uint64, vs ...int64) uint64 {
	for _, v := range vs {
		h ^= uint64(v)
		h *= 1099511628211
	}
	return h
}

func c09HashS(h uint64, s string) uint64 {
	for i := 0; i < len(s); i++ {
		h ^= uint64(s[i])
		h *= 1099511628211
	}
	return h
}

// c09Judge evaluates the per-case clauses.
func c09Judge(vs *c09Viols, n *c09Counts, ds *mc.DistinctSet, c *c09Case, r *c09Ref, o *c09Out, endToEnd bool) {
	viol := func(key string, what func() string) {
		vs.add(key, c09Weight(c), func() any { return c.clone() }, func() string { return what() + fmt.Sprintf("; case %+v", c.clone()) })
	}
	if o.panicS != "" {
		viol("C09|panic", func() string { return "the calculation panicked: " + o.panicS })
		return
	}
	if endToEnd && r.stale {
		n.stale++
		kind := "expired"
		if r.nilTime {
			kind = "nil-update-time"
		}
		if o.errS != "" || !o.reset[0] || !o.reset[1] || o.has[0] || o.has[1] || o.resetQ || o.nz > 0 {
			viol("C09|calculate|stale-metric-not-withdrawn|"+kind, func() string {
				return fmt.Sprintf("node metric is stale (age %ds, degrade after %d min) but the result is not a pair of Reset items without quantity: err=%q reset=%v published=%v values=%v zones=%d",
					c.AgeSec, c.Degrade, o.errS, o.reset, o.has, o.v, o.nz)
			})
		} else {
			n.withdrawn++
		}
		return
	}
	if o.errS != "" {
		viol("C09|calculate|error-on-fresh-input", func() string { return "Calculate returned an error on complete, fresh input: " + o.errS })
		return
	}
	if o.unknown != "" {
		viol("C09|calculate|unknown-item", func() string { return "unexpected item/zone " + o.unknown })
		return
	}
	if endToEnd && (o.reset[0] || o.reset[1]) {
		// fresh metric but withdrawn: safe direction, not part of the statement
		n.freshReset++
		return
	}
	nontrivial := false
	for x := 0; x < 2; x++ {
		x := x
		if !o.has[x] {
			viol("C09|"+c09ResNames[x]+"|missing", func() string { return "no quantity and no Reset for the resource" })
			continue
		}
		pol := c09CasePol(c, x)
		pn := c09PolNames[pol]
		pub := o.v[x]
		if pub < 0 {
			viol("C09|"+c09ResNames[x]+"|"+pn+"|negative", func() string { return fmt.Sprintf("published %d < 0", pub) })
			continue
		}
		raw := r.boundN(x, pol)
		bound := c09Max(raw, 0)
		if pub*100 > bound+100 {
			class := "exceeds-bound"
			if pol == c09PolMaxUR && r.noMetric[x] > 0 && pub*100 <= c09Max(raw+100*r.noMetric[x], 0)+100 {
				class = "no-metric-pod-not-charged"
			} else if pol == c09PolRequest && r.sys[x] > r.rsv[x] && pub*100 <= c09Max(raw+100*(r.sys[x]-r.rsv[x]), 0)+100 {
				class = "system-usage-above-reservation-not-charged"
			}
			viol("C09|"+c09ResNames[x]+"|"+pn+"|"+class, func() string {
				return fmt.Sprintf("published %s=%d exceeds max(0, capacity %d - margin %d/100 - max(system usage %d, reservation %d) - HP(%s) %d) = max(0, %d/100) (HP includes %d = requests of HP pods without metrics)",
					c09ResNames[x], pub, r.cap[x], r.marginN[x], r.sys[x], r.rsv[x], pn, r.hp[x][pol], raw, r.noMetric[x])
			})
			continue
		}
		if c.Pct >= 0 && pub*100 > r.cap[x]*c.Pct {
			viol("C09|"+c09ResNames[x]+"|"+pn+"|percentage-cap-exceeded", func() string {
				return fmt.Sprintf("published %s=%d exceeds %d%% of capacity %d", c09ResNames[x], pub, c.Pct, r.cap[x])
			})
			continue
		}
		// vacuity: which clause / term was live in this case
		a := &n.a[x]
		if raw < 0 && pub == 0 {
			a[c09CClamped]++
		}
		pctBinds := c.Pct >= 0 && r.cap[x]*c.Pct < bound
		if raw > 0 && !pctBinds && pub*100 >= bound-100 {
			a[c09CBoundTight]++
		}
		if pctBinds && (pub+1)*100 > r.cap[x]*c.Pct {
			a[c09CPctTight]++
		}
		if pub > 0 {
			nontrivial = true
			if r.marginN[x] > 0 {
				a[c09CMargin]++
			}
			if r.sys[x] > r.rsv[x] {
				a[c09CSysDom]++
			}
			if r.rsv[x] > r.sys[x] {
				a[c09CRsvDom]++
			}
			if r.hp[x][pol] > 0 {
				a[c09CHP+pol]++
			}
			if r.noMetric[x] > 0 {
				a[c09CNoMet+pol]++
			}
		}
	}
	// zones
	if o.nz > 0 {
		if o.nz != 2 {
			viol("C09|zones|count", func() string { return fmt.Sprintf("%d zones published, 2 exist", o.nz) })
			return
		}
		for z := 0; z < 2; z++ {
			for x := 0; x < 2; x++ {
				z, x := z, x
				pol := c09CasePol(c, x)
				pn := c09PolNames[pol]
				pub := o.z[z][x]
				name := "zone-" + c09ResNames[x]
				if pub < 0 {
					viol("C09|"+name+"|"+pn+"|negative", func() string { return fmt.Sprintf("zone %d published %d < 0", z, pub) })
					continue
				}
				raw := r.zoneBoundN(z, x, pol)
				bound := c09Max(raw, 0)
				if pub*200 > bound+200 {
					class := "exceeds-bound"
					if pol == c09PolRequest && r.sys[x] > r.rsv[x] && pub*200 <= c09Max(raw+100*(r.sys[x]-r.rsv[x]), 0)+200 {
						class = "system-usage-above-reservation-not-charged"
					}
					viol("C09|"+name+"|"+pn+"|"+class, func() string {
						return fmt.Sprintf("zone %d published %s=%d exceeds max(0, zone bound %d/200) (zone capacity %d/2, margin %d/200, max(system usage %d, reservation %d)/2, HP(%s) in zone %d/2)",
							z, name, pub, raw, r.cap[x], r.marginN[x], r.sys[x], r.rsv[x], pn, r.zhp[z][x][pol])
					})
					continue
				}
				if c.Pct >= 0 && pub*200 > r.cap[x]*c.Pct {
					viol("C09|"+name+"|"+pn+"|percentage-cap-exceeded", func() string {
						return fmt.Sprintf("zone %d published %d exceeds %d%% of zone capacity %d/2", z, pub, c.Pct, r.cap[x])
					})
					continue
				}
				a := &n.a[2+x]
				if raw < 0 && pub == 0 {
					a[c09CClamped]++
				}
				pctBinds := c.Pct >= 0 && r.cap[x]*c.Pct < bound
				if raw > 0 && !pctBinds && pub*200 >= bound-200 {
					a[c09CBoundTight]++
				}
				if pctBinds && (pub+1)*200 > r.cap[x]*c.Pct {
					a[c09CPctTight]++
				}
				if pub > 0 {
					if r.marginN[x] > 0 {
						a[c09CMargin]++
					}
					if r.zhp[z][x][pol] > 0 {
						a[c09CHP+pol]++
					}
					if r.zhp[0][x][pol] != r.zhp[1][x][pol] {
						a[c09CZoneDif]++
					}
				}
			}
		}
	}
	if nontrivial {
		h := c09HashS(14695981039346656037, c.CPUPol)
		h = c09HashS(h, c.MemPol)
		h = c09Hash(h, int64(c.Cap), c.Reclaim, c.Pct, r.sys[0], r.rsv[0], r.hp[0][0], r.hp[0][1], r.hp[0][2], r.noMetric[0],
			o.v[0], o.v[1], int64(o.nz), o.z[0][0], o.z[0][1], o.z[1][0], o.z[1][1], r.zhp[0][0][0], r.zhp[0][0][2])
		ds.AddHash(h)
	}
}

// ---------------------------------------------------------------------------------------------------------
// product spaces

type c09Dim struct {
	name string
	n    int
	cons bool // consumption input whose digits are ordered by non-decreasing consumption
	from int  // neighbour steps start at this digit (lower digits are not comparable, e.g. "no metric")
	set  func(c *c09Case, d int)
	desc string
}

type c09Space struct {
	unit, part string
	base       c09Case
	dims       []c09Dim
	endToEnd   bool
	repeat     int // extra executions of every case (other Go map iteration orders); results must be identical
	share      float64 // part of the unit's time budget this product may use (0 = whatever is left)
	stub       bool    // serve the NodeResourceTopology from the in-memory stub instead of the fake client
}

func c09Strs(v []string) string { return "{" + strings.Join(v, ",") + "}" }

func (s *c09Space) add(d c09Dim) { s.dims = append(s.dims, d) }

func (s *c09Space) addI64(name string, vals []int64, cons bool, from int, set func(c *c09Case, v int64)) {
	s.add(c09Dim{name: name, n: len(vals), cons: cons, from: from, desc: fmt.Sprint(vals),
		set: func(c *c09Case, d int) { set(c, vals[d]) }})
}

func (s *c09Space) addStr(name string, vals []string, cons bool, set func(c *c09Case, v string)) {
	s.add(c09Dim{name: name, n: len(vals), cons: cons, desc: c09Strs(vals),
		set: func(c *c09Case, d int) { set(c, vals[d]) }})
}

type c09PodAlpha struct {
	prio, qos, phase []string
	numa             []int64
	req, use         []int64 // use: -1 first (no metric)
}

func (s *c09Space) addPods(n int, a c09PodAlpha) {
	s.base.Pods = make([]c09Pod, n)
	for i := 0; i < n; i++ {
		i := i
		s.base.Pods[i] = c09Pod{Prio: "prod", QoS: "LS", Phase: "Running", Numa: -1, Use: -1}
		s.addStr("pod.priority", a.prio, false, func(c *c09Case, v string) { c.Pods[i].Prio = v })
		s.addStr("pod.qos", a.qos, false, func(c *c09Case, v string) { c.Pods[i].QoS = v })
		s.addStr("pod.phase", a.phase, false, func(c *c09Case, v string) { c.Pods[i].Phase = v })
		if len(a.numa) > 0 {
			s.addI64("pod.numa(-1=none)", a.numa, false, 0, func(c *c09Case, v int64) { c.Pods[i].Numa = int(v) })
		}
		s.addI64("pod.request", a.req, true, 0, func(c *c09Case, v int64) { c.Pods[i].Req = v })
		from := 0
		if len(a.use) > 0 && a.use[0] < 0 {
			from = 1
		}
		s.addI64("pod.usage(-1=no metric)", a.use, true, from, func(c *c09Case, v int64) { c.Pods[i].Use = v })
	}
}

func c09PodType(p c09Pod) string { return p.Prio + "/" + p.QoS + "/" + p.Phase + "/" + fmt.Sprint(p.Numa) }

func (s *c09Space) rule() string {
	var sb strings.Builder
	seen := map[string]bool{}
	for _, d := range s.dims {
		if seen[d.name] {
			continue
		}
		seen[d.name] = true
		fmt.Fprintf(&sb, "%s%s ", d.name, d.desc)
	}
	return sb.String()
}

// c09Unit returns a multiplier near 0.618*n that is coprime to n (i -> i*m mod n is then a permutation of 0..n-1).
func c09Unit(n int64) int64 {
	gcd := func(a, b int64) int64 {
		for b != 0 {
			a, b = b, a%b
		}
		return a
	}
	m := n*618/1000 + 1
	for gcd(m, n) != 1 {
		m++
	}
	return m % n
}

func c09Run(env *mc.Env, sp *c09Space) {
	if only := os.Getenv("VERIF_ONLY"); only != "" {
		okPart, _ := regexp.MatchString(only, sp.part)
		okUnit, _ := regexp.MatchString(only, sp.unit)
		if !okPart && !okUnit {
			return
		}
	}
	res := mc.NewResult("C09", sp.part, "enumeration")
	var outer, inner []int
	for i, d := range sp.dims {
		if d.cons {
			inner = append(inner, i)
		} else {
			outer = append(outer, i)
		}
	}
	orx, irx := mc.Radix{}, mc.Radix{}
	for _, i := range outer {
		orx.Dims = append(orx.Dims, sp.dims[i].n)
	}
	stride := make([]int64, len(inner))
	innerNames := make([]string, len(inner))
	st := int64(1)
	for k, i := range inner {
		irx.Dims = append(irx.Dims, sp.dims[i].n)
		innerNames[k] = sp.dims[i].name
		stride[k] = st
		st *= int64(sp.dims[i].n)
	}
	innerSize := irx.Size()
	eval := c09EvalNode
	if sp.endToEnd {
		eval = c09EvalCalc
	}
	bufs := make([][]c09Out, env.Workers)
	cnts := make([]*c09Counts, env.Workers)
	ds := mc.NewDistinctSet()
	vs := &c09Viols{m: map[string]*c09Witness{}}
	var skipped, sampled atomic.Int64
	setInner := func(c *c09Case, j int64, id []int) []int {
		id = irx.Decode(j, id)
		for k, d := range id {
			sp.dims[inner[k]].set(c, d)
		}
		return id
	}
	perm := c09Unit(orx.Size())
	start := time.Now()
	deadline := start.Add(24 * time.Hour)
	if sp.share > 0 && env.Thorough() { // quick products are small: first come, first served
		deadline = start.Add(time.Duration(sp.share * float64(env.Budget)))
	}
	client = c09FakeClient
	if sp.stub {
		client = c09Stub
	}
	// the engine hands out chunks of 256 consecutive indices; one outer tuple (a block of innerSize cases) is
	// mapped to one chunk so that blocks spread over all workers and the budget is checked per block
	done, complete := env.ParallelRangeL(res, orx.Size()*256, func(l *mc.Local, i256 int64) {
		if i256%256 != 0 {
			return
		}
		// visit the outer tuples in a fixed scattered order (multiplication by a unit modulo their number) so that
		// a run that hits its time budget has covered every dimension evenly instead of a prefix
		i := (i256 / 256) * perm % orx.Size()
		if env.Expired() || time.Now().After(deadline) {
			skipped.Add(1)
			return
		}
		c := sp.base.clone()
		od := orx.Decode(i, make([]int, 0, 24))
		for k, d := range od {
			sp.dims[outer[k]].set(&c, d)
		}
		// symmetry breaking: pods are a multiset; only tuples whose non-consumption attributes are sorted are
		// run (their consumption attributes range over the full ordered product, so every multiset is covered)
		for p := 1; p < len(c.Pods); p++ {
			if c09PodType(c.Pods[p-1]) > c09PodType(c.Pods[p]) {
				l.Count("symmetric_tuples_skipped", 1)
				return
			}
		}
		buf, n := bufs[l.Worker], cnts[l.Worker]
		if buf == nil {
			buf = make([]c09Out, innerSize)
			bufs[l.Worker] = buf
			n = &c09Counts{dec: make([]int64, len(inner))}
			cnts[l.Worker] = n
		}
		id := make([]int, 0, 24)
		for j := int64(0); j < innerSize; j++ {
			id = setInner(&c, j, id)
			o := &buf[j]
			*o = c09Out{}
			eval(&c, o)
			l.Evals++
			for r := 0; r < sp.repeat; r++ {
				var o2 c09Out
				eval(&c, &o2)
				l.Evals++
				if o2 != *o { // diagnostic only: determinism is not part of the property, each run is judged below/above
					l.Count("repeat_run_differs(diag)", 1)
					res.Diag(fmt.Sprintf("two executions of %+v differ: %+v vs %+v", c.clone(), *o, o2))
				} else {
					l.Count("repeat_runs_identical", 1)
				}
			}
			ref := c09Reference(&c)
			c09Judge(vs, n, ds, &c, &ref, o, sp.endToEnd)
		}
		if i%97 == 0 && sampled.Add(1) <= 6 {
			j := innerSize * 2 / 3
			setInner(&c, j, id)
			res.Sample(fmt.Sprintf("%+v -> batch-cpu=%dm batch-memory=%d reset=%v zones=%v", c.clone(), buf[j].v[0], buf[j].v[1], buf[j].reset, buf[j].z))
		}
		// neighbour monotonicity inside the block: case j against the case whose digit in one consumption
		// dimension is one higher
		for j := int64(0); j < innerSize; j++ {
			a := &buf[j]
			if a.panicS != "" || a.errS != "" {
				continue
			}
			for k, di := range inner {
				d := &sp.dims[di]
				digit := int((j / stride[k]) % int64(d.n))
				if digit < d.from || digit+1 >= d.n {
					continue
				}
				b := &buf[j+stride[k]]
				if b.panicS != "" || b.errS != "" {
					continue
				}
				for x := 0; x < 2; x++ {
					if !a.has[x] || !b.has[x] {
						continue
					}
					n.mono++
					if b.v[x] < a.v[x] {
						n.dec[k]++
					}
					bad, zone := b.v[x] > a.v[x], -1
					if a.nz == 2 && b.nz == 2 {
						n.zmono += 2
						for z := 0; z < 2; z++ {
							if b.z[z][x] > a.z[z][x] {
								bad, zone = true, z
							}
						}
					}
					if !bad {
						continue
					}
					lo, hi := c.clone(), c.clone()
					setInner(&lo, j, nil)
					setInner(&hi, j+stride[k], nil)
					pn := c09PolNames[c09CasePol(&lo, x)]
					name, from, to := c09ResNames[x], a.v[x], b.v[x]
					if zone >= 0 && !(b.v[x] > a.v[x]) {
						name, from, to = fmt.Sprintf("zone-%s", c09ResNames[x]), a.z[zone][x], b.z[zone][x]
					}
					dn := d.name
					vs.add("C09|"+name+"|"+pn+"|not-monotone|"+dn, c09Weight(&lo),
						func() any { return map[string]any{"lower": lo, "raised": hi} },
						func() string {
							return fmt.Sprintf("raising %s by one step raised published %s from %d to %d; lower case %+v, raised case %+v", dn, name, from, to, lo, hi)
						})
				}
			}
		}
		n.flush(l, innerNames)
	})
	vs.flush(res)
	res.Traces = res.Evaluations
	res.Distinct = ds.Len()
	res.Exhaustive = complete && skipped.Load() == 0
	if !res.Exhaustive {
		res.Capped = fmt.Sprintf("time budget hit: %d of %d outer tuples not run", skipped.Load()+(orx.Size()-done/256), orx.Size())
	}
	res.Rule = "every case of the product " + sp.rule() + "; pods are a multiset (tuples sorted by priority/qos/phase/numa only); " +
		"monotonicity: every pair of cases differing by one step in one consumption dimension (kubelet-/annotation-reserved, system-usage, host-app-prod-usage, dangling-metric, pod.request, pod.usage, margin); " +
		"non-trivial = something > 0 is published; distinct = distinct (capacity, policies, thresholds, reference terms, published amounts) among those"
	res.Bounds = map[string]any{"pods": len(sp.base.Pods), "outer_tuples": orx.Size(), "cases_per_outer_tuple": innerSize,
		"end_to_end_Plugin.Calculate": sp.endToEnd, "nrt_served_by": map[bool]string{true: "in-memory stub client (Get only)", false: "controller-runtime fake client"}[sp.stub]}
	res.Assumptions = c09Assumptions
	res.WallS = time.Since(start).Seconds()
	env.Emit(res)
}

var c09Assumptions = []string{
	"cpu and memory amounts of one input are varied together (the same number of units of each)",
	"pod metrics carry the priority class koordlet reports (the pod's class with the documented defaulting)",
	"an LSE pod cannot use more CPU than its exclusive request: where the alphabet reports more the oracle only demands the request",
	"terminated (Succeeded) pods are not demanded by the oracle even if a metric is still reported for them",
	"node reservation = max(capacity - allocatable, reservation annotation); prod host applications count as system usage",
	"zones: node-wide terms and pods without NUMA allocation are split equally over the zones (the code's documented approximation)",
	"rounding band: 1 milli-CPU / 1 byte on the capacity bound (truncated safety margin), none elsewhere",
}

// ---------------------------------------------------------------------------------------------------------
// alphabets

func c09EnvDims(s *c09Space, kres, ares, sys, host []int64, dang []string, hostBatch []int64) {
	s.addI64("kubelet-reserved", kres, true, 0, func(c *c09Case, v int64) { c.KRes = v })
	s.addI64("annotation-reserved", ares, true, 0, func(c *c09Case, v int64) { c.ARes = v })
	s.addI64("system-usage", sys, true, 0, func(c *c09Case, v int64) { c.Sys = v })
	s.addI64("host-app-prod-usage", host, true, 0, func(c *c09Case, v int64) { c.HostProd = v })
	s.addI64("host-app-batch-usage", hostBatch, false, 0, func(c *c09Case, v int64) { c.HostBatch = v })
	// ordered by the high-priority usage they add: none (0), a batch pod's metric (0), a prod pod's metric (2)
	s.add(c09Dim{name: "dangling-metric", n: len(dang), cons: true, desc: c09Strs(dang),
		set: func(c *c09Case, d int) { c.Dang = dang[d] }})
}

// c09StrategyDims: pols are (cpu policy, memory policy) pairs.
func c09StrategyDims(s *c09Space, pols [][2]string, reclaim, pct []int64) {
	var names []string
	for _, p := range pols {
		names = append(names, p[0]+"/"+p[1])
	}
	s.add(c09Dim{name: "cpu-policy/memory-policy", n: len(pols), desc: c09Strs(names),
		set: func(c *c09Case, d int) { c.CPUPol, c.MemPol = pols[d][0], pols[d][1] }})
	// ordered by rising safety margin (= falling reclaim threshold)
	s.addI64("margin(reclaim%)", reclaim, true, 0, func(c *c09Case, v int64) { c.Reclaim = v })
	s.addI64("batch-threshold%(-1=nil)", pct, false, 0, func(c *c09Case, v int64) { c.Pct = v })
}

func c09Cross(cpu, mem []string) [][2]string {
	var out [][2]string
	for _, a := range cpu {
		for _, b := range mem {
			out = append(out, [2]string{a, b})
		}
	}
	return out
}

func c09CapDim(s *c09Space, caps []int64) {
	s.addI64("capacity", caps, false, 0, func(c *c09Case, v int64) { c.Cap = int(v) })
}

var (
	c09AllPrio  = []string{"prod", "mid", "batch", "free", "none"}
	c09AllQoS   = []string{"LSE", "LSR", "LS", "BE", "none"}
	c09AllPhase = []string{"Running", "Pending", "Succeeded"}
	c09CPUPols  = []string{"usage", "maxUsageRequest"}
	c09MemPols  = []string{"usage", "request", "maxUsageRequest"}
	// quick tier: every policy of each resource once (cpu and memory amounts are computed from separate strategy
	// fields); the thorough tier runs the full cross product including unset (nil) policies
	c09PolPairs = [][2]string{{"usage", "usage"}, {"maxUsageRequest", "request"}, {"maxUsageRequest", "maxUsageRequest"}}
	c09Reclaim2 = []int64{100, 60}
)

func c09Base() c09Case {
	return c09Case{Reclaim: 100, Pct: -1, AgeSec: 60, Degrade: 15, CPUPol: "usage", MemPol: "usage"}
}

// c09StubClient serves NodeResourceTopology objects from memory (Get only). It is used for the large zone
// products; the small calc-degrade product goes through the controller-runtime fake client.
type c09StubClient struct {
	ctrlclient.Client
	nrts map[string]*topov1alpha1.NodeResourceTopology
}

func (s *c09StubClient) Get(_ context.Context, key ctrlclient.ObjectKey, obj ctrlclient.Object, _ ...ctrlclient.GetOption) error {
	n, ok := s.nrts[key.Name]
	out, isNRT := obj.(*topov1alpha1.NodeResourceTopology)
	if !ok || !isNRT {
		return apierrors.NewNotFound(schema.GroupResource{Group: "topology.node.k8s.io", Resource: "noderesourcetopologies"}, key.Name)
	}
	n.DeepCopyInto(out)
	return nil
}

var c09FakeClient, c09Stub ctrlclient.Client

func c09Setup() func() {
	oldClock, oldClient := Clock, client
	oldGC := debug.SetGCPercent(800) // the code under check allocates many small maps; fewer GC cycles, same results
	Clock = fakeclock.NewFakeClock(c09Now)
	scheme := runtime.NewScheme()
	_ = clientgoscheme.AddToScheme(scheme)
	_ = slov1alpha1.AddToScheme(scheme)
	_ = topov1alpha1.AddToScheme(scheme)
	b := fake.NewClientBuilder().WithScheme(scheme)
	stub := &c09StubClient{nrts: map[string]*topov1alpha1.NodeResourceTopology{}}
	for ci, k := range c09Caps {
		cc := c09Case{Cap: ci, Zones: 2}
		nrt := &topov1alpha1.NodeResourceTopology{
			ObjectMeta:       metav1.ObjectMeta{Name: c09NodeName(&cc)},
			TopologyPolicies: []string{string(topov1alpha1.None)},
		}
		for z := 0; z < 2; z++ {
			cpu := *resource.NewMilliQuantity(k.CPU/2, resource.DecimalSI)
			mem := *resource.NewQuantity(k.Mem/2, resource.BinarySI)
			nrt.Zones = append(nrt.Zones, topov1alpha1.Zone{
				Name: util.GenNodeZoneName(z), Type: util.NodeZoneType,
				Resources: topov1alpha1.ResourceInfoList{
					{Name: string(corev1.ResourceCPU), Capacity: cpu, Allocatable: cpu, Available: cpu},
					{Name: string(corev1.ResourceMemory), Capacity: mem, Allocatable: mem, Available: mem},
				},
			})
		}
		b = b.WithObjects(nrt)
		stub.nrts[nrt.Name] = nrt.DeepCopy()
	}
	c09FakeClient, c09Stub = b.Build(), stub
	client = c09FakeClient
	return func() { Clock, client = oldClock, oldClient; debug.SetGCPercent(oldGC) }
}

func c09Replay(env *mc.Env, unit string) bool {
	var raw json.RawMessage
	part, ok := env.ReplayData(&raw)
	if !ok {
		return false
	}
	if !strings.HasPrefix(part, unit+"-") { // a replay file of another unit of this property
		return true
	}
	var cases []c09Case
	var pair struct{ Lower, Raised *c09Case }
	if err := json.Unmarshal(raw, &pair); err == nil && pair.Lower != nil && pair.Raised != nil {
		cases = []c09Case{*pair.Lower, *pair.Raised}
	} else {
		var c c09Case
		if err := json.Unmarshal(raw, &c); err != nil {
			panic(err)
		}
		cases = []c09Case{c}
	}
	e2e := strings.HasPrefix(part, "calc-")
	for _, c := range cases {
		var o c09Out
		if e2e {
			c09EvalCalc(&c, &o)
		} else {
			c09EvalNode(&c, &o)
		}
		ref := c09Reference(&c)
		vs := &c09Viols{m: map[string]*c09Witness{}}
		c09Judge(vs, &c09Counts{}, mc.NewDistinctSet(), &c, &ref, &o, e2e)
		fmt.Printf("REPLAY part=%s case=%+v\n  published batch-cpu=%dm batch-memory=%d reset=%v zones=%v err=%q\n", part, c, o.v[0], o.v[1], o.reset, o.z, o.errS)
		for x := 0; x < 2; x++ {
			pol := c09CasePol(&c, x)
			fmt.Printf("  reference %s: bound*100=%d (policy %s)\n", c09ResNames[x], ref.boundN(x, pol), c09PolNames[pol])
		}
		for k, w := range vs.m {
			fmt.Printf("  VIOLATED %s: %s\n", k, w.what)
		}
	}
	return true
}

// TestVerifC09Node: the node-level products on Plugin.calculateOnNode.
func TestVerifC09Node(t *testing.T) {
	env := mc.LoadEnv()
	defer c09Setup()()
	if c09Replay(env, "node") {
		return
	}
	res3, sys3, host2 := []int64{0, 1, 3}, []int64{0, 2, 5}, []int64{0, 1}
	dang3 := []string{"", "batch", "prod"}
	pct3 := []int64{-1, 30, 100}
	fullPols := append([][2]string{{"", ""}}, c09Cross(c09CPUPols, c09MemPols)...) // unset policies + the full cross product
	onePod := c09PodAlpha{prio: c09AllPrio, qos: c09AllQoS, phase: c09AllPhase, req: []int64{0, 1, 2, 4}, use: []int64{-1, 0, 1, 3, 6}}

	// (1) one pod, every attribute combination, full environment alphabets
	if env.Thorough() {
		sp := &c09Space{unit: "node", part: "node-1pod", base: c09Base(), share: 0.35}
		c09CapDim(sp, []int64{0})
		c09EnvDims(sp, res3, res3, sys3, host2, dang3, host2)
		sp.addPods(1, onePod)
		c09StrategyDims(sp, fullPols, c09Reclaim2, pct3)
		c09Run(env, sp)
		sp = &c09Space{unit: "node", part: "node-1pod-large", base: c09Base(), share: 0.15}
		c09CapDim(sp, []int64{1})
		c09EnvDims(sp, res3, res3, sys3, host2, dang3, []int64{1})
		sp.addPods(1, onePod)
		c09StrategyDims(sp, c09Cross(c09CPUPols, c09MemPols), c09Reclaim2, pct3)
		c09Run(env, sp)
	} else {
		sp := &c09Space{unit: "node", part: "node-1pod", base: c09Base()}
		c09CapDim(sp, []int64{0})
		c09EnvDims(sp, []int64{0, 3}, []int64{0, 3}, sys3, host2, dang3, []int64{1})
		sp.addPods(1, onePod)
		c09StrategyDims(sp, c09PolPairs, c09Reclaim2, []int64{-1, 30})
		c09Run(env, sp)
	}
	// (1b) where the safety margin comes from: cluster strategy <- node annotation <- node label, through the real
	// sloconfig.GetNodeColocationStrategy (seed C09-6: a label ratio of exactly 0 means "reclaim nothing")
	{
		sp := &c09Space{unit: "node", part: "node-1pod-margin-layers", base: c09Base(), share: 0.1}
		c09CapDim(sp, []int64{0})
		c09EnvDims(sp, []int64{0, 3}, []int64{0}, []int64{0, 2}, []int64{0}, []string{""}, []int64{0})
		sp.addPods(1, c09PodAlpha{prio: []string{"prod", "batch"}, qos: []string{"LS"}, phase: []string{"Running"}, req: []int64{0, 2}, use: []int64{-1, 1, 3}})
		var names []string
		for _, p := range c09PolPairs {
			names = append(names, p[0]+"/"+p[1])
		}
		sp.add(c09Dim{name: "cpu-policy/memory-policy", n: len(c09PolPairs), desc: c09Strs(names),
			set: func(c *c09Case, d int) { c.CPUPol, c.MemPol = c09PolPairs[d][0], c09PolPairs[d][1] }})
		c09LayerDim(sp)
		sp.addI64("batch-threshold%(-1=nil)", []int64{-1, 30}, false, 0, func(c *c09Case, v int64) { c.Pct = v })
		c09Run(env, sp)
	}
	// (2) two pods
	{
		sp := &c09Space{unit: "node", part: "node-2pods", base: c09Base(), share: 0.35}
		c09CapDim(sp, []int64{0})
		if env.Thorough() {
			sp.base.ARes = 1
			c09EnvDims(sp, []int64{0, 3}, []int64{1}, []int64{0, 5}, []int64{0}, []string{"", "prod"}, []int64{0})
			sp.addPods(2, c09PodAlpha{prio: c09AllPrio, qos: []string{"LSE", "LS", "BE"}, phase: []string{"Running", "Succeeded"},
				req: []int64{0, 2, 4}, use: []int64{-1, 0, 1, 3, 6}})
			c09StrategyDims(sp, c09Cross(c09CPUPols, c09MemPols), c09Reclaim2, []int64{-1, 30})
		} else {
			c09EnvDims(sp, []int64{0, 3}, []int64{1}, []int64{0, 5}, []int64{0}, []string{"", "prod"}, []int64{0})
			sp.addPods(2, c09PodAlpha{prio: []string{"prod", "batch", "none"}, qos: []string{"LSE", "LS"},
				phase: []string{"Running", "Succeeded"}, req: []int64{0, 2, 4}, use: []int64{-1, 1, 3}})
			c09StrategyDims(sp, c09PolPairs, c09Reclaim2, []int64{-1, 30})
		}
		c09Run(env, sp)
	}
	// (3) three pods (a small product in the quick tier)
	{
		sp := &c09Space{unit: "node", part: "node-3pods", base: c09Base(), repeat: 1}
		c09CapDim(sp, []int64{0})
		if env.Thorough() {
			c09EnvDims(sp, []int64{0, 3}, []int64{0}, []int64{0, 5}, []int64{0}, []string{""}, []int64{0})
			sp.addPods(3, c09PodAlpha{prio: []string{"prod", "batch", "none"}, qos: []string{"LSE", "LS", "BE"},
				phase: []string{"Running", "Succeeded"}, req: []int64{1, 4}, use: []int64{-1, 1, 3}})
			c09StrategyDims(sp, c09PolPairs, c09Reclaim2, []int64{-1, 30})
		} else {
			c09EnvDims(sp, []int64{1}, []int64{0}, []int64{0, 2}, []int64{0}, []string{""}, []int64{0})
			sp.addPods(3, c09PodAlpha{prio: []string{"prod", "batch"}, qos: []string{"LSE", "LS"},
				phase: []string{"Running"}, req: []int64{1, 2}, use: []int64{-1, 1, 3}})
			c09StrategyDims(sp, c09PolPairs, c09Reclaim2, []int64{-1})
		}
		c09Run(env, sp)
	}
}

// TestVerifC09Calc: Plugin.Calculate end-to-end (degradation, NUMA zones through the fake client).
func TestVerifC09Calc(t *testing.T) {
	env := mc.LoadEnv()
	defer c09Setup()()
	if c09Replay(env, "calc") {
		return
	}
	// (4) metric age x degrade time, with and without zones
	{
		sp := &c09Space{unit: "calc", part: "calc-degrade", base: c09Base(), endToEnd: true, repeat: 2}
		c09CapDim(sp, []int64{0})
		sp.addI64("zones", []int64{0, 2}, false, 0, func(c *c09Case, v int64) { c.Zones = int(v) })
		sp.addI64("degrade-minutes", []int64{1, 15}, false, 0, func(c *c09Case, v int64) { c.Degrade = v })
		// ages relative to the degrade time D: 0, 30 s, D-1 s (fresh) | D+1 s, 24 h, no update time (stale)
		sp.add(c09Dim{name: "metric-age", n: 6, desc: "{0,30s,D-1s,D+1s,24h,nil}", set: func(c *c09Case, d int) {
			c.AgeSec = []int64{0, 30, c.Degrade*60 - 1, c.Degrade*60 + 1, 86400, -1}[d]
		}})
		c09EnvDims(sp, []int64{0, 1}, []int64{0}, []int64{0, 2}, []int64{0}, []string{"", "prod"}, []int64{0})
		sp.addPods(1, c09PodAlpha{prio: []string{"prod", "batch"}, qos: []string{"LSE", "LS"}, phase: []string{"Running"},
			req: []int64{0, 2}, use: []int64{-1, 1, 3}})
		pols := c09PolPairs
		if env.Thorough() {
			pols = c09Cross(c09CPUPols, c09MemPols)
		}
		c09StrategyDims(sp, pols, c09Reclaim2, []int64{-1, 30})
		c09Run(env, sp)
	}
	// (5) two zones, pods with / without NUMA allocation
	{
		sp := &c09Space{unit: "calc", part: "calc-zones", base: c09Base(), endToEnd: true, stub: true, share: 0.7}
		sp.base.Zones = 2
		if env.Thorough() {
			c09CapDim(sp, []int64{0})
			c09EnvDims(sp, []int64{0, 3}, []int64{0}, []int64{0, 5}, []int64{0, 4}, []string{"", "prod"}, []int64{0})
			sp.addPods(2, c09PodAlpha{prio: []string{"prod", "batch", "none"}, qos: []string{"LSE", "LS"},
				phase: []string{"Running", "Succeeded"}, numa: []int64{-1, 0, c09NumaInvalidOnly, c09NumaZone0AndBad}, req: []int64{0, 1, 2}, use: []int64{-1, 1, 3}})
			c09StrategyDims(sp, c09Cross(c09CPUPols, c09MemPols), c09Reclaim2, []int64{-1, 30})
			c09Run(env, sp)
			// the 100-core / 200 G node (non-integral cores per unit, decimal bytes)
			sp = &c09Space{unit: "calc", part: "calc-zones-large", base: c09Base(), endToEnd: true, stub: true}
			sp.base.Zones = 2
			c09CapDim(sp, []int64{1})
			c09EnvDims(sp, []int64{0, 3}, []int64{0}, []int64{0, 5}, []int64{0, 4}, []string{"", "prod"}, []int64{0})
			sp.addPods(2, c09PodAlpha{prio: []string{"prod", "batch"}, qos: []string{"LSE", "LS"},
				phase: []string{"Running", "Succeeded"}, numa: []int64{-1, 0, c09NumaInvalidOnly, c09NumaZone0AndBad}, req: []int64{0, 1, 2}, use: []int64{-1, 1, 3}})
			c09StrategyDims(sp, c09PolPairs, c09Reclaim2, []int64{-1, 30})
		} else {
			c09CapDim(sp, []int64{0})
			c09EnvDims(sp, []int64{0, 3}, []int64{0}, []int64{0, 5}, []int64{0, 4}, []string{"", "prod"}, []int64{0})
			sp.addPods(2, c09PodAlpha{prio: []string{"prod", "batch"}, qos: []string{"LSE", "LS"},
				phase: []string{"Running"}, numa: []int64{-1, 0, c09NumaInvalidOnly, c09NumaZone0AndBad}, req: []int64{0, 2}, use: []int64{-1, 1, 3}})
			c09StrategyDims(sp, c09PolPairs, c09Reclaim2, []int64{-1, 30})
		}
		c09Run(env, sp)
	}
}
