package noderesource

// C09 part "ctrl-hist": the clause "stale node metrics withdraw the resource instead of freezing an old value", end to
// end through the real NodeResourceReconciler.Reconcile (node + NodeMetric + pods read from a controller-runtime fake
// client, real batch / mid plugins, the node status written back), as a BFS over short histories of
//   reconcile | the NodeMetric is created / refreshed (low or high system usage) | it goes stale | it is deleted.
// After every reconcile the node object is judged: with a fresh metric the published batch amounts obey the capacity
// bound; with a stale OR MISSING metric nothing is published any more (seed C09-7: the reconcile returned early when the
// NodeMetric was not found, so the last amounts stayed on the node).
//
// The harness lives in the controller's package (it reuses FakeCfgCache and the plugin registration of the package's
// own test files, which the overlay compiles along).

import (
	"context"
	"fmt"
	"sync"
	"testing"
	"time"

	corev1 "k8s.io/api/core/v1"
	"k8s.io/apimachinery/pkg/api/resource"
	"k8s.io/apimachinery/pkg/api/meta"
	metav1 "k8s.io/apimachinery/pkg/apis/meta/v1"
	"k8s.io/apimachinery/pkg/runtime"
	"k8s.io/apimachinery/pkg/runtime/serializer"
	"k8s.io/apimachinery/pkg/types"
	clientgoscheme "k8s.io/client-go/kubernetes/scheme"
	k8stesting "k8s.io/client-go/testing"
	"k8s.io/client-go/tools/record"
	"k8s.io/utils/clock"
	"k8s.io/utils/ptr"
	ctrl "sigs.k8s.io/controller-runtime"
	"sigs.k8s.io/controller-runtime/pkg/builder"
	"sigs.k8s.io/controller-runtime/pkg/client"
	"sigs.k8s.io/controller-runtime/pkg/client/fake"

	"github.com/koordinator-sh/koordinator/apis/configuration"
	"github.com/koordinator-sh/koordinator/apis/extension"
	schedulingv1alpha1 "github.com/koordinator-sh/koordinator/apis/scheduling/v1alpha1"
	slov1alpha1 "github.com/koordinator-sh/koordinator/apis/slo/v1alpha1"
	"github.com/koordinator-sh/koordinator/pkg/slo-controller/noderesource/framework"
	"github.com/koordinator-sh/koordinator/pkg/util/testutil"
	"github.com/koordinator-sh/koordinator/pkg/zzverif/mc"
)

const (
	c09cNode    = "c09-ctrl-node"
	c09cCPU     = int64(100)      // cores
	c09cMemGi   = int64(100)      // Gi
	c09cReclaim = int64(65)       // percent
	c09cDegrade = int64(15)       // minutes
	c09cStale   = 40 * time.Minute // age given to a stale report (far beyond the degrade time: no wall-clock sensitivity)
)

const (
	c09cAbsent = iota
	c09cFreshLow
	c09cFreshHigh
	c09cStaleSt
)

var c09cMetricNames = []string{"absent", "fresh(system uses 10%)", "fresh(system uses 50%)", "stale"}

var c09cOps = []string{"reconcile", "metric-fresh-low", "metric-fresh-high", "metric-goes-stale", "metric-deleted"}

type c09cSys struct {
	cl     client.Client
	r      *NodeResourceReconciler
	metric int
	usePct int64 // system usage of the report in force (percent of capacity)
	last   string
	res    *mc.Result
}

var c09cScheme = func() *runtime.Scheme {
	s := runtime.NewScheme()
	_ = clientgoscheme.AddToScheme(s)
	_ = slov1alpha1.AddToScheme(s)
	_ = schedulingv1alpha1.AddToScheme(s)
	return s
}()

// read-only after construction, shared by all fake clients (the default field-managed tracker builds a scheme and a
// REST mapper per client and is not meant for many clients in parallel; managed fields are of no concern here)
var c09cMapper = func() meta.RESTMapper {
	rm := meta.NewDefaultRESTMapper(nil)
	for gvk := range c09cScheme.AllKnownTypes() {
		rm.Add(gvk, meta.RESTScopeRoot)
	}
	return rm
}()
var c09cCodec = serializer.NewCodecFactory(c09cScheme).UniversalDecoder()
var c09cSetup sync.Once

func c09cRL(cpuMilli, memBytes int64) corev1.ResourceList {
	return corev1.ResourceList{
		corev1.ResourceCPU:    *resource.NewMilliQuantity(cpuMilli, resource.DecimalSI),
		corev1.ResourceMemory: *resource.NewQuantity(memBytes, resource.BinarySI),
	}
}

func c09cNew(res *mc.Result) *c09cSys {
	c := fake.NewClientBuilder().WithScheme(c09cScheme).WithRESTMapper(c09cMapper).
		WithObjectTracker(k8stesting.NewObjectTracker(c09cScheme, c09cCodec)).
		WithIndex(&corev1.Pod{}, "spec.nodeName", func(obj client.Object) []string { return []string{obj.(*corev1.Pod).Spec.NodeName} }).
		Build()
	r := &NodeResourceReconciler{
		Client: c,
		cfgCache: &FakeCfgCache{available: true, cfg: configuration.ColocationCfg{ColocationStrategy: configuration.ColocationStrategy{
			Enable:                         ptr.To(true),
			CPUReclaimThresholdPercent:     ptr.To(c09cReclaim),
			MemoryReclaimThresholdPercent:  ptr.To(c09cReclaim),
			MidStaticCPUReservedPercent:    ptr.To[int64](0),
			MidStaticMemoryReservedPercent: ptr.To[int64](0),
			DegradeTimeMinutes:             ptr.To(c09cDegrade),
			UpdateTimeThresholdSeconds:     ptr.To[int64](300),
			ResourceDiffThreshold:          ptr.To(0.1),
		}}},
		Recorder:        &record.FakeRecorder{},
		NodeSyncContext: framework.NewSyncContext(),
		Clock:           clock.RealClock{},
	}
	capRL := c09cRL(c09cCPU*1000, c09cMemGi<<30)
	if err := c.Create(context.TODO(), &corev1.Node{ObjectMeta: metav1.ObjectMeta{Name: c09cNode},
		Status: corev1.NodeStatus{Capacity: capRL.DeepCopy(), Allocatable: capRL.DeepCopy()}}); err != nil {
		panic(err)
	}
	// the plugins keep the client they are set up with in package variables (used for the NodeResourceTopology lookup,
	// which finds nothing in any of these clients): set up once
	c09cSetup.Do(func() {
		opt := framework.NewOption().WithClient(c).WithScheme(c09cScheme).WithControllerBuilder(builder.ControllerManagedBy(&testutil.FakeManager{}))
		framework.RunSetupExtenders(opt)
	})
	return &c09cSys{cl: c, r: r, res: res}
}

func (s *c09cSys) putMetric(usePct int64, age time.Duration) {
	nm := &slov1alpha1.NodeMetric{}
	err := s.cl.Get(context.TODO(), types.NamespacedName{Name: c09cNode}, nm)
	exists := err == nil
	nm.Name = c09cNode
	ut := metav1.NewTime(time.Now().Add(-age))
	use := c09cRL(c09cCPU*1000*usePct/100, (c09cMemGi<<30)*usePct/100)
	nm.Status = slov1alpha1.NodeMetricStatus{UpdateTime: &ut, NodeMetric: &slov1alpha1.NodeMetricInfo{
		NodeUsage:   slov1alpha1.ResourceMap{ResourceList: use.DeepCopy()},
		SystemUsage: slov1alpha1.ResourceMap{ResourceList: use.DeepCopy()},
	}}
	if exists {
		err = s.cl.Update(context.TODO(), nm)
	} else {
		err = s.cl.Create(context.TODO(), nm)
	}
	if err != nil {
		panic(err)
	}
}

func (s *c09cSys) published() (cpuMilli, memBytes int64, has [2]bool) {
	node := &corev1.Node{}
	if err := s.cl.Get(context.TODO(), types.NamespacedName{Name: c09cNode}, node); err != nil {
		panic(err)
	}
	if q, ok := node.Status.Allocatable[extension.BatchCPU]; ok {
		cpuMilli, has[0] = q.Value(), true // batch-cpu is published in milli-cores as a plain integer
	}
	if q, ok := node.Status.Allocatable[extension.BatchMemory]; ok {
		memBytes, has[1] = q.Value(), true
	}
	return
}

func (s *c09cSys) Apply(op int, check bool) (bool, []mc.Violation) {
	var viol []mc.Violation
	switch op {
	case 0:
		if _, err := s.r.Reconcile(context.TODO(), ctrl.Request{NamespacedName: types.NamespacedName{Name: c09cNode}}); err != nil {
			viol = append(viol, mc.Violation{Key: "C09|ctrl|reconcile-error", What: err.Error()})
		}
		if check {
			cpu, mem, has := s.published()
			s.res.Count("reconciles_judged", 1)
			switch s.metric {
			case c09cAbsent, c09cStaleSt:
				s.res.Count("reconciles_with_stale_or_missing_metric", 1)
				if cpu > 0 || mem > 0 {
					viol = append(viol, mc.Violation{Key: "C09|ctrl|stale-metric-not-withdrawn|metric-" + map[int]string{c09cAbsent: "missing", c09cStaleSt: "stale"}[s.metric],
						What: fmt.Sprintf("after a reconcile with the NodeMetric %s the node still publishes batch-cpu=%d (present=%v) batch-memory=%d (present=%v): the old value is frozen instead of withdrawn", c09cMetricNames[s.metric], cpu, has[0], mem, has[1])})
				}
			default:
				s.res.Count("reconciles_with_fresh_metric", 1)
				boundCPU := c09cCPU*1000*c09cReclaim/100 - c09cCPU*1000*s.usePct/100
				boundMem := (c09cMemGi<<30)*c09cReclaim/100 - (c09cMemGi<<30)*s.usePct/100
				if cpu < 0 || mem < 0 || cpu > boundCPU+1 || mem > boundMem+1 {
					viol = append(viol, mc.Violation{Key: "C09|ctrl|exceeds-bound",
						What: fmt.Sprintf("fresh metric (system uses %d%%): published batch-cpu=%d batch-memory=%d, bound capacity*%d%% - system usage = %d / %d", s.usePct, cpu, mem, c09cReclaim, boundCPU, boundMem)})
				}
				if cpu > 0 {
					s.res.Count("reconciles_publishing_a_positive_amount", 1)
				}
			}
		}
	case 1, 2:
		pct := int64(10)
		st := c09cFreshLow
		if op == 2 {
			pct, st = 50, c09cFreshHigh
		}
		if s.metric == st {
			return false, nil
		}
		s.putMetric(pct, 0)
		s.metric, s.usePct = st, pct
	case 3:
		if s.metric != c09cFreshLow && s.metric != c09cFreshHigh {
			return false, nil
		}
		s.putMetric(s.usePct, c09cStale)
		s.metric = c09cStaleSt
	case 4:
		if s.metric == c09cAbsent {
			return false, nil
		}
		nm := &slov1alpha1.NodeMetric{ObjectMeta: metav1.ObjectMeta{Name: c09cNode}}
		if err := s.cl.Delete(context.TODO(), nm); err != nil {
			panic(err)
		}
		s.metric = c09cAbsent
	}
	s.last = c09cOps[op]
	return true, viol
}

func (s *c09cSys) Invariants() []mc.Violation { return nil }

func (s *c09cSys) Key() string {
	cpu, mem, has := s.published()
	return fmt.Sprintf("metric=%d use=%d published=%d/%d/%v last-was-reconcile=%v", s.metric, s.usePct, cpu, mem, has, s.last == "reconcile")
}

func TestVerifC09Ctrl(t *testing.T) {
	env := mc.LoadEnv()
	res := mc.NewResult("C09", "ctrl-hist", "bfs")
	res.Rule = fmt.Sprintf("BFS over all sequences of the %d-event alphabet %v on the real NodeResourceReconciler.Reconcile over a fake client (one node of %d cores / %d Gi, reclaim threshold %d%%, degrade time %d min, no pods); a stale report is %v old; after every reconcile the node's published batch-cpu / batch-memory are judged; state = metric state + published amounts",
		len(c09cOps), c09cOps, c09cCPU, c09cMemGi, c09cReclaim, c09cDegrade, c09cStale)
	res.Assumptions = []string{
		"a refreshed report changes the system usage by 40% of the capacity, far above the controller's resource-diff threshold (10%), so a fresh report is always synced to the node",
		"staleness is produced by writing an update time 40 minutes in the past (degrade time 15 minutes) and read by the real clock: no verdict depends on how long the check runs",
	}
	b := &mc.BFS{Res: res, Env: env, New: func() mc.System { return c09cNew(res) }, NumOps: len(c09cOps),
		OpName: func(i int) string { return c09cOps[i] }, MaxDepth: env.Pick(6, 8), Repeats: 0}
	b.Run()
	env.Emit(res)
}
