package util

// C09, function-level part: exhaustive product on CalculateBatchResourceByPolicy + GetNodeSafetyMargin with odd
// magnitudes (non-round bytes, thirds of capacity, percentages whose float product is inexact), judged by the
// statement's inequalities in exact int64 arithmetic (amounts * 100):
//   published >= 0; published <= max(0, capacity - margin - max(system usage, reservation) - HP[policy]) + band;
//   published <= capacity * batch% / 100; raising one consumption input by one step never raises the result.
// Band (closed): 1 milli-CPU / 1 byte on the capacity bound because the safety margin is truncated to whole units.

import (
	"encoding/json"
	"fmt"
	"sort"
	"sync"
	"testing"

	corev1 "k8s.io/api/core/v1"
	"k8s.io/apimachinery/pkg/api/resource"

	"github.com/koordinator-sh/koordinator/apis/configuration"
	"github.com/koordinator-sh/koordinator/pkg/zzverif/mc"
)

type c09fCase struct {
	Cap     [2]int64 `json:"capacity"` // milli-CPU, bytes
	Sys     [2]int64 `json:"systemUsed"`
	Rsv     [2]int64 `json:"nodeReserved"`
	HPReq   [2]int64 `json:"podHPRequest"`
	HPUsed  [2]int64 `json:"podHPUsed"`
	HPMaxUR [2]int64 `json:"podHPMaxUsedRequest"`
	Reclaim int64    `json:"reclaimPercent"`
	Pct     int64    `json:"batchThresholdPercent"` // -1 = nil
	CPUPol  string   `json:"cpuPolicy"`
	MemPol  string   `json:"memPolicy"`
}

func c09fRL(v [2]int64) corev1.ResourceList {
	return corev1.ResourceList{
		corev1.ResourceCPU:    *resource.NewMilliQuantity(v[0], resource.DecimalSI),
		corev1.ResourceMemory: *resource.NewQuantity(v[1], resource.BinarySI),
	}
}

func c09fRun(c *c09fCase) (out [2]int64, panicS string) {
	defer func() {
		if r := recover(); r != nil {
			panicS = fmt.Sprint(r)
		}
	}()
	st := &configuration.ColocationStrategy{CPUReclaimThresholdPercent: &c.Reclaim, MemoryReclaimThresholdPercent: &c.Reclaim}
	if c.CPUPol != "" {
		p := configuration.CalculatePolicy(c.CPUPol)
		st.CPUCalculatePolicy = &p
	}
	if c.MemPol != "" {
		p := configuration.CalculatePolicy(c.MemPol)
		st.MemoryCalculatePolicy = &p
	}
	if c.Pct >= 0 {
		st.BatchCPUThresholdPercent, st.BatchMemoryThresholdPercent = &c.Pct, &c.Pct
	}
	capRL := c09fRL(c.Cap)
	margin := GetNodeSafetyMargin(st, capRL)
	rl, _, _ := CalculateBatchResourceByPolicy(st, capRL, margin, c09fRL(c.Rsv), c09fRL(c.Sys), c09fRL(c.HPReq), c09fRL(c.HPUsed), c09fRL(c.HPMaxUR))
	return [2]int64{rl.Cpu().MilliValue(), rl.Memory().Value()}, ""
}

func c09fHP(c *c09fCase, x int) (int64, string) {
	pol := c.CPUPol
	if x == 1 {
		pol = c.MemPol
	}
	switch pol {
	case "request":
		return c.HPReq[x], "request"
	case "maxUsageRequest":
		return c.HPMaxUR[x], "maxUsageRequest"
	}
	return c.HPUsed[x], "usage"
}

type c09fWitness struct {
	count, weight int64
	js, what      string
	replay        any
}

type c09fViols struct {
	mu sync.Mutex
	m  map[string]*c09fWitness
}

func (v *c09fViols) add(key string, weight int64, replay any, what func() string) {
	v.mu.Lock()
	defer v.mu.Unlock()
	w := v.m[key]
	if w == nil {
		w = &c09fWitness{weight: 1 << 62}
		v.m[key] = w
	}
	w.count++
	if weight > w.weight {
		return
	}
	b, _ := json.Marshal(replay)
	if weight == w.weight && string(b) >= w.js {
		return
	}
	w.weight, w.js, w.replay, w.what = weight, string(b), replay, what()
}

func c09fWeight(c *c09fCase) int64 {
	w := int64(0)
	for x := 0; x < 2; x++ {
		for _, v := range [][2]int64{c.Sys, c.Rsv, c.HPReq, c.HPUsed, c.HPMaxUR} {
			if v[x] != 0 {
				w += 1 + v[x]*8/c.Cap[x]
			}
		}
	}
	if c.Pct >= 0 {
		w++
	}
	if c.Reclaim != 100 {
		w++
	}
	return w + c.Cap[0]/1000
}

var c09fRes = [2]string{"batch-cpu", "batch-memory"}

func TestVerifC09Policy(t *testing.T) {
	env := mc.LoadEnv()
	var rc c09fCase
	if part, ok := env.ReplayData(&rc); ok {
		if part != "policy-function" {
			return
		}
		out, ps := c09fRun(&rc)
		fmt.Printf("REPLAY case=%+v published=%v panic=%q\n", rc, out, ps)
		return
	}
	caps := [][2]int64{{8000, 16 << 30}, {96000, 810_000_000_001}, {1500, 3<<30 + 1}}
	// amounts as fractions of the capacity: 0, 1/8, 1/3 (truncated, odd), 1/2+1, all
	frac := func(capV int64, d int) int64 { return []int64{0, capV / 8, capV / 3, capV/2 + 1, capV}[d] }
	nFrac := 5
	reclaims := []int64{100, 77, 65, 33, 0} // ordered by rising margin
	pcts := []int64{-1, 0, 7, 30, 100, 150}
	if !env.Thorough() {
		nFrac = 4
		frac = func(capV int64, d int) int64 { return []int64{0, capV / 8, capV / 3, capV/2 + 1}[d] }
		reclaims = []int64{100, 65, 33}
		pcts = []int64{-1, 7, 30, 100}
	}
	pols := [][2]string{{"", ""}, {"usage", "usage"}, {"usage", "request"}, {"maxUsageRequest", "usage"}, {"maxUsageRequest", "request"}, {"maxUsageRequest", "maxUsageRequest"}, {"usage", "maxUsageRequest"}}
	res := mc.NewResult("C09", "policy-function", "enumeration")
	orx := mc.Radix{Dims: []int{len(caps), len(pcts), len(pols)}}
	irx := mc.Radix{Dims: []int{nFrac, nFrac, nFrac, nFrac, nFrac, len(reclaims)}}
	names := []string{"system-usage", "reservation", "hp-request", "hp-usage", "hp-max-usage-request", "margin(reclaim%)"}
	stride := make([]int64, len(irx.Dims))
	s := int64(1)
	for k, d := range irx.Dims {
		stride[k] = s
		s *= int64(d)
	}
	innerSize := irx.Size()
	vs := &c09fViols{m: map[string]*c09fWitness{}}
	ds := mc.NewDistinctSet()
	bufs := make([][][2]int64, env.Workers)
	set := func(c *c09fCase, j int64) {
		d := irx.Decode(j, make([]int, 0, 6))
		for x := 0; x < 2; x++ {
			c.Sys[x], c.Rsv[x], c.HPReq[x] = frac(c.Cap[x], d[0]), frac(c.Cap[x], d[1]), frac(c.Cap[x], d[2])
			c.HPUsed[x], c.HPMaxUR[x] = frac(c.Cap[x], d[3]), frac(c.Cap[x], d[4])
		}
		c.Reclaim = reclaims[d[5]]
	}
	// one outer tuple per engine chunk (256 indices) so that the blocks spread over all workers
	done, complete := env.ParallelRangeL(res, orx.Size()*256, func(l *mc.Local, i256 int64) {
		if i256%256 != 0 {
			return
		}
		i := i256 / 256
		od := orx.Decode(i, make([]int, 0, 3))
		c := c09fCase{Cap: caps[od[0]], Pct: pcts[od[1]], CPUPol: pols[od[2]][0], MemPol: pols[od[2]][1]}
		buf := bufs[l.Worker]
		if buf == nil {
			buf = make([][2]int64, innerSize)
			bufs[l.Worker] = buf
		}
		for j := int64(0); j < innerSize; j++ {
			set(&c, j)
			out, ps := c09fRun(&c)
			l.Evals++
			buf[j] = out
			cc := c
			if ps != "" {
				vs.add("C09|policy-function|panic", c09fWeight(&c), cc, func() string { return ps })
				buf[j] = [2]int64{-1 << 62, -1 << 62}
				continue
			}
			nontrivial := false
			for x := 0; x < 2; x++ {
				x := x
				hp, pn := c09fHP(&c, x)
				pub := out[x]
				if pub < 0 {
					vs.add("C09|"+c09fRes[x]+"|"+pn+"|negative", c09fWeight(&c), cc, func() string { return fmt.Sprintf("published %d < 0; case %+v", pub, cc) })
					continue
				}
				raw := c.Cap[x]*100 - c.Cap[x]*(100-c.Reclaim) - 100*max(c.Sys[x], c.Rsv[x]) - 100*hp
				bound := max(raw, 0)
				if pub*100 > bound+100 {
					class := "exceeds-bound"
					if pn == "request" && c.Sys[x] > c.Rsv[x] && pub*100 <= max(raw+100*(c.Sys[x]-c.Rsv[x]), 0)+100 {
						class = "system-usage-above-reservation-not-charged"
					}
					vs.add("C09|"+c09fRes[x]+"|"+pn+"|"+class, c09fWeight(&c), cc, func() string {
						return fmt.Sprintf("published %s=%d exceeds max(0, capacity - margin - max(system usage, reservation) - HP(%s)) = max(0, %d/100); case %+v", c09fRes[x], pub, pn, raw, cc)
					})
					continue
				}
				if c.Pct >= 0 && pub*100 > c.Cap[x]*c.Pct {
					vs.add("C09|"+c09fRes[x]+"|"+pn+"|percentage-cap-exceeded", c09fWeight(&c), cc, func() string {
						return fmt.Sprintf("published %s=%d exceeds %d%% of capacity; case %+v", c09fRes[x], pub, c.Pct, cc)
					})
					continue
				}
				pfx := c09fRes[x] + ":"
				if pub*100 > bound {
					l.Count(pfx+"rounding_band_used", 1)
				}
				if raw < 0 && pub == 0 {
					l.Count(pfx+"clamped_at_zero", 1)
				}
				pctBinds := c.Pct >= 0 && c.Cap[x]*c.Pct < bound
				if raw > 0 && !pctBinds && pub*100 >= bound-100 {
					l.Count(pfx+"capacity_bound_tight", 1)
				}
				if pctBinds && (pub+1)*100 > c.Cap[x]*c.Pct {
					l.Count(pfx+"percentage_cap_tight", 1)
				}
				if pub > 0 {
					nontrivial = true
				}
			}
			if nontrivial {
				ds.Add(fmt.Sprint(c.Cap, c.Pct, c.CPUPol, c.MemPol, c.Reclaim, out, max(c.Sys[0], c.Rsv[0])))
			}
		}
		for j := int64(0); j < innerSize; j++ {
			for k, n := range irx.Dims {
				if int((j/stride[k])%int64(n))+1 >= n {
					continue
				}
				a, b := buf[j], buf[j+stride[k]]
				for x := 0; x < 2; x++ {
					if a[x] == -1<<62 || b[x] == -1<<62 {
						continue
					}
					l.Count("monotonic_comparisons", 1)
					if b[x] < a[x] {
						l.Count("monotonic_strict_decrease:"+names[k], 1)
					}
					if b[x] > a[x] {
						lo, hi := c, c
						set(&lo, j)
						set(&hi, j+stride[k])
						_, pn := c09fHP(&lo, x)
						x, k := x, k
						vs.add("C09|"+c09fRes[x]+"|"+pn+"|not-monotone|"+names[k], c09fWeight(&lo), map[string]any{"lower": lo, "raised": hi}, func() string {
							return fmt.Sprintf("raising %s raised published %s from %d to %d; lower %+v raised %+v", names[k], c09fRes[x], a[x], b[x], lo, hi)
						})
					}
				}
			}
		}
	})
	keys := make([]string, 0, len(vs.m))
	for k := range vs.m {
		keys = append(keys, k)
	}
	sort.Strings(keys)
	for _, k := range keys {
		w := vs.m[k]
		res.Violate(mc.Violation{Key: k, What: fmt.Sprintf("%s [%d violating cases/pairs; simplest witness shown]", w.what, w.count), Replay: w.replay})
		res.Count("violating_cases:"+k, w.count)
	}
	res.Traces = res.Evaluations
	res.Distinct = ds.Len()
	res.Exhaustive = complete
	if !complete {
		res.Capped = fmt.Sprintf("time budget hit after %d of %d outer tuples", done/256, orx.Size())
	}
	res.Rule = fmt.Sprintf("every case of capacity%v x {system usage, reservation, HP request, HP usage, HP max(usage,request)} each in {0, cap/8, cap/3, cap/2+1%s} x reclaim%%%v x batch%%%v(-1=nil) x (cpu,memory) policy%v; monotonicity for every neighbouring pair; non-trivial = published > 0",
		caps, map[bool]string{true: ", cap", false: ""}[env.Thorough()], reclaims, pcts, pols)
	res.Bounds = map[string]any{"outer_tuples": orx.Size(), "cases_per_outer_tuple": innerSize}
	res.Assumptions = []string{"function-level seam: the aggregated HP amounts are independent inputs (also combinations the plugin cannot produce)",
		"rounding band: 1 milli-CPU / 1 byte on the capacity bound (truncated safety margin), none on the percentage cap"}
	env.Emit(res)
}
