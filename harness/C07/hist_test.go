package deviceshare

// C07 "Devices are never over-committed and device accounting balances".
//
// Explicit-state BFS over event histories executed on the REAL nodeDeviceCache / nodeDevice / AutopilotAllocator
// (no informers, no goroutines): allocate+commit exactly as Plugin.allocate + Plugin.Reserve do, informer pod
// events through onPodAdd/onPodUpdate/onPodDelete, Device CR events through onDeviceAdd/Update/Delete.
// The reference model is a plain ledger written from the property statement: the inventory the harness itself
// published and, per pod, the allocation carried by the pod (what the allocator returned / what the latest
// delivered pod object says). It never calls into the code under check.

import (
	"context"
	"encoding/json"
	"fmt"
	"os"
	"regexp"
	"sort"
	"strings"
	"sync"
	"testing"
	"time"

	corev1 "k8s.io/api/core/v1"
	"k8s.io/apimachinery/pkg/api/resource"
	metav1 "k8s.io/apimachinery/pkg/apis/meta/v1"
	"k8s.io/apimachinery/pkg/types"
	"k8s.io/kubernetes/pkg/scheduler/framework"
	"k8s.io/utils/ptr"

	apiext "github.com/koordinator-sh/koordinator/apis/extension"
	schedulingv1alpha1 "github.com/koordinator-sh/koordinator/apis/scheduling/v1alpha1"
	schedulerconfig "github.com/koordinator-sh/koordinator/pkg/scheduler/apis/config"
	v1schedulerconfig "github.com/koordinator-sh/koordinator/pkg/scheduler/apis/config/v1"
	"github.com/koordinator-sh/koordinator/pkg/scheduler/frameworkext"
	"github.com/koordinator-sh/koordinator/pkg/scheduler/frameworkext/schedulingphase"
	"github.com/koordinator-sh/koordinator/pkg/zzverif/mc"
)

const (
	c07Node = "c07-node"
	c07NS   = "default"
	c07Gi   = int64(1) << 30
)

var (
	c07GPU  = string(schedulingv1alpha1.GPU)
	c07RDMA = string(schedulingv1alpha1.RDMA)
	c07Core = string(apiext.ResourceGPUCore)
	c07Rat  = string(apiext.ResourceGPUMemoryRatio)
	c07Mem  = string(apiext.ResourceGPUMemory)
	c07Rdma = string(apiext.ResourceRDMA)
)

// ---------------------------------------------------------------------------------------------------------------
// reference model types (plain maps / int64)

type c07Res map[string]int64 // resource name -> amount; absent == 0

type c07Dev struct {
	T string
	M int
}

func (d c07Dev) String() string { return fmt.Sprintf("%s/%d", d.T, d.M) }

// c07DevDef is one device of an inventory as the harness publishes it.
type c07DevDef struct {
	Dev     c07Dev
	Healthy bool
	Res     c07Res
	HasTopo bool
	NUMA    int32
	PCIe    string
	VFs     []string
}

// c07Inst is one device instance held by a pod.
type c07Inst struct {
	Dev c07Dev
	Res c07Res
	VFs []string
}

const (
	c07Free = iota
	c07Live
	c07Terminated // removed from the ledger by a "phase Succeeded" update; the API delete event is still to come
)

type c07PodRef struct {
	state int
	insts []c07Inst
	ann   string // value of the device-allocated annotation of the latest delivered pod object
	gen   int    // incarnation (UID) of the pod that currently owns the name, toggles on re-creation
	// ghost: a previous incarnation of the same namespace/name that is already deleted in the API but whose delete
	// event has not been delivered to this cache's informer listener yet (each listener has its own queue).
	ghost *c07Ghost
}

type c07Ghost struct {
	insts []c07Inst
	ann   string
	gen   int
}

// c07Want is what a request shape asks for one device type (written from the shape, not from the code).
type c07Want struct {
	T     string
	Per   c07Res
	Count int
	VF    bool
}

type c07Shape struct {
	name     string
	requests corev1.ResourceList
	wants    []c07Want
	vfHint   bool
	joint    bool
}

func c07Q(v int64) resource.Quantity { return *resource.NewQuantity(v, resource.DecimalSI) }

var c07Shapes = map[string]c07Shape{
	"W1":  {name: "W1", requests: corev1.ResourceList{apiext.ResourceGPU: c07Q(100)}, wants: []c07Want{{T: c07GPU, Per: c07Res{c07Core: 100, c07Rat: 100}, Count: 1}}},
	"W2":  {name: "W2", requests: corev1.ResourceList{apiext.ResourceGPU: c07Q(200)}, wants: []c07Want{{T: c07GPU, Per: c07Res{c07Core: 100, c07Rat: 100}, Count: 2}}},
	"F50": {name: "F50", requests: corev1.ResourceList{apiext.ResourceGPU: c07Q(50)}, wants: []c07Want{{T: c07GPU, Per: c07Res{c07Core: 50, c07Rat: 50}, Count: 1}}},
	"F25": {name: "F25", requests: corev1.ResourceList{apiext.ResourceGPU: c07Q(25)}, wants: []c07Want{{T: c07GPU, Per: c07Res{c07Core: 25, c07Rat: 25}, Count: 1}}},
	"M2x50": {name: "M2x50", requests: corev1.ResourceList{apiext.ResourceGPUShared: c07Q(2), apiext.ResourceGPUCore: c07Q(100), apiext.ResourceGPUMemoryRatio: c07Q(100)},
		wants: []c07Want{{T: c07GPU, Per: c07Res{c07Core: 50, c07Rat: 50}, Count: 2}}},
	// request by bytes: the ratio is derived by the code (fillGPUTotalMem)
	"B4G": {name: "B4G", requests: corev1.ResourceList{apiext.ResourceGPUCore: c07Q(50), apiext.ResourceGPUMemory: *resource.NewQuantity(4*c07Gi, resource.BinarySI)},
		wants: []c07Want{{T: c07GPU, Per: c07Res{c07Core: 50, c07Mem: 4 * c07Gi}, Count: 1}}},
	"R1VF": {name: "R1VF", requests: corev1.ResourceList{apiext.ResourceRDMA: c07Q(1)}, vfHint: true,
		wants: []c07Want{{T: c07RDMA, Per: c07Res{c07Rdma: 1}, Count: 1, VF: true}}},
	"R100": {name: "R100", requests: corev1.ResourceList{apiext.ResourceRDMA: c07Q(100)},
		wants: []c07Want{{T: c07RDMA, Per: c07Res{c07Rdma: 100}, Count: 1}}},
	"R200": {name: "R200", requests: corev1.ResourceList{apiext.ResourceRDMA: c07Q(200)},
		wants: []c07Want{{T: c07RDMA, Per: c07Res{c07Rdma: 100}, Count: 2}}},
	"G1R1": {name: "G1R1", requests: corev1.ResourceList{apiext.ResourceGPU: c07Q(100), apiext.ResourceRDMA: c07Q(1)}, vfHint: true, joint: true,
		wants: []c07Want{{T: c07GPU, Per: c07Res{c07Core: 100, c07Rat: 100}, Count: 1}, {T: c07RDMA, Per: c07Res{c07Rdma: 1}, Count: 1, VF: true}}},
	// joint allocations of whole NICs (no VF): one / two NICs next to one GPU
	"G1R100": {name: "G1R100", requests: corev1.ResourceList{apiext.ResourceGPU: c07Q(100), apiext.ResourceRDMA: c07Q(100)}, joint: true,
		wants: []c07Want{{T: c07GPU, Per: c07Res{c07Core: 100, c07Rat: 100}, Count: 1}, {T: c07RDMA, Per: c07Res{c07Rdma: 100}, Count: 1}}},
	"G1R200": {name: "G1R200", requests: corev1.ResourceList{apiext.ResourceGPU: c07Q(100), apiext.ResourceRDMA: c07Q(200)}, joint: true,
		wants: []c07Want{{T: c07GPU, Per: c07Res{c07Core: 100, c07Rat: 100}, Count: 1}, {T: c07RDMA, Per: c07Res{c07Rdma: 100}, Count: 2}}},
	"G50R1": {name: "G50R1", requests: corev1.ResourceList{apiext.ResourceGPU: c07Q(50), apiext.ResourceRDMA: c07Q(1)}, vfHint: true, joint: true,
		wants: []c07Want{{T: c07GPU, Per: c07Res{c07Core: 50, c07Rat: 50}, Count: 1}, {T: c07RDMA, Per: c07Res{c07Rdma: 1}, Count: 1, VF: true}}},
}

// inventory variants: what the Device CR says after a refresh
const (
	c07VBase = iota
	c07VUnhealthy
	c07VRemoved
	c07VShrunk // gpu-memory 8Gi -> 4Gi (a smaller model was plugged in)
	c07VZero   // healthy but reports zero amounts
)

type c07Variant struct {
	name string
	kind int
	dev  c07Dev
}

type c07Cfg struct {
	name      string
	gpus      int
	topo      bool
	rdma      int
	rdmaPer   int    // NICs per PCIe switch (0 = 1): NIC i hangs off the switch of GPU i/rdmaPer
	scorer    string // "", "least", "most"
	filtered  bool   // Allocate with the (empty, non-nil) preemptible map Plugin.allocate passes -> nodeDevice.filter path
	shapes    []string
	variants  []c07Variant
	pods      int
	external  bool // additionally: events only a second writer of the device-allocated annotation can cause
	reuse     bool // additionally: a pod name is re-created and scheduled before the old incarnation's delete is delivered
	unreserve bool
	depthQ    int
	depthT    int
	share     float64 // share of the unit's time budget

	scorerObj *resourceAllocationScorer // built once; stateless (closures over a read-only weight map)
	gateObj   *c07Gate
}

func c07BaseDefs(cfg *c07Cfg) []c07DevDef {
	var out []c07DevDef
	for i := 0; i < cfg.gpus; i++ {
		d := c07DevDef{Dev: c07Dev{c07GPU, i}, Healthy: true, Res: c07Res{c07Core: 100, c07Rat: 100, c07Mem: 8 * c07Gi}}
		if cfg.topo {
			d.HasTopo = true
			d.NUMA = int32(i / 2)
			d.PCIe = fmt.Sprint(i)
		}
		out = append(out, d)
	}
	for i := 0; i < cfg.rdma; i++ {
		m := i + 1
		per := cfg.rdmaPer
		if per == 0 {
			per = 1
		}
		d := c07DevDef{Dev: c07Dev{c07RDMA, m}, Healthy: true, Res: c07Res{c07Rdma: 100}, HasTopo: true, NUMA: int32(i / per / 2), PCIe: fmt.Sprint(i / per),
			VFs: []string{fmt.Sprintf("0000:%02d:00.2", m), fmt.Sprintf("0000:%02d:00.3", m)}}
		out = append(out, d)
	}
	return out
}

func c07Defs(cfg *c07Cfg, v c07Variant) []c07DevDef {
	base := c07BaseDefs(cfg)
	var out []c07DevDef
	for _, d := range base {
		if d.Dev == v.dev {
			switch v.kind {
			case c07VUnhealthy:
				d.Healthy = false
			case c07VRemoved:
				continue
			case c07VShrunk:
				r := c07Res{}
				for k, x := range d.Res {
					r[k] = x
				}
				r[c07Mem] = 4 * c07Gi
				d.Res = r
			case c07VZero:
				r := c07Res{}
				for k := range d.Res {
					r[k] = 0
				}
				d.Res = r
			}
		}
		out = append(out, d)
	}
	return out
}

func c07RL(r c07Res) corev1.ResourceList {
	rl := corev1.ResourceList{}
	for k, v := range r {
		if k == c07Mem {
			rl[corev1.ResourceName(k)] = *resource.NewQuantity(v, resource.BinarySI)
		} else {
			rl[corev1.ResourceName(k)] = *resource.NewQuantity(v, resource.DecimalSI)
		}
	}
	return rl
}

func c07UUID(d c07Dev) string { return fmt.Sprintf("UUID-%s-%d", d.T, d.M) }

func c07BuildCR(defs []c07DevDef) *schedulingv1alpha1.Device {
	cr := &schedulingv1alpha1.Device{ObjectMeta: metav1.ObjectMeta{Name: c07Node}}
	for _, d := range defs {
		info := schedulingv1alpha1.DeviceInfo{
			Type:      schedulingv1alpha1.DeviceType(d.Dev.T),
			UUID:      c07UUID(d.Dev),
			Minor:     ptr.To(int32(d.Dev.M)),
			Health:    d.Healthy,
			Resources: c07RL(d.Res), // an unhealthy device keeps reporting its amounts; the code must ignore them
		}
		if d.HasTopo {
			info.Topology = &schedulingv1alpha1.DeviceTopology{SocketID: d.NUMA, NodeID: d.NUMA, PCIEID: d.PCIe}
		}
		if len(d.VFs) > 0 {
			g := schedulingv1alpha1.VirtualFunctionGroup{Labels: map[string]string{"type": "general"}}
			for i, b := range d.VFs {
				g.VFs = append(g.VFs, schedulingv1alpha1.VirtualFunction{Minor: int32(i), BusID: b})
			}
			info.VFGroups = []schedulingv1alpha1.VirtualFunctionGroup{g}
		}
		cr.Spec.Devices = append(cr.Spec.Devices, info)
	}
	return cr
}

// ---------------------------------------------------------------------------------------------------------------
// alphabet

const (
	c07OpAlloc = iota
	c07OpDelete
	c07OpTerminate
	c07OpDupAdd
	c07OpBound
	c07OpResync
	c07OpUnreserve
	c07OpRefresh
	c07OpCRDelete
	c07OpReannotate
	c07OpAddDifferent
	c07OpRecreate
	c07OpDeleteOld
)

type c07Op struct {
	name string
	kind int
	a, b int
}

func c07Ops(cfg *c07Cfg) []c07Op {
	var ops []c07Op
	for i, s := range cfg.shapes {
		ops = append(ops, c07Op{"alloc+commit(" + s + ")", c07OpAlloc, i, 0})
	}
	for p := 0; p < cfg.pods; p++ {
		ops = append(ops,
			c07Op{fmt.Sprintf("delete(p%d)", p), c07OpDelete, p, 0},
			c07Op{fmt.Sprintf("terminate(p%d)", p), c07OpTerminate, p, 0},
			c07Op{fmt.Sprintf("dup-add(p%d)", p), c07OpDupAdd, p, 0},
			c07Op{fmt.Sprintf("bound-update(p%d)", p), c07OpBound, p, 0},
			c07Op{fmt.Sprintf("resync-update(p%d)", p), c07OpResync, p, 0},
		)
		if cfg.unreserve {
			ops = append(ops, c07Op{fmt.Sprintf("unreserve(p%d)", p), c07OpUnreserve, p, 0})
		}
		if cfg.reuse {
			for i, sh := range cfg.shapes {
				ops = append(ops, c07Op{fmt.Sprintf("recreate+alloc+commit(p%d,%s)", p, sh), c07OpRecreate, p, i})
			}
			ops = append(ops, c07Op{fmt.Sprintf("delete-old-incarnation(p%d)", p), c07OpDeleteOld, p, 0})
		}
		if cfg.external {
			for k := range c07Alts {
				ops = append(ops,
					c07Op{fmt.Sprintf("ext-reannotate(p%d,%s)", p, c07Alts[k].name), c07OpReannotate, p, k},
					c07Op{fmt.Sprintf("ext-add-different(p%d,%s)", p, c07Alts[k].name), c07OpAddDifferent, p, k},
				)
			}
		}
	}
	for i, v := range cfg.variants {
		ops = append(ops, c07Op{"inventory(" + v.name + ")", c07OpRefresh, i, 0})
	}
	ops = append(ops, c07Op{"device-cr-delete", c07OpCRDelete, 0, 0})
	return ops
}

// alternative allocations a second writer puts into the annotation (only enabled when they fit)
var c07Alts = []struct {
	name  string
	insts []c07Inst
}{
	{"gpu0:50%", []c07Inst{{Dev: c07Dev{c07GPU, 0}, Res: c07Res{c07Core: 50, c07Rat: 50, c07Mem: 4 * c07Gi}}}},
	{"gpu1:100%", []c07Inst{{Dev: c07Dev{c07GPU, 1}, Res: c07Res{c07Core: 100, c07Rat: 100, c07Mem: 8 * c07Gi}}}},
}

// ---------------------------------------------------------------------------------------------------------------
// the system: real cache + reference ledger

type c07Sys struct {
	cfg    *c07Cfg
	ops    []c07Op
	res    *mc.Result
	cache  *nodeDeviceCache
	node   *corev1.Node
	scorer *resourceAllocationScorer

	// reference
	variant     int
	invalidated bool
	defs        []c07DevDef // last published CR
	inv         map[c07Dev]*c07DevDef
	pods        []c07PodRef
	excused     map[c07Dev]bool
	taint       map[string]bool // external-writer event kinds seen in this history
	// staleAnn: the device-allocated annotation a failed binding attempt left on the (still unassigned) pod object in the
	// API: PreBind had persisted it, Bind failed, Unreserve rolled the ledger back. The next informer update of that pod
	// carries it on its OLD object (unassigned + stale annotation -> bound + new annotation, coalesced): seed C07-7
	staleAnn map[int]string

	counts map[string]int64 // flushed into res once per execution (end of Invariants)
}

func (s *c07Sys) count(name string, n int64) {
	if s.counts == nil {
		s.counts = map[string]int64{}
	}
	s.counts[name] += n
}

func (s *c07Sys) flush() {
	for k, v := range s.counts {
		s.res.Count(k, v)
	}
	s.counts = nil
}

func c07Scorer(kind string) *resourceAllocationScorer {
	if kind == "" {
		return nil
	}
	v1Args := &v1schedulerconfig.DeviceShareArgs{}
	v1schedulerconfig.SetDefaults_DeviceShareArgs(v1Args)
	args := &schedulerconfig.DeviceShareArgs{}
	if err := v1schedulerconfig.Convert_v1_DeviceShareArgs_To_config_DeviceShareArgs(v1Args, args, nil); err != nil {
		panic(err)
	}
	if kind == "most" {
		args.ScoringStrategy.Type = schedulerconfig.MostAllocated
	} else {
		args.ScoringStrategy.Type = schedulerconfig.LeastAllocated
	}
	return deviceResourceStrategyTypeMap[args.ScoringStrategy.Type](args)
}

func c07New(cfg *c07Cfg, ops []c07Op, res *mc.Result) *c07Sys {
	s := &c07Sys{cfg: cfg, ops: ops, res: res, cache: newNodeDeviceCache(),
		node:    &corev1.Node{ObjectMeta: metav1.ObjectMeta{Name: c07Node}},
		scorer:  cfg.scorerObj,
		pods:    make([]c07PodRef, cfg.pods),
		excused: map[c07Dev]bool{}, taint: map[string]bool{}, staleAnn: map[int]string{}}
	s.publish(0, true)
	return s
}

func (s *c07Sys) setInv(defs []c07DevDef) {
	s.defs = defs
	s.inv = map[c07Dev]*c07DevDef{}
	for i := range defs {
		s.inv[defs[i].Dev] = &defs[i]
	}
}

// refTotal: the amounts the published inventory grants a device (nothing when unhealthy, removed or CR deleted).
func (s *c07Sys) refTotal(d c07Dev) c07Res {
	def := s.inv[d]
	if def == nil || !def.Healthy || s.invalidated {
		return c07Res{}
	}
	return def.Res
}

func (s *c07Sys) refHealthy(d c07Dev) bool {
	def := s.inv[d]
	if def == nil || !def.Healthy || s.invalidated {
		return false
	}
	for _, v := range def.Res {
		if v > 0 {
			return true
		}
	}
	return false
}

// holdings: the allocations of everything the cache has to count as live: live pods and old incarnations whose
// delete event is still to be delivered. except (slot index) leaves out the current incarnation of one slot.
func (s *c07Sys) holdings(except int) [][]c07Inst {
	var out [][]c07Inst
	for i := range s.pods {
		if s.pods[i].state == c07Live && i != except {
			out = append(out, s.pods[i].insts)
		}
		if s.pods[i].ghost != nil {
			out = append(out, s.pods[i].ghost.insts)
		}
	}
	return out
}

func (s *c07Sys) refUsedExcept(except int) map[c07Dev]c07Res {
	out := map[c07Dev]c07Res{}
	for _, insts := range s.holdings(except) {
		for _, in := range insts {
			r := out[in.Dev]
			if r == nil {
				r = c07Res{}
				out[in.Dev] = r
			}
			for k, v := range in.Res {
				r[k] += v
			}
		}
	}
	return out
}

func (s *c07Sys) refUsed() map[c07Dev]c07Res { return s.refUsedExcept(-1) }

func (s *c07Sys) refHeldVFs(exceptPod int) map[c07Dev]map[string]int {
	out := map[c07Dev]map[string]int{}
	for _, insts := range s.holdings(exceptPod) {
		for _, in := range insts {
			for _, vf := range in.VFs {
				if out[in.Dev] == nil {
					out[in.Dev] = map[string]int{}
				}
				out[in.Dev][vf]++
			}
		}
	}
	return out
}

func c07FreeOf(total, used c07Res) c07Res {
	out := c07Res{}
	for k, t := range total {
		f := t - used[k]
		if f < 0 {
			f = 0
		}
		out[k] = f
	}
	return out
}

// fits: the device is healthy and has at least `per` free (and an unheld VF when asked for).
func (s *c07Sys) fits(d c07Dev, per c07Res, vf bool, used map[c07Dev]c07Res, held map[c07Dev]map[string]int) bool {
	if !s.refHealthy(d) {
		return false
	}
	free := c07FreeOf(s.refTotal(d), used[d])
	for k, v := range per {
		if free[k] < v {
			return false
		}
	}
	if vf {
		ok := false
		for _, b := range s.inv[d].VFs {
			if held[d][b] == 0 {
				ok = true
			}
		}
		if !ok {
			return false
		}
	}
	return true
}

// feasible: brute force over all subsets of the devices of the type.
func (s *c07Sys) feasible(w c07Want, used map[c07Dev]c07Res, held map[c07Dev]map[string]int) bool {
	var devs []c07Dev
	for _, d := range s.defs {
		if d.Dev.T == w.T {
			devs = append(devs, d.Dev)
		}
	}
	found := false
	mc.Subsets(len(devs), func(mask uint32) {
		if found {
			return
		}
		n := 0
		for i := range devs {
			if mask&(1<<uint(i)) != 0 {
				n++
			}
		}
		if n != w.Count {
			return
		}
		for i := range devs {
			if mask&(1<<uint(i)) != 0 && !s.fits(devs[i], w.Per, w.VF, used, held) {
				return
			}
		}
		found = true
	})
	return found
}

// publish delivers a Device CR event for variant v and updates the reference inventory.
func (s *c07Sys) publish(v int, first bool) {
	old := c07BuildCR(s.defs)
	defs := c07Defs(s.cfg, s.cfg.variants[v])
	// excuse rule (see Invariants): a device whose total is lowered while pods hold it
	used := s.refUsed()
	oldTotals := map[c07Dev]c07Res{}
	for d := range used {
		oldTotals[d] = s.refTotal(d)
	}
	wasInvalid := s.invalidated
	s.setInv(defs)
	s.variant, s.invalidated = v, false
	for d := range used {
		nt := s.refTotal(d)
		for k, o := range oldTotals[d] {
			if nt[k] < o {
				s.excused[d] = true
			}
		}
	}
	cr := c07BuildCR(defs)
	if first || wasInvalid {
		s.cache.onDeviceAdd(cr) // the CR was (re)created
	} else {
		s.cache.onDeviceUpdate(old, cr)
	}
}

func (s *c07Sys) crDelete() {
	used := s.refUsed()
	for d := range used {
		for _, o := range s.refTotal(d) {
			if o > 0 {
				s.excused[d] = true
			}
		}
	}
	s.invalidated = true
	s.cache.onDeviceDelete(c07BuildCR(s.defs))
}

func (s *c07Sys) podObj(slot int, shape *c07Shape, bound bool, ann string, phase corev1.PodPhase) *corev1.Pod {
	return s.podObjGen(slot, s.pods[slot].gen, shape, bound, ann, phase)
}

func (s *c07Sys) podObjGen(slot, gen int, shape *c07Shape, bound bool, ann string, phase corev1.PodPhase) *corev1.Pod {
	pod := &corev1.Pod{
		ObjectMeta: metav1.ObjectMeta{Namespace: c07NS, Name: fmt.Sprintf("p%d", slot), UID: types.UID(fmt.Sprintf("uid-p%d-%d", slot, gen))},
		Spec:       corev1.PodSpec{Containers: []corev1.Container{{Name: "c"}}},
		Status:     corev1.PodStatus{Phase: phase},
	}
	if shape != nil {
		pod.Spec.Containers[0].Resources = corev1.ResourceRequirements{Requests: shape.requests.DeepCopy(), Limits: shape.requests.DeepCopy()}
		if shape.vfHint {
			if err := apiext.SetDeviceAllocateHints(pod, apiext.DeviceAllocateHints{schedulingv1alpha1.RDMA: {VFSelector: &metav1.LabelSelector{}}}); err != nil {
				panic(err)
			}
		}
		if shape.joint {
			if err := apiext.SetDeviceJointAllocate(pod, &apiext.DeviceJointAllocate{DeviceTypes: []schedulingv1alpha1.DeviceType{schedulingv1alpha1.GPU, schedulingv1alpha1.RDMA}}); err != nil {
				panic(err)
			}
		}
	}
	if bound {
		pod.Spec.NodeName = c07Node
	}
	if ann != "" {
		if pod.Annotations == nil {
			pod.Annotations = map[string]string{}
		}
		pod.Annotations[apiext.AnnotationDeviceAllocated] = ann
	}
	return pod
}

func c07ResOf(rl corev1.ResourceList) c07Res {
	out := c07Res{}
	for k, q := range rl {
		if v := q.Value(); v != 0 {
			out[string(k)] = v
		}
	}
	return out
}

func c07InstsOf(a apiext.DeviceAllocations) []c07Inst {
	var out []c07Inst
	for t, list := range a {
		for _, al := range list {
			in := c07Inst{Dev: c07Dev{string(t), int(al.Minor)}, Res: c07ResOf(al.Resources)}
			if al.Extension != nil {
				for _, vf := range al.Extension.VirtualFunctions {
					in.VFs = append(in.VFs, vf.BusID)
				}
			}
			out = append(out, in)
		}
	}
	sort.Slice(out, func(i, j int) bool {
		if out[i].Dev.T != out[j].Dev.T {
			return out[i].Dev.T < out[j].Dev.T
		}
		return out[i].Dev.M < out[j].Dev.M
	})
	return out
}

func c07AllocationsOf(insts []c07Inst) apiext.DeviceAllocations {
	out := apiext.DeviceAllocations{}
	for _, in := range insts {
		al := &apiext.DeviceAllocation{Minor: int32(in.Dev.M), Resources: c07RL(in.Res), ID: c07UUID(in.Dev)}
		out[schedulingv1alpha1.DeviceType(in.Dev.T)] = append(out[schedulingv1alpha1.DeviceType(in.Dev.T)], al)
	}
	return out
}

func c07Ann(a apiext.DeviceAllocations) string {
	b, err := json.Marshal(a)
	if err != nil {
		panic(err)
	}
	return string(b)
}

func c07FmtRes(r c07Res) string {
	ks := make([]string, 0, len(r))
	for k := range r {
		ks = append(ks, k)
	}
	sort.Strings(ks)
	var sb strings.Builder
	for _, k := range ks {
		fmt.Fprintf(&sb, "%s=%d,", strings.TrimPrefix(k, apiext.DomainPrefix), r[k])
	}
	return sb.String()
}

func c07FmtInsts(in []c07Inst) string {
	var sb strings.Builder
	for _, i := range in {
		fmt.Fprintf(&sb, "%s{%s%v}", i.Dev, c07FmtRes(i.Res), i.VFs)
	}
	return sb.String()
}

func (s *c07Sys) env() string {
	if len(s.taint) == 0 {
		return "env:informer+framework"
	}
	if s.taint["name-reuse"] {
		return "env:name-reuse-race"
	}
	ks := make([]string, 0, len(s.taint))
	for k := range s.taint {
		ks = append(ks, k)
	}
	sort.Strings(ks)
	return "env:second-writer:" + strings.Join(ks, "+")
}

// vkey: clause + device type / resource / direction / shape + environment class.
func (s *c07Sys) vkey(clause string, extra ...string) string {
	return "C07|" + clause + "|" + strings.Join(extra, "|") + "|" + s.env()
}

// classify: histories in which a pod name was re-created before the old incarnation's delete was delivered form two
// witness classes (ledger state / allocation verdict): every symptom there comes from the per-name bookkeeping, and
// which symptoms show up depends on depth. The clause-level key moves into What.
func (s *c07Sys) classify(viol []mc.Violation) []mc.Violation {
	if !s.taint["name-reuse"] {
		return viol
	}
	for i := range viol {
		class := "C07|state|ledger-diverges-from-live-pods|" + s.env()
		if strings.HasPrefix(viol[i].Key, "C07|alloc|") {
			class = "C07|alloc|wrong-verdict|" + s.env()
		}
		viol[i].What = "[" + viol[i].Key + "] " + viol[i].What
		viol[i].Key = class
	}
	return viol
}

// alloc = what Plugin.allocate (called from Reserve) does, followed by Plugin.Reserve's commit.
func (s *c07Sys) alloc(shapeIdx int, check bool) (bool, []mc.Violation) {
	slot := -1
	for i := range s.pods {
		if s.pods[i].state == c07Free && s.pods[i].ghost == nil {
			slot = i
			break
		}
	}
	if slot < 0 {
		return false, nil
	}
	return true, s.allocFor(slot, s.pods[slot].gen, shapeIdx, check)
}

// recreate: the pod owning the name was deleted in the API and re-created (StatefulSet style); the scheduler's queue
// listener has already seen the new incarnation and schedules it, while this cache's listener has not yet been
// handed the old incarnation's delete event.
func (s *c07Sys) recreate(slot, shapeIdx int, check bool) (bool, []mc.Violation) {
	p := &s.pods[slot]
	if p.state != c07Live || p.ghost != nil {
		return false, nil
	}
	had := s.taint["name-reuse"]
	s.taint["name-reuse"] = true
	old := *p
	*p = c07PodRef{state: c07Free, gen: 1 - old.gen, ghost: &c07Ghost{insts: old.insts, ann: old.ann, gen: old.gen}}
	viol := s.allocFor(slot, p.gen, shapeIdx, check)
	if p.state != c07Live {
		// not schedulable now: nothing happened from the cache's point of view, the old incarnation still owns the name
		*p = old
		if !had {
			delete(s.taint, "name-reuse")
		}
	} else if check {
		s.count("name_reused_before_old_delete_delivered", 1)
	}
	return true, viol
}

func (s *c07Sys) allocFor(slot, gen, shapeIdx int, check bool) []mc.Violation {
	shape := c07Shapes[s.cfg.shapes[shapeIdx]]
	pod := s.podObjGen(slot, gen, &shape, false, "", corev1.PodPending)
	state, status := preparePod(pod, nil, nil)
	if !status.IsSuccess() || state.skip {
		panic(fmt.Sprintf("c07: harness pod of shape %s rejected by preparePod: %v", shape.name, status))
	}
	state.designatedAllocation, state.designatedVF = nil, nil // as PreFilter does without a scheduling hint
	nd := s.cache.getNodeDevice(c07Node, false)
	if nd == nil {
		panic("c07: node device vanished")
	}
	allocator := &AutopilotAllocator{state: state, nodeDevice: nd, phaseBeingExecuted: schedulingphase.Reserve,
		node: s.node, pod: pod, scorer: s.scorer}
	var preemptible map[schedulingv1alpha1.DeviceType]deviceResources
	if s.cfg.filtered {
		preemptible = appendAllocated(nil) // Plugin.allocate always passes this empty, non-nil map
	}
	nd.lock.RLock()
	result, status := allocator.Allocate(nil, nil, nil, preemptible)
	ok := status.IsSuccess()
	reason := ""
	if !ok {
		reason = status.Message()
	} else if err := fillGPUTotalMem(result, nd); err != nil {
		ok, reason = false, err.Error()
	}
	nd.lock.RUnlock()

	var viol []mc.Violation
	if check {
		viol = s.judgeAlloc(&shape, slot, ok, reason, result)
	}
	if !ok {
		return viol
	}
	// PreBind's fillID
	for t, list := range result {
		for _, al := range list {
			al.ID = c07UUID(c07Dev{string(t), int(al.Minor)})
		}
	}
	nd.lock.Lock()
	nd.updateCacheUsed(result, pod, true)
	nd.lock.Unlock()
	s.pods[slot].state, s.pods[slot].insts, s.pods[slot].ann = c07Live, c07InstsOf(result), c07Ann(result)
	return viol
}

func (s *c07Sys) judgeAlloc(shape *c07Shape, slot int, ok bool, reason string, result apiext.DeviceAllocations) []mc.Violation {
	var viol []mc.Violation
	used := s.refUsed()
	held := s.refHeldVFs(-1)
	bad := func(clause, t, what string) {
		viol = append(viol, mc.Violation{Key: s.vkey("alloc|"+clause, shape.name, t), What: fmt.Sprintf("shape %s: %s; reference ledger: %s", shape.name, what, s.refString())})
	}
	if !ok {
		all := true
		for _, w := range shape.wants {
			if !s.feasible(w, used, held) {
				all = false
			}
		}
		if all {
			bad("spurious-failure", shape.wants[0].T, fmt.Sprintf("allocation failed (%q) although a set of %d distinct healthy devices with enough free exists", reason, shape.wants[0].Count))
			return viol
		}
		s.count("alloc_failures_justified", 1)
		partial := false
		for d, u := range used {
			if len(u) > 0 && s.refHealthy(d) {
				partial = true
			}
		}
		if partial {
			s.count("alloc_failures_with_partly_used_healthy_device", 1)
		}
		return viol
	}
	s.count("alloc_successes", 1)
	got := c07InstsOf(result)
	for _, w := range shape.wants {
		var mine []c07Inst
		for _, in := range got {
			if in.Dev.T == w.T {
				mine = append(mine, in)
			}
		}
		if len(mine) != w.Count {
			bad("wrong-count", w.T, fmt.Sprintf("wanted %d %s device(s), got %s", w.Count, w.T, c07FmtInsts(mine)))
			continue
		}
		seen := map[int]bool{}
		for _, in := range mine {
			if seen[in.Dev.M] {
				bad("same-device-twice", w.T, fmt.Sprintf("minor %d granted twice: %s", in.Dev.M, c07FmtInsts(mine)))
			}
			seen[in.Dev.M] = true
			if !s.refHealthy(in.Dev) {
				bad("unhealthy-device", w.T, fmt.Sprintf("granted %s which the inventory does not list as a healthy device", in.Dev))
				continue
			}
			free := c07FreeOf(s.refTotal(in.Dev), used[in.Dev])
			for k, v := range w.Per {
				if free[k] < v {
					bad("insufficient-free", w.T, fmt.Sprintf("granted %s with free %s=%d < requested %d", in.Dev, k, free[k], v))
				}
			}
			if len(used[in.Dev]) > 0 {
				s.count("alloc_onto_partly_used_device", 1)
			}
			for k, v := range w.Per {
				if in.Res[k] != v {
					s.res.Diag(fmt.Sprintf("granted amount differs from the per-instance request: shape %s %s %s=%d want %d", shape.name, in.Dev, k, in.Res[k], v))
				}
			}
			if w.VF {
				if len(in.VFs) != 1 {
					bad("vf-count", w.T, fmt.Sprintf("wanted one VF on %s, got %v", in.Dev, in.VFs))
				}
				for _, b := range in.VFs {
					known := false
					for _, x := range s.inv[in.Dev].VFs {
						if x == b {
							known = true
						}
					}
					if !known || held[in.Dev][b] > 0 {
						bad("vf-already-held", w.T, fmt.Sprintf("granted VF %s on %s (known=%v, holders=%d)", b, in.Dev, known, held[in.Dev][b]))
					}
				}
				s.count("alloc_vf_granted", 1)
			}
		}
		if w.Count > 1 {
			s.count("alloc_successes_multi_device", 1)
		}
	}
	for _, in := range got {
		wanted := false
		for _, w := range shape.wants {
			if w.T == in.Dev.T {
				wanted = true
			}
		}
		if !wanted {
			bad("unrequested-type", in.Dev.T, "granted a device type that was not requested: "+c07FmtInsts(got))
		}
	}
	return viol
}

func (s *c07Sys) refString() string {
	var sb strings.Builder
	fmt.Fprintf(&sb, "inventory=%s invalidated=%v;", s.cfg.variants[s.variant].name, s.invalidated)
	for i := range s.pods {
		if s.pods[i].state == c07Live {
			fmt.Fprintf(&sb, " p%d:%s", i, c07FmtInsts(s.pods[i].insts))
		}
		if s.pods[i].ghost != nil {
			fmt.Fprintf(&sb, " p%d(old incarnation, delete not yet delivered):%s", i, c07FmtInsts(s.pods[i].ghost.insts))
		}
		if a := s.staleAnn[i]; a != "" {
			fmt.Fprintf(&sb, " p%d(stale annotation of a failed bind):%s", i, a)
		}
	}
	return sb.String()
}

func (s *c07Sys) altFits(slot, k int) bool {
	alt := c07Alts[k].insts
	if c07FmtInsts(alt) == c07FmtInsts(s.pods[slot].insts) {
		return false
	}
	used := s.refUsedExcept(slot)
	for _, in := range alt {
		if !s.fits(in.Dev, in.Res, false, used, nil) {
			return false
		}
	}
	return true
}

func (s *c07Sys) Apply(opi int, check bool) (bool, []mc.Violation) {
	op := s.ops[opi]
	var viol []mc.Violation
	switch op.kind {
	case c07OpAlloc:
		en, v := s.alloc(op.a, check)
		if !en {
			return false, nil
		}
		viol = v
	case c07OpRecreate:
		en, v := s.recreate(op.a, op.b, check)
		if !en {
			return false, nil
		}
		viol = v
	case c07OpDeleteOld:
		p := &s.pods[op.a]
		if p.ghost == nil {
			return false, nil
		}
		s.cache.onPodDelete(s.podObjGen(op.a, p.ghost.gen, nil, true, p.ghost.ann, corev1.PodRunning))
		p.ghost = nil
	case c07OpDelete:
		p := &s.pods[op.a]
		if p.state == c07Free || p.ghost != nil {
			return false, nil
		}
		phase := corev1.PodRunning
		if p.state == c07Terminated {
			phase = corev1.PodSucceeded
			if check {
				s.count("delete_after_terminate", 1)
			}
		}
		s.cache.onPodDelete(s.podObj(op.a, nil, true, p.ann, phase))
		delete(s.staleAnn, op.a)
		*p = c07PodRef{gen: p.gen}
	case c07OpTerminate:
		p := &s.pods[op.a]
		if p.state != c07Live || p.ghost != nil {
			return false, nil
		}
		s.cache.onPodUpdate(s.podObj(op.a, nil, true, p.ann, corev1.PodRunning), s.podObj(op.a, nil, true, p.ann, corev1.PodSucceeded))
		p.state = c07Terminated
	case c07OpDupAdd:
		p := &s.pods[op.a]
		if p.state != c07Live || p.ghost != nil {
			return false, nil
		}
		s.cache.onPodAdd(s.podObj(op.a, nil, true, p.ann, corev1.PodRunning))
		if check {
			s.count("duplicate_adds", 1)
		}
	case c07OpBound:
		p := &s.pods[op.a]
		if p.state != c07Live || p.ghost != nil {
			return false, nil
		}
		s.cache.onPodUpdate(s.podObj(op.a, nil, false, s.staleAnn[op.a], corev1.PodPending), s.podObj(op.a, nil, true, p.ann, corev1.PodPending))
		if check {
			s.count("duplicate_adds", 1)
			if s.staleAnn[op.a] != "" && s.staleAnn[op.a] != p.ann {
				s.count("bound_updates_whose_old_object_carries_a_stale_annotation", 1)
			}
		}
		delete(s.staleAnn, op.a)
	case c07OpResync:
		p := &s.pods[op.a]
		if p.state != c07Live || p.ghost != nil {
			return false, nil
		}
		s.cache.onPodUpdate(s.podObj(op.a, nil, true, p.ann, corev1.PodRunning), s.podObj(op.a, nil, true, p.ann, corev1.PodRunning))
		if check {
			s.count("same_allocation_updates", 1)
		}
	case c07OpUnreserve:
		p := &s.pods[op.a]
		if p.state != c07Live {
			return false, nil
		}
		a, err := apiext.GetDeviceAllocations(map[string]string{apiext.AnnotationDeviceAllocated: p.ann})
		if err != nil {
			panic(err)
		}
		nd := s.cache.getNodeDevice(c07Node, false)
		nd.lock.Lock()
		nd.updateCacheUsed(a, s.podObj(op.a, nil, false, "", corev1.PodPending), false)
		nd.lock.Unlock()
		s.staleAnn[op.a] = p.ann // PreBind had patched it onto the pod before the bind failed
		*p = c07PodRef{gen: p.gen, ghost: p.ghost}
	case c07OpRefresh:
		if op.a == s.variant && !s.invalidated {
			return false, nil
		}
		s.publish(op.a, false)
	case c07OpCRDelete:
		if s.invalidated {
			return false, nil
		}
		s.crDelete()
	case c07OpReannotate, c07OpAddDifferent:
		p := &s.pods[op.a]
		if p.state != c07Live || p.ghost != nil || !s.altFits(op.a, op.b) {
			return false, nil
		}
		alt := c07Alts[op.b].insts
		ann := c07Ann(c07AllocationsOf(alt))
		if op.kind == c07OpReannotate {
			s.taint["reannotate"] = true
			s.cache.onPodUpdate(s.podObj(op.a, nil, true, p.ann, corev1.PodRunning), s.podObj(op.a, nil, true, ann, corev1.PodRunning))
		} else {
			s.taint["add-different"] = true
			s.cache.onPodAdd(s.podObj(op.a, nil, true, ann, corev1.PodRunning))
		}
		p.insts, p.ann = alt, ann
	default:
		panic("c07: unknown op")
	}
	// a device nobody holds any more is judged strictly again
	used := s.refUsed()
	for d := range s.excused {
		if len(used[d]) == 0 {
			delete(s.excused, d)
		}
	}
	return true, s.gate(s.classify(s.foreign(viol)))
}

var c07DiagSeen sync.Map

// c07Gate keeps the witness list short: per violation key only the first 8 distinct states report (the engine
// re-executes every reported witness several times, serially). Re-executions reach the same state and pass the
// gate again; everything beyond is counted, not dropped silently. The verdict (>= 1 violation) is unaffected.
type c07Gate struct {
	mu       sync.Mutex
	admitted map[string]map[string]bool
}

func (g *c07Gate) admit(vkey, state string) bool {
	g.mu.Lock()
	defer g.mu.Unlock()
	if g.admitted == nil {
		g.admitted = map[string]map[string]bool{}
	}
	m := g.admitted[vkey]
	if m == nil {
		m = map[string]bool{}
		g.admitted[vkey] = m
	}
	if m[state] {
		return true
	}
	if len(m) < 8 {
		m[state] = true
		return true
	}
	return false
}

func (s *c07Sys) gate(viol []mc.Violation) []mc.Violation {
	if len(viol) == 0 {
		return viol
	}
	state := s.Key()
	out := viol[:0]
	for _, v := range viol {
		if s.cfg.gateObj.admit(v.Key, state) {
			out = append(out, v)
		} else {
			s.count("violations_beyond_8_witness_states_per_key__counted_only", 1)
		}
	}
	return out
}

// foreign: an *add* event that carries another allocation than the one recorded at Reserve for the same pod can
// only come from a second writer of the scheduler-owned device-allocated annotation (the scheduler writes exactly its
// Reserve result in PreBind and nothing else in the tree writes it). That is outside the property's environment, so
// whatever follows such an event is kept as a counted diagnostic (robustness lead), never as a violation.
func (s *c07Sys) foreign(viol []mc.Violation) []mc.Violation {
	if len(viol) == 0 || !s.taint["add-different"] {
		return viol
	}
	s.count("foreign_add_for_recorded_pod__divergences_not_alarmed", int64(len(viol)))
	for _, v := range viol {
		clause := strings.Join(strings.SplitN(v.Key, "|", 4)[:3], "|")
		if _, dup := c07DiagSeen.LoadOrStore(s.cfg.name+clause, true); !dup {
			s.res.Diag("NOT a violation (second writer): after a foreign add event carrying another allocation for an already recorded pod (skipped by isValid): " + v.Key + ": " + v.What)
		}
	}
	return nil
}

func c07Detail(m map[schedulingv1alpha1.DeviceType]deviceResources) map[c07Dev]c07Res {
	out := map[c07Dev]c07Res{}
	for t, drs := range m {
		for minor, rl := range drs {
			if r := c07ResOf(rl); len(r) > 0 {
				out[c07Dev{string(t), minor}] = r
			}
		}
	}
	return out
}

type c07Cell struct {
	d c07Dev
	r string
}

func c07Cells(ms ...map[c07Dev]c07Res) []c07Cell {
	set := map[c07Cell]bool{}
	for _, m := range ms {
		for d, r := range m {
			for k := range r {
				set[c07Cell{d, k}] = true
			}
		}
	}
	out := make([]c07Cell, 0, len(set))
	for c := range set {
		out = append(out, c)
	}
	sort.Slice(out, func(i, j int) bool {
		a, b := out[i], out[j]
		if a.d.T != b.d.T {
			return a.d.T < b.d.T
		}
		if a.d.M != b.d.M {
			return a.d.M < b.d.M
		}
		return a.r < b.r
	})
	return out
}

func c07Dir(got, want int64) string {
	if got > want {
		return "over"
	}
	return "under"
}

// c07QueryHandle is what Plugin.RemovePod asks of the framework handle; no reservation is involved in these universes.
type c07QueryHandle struct{ frameworkext.ExtendedHandle }

func (c07QueryHandle) GetReservationCache() frameworkext.ReservationCache         { return nil }
func (c07QueryHandle) GetReservationNominator() frameworkext.ReservationNominator { return nil }

// dryRunQueries runs the preemption dry-run's read path, the real Plugin.RemovePod, for every pod name in every order
// on a fresh cycle state each (what SelectVictimsOnNode does with the potential victims of a node). It is a query: it
// runs under the node's read lock and must leave the ledger as it is - the state clauses judged after it say so
// (an accumulator that aliases the ledger's own per-pod lists rewrites a live pod's record: seed C07-6).
func (s *c07Sys) dryRunQueries() (panicS string) {
	pl := &Plugin{handle: c07QueryHandle{}, nodeDeviceCache: s.cache}
	ni := framework.NewNodeInfo()
	ni.SetNode(s.node)
	n := len(s.pods)
	order := make([]int, n)
	for i := range order {
		order[i] = i
	}
	var rec func(k int)
	rec = func(k int) {
		if k == n {
			cs := framework.NewCycleState()
			cs.Write(stateKey, &preFilterState{
				preemptibleDevices: map[string]map[schedulingv1alpha1.DeviceType]deviceResources{},
				preemptibleInRRs:   map[string]map[types.UID]map[schedulingv1alpha1.DeviceType]deviceResources{}})
			for _, slot := range order {
				pi, _ := framework.NewPodInfo(s.podObj(slot, nil, true, "", corev1.PodRunning))
				pl.RemovePod(context.TODO(), cs, s.podObj(0, nil, false, "", corev1.PodPending), pi, ni)
			}
			s.count("preemption_dry_runs", 1)
			return
		}
		for i := k; i < n; i++ {
			order[k], order[i] = order[i], order[k]
			rec(k + 1)
			order[k], order[i] = order[i], order[k]
		}
	}
	return mc.Guard(func() { rec(0) })
}

func (s *c07Sys) Invariants() []mc.Violation {
	var viol []mc.Violation
	if ps := s.dryRunQueries(); ps != "" {
		viol = append(viol, mc.Violation{Key: s.vkey("state|preemption-dry-run-panics"), What: ps})
	}
	sum, ok := s.cache.getNodeDeviceSummary(c07Node)
	if !ok {
		return []mc.Violation{{Key: s.vkey("state|node-device-missing"), What: "the node's device ledger vanished"}}
	}
	total, free, used := c07Detail(sum.DeviceTotalDetail), c07Detail(sum.DeviceFreeDetail), c07Detail(sum.DeviceUsedDetail)
	refUsed := s.refUsed()
	refTotal := map[c07Dev]c07Res{}
	for d := range s.inv {
		if t := s.refTotal(d); len(t) > 0 {
			refTotal[d] = t
		}
	}
	short := func(r string) string { return strings.TrimPrefix(r, apiext.DomainPrefix) }
	bad := func(clause string, c c07Cell, dir, what string) {
		viol = append(viol, mc.Violation{Key: s.vkey("state|"+clause, c.d.T, short(c.r), dir),
			What: fmt.Sprintf("%s %s: %s; reference ledger: %s", c.d, short(c.r), what, s.refString())})
	}
	// (1) in-use == sum of the live pods' allocations
	inUse := false
	for _, c := range c07Cells(used, refUsed) {
		inUse = true
		if g, w := used[c.d][c.r], refUsed[c.d][c.r]; g != w {
			bad("used-ne-sum-of-live-pods", c, c07Dir(g, w), fmt.Sprintf("ledger says %d in use, the live pods' allocations sum to %d", g, w))
		}
	}
	if inUse {
		s.count("states_with_devices_in_use", 1)
	}
	// (1b) the recorded per-pod allocations are the live pods' allocations, and in-use is their sum
	recSum := map[c07Dev]c07Res{}
	recPods := map[string]bool{}
	for t, pods := range sum.AllocateSet {
		for pod, minors := range pods {
			any := false
			for minor, rl := range minors {
				d := c07Dev{string(t), minor}
				if recSum[d] == nil {
					recSum[d] = c07Res{}
				}
				for k, v := range c07ResOf(rl) {
					recSum[d][k] += v
					any = true
				}
			}
			if any {
				recPods[pod] = true
			}
		}
	}
	for _, c := range c07Cells(used, recSum) {
		if g, w := used[c.d][c.r], recSum[c.d][c.r]; g != w {
			bad("used-ne-sum-of-recorded-allocations", c, c07Dir(g, w), fmt.Sprintf("ledger says %d in use, its own per-pod records sum to %d", g, w))
		}
	}
	live := 0
	for i := range s.pods {
		name := fmt.Sprintf("%s/p%d", c07NS, i)
		if s.pods[i].state == c07Live {
			live++
		}
		if s.pods[i].state == c07Live || s.pods[i].ghost != nil {
			if !recPods[name] {
				viol = append(viol, mc.Violation{Key: s.vkey("state|live-pod-not-recorded"), What: fmt.Sprintf("%s holds devices but the ledger has no record of it; %s", name, s.refString())})
			}
		} else if recPods[name] {
			viol = append(viol, mc.Violation{Key: s.vkey("state|gone-pod-still-recorded"), What: fmt.Sprintf("%s is gone but the ledger still records an allocation for it; %s", name, s.refString())})
		}
	}
	if live >= 2 {
		s.count("states_with_2+_live_pods", 1)
	}
	holders := map[c07Dev]int{}
	for _, insts := range s.holdings(-1) {
		for _, in := range insts {
			holders[in.Dev]++
		}
	}
	for _, n := range holders {
		if n >= 2 {
			s.count("states_with_shared_device", 1)
			break
		}
	}
	// (2) total follows the published inventory; free == max(0, total - in-use)
	// (the statement fixes the total of a healthy device only; how a device that is unhealthy / gone is kept out of
	// allocation is the implementation's business and judged by the allocation clauses, so a non-empty total there is
	// only a diagnostic)
	for _, c := range c07Cells(total, refTotal) {
		if g, w := total[c.d][c.r], refTotal[c.d][c.r]; g != w {
			if s.refHealthy(c.d) {
				bad("total-ne-inventory", c, c07Dir(g, w), fmt.Sprintf("ledger total %d, published inventory %d", g, w))
			} else if _, dup := c07DiagSeen.LoadOrStore(s.cfg.name+"|unhealthy-total|"+c.d.String()+c.r, true); !dup {
				s.res.Diag(fmt.Sprintf("NOT a violation: %s is not a healthy device of the published inventory but the ledger keeps total %s=%d for it", c.d, short(c.r), g))
			}
		}
	}
	for _, c := range c07Cells(total, free, used) {
		w := total[c.d][c.r] - used[c.d][c.r]
		if w < 0 {
			w = 0
			s.count("free_clamped_at_zero", 1)
		}
		if g := free[c.d][c.r]; g != w {
			bad("free-ne-total-minus-used", c, c07Dir(g, w), fmt.Sprintf("free %d, total %d, in use %d", g, total[c.d][c.r], used[c.d][c.r]))
		}
	}
	// (3) in-use <= total. A device whose total was lowered (unhealthy, removed, smaller, CR deleted) while pods
	// held it is excused until its last holder has left: no implementation can keep the clause there, and amounts
	// granted under the old total are not comparable with the new one. New allocations onto it are still judged.
	excusedSeen := false
	for _, c := range c07Cells(used) {
		if s.excused[c.d] {
			excusedSeen = true
			continue
		}
		s.count("overcommit_clause_checked_cells", 1)
		if u, t := used[c.d][c.r], total[c.d][c.r]; u > t {
			bad("in-use-exceeds-total", c, "over", fmt.Sprintf("in use %d > total %d", u, t))
		}
	}
	if excusedSeen {
		s.count("states_with_device_lowered_under_its_holders", 1)
	}
	// (4) VF ledger: every held VF has exactly one holder and the ledger's set is the live pods' set
	refVF := s.refHeldVFs(-1)
	gotVF := map[c07Dev]map[string]int{}
	if nd := s.cache.getNodeDevice(c07Node, false); nd != nil {
		nd.lock.RLock()
		for t, va := range nd.vfAllocations {
			if va == nil {
				continue
			}
			for minor, set := range va.allocatedVFs {
				for b := range set {
					d := c07Dev{string(t), minor}
					if gotVF[d] == nil {
						gotVF[d] = map[string]int{}
					}
					gotVF[d][b]++
				}
			}
		}
		nd.lock.RUnlock()
	}
	vfKeys := map[string]bool{}
	for d, m := range refVF {
		for b, n := range m {
			vfKeys[d.String()+" "+b] = true
			if n > 1 {
				viol = append(viol, mc.Violation{Key: s.vkey("state|vf-held-twice", d.T), What: fmt.Sprintf("VF %s of %s is held by %d live pods; %s", b, d, n, s.refString())})
			}
			if gotVF[d][b] == 0 {
				viol = append(viol, mc.Violation{Key: s.vkey("state|vf-ledger-ne-live-pods", d.T, "under"), What: fmt.Sprintf("VF %s of %s is held by a live pod but free in the ledger; %s", b, d, s.refString())})
			}
		}
	}
	for d, m := range gotVF {
		for b := range m {
			if refVF[d][b] == 0 {
				viol = append(viol, mc.Violation{Key: s.vkey("state|vf-ledger-ne-live-pods", d.T, "over"), What: fmt.Sprintf("VF %s of %s is marked allocated but no live pod holds it; %s", b, d, s.refString())})
			}
		}
	}
	if len(vfKeys) > 0 {
		s.count("states_with_vfs_held", 1)
	}
	viol = s.gate(s.classify(s.foreign(viol)))
	s.flush()
	return viol
}

func c07FmtRaw(sb *strings.Builder, tag string, m map[schedulingv1alpha1.DeviceType]deviceResources) {
	sb.WriteString(tag)
	sb.WriteString("[")
	ts := make([]string, 0, len(m))
	for t := range m {
		ts = append(ts, string(t))
	}
	sort.Strings(ts)
	for _, t := range ts {
		drs := m[schedulingv1alpha1.DeviceType(t)]
		minors := make([]int, 0, len(drs))
		for minor := range drs {
			minors = append(minors, minor)
		}
		sort.Ints(minors)
		for _, minor := range minors {
			rl := drs[minor]
			ks := make([]string, 0, len(rl))
			for k := range rl {
				ks = append(ks, string(k))
			}
			sort.Strings(ks)
			fmt.Fprintf(sb, "%s/%d{", t, minor)
			for _, k := range ks {
				q := rl[corev1.ResourceName(k)]
				fmt.Fprintf(sb, "%s=%d,", k, q.Value())
			}
			sb.WriteString("}")
		}
	}
	sb.WriteString("]")
}

// Key: the code's three ledgers, per-pod records and VF sets in raw form (explicit zero entries and empty lists are
// kept: they steer IsZero / len()==0 branches), plus the whole reference state (it decides enabledness and verdicts).
// deviceInfos / NUMA topology / GPU topology scope are functions of the last published CR = (variant) in the key.
func (s *c07Sys) Key() string {
	var sb strings.Builder
	fmt.Fprintf(&sb, "v%d inv%v|", s.variant, s.invalidated)
	ex := make([]string, 0, len(s.excused))
	for d := range s.excused {
		ex = append(ex, d.String())
	}
	sort.Strings(ex)
	fmt.Fprintf(&sb, "ex%v|", ex)
	ts := make([]string, 0, len(s.taint))
	for k := range s.taint {
		ts = append(ts, k)
	}
	sort.Strings(ts)
	fmt.Fprintf(&sb, "t%v|", ts)
	for i := range s.pods {
		fmt.Fprintf(&sb, "p%d:%d:g%d:%s", i, s.pods[i].state, s.pods[i].gen, c07FmtInsts(s.pods[i].insts))
		if g := s.pods[i].ghost; g != nil {
			fmt.Fprintf(&sb, ":ghost:%s", c07FmtInsts(g.insts))
		}
		if a := s.staleAnn[i]; a != "" {
			fmt.Fprintf(&sb, ":stale:%s", a)
		}
		sb.WriteString("|")
	}
	nd := s.cache.getNodeDevice(c07Node, false)
	if nd == nil {
		sb.WriteString("<no node device>")
		return sb.String()
	}
	nd.lock.RLock()
	defer nd.lock.RUnlock()
	c07FmtRaw(&sb, "T", nd.deviceTotal)
	c07FmtRaw(&sb, "F", nd.deviceFree)
	c07FmtRaw(&sb, "U", nd.deviceUsed)
	var recs []string
	for t, pods := range nd.allocateSet {
		for pod, drs := range pods {
			var one strings.Builder
			c07FmtRaw(&one, string(t)+":"+pod.String(), map[schedulingv1alpha1.DeviceType]deviceResources{t: drs})
			recs = append(recs, one.String())
		}
	}
	sort.Strings(recs)
	sb.WriteString(strings.Join(recs, ";"))
	var vfs []string
	for t, va := range nd.vfAllocations {
		if va == nil {
			continue
		}
		for minor, set := range va.allocatedVFs {
			vfs = append(vfs, fmt.Sprintf("%s/%d%v", t, minor, set.List()))
		}
	}
	sort.Strings(vfs)
	sb.WriteString("|VF")
	sb.WriteString(strings.Join(vfs, ";"))
	return sb.String()
}

// ---------------------------------------------------------------------------------------------------------------

func c07Cfgs(env *mc.Env) []*c07Cfg {
	g1, r1 := c07Dev{c07GPU, 1}, c07Dev{c07RDMA, 1}
	base := c07Variant{"base", c07VBase, c07Dev{}}
	g0 := c07Dev{c07GPU, 0}
	// (gpu0: the FIRST minor of the best topology scope turns unhealthy while idle - seed C07-5)
	gpuVariants := []c07Variant{base, {"gpu1-unhealthy", c07VUnhealthy, g1}, {"gpu1-removed", c07VRemoved, g1}, {"gpu1-memory-8Gi->4Gi", c07VShrunk, g1}, {"gpu0-unhealthy", c07VUnhealthy, g0}}
	// the largest part comes last: it inherits whatever time the others leave
	return []*c07Cfg{
		{name: "hist-gpu2-second-writer", gpus: 2, topo: true, scorer: "", filtered: true, shapes: []string{"W1", "F50"},
			variants: gpuVariants[:2], pods: 2, external: true, depthQ: 4, depthT: 8, share: 0.06},
		{name: "hist-gpu3-notopo", gpus: 3, topo: false, scorer: "least", filtered: false, shapes: []string{"W1", "W2", "F50", "M2x50", "B4G"},
			variants: []c07Variant{base, gpuVariants[1], gpuVariants[2], {"gpu1-zero-amounts", c07VZero, g1}}, pods: 3, depthQ: 4, depthT: 8, share: 0.2},
		{name: "hist-gpu2-rdma2-vf", gpus: 2, topo: true, rdma: 2, scorer: "least", filtered: true, shapes: []string{"R1VF", "G1R1", "G50R1", "R100", "R200"},
			variants: []c07Variant{base, {"rdma1-unhealthy", c07VUnhealthy, r1}, {"rdma1-removed", c07VRemoved, r1}, {"gpu1-unhealthy", c07VUnhealthy, g1}},
			pods:     3, depthQ: 4, depthT: 8, share: 0.24},
		// two NICs behind the PCIe switch of GPU 0, one behind that of GPU 1: more NICs per switch than switches a
		// one-GPU joint request selects
		{name: "hist-gpu2-rdma3-shared-pcie", gpus: 2, topo: true, rdma: 3, rdmaPer: 2, scorer: "least", filtered: true,
			shapes: []string{"R100", "G1R1", "G1R100", "G1R200"}, variants: []c07Variant{base, {"rdma1-unhealthy", c07VUnhealthy, r1}},
			pods: 3, depthQ: 4, depthT: 7, share: 0.12},
		// the FIRST report carries one GPU only, a later one adds the second (every index derived from the inventory - the
		// topology scope tree too - has to follow: seed C07-8)
		{name: "hist-gpu2-inventory-grows", gpus: 2, topo: true, scorer: "most", filtered: true, shapes: []string{"W1", "F50", "W2"},
			variants: []c07Variant{gpuVariants[2], base}, pods: 3, depthQ: 4, depthT: 7, share: 0.08},
		{name: "hist-gpu2", gpus: 2, topo: true, scorer: "most", filtered: true, shapes: []string{"W1", "W2", "F50", "F25", "M2x50"},
			variants: gpuVariants, pods: 3, unreserve: true, depthQ: 6, depthT: 10, share: 0.5},
	}
}

// c07ReuseCfgs: its own unit (own process, own exit status) because it widens the environment by one race.
func c07ReuseCfgs(env *mc.Env) []*c07Cfg {
	g1 := c07Dev{c07GPU, 1}
	return []*c07Cfg{{name: "reuse-gpu2", gpus: 2, topo: true, scorer: "least", filtered: true, shapes: []string{"W1", "F50"},
		variants: []c07Variant{{"base", c07VBase, c07Dev{}}, {"gpu1-unhealthy", c07VUnhealthy, g1}}, pods: 2, reuse: true, unreserve: true, depthQ: 4, depthT: 8, share: 0.9}}
}

func TestVerifC07Hist(t *testing.T) {
	env := mc.LoadEnv()
	c07Run(env, c07Cfgs(env))
}

func TestVerifC07NameReuse(t *testing.T) {
	env := mc.LoadEnv()
	c07Run(env, c07ReuseCfgs(env))
}

func c07Run(env *mc.Env, cfgs []*c07Cfg) {
	var only *regexp.Regexp
	if o := os.Getenv("VERIF_ONLY"); o != "" {
		if re, err := regexp.Compile(o); err == nil {
			for _, c := range cfgs {
				if re.MatchString(c.name) {
					only = re
				}
			}
		}
	}
	var replay struct {
		Idx []uint8 `json:"idx"`
	}
	replayPart, isReplay := env.ReplayData(&replay)
	for ci, cfg := range cfgs {
		if only != nil && !only.MatchString(cfg.name) {
			continue
		}
		if isReplay && replayPart != cfg.name {
			continue
		}
		cfg := cfg
		cfg.scorerObj = c07Scorer(cfg.scorer)
		cfg.gateObj = &c07Gate{}
		ops := c07Ops(cfg)
		res := mc.NewResult("C07", cfg.name, "bfs")
		// per-part share of what is left of the unit's wall-clock budget (time a part does not use flows to the later ones)
		rest := 0.0
		for _, c := range cfgs[ci:] {
			rest += c.share
		}
		penv := mc.LoadEnv()
		penv.Budget = time.Duration(float64(env.Budget-env.Elapsed()) * cfg.share / rest)
		if penv.Budget < time.Second {
			penv.Budget = time.Second
		}
		b := &mc.BFS{Res: res, Env: penv, New: func() mc.System { return c07New(cfg, ops, res) }, NumOps: len(ops),
			OpName: func(i int) string { return ops[i].name }, MaxDepth: env.Pick(cfg.depthQ, cfg.depthT), Repeats: 1}
		if isReplay {
			viol, key := b.ReplayOps(replay.Idx)
			fmt.Printf("REPLAY part=%s ops=%v\n final state: %s\n", cfg.name, func() []string {
				var n []string
				for _, i := range replay.Idx {
					n = append(n, ops[i].name)
				}
				return n
			}(), key)
			for _, v := range viol {
				fmt.Printf(" VIOLATION %s: %s\n", v.Key, v.What)
			}
			continue
		}
		t0 := time.Now()
		b.Run()
		res.WallS = time.Since(t0).Seconds()
		var names []string
		for _, o := range ops {
			names = append(names, o.name)
		}
		res.Rule = fmt.Sprintf("every history up to the depth over the alphabet %v on a node with %d GPU(s) (core 100, memory-ratio 100, memory 8Gi; topology=%v) and %d RDMA device(s) with 2 VFs each; "+
			"alloc+commit takes the lowest unused of %d pod names (pods are interchangeable); scorer=%q; allocate through nodeDevice.filter=%v; "+
			"a state is distinct when the three ledgers, the per-pod records, the VF sets or the reference ledger differ", names, cfg.gpus, cfg.topo, cfg.rdma, cfg.pods, cfg.scorer, cfg.filtered)
		res.Assumptions = []string{
			"pod events are the ones an informer delivers for one pod in order (bound-update after Reserve, duplicate add, same-allocation update, update to phase Succeeded, delete carrying the bound annotation, delete after termination); Unreserve carries the Reserve result",
			"inventory events are Device CR updates to the listed variants, CR delete and re-create; a device's amounts are lowered under running pods only by these events, and the in-use<=total clause is suspended for exactly such a device until its last holder left",
			"one node; no reservations, preemption, NUMA masks, GPU partitions or hints other than the VF selector / joint allocation of the listed shapes",
		}
		if cfg.external {
			res.Assumptions = append(res.Assumptions, "this part additionally lets a second writer replace the device-allocated annotation of a bound pod by another allocation that fits: as an update old->new (judged like every other event) and as an add event for an already recorded pod (beyond the property's environment: only counted, see counters/diagnostics); the reference ledger follows the latest delivered pod object")
		}
		if cfg.reuse {
			res.Assumptions = append(res.Assumptions, "this part additionally lets a pod name be re-created (new UID) and scheduled before the old incarnation's delete event has been delivered to the device cache's informer listener (every listener of a shared informer has its own queue, so the scheduling queue can be ahead); the old incarnation counts as live until that delete is delivered, and the new incarnation's informer events stay behind it")
		}
		if res.Bounds == nil {
			res.Bounds = map[string]any{}
		}
		res.Bounds["pods"] = cfg.pods
		res.Bounds["map_order_repeats"] = 1
		c07Vacuity(res, cfg)
		env.Emit(res)
	}
}

// c07Vacuity turns a never-exercised clause into a diagnostic that is visible in the evidence (and fails loudly in
// the log) instead of a silent pass.
func c07Vacuity(res *mc.Result, cfg *c07Cfg) {
	need := []string{"alloc_successes", "alloc_failures_justified", "states_with_devices_in_use", "states_with_shared_device",
		"overcommit_clause_checked_cells", "states_with_device_lowered_under_its_holders", "duplicate_adds", "free_clamped_at_zero"}
	if cfg.rdma > 0 {
		need = append(need, "alloc_vf_granted", "states_with_vfs_held")
	}
	for _, n := range need {
		if res.Counters[n] == 0 {
			res.Diag("VACUOUS: counter " + n + " stayed 0 in part " + cfg.name)
			fmt.Printf("C07 WARNING: counter %s stayed 0 in part %s\n", n, cfg.name)
		}
	}
}
