package extension

// C19 part "codec" (exploration): Get(Set(x)) == x for the three annotation codecs the scheduler uses to persist
// allocations at bind time -- ResourceStatus (CPU set string + per-NUMA amounts), DeviceAllocations, ReservationAllocated
// -- over small value alphabets, on Pod and Reservation objects, on objects that already carry an older value (Set must
// fully replace it) and on objects that carry the other two annotations (Set of one must leave the others readable).
//
// "Exactly the value that was written" is judged on the decoded value: quantities by Cmp (the JSON form of a Quantity
// is canonicalised: "0.5" is written "500m"), resource lists by key set and Cmp (a zero amount is a key and must
// survive), lists in order, strings byte for byte. For the CPU set the written thing is a STRING (Linux CPU list); the
// string must come back byte for byte, and -- because the scheduler writes cpuset.String() and reads cpuset.Parse() --
// the set of CPU ids parsed from the string that comes back must be the set the harness rendered into it (unsorted /
// duplicated / overlapping renderings included). A canonical re-rendering that differs from an odd written string is
// pure formatting and only counted. nil versus empty (resource list, VF list, allocations map) carries the same
// information and is only counted.

import (
	"fmt"
	"sort"
	"strings"
	"testing"
	"time"

	corev1 "k8s.io/api/core/v1"
	"k8s.io/apimachinery/pkg/api/resource"
	metav1 "k8s.io/apimachinery/pkg/apis/meta/v1"
	"k8s.io/apimachinery/pkg/types"

	schedulingv1alpha1 "github.com/koordinator-sh/koordinator/apis/scheduling/v1alpha1"
	"github.com/koordinator-sh/koordinator/pkg/util/cpuset"
	"github.com/koordinator-sh/koordinator/pkg/zzverif/mc"
)

func c19Obj(kind int) metav1.Object {
	if kind == 0 {
		return &corev1.Pod{ObjectMeta: metav1.ObjectMeta{Name: "p", Namespace: "default", UID: "uid-p"}}
	}
	return &schedulingv1alpha1.Reservation{ObjectMeta: metav1.ObjectMeta{Name: "r", UID: "uid-r"}}
}

func c19RL(kv ...string) corev1.ResourceList {
	rl := corev1.ResourceList{}
	for i := 0; i+1 < len(kv); i += 2 {
		rl[corev1.ResourceName(kv[i])] = resource.MustParse(kv[i+1])
	}
	return rl
}

// c19CmpRL: "" = equal; kind tells semantic difference ("diff") or nil-vs-empty ("nilempty").
func c19CmpRL(want, got corev1.ResourceList) (kind, what string) {
	if len(want) != len(got) {
		return "diff", fmt.Sprintf("resource list has %d entries, written %d (%v vs %v)", len(got), len(want), got, want)
	}
	for name, w := range want {
		g, ok := got[name]
		if !ok {
			return "diff", fmt.Sprintf("resource %s missing (written %s)", name, w.String())
		}
		if w.Cmp(g) != 0 {
			return "diff", fmt.Sprintf("resource %s = %s, written %s", name, g.String(), w.String())
		}
	}
	if (want == nil) != (got == nil) {
		return "nilempty", ""
	}
	return "", ""
}

// The alphabets are shared by all cases and workers: the code under check only ever sees deep copies, the comparison
// uses the alphabet value (a Set that edits its argument must not be able to edit the expectation with it).
func c19CopyStatus(s *ResourceStatus) *ResourceStatus {
	c := &ResourceStatus{CPUSet: s.CPUSet}
	if s.NUMANodeResources != nil {
		c.NUMANodeResources = make([]NUMANodeResource, len(s.NUMANodeResources))
		for i, r := range s.NUMANodeResources {
			c.NUMANodeResources[i] = NUMANodeResource{Node: r.Node, Resources: r.Resources.DeepCopy()}
		}
	}
	return c
}

func c19CopyDevices(a DeviceAllocations) DeviceAllocations {
	if a == nil {
		return nil
	}
	c := DeviceAllocations{}
	for t, l := range a {
		if l == nil {
			c[t] = nil
			continue
		}
		nl := make([]*DeviceAllocation, len(l))
		for i, d := range l {
			nd := &DeviceAllocation{Minor: d.Minor, ID: d.ID, Resources: d.Resources.DeepCopy()}
			if d.Extension != nil {
				nd.Extension = &DeviceAllocationExtension{GPUSharedResourceTemplate: d.Extension.GPUSharedResourceTemplate}
				if d.Extension.VirtualFunctions != nil {
					nd.Extension.VirtualFunctions = append([]VirtualFunction{}, d.Extension.VirtualFunctions...)
				}
			}
			nl[i] = nd
		}
		c[t] = nl
	}
	return c
}

// CPU set strings --------------------------------------------------------------------------------------------------------

type c19CPUStr struct {
	s    string
	ids  []int // the set rendered into s (sorted, distinct), kept by the harness
	kind string
}

func c19Canon(ids []int) string { // harness-side canonical rendering (independent of cpuset.String)
	var parts []string
	for i := 0; i < len(ids); {
		j := i
		for j+1 < len(ids) && ids[j+1] == ids[j]+1 {
			j++
		}
		if j == i {
			parts = append(parts, fmt.Sprint(ids[i]))
		} else {
			parts = append(parts, fmt.Sprintf("%d-%d", ids[i], ids[j]))
		}
		i = j + 1
	}
	return strings.Join(parts, ",")
}

func c19CPUStrings(thorough bool) []c19CPUStr {
	universe := []int{0, 1, 2, 3, 5, 8, 9}
	if thorough {
		universe = []int{0, 1, 2, 3, 5, 8, 9, 64}
	}
	var out []c19CPUStr
	for m := 0; m < 1<<uint(len(universe)); m++ {
		var ids []int
		for i, id := range universe {
			if m&(1<<uint(i)) != 0 {
				ids = append(ids, id)
			}
		}
		// what PreBind writes: the code's own rendering of the set
		out = append(out, c19CPUStr{s: cpuset.NewCPUSet(ids...).String(), ids: ids, kind: "written-by-cpuset.String"})
		if len(ids) < 2 {
			continue
		}
		// other writers (users designating an allocation, other components): odd renderings of the same set
		singles := make([]string, len(ids))
		for i, id := range ids {
			singles[i] = fmt.Sprint(id)
		}
		rev := make([]string, len(ids))
		for i := range singles {
			rev[len(ids)-1-i] = singles[i]
		}
		out = append(out, c19CPUStr{s: strings.Join(rev, ","), ids: ids, kind: "unsorted-descending"})
		if c := c19Canon(ids); strings.Contains(c, "-") {
			out = append(out, c19CPUStr{s: strings.Join(singles, ","), ids: ids, kind: "singles-instead-of-ranges"})
			parts := strings.Split(c, ",")
			for i, j := 0, len(parts)-1; i < j; i, j = i+1, j-1 {
				parts[i], parts[j] = parts[j], parts[i]
			}
			if len(parts) > 1 {
				out = append(out, c19CPUStr{s: strings.Join(parts, ","), ids: ids, kind: "ranges-unsorted"})
			}
			out = append(out, c19CPUStr{s: c + "," + singles[0], ids: ids, kind: "duplicate-element"})
		}
	}
	for _, big := range [][]int{{127}, {0, 255}, {1022, 1023}, {96, 97, 98, 99, 100, 101, 102, 103, 200}} {
		out = append(out, c19CPUStr{s: cpuset.NewCPUSet(big...).String(), ids: big, kind: "written-by-cpuset.String"})
	}
	return out
}

// ResourceStatus ---------------------------------------------------------------------------------------------------------

func c19NUMALists(thorough bool) [][]NUMANodeResource {
	rls := []corev1.ResourceList{
		nil,
		{},
		c19RL("cpu", "0"),
		c19RL("cpu", "2"),
		c19RL("cpu", "1500m"),
		c19RL("cpu", "4", "memory", "3Gi"),
		c19RL("cpu", "0", "memory", "0"),
		c19RL("cpu", "6", "memory", "9Gi", "hugepages-2Mi", "0", string(ResourceGPUCore), "100"),
	}
	maxLen := 2
	if thorough {
		maxLen = 3
	}
	nodes := []int32{0, 1, 3}
	out := [][]NUMANodeResource{nil, {}}
	// values only used in one-entry lists: non-canonical / extreme quantities
	for _, rl := range []corev1.ResourceList{c19RL("cpu", "0.5"), c19RL("memory", "1e3", "cpu", "100m"), c19RL("cpu", "9223372036854775807"), c19RL("memory", "123456789"), c19RL("cpu", "-1")} {
		out = append(out, []NUMANodeResource{{Node: 2, Resources: rl}})
	}
	var rec func(cur []NUMANodeResource, used int)
	rec = func(cur []NUMANodeResource, used int) {
		if len(cur) > 0 {
			out = append(out, append([]NUMANodeResource(nil), cur...))
		}
		if len(cur) == maxLen {
			return
		}
		for ni, node := range nodes {
			if used&(1<<uint(ni)) != 0 {
				continue
			}
			for _, rl := range rls {
				rec(append(cur, NUMANodeResource{Node: node, Resources: rl}), used|1<<uint(ni))
			}
		}
	}
	rec(nil, 0)
	return out
}

func c19CmpStatus(want, got *ResourceStatus, l *mc.Local) (key, what string) {
	if got == nil {
		return "resource-status|nil", "GetResourceStatus returned nil"
	}
	if got.CPUSet != want.CPUSet {
		return "resource-status|cpuset-string-changed", fmt.Sprintf("cpuset string %q, written %q", got.CPUSet, want.CPUSet)
	}
	if len(got.NUMANodeResources) != len(want.NUMANodeResources) {
		return "resource-status|numa-entry-count", fmt.Sprintf("%d NUMA entries, written %d", len(got.NUMANodeResources), len(want.NUMANodeResources))
	}
	if (got.NUMANodeResources == nil) != (want.NUMANodeResources == nil) {
		l.Count("diag_nil_vs_empty_numa_list", 1)
	}
	for i := range want.NUMANodeResources {
		w, g := want.NUMANodeResources[i], got.NUMANodeResources[i]
		if w.Node != g.Node {
			return "resource-status|numa-node-id", fmt.Sprintf("entry %d is node %d, written %d", i, g.Node, w.Node)
		}
		switch kind, what := c19CmpRL(w.Resources, g.Resources); kind {
		case "diff":
			return "resource-status|numa-amounts", fmt.Sprintf("entry %d (node %d): %s", i, w.Node, what)
		case "nilempty":
			l.Count("diag_nil_vs_empty_resource_list", 1)
		}
	}
	return "", ""
}

func c19StatusString(s *ResourceStatus) string {
	var sb strings.Builder
	fmt.Fprintf(&sb, "cpuset=%q numa=[", s.CPUSet)
	for _, r := range s.NUMANodeResources {
		names := make([]string, 0, len(r.Resources))
		for n, q := range r.Resources {
			names = append(names, string(n)+"="+q.String())
		}
		sort.Strings(names)
		fmt.Fprintf(&sb, "{%d %v nil=%v}", r.Node, names, r.Resources == nil)
	}
	return sb.String() + "]"
}

func c19CodecStatus(env c19Env) {
	res := mc.NewResult("C19", "codec-resource-status", "enumeration")
	cpus := c19CPUStrings(env.Thorough())
	lists := c19NUMALists(env.Thorough())
	olds := []*ResourceStatus{
		nil, // no older value
		{CPUSet: "0-7,16", NUMANodeResources: []NUMANodeResource{{Node: 2, Resources: c19RL("cpu", "8", "memory", "1Gi")}, {Node: 0, Resources: c19RL("cpu", "1")}}},
		{NUMANodeResources: []NUMANodeResource{{Node: 1, Resources: c19RL("nvidia.com/gpu", "1")}}},
	}
	// object kind and older value do not interact with the written value: four of the six combinations
	variants := [][2]int{{0, 0}, {1, 1}, {0, 2}, {1, 0}}
	rx := mc.Radix{Dims: []int{len(cpus), len(lists), len(variants)}}
	res.Rule = "every CPU set string (every subset of a small id universe rendered by cpuset.String, plus unsorted / single-element / reversed-range / duplicated renderings, plus large ids) x every ordered list of up to two (quick) / three (thorough) NUMA entries over nodes {0,1,3} x resource-list alphabet (nil, empty, zero amounts, fractional, several resources) x {Pod without older value, Reservation without, Reservation over older value 1, Pod over older value 2}; distinct = distinct written values"
	res.Bounds = map[string]any{"cpuset_strings": len(cpus), "numa_lists": len(lists), "object_kind_and_older_value_variants": len(variants)}
	ds := mc.NewDistinctSet()
	done, complete := env.ParallelRangeL(res, rx.Size(), func(l *mc.Local, i int64) {
		d := rx.Decode(i, make([]int, 0, 4))
		d = append(d[:2], variants[d[2]][0], variants[d[2]][1])
		l.Evals++
		cs, list, old := cpus[d[0]], lists[d[1]], olds[d[3]]
		obj := c19Obj(d[2])
		obj.SetAnnotations(map[string]string{"unrelated": "kept"})
		want := &ResourceStatus{CPUSet: cs.s, NUMANodeResources: list}
		fail := func(key, what string) {
			res.Violate(mc.Violation{Key: "C19|codec|" + key, What: fmt.Sprintf("%s -- written %s on %T (older value: %v, cpuset rendering: %s)", what, c19StatusString(want), obj, old != nil, cs.kind),
				Replay: map[string]any{"cpuset": cs.s, "numa": c19StatusString(want), "kind": d[2], "old": d[3]}})
		}
		if old != nil {
			if err := SetResourceStatus(obj, c19CopyStatus(old)); err != nil {
				fail("resource-status|set-error", err.Error())
				return
			}
			l.Count("set_over_an_older_value", 1)
		}
		if err := SetResourceStatus(obj, c19CopyStatus(want)); err != nil {
			fail("resource-status|set-error", err.Error())
			return
		}
		got, err := GetResourceStatus(obj.GetAnnotations())
		if err != nil {
			fail("resource-status|get-error", err.Error())
			return
		}
		if key, what := c19CmpStatus(want, got, l); key != "" {
			fail(key, what)
			return
		}
		if obj.GetAnnotations()["unrelated"] != "kept" {
			fail("resource-status|unrelated-annotation-lost", "an unrelated annotation disappeared")
		}
		// the CPU ids: what the scheduler reads after a restart is cpuset.Parse of the string that came back
		parsed, err := cpuset.Parse(got.CPUSet)
		if err != nil {
			fail("resource-status|cpuset-unparsable", err.Error())
			return
		}
		if fmt.Sprint(parsed.ToSlice()) != fmt.Sprint(append([]int{}, cs.ids...)) {
			fail("resource-status|cpuset-ids-differ|"+cs.kind, fmt.Sprintf("the CPU ids read back are %v, rendered were %v", parsed.ToSlice(), cs.ids))
			return
		}
		l.Count("cpuset_"+cs.kind, 1)
		if parsed.String() != cs.s {
			l.Count("diag_canonical_rerendering_differs_from_written_string(formatting_only)", 1)
		}
		if len(cs.ids) == 0 {
			l.Count("empty_cpuset", 1)
		}
		if strings.Contains(cs.s, ",") && cs.kind == "written-by-cpuset.String" {
			l.Count("non_contiguous_cpuset", 1)
		}
		zero := false
		for _, r := range list {
			for _, q := range r.Resources {
				if q.IsZero() {
					zero = true
				}
			}
		}
		if zero {
			l.Count("lists_with_a_zero_amount", 1)
		}
		if len(list) > 1 {
			l.Count("lists_with_several_numa_nodes", 1)
		}
		if d[2] == 0 && d[3] == 0 {
			ds.Add(c19StatusString(want))
		}
	})
	res.Distinct, res.Traces, res.Exhaustive = ds.Len(), res.Evaluations, complete
	if !complete {
		res.Capped = fmt.Sprintf("time budget hit after %d of %d", done, rx.Size())
	}
	env.Emit(res)
}

// DeviceAllocations ----------------------------------------------------------------------------------------------------------

func c19DeviceAlphabet(level int) []*DeviceAllocation {
	// level 0: small (for the multi-type product), 1: full
	rls := []corev1.ResourceList{
		c19RL(string(ResourceGPUCore), "100", string(ResourceGPUMemoryRatio), "100", string(ResourceGPUMemory), "16Gi"),
		c19RL(string(ResourceGPUCore), "0", string(ResourceGPUMemoryRatio), "0"),
		c19RL(string(ResourceRDMA), "1"),
	}
	exts := []*DeviceAllocationExtension{
		nil,
		{VirtualFunctions: []VirtualFunction{{Minor: 0, BusID: "0000:5e:00.2"}, {Minor: 1, BusID: "0000:5e:00.3"}}},
		{GPUSharedResourceTemplate: "tpl-a"},
	}
	minors := []int32{0, 7}
	ids := []string{"", "0000:10:00.0"}
	if level > 0 {
		rls = append(rls, nil, corev1.ResourceList{}, c19RL(string(ResourceFPGA), "100"), c19RL(string(ResourceGPUCore), "50", string(ResourceGPUMemory), "8Gi", string(ResourceGPUMemoryRatio), "0"))
		exts = append(exts, &DeviceAllocationExtension{}, &DeviceAllocationExtension{VirtualFunctions: []VirtualFunction{}},
			&DeviceAllocationExtension{VirtualFunctions: []VirtualFunction{{Minor: 3}}},
			&DeviceAllocationExtension{VirtualFunctions: []VirtualFunction{{BusID: "0000:5e:00.4"}}, GPUSharedResourceTemplate: "tpl-b"})
		minors = append(minors, 1, -1)
	}
	var out []*DeviceAllocation
	for _, m := range minors {
		for _, rl := range rls {
			for _, id := range ids {
				for _, e := range exts {
					out = append(out, &DeviceAllocation{Minor: m, Resources: rl, ID: id, Extension: e})
				}
			}
		}
	}
	return out
}

func c19DeviceLists(alpha []*DeviceAllocation, maxLen int, withNil bool) [][]*DeviceAllocation {
	out := [][]*DeviceAllocation{{}}
	if withNil {
		out = append(out, nil)
	}
	for _, a := range alpha {
		out = append(out, []*DeviceAllocation{a})
	}
	if maxLen >= 2 {
		for _, a := range alpha {
			for _, b := range alpha {
				out = append(out, []*DeviceAllocation{a, b})
			}
		}
	}
	return out
}

func c19CmpDevices(want, got DeviceAllocations, l *mc.Local) (key, what string) {
	if len(want) != len(got) {
		return "device-allocations|device-types", fmt.Sprintf("%d device types, written %d", len(got), len(want))
	}
	if (want == nil) != (got == nil) {
		l.Count("diag_nil_vs_empty_allocations", 1)
	}
	for typ, wl := range want {
		gl, ok := got[typ]
		if !ok {
			return "device-allocations|device-types", fmt.Sprintf("device type %s missing", typ)
		}
		if len(wl) != len(gl) {
			return "device-allocations|device-count", fmt.Sprintf("%s: %d devices, written %d", typ, len(gl), len(wl))
		}
		for i := range wl {
			w, g := wl[i], gl[i]
			if g == nil {
				return "device-allocations|device-nil", fmt.Sprintf("%s[%d] is nil", typ, i)
			}
			if w.Minor != g.Minor {
				return "device-allocations|minor", fmt.Sprintf("%s[%d] minor %d, written %d", typ, i, g.Minor, w.Minor)
			}
			if w.ID != g.ID {
				return "device-allocations|id", fmt.Sprintf("%s[%d] id %q, written %q", typ, i, g.ID, w.ID)
			}
			switch kind, what := c19CmpRL(w.Resources, g.Resources); kind {
			case "diff":
				return "device-allocations|resources", fmt.Sprintf("%s[%d]: %s", typ, i, what)
			case "nilempty":
				l.Count("diag_nil_vs_empty_resource_list", 1)
			}
			we, ge := w.Extension, g.Extension
			if we == nil || ge == nil {
				empty := func(e *DeviceAllocationExtension) bool {
					return e == nil || (len(e.VirtualFunctions) == 0 && e.GPUSharedResourceTemplate == "")
				}
				if !empty(we) || !empty(ge) {
					return "device-allocations|extension", fmt.Sprintf("%s[%d] extension %+v, written %+v", typ, i, ge, we)
				}
				if (we == nil) != (ge == nil) {
					l.Count("diag_nil_vs_empty_extension", 1)
				}
				continue
			}
			if we.GPUSharedResourceTemplate != ge.GPUSharedResourceTemplate {
				return "device-allocations|extension-template", fmt.Sprintf("%s[%d] template %q, written %q", typ, i, ge.GPUSharedResourceTemplate, we.GPUSharedResourceTemplate)
			}
			if len(we.VirtualFunctions) != len(ge.VirtualFunctions) {
				return "device-allocations|extension-vfs", fmt.Sprintf("%s[%d] %d VFs, written %d", typ, i, len(ge.VirtualFunctions), len(we.VirtualFunctions))
			}
			for k := range we.VirtualFunctions {
				if we.VirtualFunctions[k] != ge.VirtualFunctions[k] {
					return "device-allocations|extension-vfs", fmt.Sprintf("%s[%d] VF %d is %+v, written %+v", typ, i, k, ge.VirtualFunctions[k], we.VirtualFunctions[k])
				}
			}
			if len(we.VirtualFunctions) > 0 {
				l.Count("devices_with_vf_extension", 1)
			}
		}
	}
	return "", ""
}

func c19DevicesString(a DeviceAllocations) string {
	types := make([]string, 0, len(a))
	for t := range a {
		types = append(types, string(t))
	}
	sort.Strings(types)
	var sb strings.Builder
	fmt.Fprintf(&sb, "nil=%v ", a == nil)
	for _, t := range types {
		fmt.Fprintf(&sb, "%s:[", t)
		for _, d := range a[schedulingv1alpha1.DeviceType(t)] {
			names := make([]string, 0, len(d.Resources))
			for n, q := range d.Resources {
				names = append(names, string(n)+"="+q.String())
			}
			sort.Strings(names)
			fmt.Fprintf(&sb, "{minor=%d id=%q res=%v nil=%v ext=", d.Minor, d.ID, names, d.Resources == nil)
			if d.Extension == nil {
				sb.WriteString("nil}")
			} else {
				fmt.Fprintf(&sb, "%+v}", *d.Extension)
			}
		}
		sb.WriteString("] ")
	}
	return sb.String()
}

func c19CodecDevices(main *mc.Env) {
	env := c19Share(main, 3)
	full := c19DeviceAlphabet(1)
	small := c19DeviceAlphabet(0)
	one := c19DeviceLists(full, 2, true)
	per := c19DeviceLists(small, 1, false)
	for i := 0; i < len(small); i += env.Pick(12, 6) { // plus two-device lists over a stride selection
		for j := 0; j < len(small); j += env.Pick(12, 6) {
			per = append(per, []*DeviceAllocation{small[i], small[(j+5)%len(small)]})
		}
	}
	types := []schedulingv1alpha1.DeviceType{schedulingv1alpha1.GPU, schedulingv1alpha1.RDMA, schedulingv1alpha1.FPGA}
	olds := []DeviceAllocations{
		nil,
		{schedulingv1alpha1.GPU: {{Minor: 5, Resources: c19RL(string(ResourceGPUCore), "30")}}, "xpu": {{Minor: 9, ID: "old", Extension: &DeviceAllocationExtension{GPUSharedResourceTemplate: "old-tpl", VirtualFunctions: []VirtualFunction{{Minor: 4, BusID: "old-bus"}}}}}},
	}
	run := func(env c19Env, res *mc.Result, n int64, build func(i int64) (DeviceAllocations, int, int), ds *mc.DistinctSet) {
		done, complete := env.ParallelRangeL(res, n, func(l *mc.Local, i int64) {
			want, kind, oldI := build(i)
			l.Evals++
			obj := c19Obj(kind)
			obj.SetAnnotations(map[string]string{"unrelated": "kept"})
			fail := func(key, what string) {
				res.Violate(mc.Violation{Key: "C19|codec|" + key, What: fmt.Sprintf("%s -- written %s on %T (older value: %v)", what, c19DevicesString(want), obj, oldI != 0),
					Replay: map[string]any{"written": c19DevicesString(want), "kind": kind, "old": oldI}})
			}
			if oldI != 0 {
				if err := SetDeviceAllocations(obj, c19CopyDevices(olds[oldI])); err != nil {
					fail("device-allocations|set-error", err.Error())
					return
				}
				l.Count("set_over_an_older_value", 1)
			}
			if err := SetDeviceAllocations(obj, c19CopyDevices(want)); err != nil {
				fail("device-allocations|set-error", err.Error())
				return
			}
			got, err := GetDeviceAllocations(obj.GetAnnotations())
			if err != nil {
				fail("device-allocations|get-error", err.Error())
				return
			}
			if key, what := c19CmpDevices(want, got, l); key != "" {
				fail(key, what)
				return
			}
			if obj.GetAnnotations()["unrelated"] != "kept" {
				fail("device-allocations|unrelated-annotation-lost", "an unrelated annotation disappeared")
			}
			devs, zero := 0, false
			for _, lst := range want {
				devs += len(lst)
				for _, d := range lst {
					for _, q := range d.Resources {
						if q.IsZero() {
							zero = true
						}
					}
				}
			}
			if devs > 1 {
				l.Count("multi_device_values", 1)
			}
			if len(want) > 1 {
				l.Count("values_with_several_device_types", 1)
			}
			if zero {
				l.Count("values_with_a_zero_amount", 1)
			}
			if kind == 0 && oldI == 0 {
				ds.Add(c19DevicesString(want))
			}
		})
		res.Traces, res.Exhaustive = res.Evaluations, complete
		res.Distinct = ds.Len()
		if !complete {
			res.Capped = fmt.Sprintf("time budget hit after %d of %d", done, n)
		}
		env.Emit(res)
	}
	// (a) one device type, the full device alphabet, lists of up to two devices
	resA := mc.NewResult("C19", "codec-device-allocations-one-type", "enumeration")
	resA.Rule = "one device type (gpu|rdma by parity) x every list of 0..2 devices over the full device alphabet (minor x resources incl. nil/empty/zero amounts x id x extension incl. nil/empty/VFs/template) x {Pod, Reservation} x {no older value, an older value with other types}; distinct = distinct written values"
	resA.Bounds = map[string]any{"device_alphabet": len(full), "lists": len(one)}
	rxA := mc.Radix{Dims: []int{len(one), 2, len(olds)}}
	run(env, resA, rxA.Size(), func(i int64) (DeviceAllocations, int, int) {
		d := rxA.Decode(i, make([]int, 0, 3))
		typ := types[d[0]%2]
		return DeviceAllocations{typ: one[d[0]]}, d[1], d[2]
	}, mc.NewDistinctSet())
	// (b) up to three device types
	resB := mc.NewResult("C19", "codec-device-allocations-multi-type", "enumeration")
	resB.Rule = "for each of gpu, rdma, fpga: absent or a list of devices over the reduced device alphabet x {Pod, Reservation} x {no older value, an older value}; plus the nil and the empty map; distinct = distinct written values"
	resB.Bounds = map[string]any{"device_alphabet": len(small), "lists_per_type": len(per)}
	k := len(per) + 1
	rxB := mc.Radix{Dims: []int{k, k, k, 2, len(olds)}}
	run(c19Share(main, 2), resB, rxB.Size(), func(i int64) (DeviceAllocations, int, int) {
		d := rxB.Decode(i, make([]int, 0, 5))
		var want DeviceAllocations
		if !(d[0] == 0 && d[1] == 0 && d[2] == 0 && d[3] == 1) { // all absent: nil map on the Reservation, empty map on the Pod
			want = DeviceAllocations{}
		}
		for t := 0; t < 3; t++ {
			if d[t] > 0 {
				want[types[t]] = per[d[t]-1]
			}
		}
		return want, d[3], d[4]
	}, mc.NewDistinctSet())
}

// ReservationAllocated ---------------------------------------------------------------------------------------------------------

func c19CodecReservation(env c19Env) {
	res := mc.NewResult("C19", "codec-reservation-allocated", "enumeration")
	names := []string{"", "r1", "resv-with-dash.and.dots", "预留-α", `quote"back\slash`, "<html>&amp;", "line\nbreak\ttab", strings.Repeat("n", 253)}
	uids := []types.UID{"", "uid-1", "6f0d1e5c-3c3a-4b7e-9d51-0d3f4c1c2a77", `u"id`, "</script>", "  "}
	rx := mc.Radix{Dims: []int{len(names), len(uids), 2, len(names), 2}}
	res.Rule = "reservation name x uid alphabets (empty, plain, punctuation, non-ASCII, JSON/HTML special characters, control characters, long) x {reservation given as Reservation, as reserve Pod} x older value (every name, with the first or the last uid) already on the pod; distinct = distinct written values"
	res.Bounds = map[string]any{"names": len(names), "uids": len(uids)}
	ds := mc.NewDistinctSet()
	done, complete := env.ParallelRangeL(res, rx.Size(), func(l *mc.Local, i int64) {
		d := rx.Decode(i, make([]int, 0, 5))
		l.Evals++
		name, uid := names[d[0]], uids[d[1]]
		var r metav1.Object
		if d[2] == 0 {
			r = &schedulingv1alpha1.Reservation{ObjectMeta: metav1.ObjectMeta{Name: name, UID: uid}}
		} else {
			r = &corev1.Pod{ObjectMeta: metav1.ObjectMeta{Name: name, UID: uid, Namespace: "default"}}
		}
		pod := &corev1.Pod{ObjectMeta: metav1.ObjectMeta{Name: "p", Namespace: "default"}}
		fail := func(key, what string) {
			res.Violate(mc.Violation{Key: "C19|codec|" + key, What: fmt.Sprintf("%s -- written name=%q uid=%q", what, name, uid), Replay: map[string]any{"name": name, "uid": uid}})
		}
		if d[3] > 0 || d[4] > 0 {
			old := &schedulingv1alpha1.Reservation{ObjectMeta: metav1.ObjectMeta{Name: names[d[3]], UID: uids[d[4]*(len(uids)-1)]}}
			SetReservationAllocated(pod, old)
			l.Count("set_over_an_older_value", 1)
		} else {
			pod.Annotations = map[string]string{"unrelated": "kept"}
		}
		SetReservationAllocated(pod, r)
		got, err := GetReservationAllocated(pod)
		if err != nil {
			fail("reservation-allocated|get-error", err.Error())
			return
		}
		if got == nil {
			fail("reservation-allocated|nil", "GetReservationAllocated returned nil after Set")
			return
		}
		if got.Name != name || got.UID != uid || got.GetName() != name || got.GetUID() != uid {
			fail("reservation-allocated|value-differs", fmt.Sprintf("read back name=%q uid=%q", got.Name, got.UID))
			return
		}
		if d[3] == 0 && d[4] == 0 && pod.Annotations["unrelated"] != "kept" {
			fail("reservation-allocated|unrelated-annotation-lost", "an unrelated annotation disappeared")
		}
		if name == "" || uid == "" {
			l.Count("values_with_an_empty_field", 1)
		}
		if d[2] == 0 && d[3] == 0 && d[4] == 0 {
			ds.Add(name + "\x00" + string(uid))
		}
	})
	res.Distinct, res.Traces, res.Exhaustive = ds.Len(), res.Evaluations, complete
	if !complete {
		res.Capped = fmt.Sprintf("time budget hit after %d of %d", done, rx.Size())
	}
	env.Emit(res)
}

// coexistence ----------------------------------------------------------------------------------------------------------------

// c19CodecCoexist: the three plugins write their annotation onto the same object in the same binding cycle; whatever the
// order, each value must still read back afterwards.
func c19CodecCoexist(env c19Env) {
	res := mc.NewResult("C19", "codec-coexistence", "enumeration")
	cpus := c19CPUStrings(false)
	lists := c19NUMALists(false)
	var statuses []*ResourceStatus
	for i := 0; i < len(cpus); i += 37 {
		statuses = append(statuses, &ResourceStatus{CPUSet: cpus[i].s, NUMANodeResources: lists[(i*13)%len(lists)]})
	}
	devAlpha := c19DeviceAlphabet(1)
	var devs []DeviceAllocations
	for i := 0; i < len(devAlpha); i += 29 {
		devs = append(devs, DeviceAllocations{schedulingv1alpha1.GPU: {devAlpha[i]}, schedulingv1alpha1.RDMA: {devAlpha[(i*7+3)%len(devAlpha)], devAlpha[(i*11+5)%len(devAlpha)]}})
	}
	resvs := []*schedulingv1alpha1.Reservation{
		{ObjectMeta: metav1.ObjectMeta{Name: "r1", UID: "uid-1"}},
		{ObjectMeta: metav1.ObjectMeta{Name: `q"r`, UID: ""}},
	}
	var orders [][]int
	mc.Permutations(3, func(p []int) { orders = append(orders, append([]int{}, p...)) })
	rx := mc.Radix{Dims: []int{len(statuses), len(devs), len(resvs), len(orders)}}
	res.Rule = "a fixed stride selection of ResourceStatus values x DeviceAllocations values x ReservationAllocated values x every order of the three Set calls on one pod; distinct = distinct (values, order)"
	res.Bounds = map[string]any{"statuses": len(statuses), "device_values": len(devs), "reservations": len(resvs), "orders": len(orders)}
	done, complete := env.ParallelRangeL(res, rx.Size(), func(l *mc.Local, i int64) {
		d := rx.Decode(i, make([]int, 0, 4))
		l.Evals++
		st, dv, rv := statuses[d[0]], devs[d[1]], resvs[d[2]]
		pod := &corev1.Pod{ObjectMeta: metav1.ObjectMeta{Name: "p", Namespace: "default"}}
		for _, which := range orders[d[3]] {
			switch which {
			case 0:
				_ = SetResourceStatus(pod, c19CopyStatus(st))
			case 1:
				_ = SetDeviceAllocations(pod, c19CopyDevices(dv))
			case 2:
				SetReservationAllocated(pod, rv)
			}
		}
		fail := func(key, what string) {
			res.Violate(mc.Violation{Key: "C19|codec|coexistence|" + key, What: fmt.Sprintf("%s -- Set order %v", what, orders[d[3]]), Replay: map[string]any{"case": d}})
		}
		gs, err := GetResourceStatus(pod.Annotations)
		if err != nil {
			fail("resource-status", err.Error())
		} else if key, what := c19CmpStatus(st, gs, l); key != "" {
			fail("resource-status", what)
		}
		gd, err := GetDeviceAllocations(pod.Annotations)
		if err != nil {
			fail("device-allocations", err.Error())
		} else if key, what := c19CmpDevices(dv, gd, l); key != "" {
			fail("device-allocations", what)
		}
		gr, err := GetReservationAllocated(pod)
		if err != nil || gr == nil || gr.Name != rv.Name || gr.UID != rv.UID {
			fail("reservation-allocated", fmt.Sprintf("read back %+v err %v, written %s/%s", gr, err, rv.Name, rv.UID))
		}
		l.Count("objects_carrying_all_three_annotations", 1)
	})
	res.Distinct, res.Traces, res.Exhaustive = res.Evaluations, res.Evaluations, complete
	if !complete {
		res.Capped = fmt.Sprintf("time budget hit after %d of %d", done, rx.Size())
	}
	env.Emit(res)
}

// c19Share gives the next of n remaining parts an equal share of what is left of the time budget (a cap in one part
// must not starve the following ones). Results are emitted through the one process-wide env.
type c19Env struct {
	*mc.Env
	main *mc.Env
}

func (e c19Env) Emit(r *mc.Result) { e.main.Emit(r) }

func c19Share(env *mc.Env, remaining int) c19Env {
	sub := mc.LoadEnv()
	sub.Budget = (env.Budget - env.Elapsed()) / time.Duration(remaining)
	return c19Env{Env: sub, main: env}
}

func TestVerifC19Codec(t *testing.T) {
	env := mc.LoadEnv()
	c19CodecReservation(c19Share(env, 5))
	c19CodecCoexist(c19Share(env, 4))
	c19CodecDevices(env) // two parts
	c19CodecStatus(c19Share(env, 1))
}
